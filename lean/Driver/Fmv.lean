/-
  Family `fmv` (C20): parse_statement_text on generated statement texts vs `Acb.Fmv`.
-/
import Driver.Proto
import AcbModel.Broker.Fmv
import AcbModel.Lemmas.Fmv
namespace Driver
open Acb Acb.Fmv

/-! ### page classification (token view of the two page-level regexes) -/

def lower (t : Tok) : Tok := t.map Char.toLower

def isWordChar (c : Char) : Bool := c.isAlphanum || c == '_'

/-- token ends with `current` (any case) at a word boundary: `\bCurrent` -/
def endsWithCurrent (t : Tok) : Bool :=
  let l := lower t
  let pat := "current".toList
  pat.isSuffixOf l &&
    (match (l.take (l.length - pat.length)).getLast? with
     | none => true
     | some c => !isWordChar c)

def monthOfWord (w : Tok) : Option Nat :=
  let l := lower w
  let names := ["jan", "feb", "mar", "apr", "may", "jun", "jul", "aug", "sep", "oct", "nov", "dec"]
  (names.zipIdx.find? (fun (n, _) => n.toList.isPrefixOf l)).map (fun (_, i) => i + 1)

def isLeap (y : Nat) : Bool := (y % 4 == 0 && y % 100 != 0) || y % 400 == 0

def daysInMonth (y m : Nat) : Nat :=
  if m == 2 then (if isLeap y then 29 else 28)
  else if m == 4 || m == 6 || m == 9 || m == 11 then 30 else 31

/-- Julian day number of a Gregorian calendar date (`time::Date::to_julian_day`). -/
def julianDay (y m d : Nat) : Int :=
  let y : Int := y
  let m : Int := m
  let d : Int := d
  let a := (14 - m) / 12
  let yy := y + 4800 - a
  let mm := m + 12 * a - 3
  d + (153 * mm + 2) / 5 + 365 * yy + yy / 4 - yy / 100 + yy / 400 - 32045

/-- `\bCurrent month:\s+(\S+) (\d+), (\d+)` (case-insensitive), first match on the page -/
def classifyMonth : List Tok → MonthHit
  | [] => .absent
  | t :: rest =>
    match rest with
    | m :: w :: d :: y :: _ =>
      let dayDigits := d.takeWhile Char.isDigit
      let yearDigits := y.takeWhile Char.isDigit
      if endsWithCurrent t && lower m == "month:".toList && !dayDigits.isEmpty && d == dayDigits ++ [','] &&
         !yearDigits.isEmpty then
        match monthOfWord w with
        | none => .badName
        | some mo =>
          let day := natOfDigits dayDigits
          let year := natOfDigits yearDigits
          if day ≤ 255 && year ≤ 9999 && 1 ≤ day && day ≤ daysInMonth year mo then .date (julianDay year mo day)
          else .invalid
      else classifyMonth rest
    | _ => .absent

/-- `Securities\s+Owned\s+Combined\s+in\s+\(CAD\)` -/
def classifyMarker : List Tok → Bool
  | [] => false
  | a :: rest =>
    match rest with
    | b :: c :: d :: e :: _ =>
      ("Securities".toList.isSuffixOf a && b == "Owned".toList && c == "Combined".toList && d == "in".toList &&
        "(CAD)".toList.isPrefixOf e) || classifyMarker rest
    | _ => false

def mkPage (lines : List Line) : Page :=
  let all := lines.flatten
  { month := classifyMonth all, marker := classifyMarker all, lines := lines }

/-! ### case parsing -/

def tk (s : String) : Tok := s.toList

structure FmvCase where
  wf : Bool
  pages : List (List Line)
  table : Option (Nat × Table)
  month : Option Int
  implOk : Option (Int × Rat × List (Rat × Rat × List Tok))
  implErr : Option String
  implPanic : Bool

structure TB where   -- table builder
  page : Nat := 0
  pre : Array Line := #[]
  header : Line := []
  mid : Array Line := #[]
  rows : Array (SecRow × Array Line) := #[]
  totalLead : Tok := []
  total : Tok := []
  totalVal : Rat := 0
  post : Array Line := #[]
  any : Bool := false

def TB.finish (b : TB) : Table :=
  { pre := b.pre.toList, header := b.header, mid := b.mid.toList,
    rows := b.rows.toList.map (fun (r, ls) =>
      match ls.toList with
      | [] => r
      | f :: more => { r with first := f, more := more }),
    totalLead := b.totalLead, total := b.total, totalVal := b.totalVal, post := b.post.toList }

def parseFmvCase (c : Case) : Option FmvCase := do
  let wf := (kv? c.header "wf") == some "1"
  let mut pages : Array (Array Line) := #[]
  let mut tb : TB := {}
  let mut month : Option Int := none
  let mut implOk : Option (Int × Rat) := none
  let mut fmvs : Array (Rat × Rat × List Tok) := #[]
  let mut implErr : Option String := none
  let mut implPanic := false
  for l in c.lines do
    match l with
    | ["in", "pg"] => pages := pages.push #[]
    | "in" :: "l" :: ts =>
      if pages.isEmpty then none
      else pages := pages.modify (pages.size - 1) (·.push (ts.map tk))
    | ["in", "t", "page", i] => tb := { tb with page := ← i.toNat?, any := true }
    | "in" :: "t" :: "pre" :: ts => tb := { tb with pre := tb.pre.push (ts.map tk) }
    | "in" :: "t" :: "header" :: ts => tb := { tb with header := ts.map tk }
    | "in" :: "t" :: "mid" :: ts => tb := { tb with mid := tb.mid.push (ts.map tk) }
    | "in" :: "t" :: "post" :: ts => tb := { tb with post := tb.post.push (ts.map tk) }
    | ["in", "t", "row", own, a, f, av, fv] =>
      let r : SecRow := { first := [], more := [], alloc := tk a, fmv := tk f, ownLine := own == "1",
                          allocVal := ← parseRat? av, fmvVal := ← parseRat? fv }
      tb := { tb with rows := tb.rows.push (r, #[]) }
    | "in" :: "t" :: "rl" :: ts =>
      if tb.rows.isEmpty then none
      else tb := { tb with rows := tb.rows.modify (tb.rows.size - 1) (fun (r, ls) => (r, ls.push (ts.map tk))) }
    | ["in", "t", "total", lead, t, tv] =>
      tb := { tb with totalLead := tk lead, total := tk t, totalVal := ← parseRat? tv }
    | ["in", "t", "month", jd] => month := some (← parseInt? jd)
    | ["impl", "ok", jd, total, _] => implOk := some (← parseInt? jd, ← parseRat? total)
    | "impl" :: "fmv" :: a :: f :: ds => fmvs := fmvs.push (← parseRat? a, ← parseRat? f, ds.map tk)
    | ["impl", "err", k] => implErr := some k
    | ["impl", "panic"] => implPanic := true
    | _ => pure ()
  some { wf, pages := pages.toList.map (·.toList), table := if tb.any then some (tb.page, tb.finish) else none,
         month, implOk := implOk.map (fun (jd, t) => (jd, t, fmvs.toList)), implErr, implPanic }

def errClass : SErr → String
  | .monthInvalid => "month"
  | .page .noSecData => "nosec"
  | .page .badAlloc => "alloc"
  | .page .badFmv => "fmv"
  | .page .noTotal => "nototal"
  | .noMonth => "nomonth"
  | .noFmv => "nofmv"

def showTok (t : Tok) : String := String.ofList t
def showRow (r : Rat × Rat × List Tok) : String :=
  s!"[{" ".intercalate (r.2.2.map showTok)} | {ratToString r.1} | {ratToString r.2.1}]"

/-- all conditions of `SecRow.WF` except `no_early_total` -/
def rowLayoutB (r : SecRow) : Bool :=
  !r.first.isEmpty && r.more.all (fun l => !l.isEmpty) && r.more.all (fun l => !startsWithBullet l) &&
  allocTok r.alloc && fmvTok r.fmv && decide (parseDec r.alloc = some r.allocVal) &&
  decide (parseLarge r.fmv = some r.fmvVal)

def tableLayoutB (t : Table) : Bool :=
  t.pre.all (fun l => !hasAllocation l) && hasAllocation t.header &&
  t.mid.all (fun l => !hasBullet l && (totalRow l).isNone) && t.rows.all rowLayoutB &&
  totalLeadTok t.totalLead && totalValTok t.total && !hasBullet [t.totalLead, t.total] &&
  decide (parseLarge t.total = some t.totalVal)

def runFmv (c : Case) : Res :=
  match parseFmvCase c with
  | none => { verdict := "BADCASE", msg := "unparsable fmv case" }
  | some fc =>
    let pages := fc.pages.map mkPage
    let model := parseStatement pages
    let scen := (kv? c.header "scen").getD "-"
    -- ---------- the generator's table: is it in the documented layout, and is the text that layout?
    let tinfo : Option (Table × Bool × Bool × Bool) := fc.table.map (fun (idx, t) =>
      let pageLines := (fc.pages[idx]?).getD []
      (t, tableLayoutB t, t.wfb, decide (pageLines.filter nonblank = t.layout.filter nonblank)))
    let amb := match tinfo with
      | some (_, lay, wfb, _) => lay && !wfb
      | none => false
    let nrows := match fc.table with | some (_, t) => t.rows.length | none => 0
    let maxLines := match fc.table with
      | some (_, t) => t.rows.foldl (fun m (r : SecRow) => max m (1 + r.more.length + (if r.ownLine then 1 else 0))) 0
      | none => 0
    let single := match fc.table with
      | some (_, t) => t.rows.length == 1 && t.rows.any (fun r => (totalRow [r.alloc, r.fmv]).isSome)
      | none => false
    let implOut := if fc.implPanic then "panic" else match fc.implErr with | some k => "err:" ++ k | none => "ok"
    let tags := [s!"wf={if fc.wf then 1 else 0}", s!"scen={scen}", s!"rows={nrows}", s!"rowlines={maxLines}",
                 s!"single={if single then 1 else 0}", s!"amb={if amb then 1 else 0}", s!"out={implOut}",
                 s!"nt={if fc.wf && nrows ≥ 1 then "C20" else "-"}"]
    -- generator self-check
    match (if fc.wf then tinfo else none) with
    | some (_, false, _, _) => { verdict := "BADCASE", tags := tags, msg := "generator claims a documented-layout table but Table layout check fails" }
    | some (_, _, _, false) => { verdict := "BADCASE", tags := tags, msg := "page text differs from Table.layout of the generator's table" }
    | _ =>
    -- ---------- oracle on the implementation alone: documented layout => the table comes back
    let oracle : List String :=
      if fc.implPanic then ["parse_statement_text panicked"]
      else if !fc.wf then []
      else match fc.table, fc.month with
        | some (_, t), some m =>
          (match fc.implOk with
           | none => [s!"documented-layout statement rejected ({implOut})"]
           | some (jd, total, rows) =>
             let want := t.rows.map (fun r => (r.allocVal, r.fmvVal, r.descToks))
             (if jd != m then [s!"month: got day {jd}, statement says {m}"] else []) ++
             (if total != t.totalVal then [s!"total: got {ratToString total}, table says {ratToString t.totalVal}"] else []) ++
             (if rows != want then
               [s!"securities: got {rows.map showRow}, table lists {want.map showRow}"] else []))
        | _, _ => []
    -- ---------- correspondence
    let diff : Option (String × String) :=
      if fc.implPanic then some ("panic", "implementation panicked")
      else match model, fc.implOk, fc.implErr with
        | .ok st, some (jd, total, rows), _ =>
          let mrows := st.fmvs.map (fun f => (f.alloc, f.fmv, f.desc))
          if st.month != jd then some ("month", s!"month: impl {jd} model {st.month}")
          else if st.total != total then some ("total", s!"total: impl {ratToString total} model {ratToString st.total}")
          else if mrows != rows then some ("rows", s!"rows: impl {rows.map showRow} model {mrows.map showRow}")
          else none
        | .error e, none, some k =>
          if errClass e == k then none else some ("errkind", s!"error: impl {k} model {errClass e}")
        | .ok _, none, some k => some ("accept", s!"impl rejects ({k}), model accepts")
        | .error e, some _, _ => some ("accept", s!"impl accepts, model rejects ({errClass e})")
        | _, _, _ => some ("accept", "no implementation result")
    if !oracle.isEmpty then
      { verdict := "ORACLE", tags := "of=C20" :: tags,
        msg := "; ".intercalate oracle ++ (match diff with | some (_, m) => " || " ++ m | none => "") }
    else match diff with
    | none => { verdict := "ok", tags := tags }
    | some (k, m) => { verdict := "DIFF", tags := s!"dk={k}" :: tags, msg := m }

end Driver
