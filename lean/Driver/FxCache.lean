/-
  Family `fxcache` (C13): histories of runs over one persistent cache.
  Model = Acb.Fx.getEffective threaded through the runs; oracle = every look-up equals the answer of
  an uncached loader over the same remote data (both observed on the implementation), a year is
  downloaded at most once per run, and not at all when the cache covers the requested date (and the seven days before it,
  which the look-back may consult).
-/
import Driver.Fx
namespace Driver
open Acb Acb.Fx

structure LkLine where
  date : Int
  res : LkObs
  dl : List Int
  cov : Bool
  covAll : Bool
  ref : LkObs

structure RunIn where
  today : Int
  force : Bool
  rem : List (Int × List DailyRate)
  rderr : List Int
  wrerr : List Int
  lks : List LkLine

def parseLkObs : List String → Option (LkObs × List String)
  | "ok" :: d :: r :: rest => do some (LkObs.ok ⟨← parseInt? d, ← parseRat? r⟩, rest)
  | "err" :: rest => some (LkObs.err, rest)
  | "panic" :: m :: rest => some (LkObs.panic m, rest)
  | _ => none

def parseYears (s : String) : Option (List Int) :=
  if s == "-" then some [] else (s.splitOn ",").mapM parseInt?

/-- Sequential parse of the body: `in seed`, then per run `in run`, `in rem`…, and per look-up the
    triple `in lk` / `impl lk` / `impl ref`. -/
def parseCacheBody : List (List String) → List (Int × List DailyRate) → List RunIn → Option (List (Int × List DailyRate) × List RunIn)
  | [], seed, runs => some (seed, runs.reverse.map (fun r => { r with lks := r.lks.reverse }))
  | l :: rest, seed, runs =>
    match l with
    | "in" :: "seed" :: y :: ps => do
      parseCacheBody rest (seed ++ [((← parseInt? y), (← parsePairs ps))]) runs
    | ["in", "run", t, f] => do
      parseCacheBody rest seed ({ today := ← parseInt? t, force := f == "1", rem := [], rderr := [], wrerr := [], lks := [] } :: runs)
    | "in" :: "rem" :: y :: ps =>
      match runs with
      | r :: rs => do parseCacheBody rest seed ({ r with rem := r.rem ++ [((← parseInt? y), (← parsePairs ps))] } :: rs)
      | [] => none
    | ["in", "rderr", y] =>
      match runs with
      | r :: rs => do parseCacheBody rest seed ({ r with rderr := (← parseInt? y) :: r.rderr } :: rs)
      | [] => none
    | ["in", "wrerr", y] =>
      match runs with
      | r :: rs => do parseCacheBody rest seed ({ r with wrerr := (← parseInt? y) :: r.wrerr } :: rs)
      | [] => none
    | ["in", "lk", d] =>
      match rest, runs with
      | ("impl" :: "lk" :: a) :: ("impl" :: "ref" :: b) :: rest', r :: rs => do
        let (res, tl) ← parseLkObs a
        let (ref, _) ← parseLkObs b
        let dl ← (tl.findSome? (fun t => if t.startsWith "dl=" then some (t.drop 3).toString else none)).bind parseYears
        let cov := tl.contains "cov=1"
        let covAll := tl.contains "covall=1"
        parseCacheBody rest' seed ({ r with lks := { date := ← parseInt? d, res, dl, cov, covAll, ref } :: r.lks } :: rs)
      | _, _ => none
    | _ => none

def storeOf (l : List (Int × List DailyRate)) : Store := fun y => assocGet l y

/-- Run the model over one run; returns per look-up (result, downloads) and the final cache. -/
def modelRun (env : Env) (cache : Store) (ds : List Int) : List (LkObs × List Int) × Store :=
  let rec go (s : St) : List Int → List (LkObs × List Int) → List (LkObs × List Int) × Store
    | [], acc => (acc.reverse, s.cache)
    | d :: ds, acc =>
      let r := getEffective env s d
      let newDl := r.2.downloads.drop s.downloads.length
      go r.2 ds ((lkOfModel r.1, newDl) :: acc)
  go (St.init cache) ds []

def runFxCache (c : Case) : Res :=
  match parseCacheBody c.lines [] [] with
  | none => { verdict := "BADCASE", msg := "unparsable fxcache case" }
  | some (seed, runs) =>
    let kind := (kv? c.header "cache").getD "?"
    -- model
    let (diffs, _) := runs.foldl (fun (acc : List String × Store) (r : RunIn) =>
        let env : Env := { cal := civil, today := r.today, force := r.force, remote := fun y => assocGet r.rem y,
                           rdErr := fun y => r.rderr.contains y, wrErr := fun y => r.wrerr.contains y }
        let (ms, cache') := modelRun env acc.2 (r.lks.map (·.date))
        let ds := ((r.lks.zip ms).filter (fun (l, m) => !(lkSame true l.res m.1) || l.dl != m.2)).map
          (fun (l, m) => s!"run today={r.today} look-up {l.date}: impl {l.res.render} dl={l.dl} model {m.1.render} dl={m.2}")
        (acc.1 ++ ds, cache')) ([], storeOf seed)
    -- oracle on the implementation's observations alone
    let stale := runs.flatMap (fun r => (r.lks.filter (fun l => !lkSame true l.res l.ref)).map
      (fun l => s!"run today={r.today} force={r.force}: look-up {l.date} returns {l.res.render}, the same look-up with no cache returns {l.ref.render}"))
    let twice := runs.filterMap (fun r =>
      let all := r.lks.flatMap (·.dl)
      match all.find? (fun y => (all.filter (· == y)).length > 1) with
      | some y => some s!"run today={r.today}: year {y} downloaded more than once"
      | none => none)
    let needless := runs.flatMap (fun r => (r.lks.filter (fun l => l.covAll && !r.force && !l.dl.isEmpty)).map
      (fun l => s!"run today={r.today}: look-up {l.date} downloaded {l.dl} although the cache covers that date and the seven days before it"))
    let yearsNear (d : Int) : List Int := (List.range 8).map (fun (k : Nat) => civilYearOf (d - Int.ofNat k))
    let foreign := runs.flatMap (fun r =>
      (r.lks.filter (fun l => l.dl.any (fun y => !(yearsNear l.date).contains y))).map
        (fun l => s!"run today={r.today}: look-up {l.date} downloaded {l.dl}, not a year of that date or of the seven days before it"))
    let panics := runs.flatMap (fun r => r.lks.filterMap (fun l => match l.res with | .panic m => some m | _ => none))
    -- tags
    let nLk := (runs.map (·.lks.length)).foldl (· + ·) 0
    let nDl := (runs.map (fun r => (r.lks.flatMap (·.dl)).length)).foldl (· + ·) 0
    let nCov := (runs.map (fun r => (r.lks.filter (·.cov)).length)).foldl (· + ·) 0
    -- the F-13 pattern: within a run, a date covered by the cache first, later a date of the same year not covered
    let pat := runs.any (fun r =>
      let rec scan : List LkLine → List Int → Bool
        | [], _ => false
        | l :: ls, seen =>
          (!l.cov && seen.contains (civilYearOf l.date)) || scan ls (if l.cov then civilYearOf l.date :: seen else seen)
      !r.force && scan r.lks [])
    let nt := runs.length ≥ 2 && nCov ≥ 1
    let tags := [s!"nt={if nt then "C13" else ""}", s!"cache={kind}", s!"runs={runs.length}", s!"lks={nLk}", s!"dl={nDl}",
                 s!"cov={nCov}", s!"oldnew={pat}", s!"seed={!seed.isEmpty}", s!"force={runs.any (·.force)}",
                 s!"ioerr={runs.any (fun r => !r.rderr.isEmpty || !r.wrerr.isEmpty)}"]
    let omsgs := stale ++ twice ++ needless ++ foreign
    if !omsgs.isEmpty then
      { verdict := "ORACLE", tags := "of=C13" :: tags,
        msg := String.intercalate "; " (omsgs.take 3) ++ (if diffs.isEmpty then "" else " || " ++ String.intercalate "; " (diffs.take 2)) }
    else if !panics.isEmpty then
      { verdict := "DIFF", tags := "dk=panic" :: tags, msg := String.intercalate "; " panics }
    else if !diffs.isEmpty then
      { verdict := "DIFF", tags := "dk=hist" :: tags, msg := String.intercalate "; " (diffs.take 3) }
    else { verdict := "ok", tags := tags }

end Driver
