/-
  Family `summary` (C10): the full history vs summary CSV + later rows, both observations from the
  implementation.  The comparison is the property itself.
-/
import Driver.App
import AcbModel.Basic.Date
import AcbModel.App.Summary
namespace Driver
open Acb

def lastStatusPerAff (ds : List ImplDelta) : List (Aff × Status) :=
  ds.foldl (fun acc (d : ImplDelta) => (d.aff, d.post) :: acc.filter (fun p => p.1 ≠ d.aff)) []

def yearGains (ds : List ImplDelta) : List ((Aff × Int) × Rat) :=
  ds.foldl (fun acc (d : ImplDelta) =>
    match d.gain with
    | none => acc
    | some g =>
      let key := (d.aff, yearOfJd d.settle)
      match acc.find? (fun p => p.1 == key) with
      | some p => (key, p.2 + g) :: acc.filter (fun q => q.1 != key)
      | none => (key, g) :: acc) []


/-- relative comparison (per-share figures of a vanishing balance can be astronomically large) -/
def closeRel (a b : Rat) : Bool := rabs (a - b) ≤ (1 / pow10 9) * (if rabs a < 1 then 1 else rabs a)

def actClose : Action → Action → Bool
  | .buy a b c d e, .buy a' b' c' d' e' => close a a' && closeRel b b' && close c c' && close d d' && closeOpt e e'
  | .sell a b c d e s, .sell a' b' c' d' e' s' =>
    close a a' && closeRel b b' && closeRel c c' && close d d' && closeOpt e e' &&
    (match s, s' with
     | none, none => true
     | some (v, f), some (v', f') => close v v' && f == f'
     | _, _ => false)
  | .roc a b, .roc a' b' => close a a' && close b b'
  | .sfla a b, .sfla a' b' => close (a * b) (a' * b')
  | .split a b i, .split a' b' i' => close (a / b) (a' / b') && i == i'
  | _, _ => false

/-- model's summary rows vs the implementation's (`sumtx` lines) -/
def cmpSummaryTxs (i : Nat) : List Tx → List Tx → Option String
  | [], [] => none
  | m :: ms, x :: xs =>
    if m.aff ≠ x.aff then some s!"summary row {i}: affiliate model={m.aff.key} impl={x.aff.key}"
    else if m.settle ≠ x.settle then some s!"summary row {i}: settlement date model={m.settle} impl={x.settle}"
    else if !actClose m.act x.act then some s!"summary row {i}: action/figures differ ({actName m.act} vs {actName x.act})"
    else cmpSummaryTxs (i + 1) ms xs
  | ms, xs => some s!"summary row count model={i + ms.length} impl={i + xs.length}"

def runSummary (c : Case) : Res :=
  let annual := (kv? c.header "annual") == some "1"
  let n := ((kv? c.header "n").bind String.toNat?).getD 0
  let sumLine := c.lines.find? (fun l => l.head? == some "sum")
  match sumLine with
  | some ("sum" :: "ok" :: rest) =>
    let nsum := ((kv? rest "nsum").bind String.toNat?).getD 0
    let nlater := ((kv? rest "nlater").bind String.toNat?).getD 0
    match parseImplSecs "full" c.lines, parseImplSecs "rerun" c.lines with
    | some fs, some rs =>
      let rerunAbort := c.lines.find? (fun l => l.head? == some "rerun" && (l[1]? == some "abort" || l[1]? == some "panic"))
      let tags := [s!"annual={if annual then 1 else 0}", s!"nsum={nsum}", s!"nlater={nlater}"]
      -- correspondence: the model's summary rows for the same input
      let dflt : Aff := { key := ((kv? c.header "dflt").bind String.toNat?).getD 0, registered := false }
      let rows := (c.lines.filter (fun l => l.head? == some "row")).filterMap parsePRow?
      let cut := ((kv? c.header "cut").bind parseInt?).getD 0
      let modelDs := match (runPipeline dflt (fun _ => none) rows).head? with
        | some (_, ds, none) => some ds
        | _ => none
      let implSum := (c.lines.filter (fun l => l.head? == some "sumtx")).filterMap (fun l => parseTx? ("tx" :: l.drop 1))
      -- a gain that is decimal noise around zero (|g| <= 1e-9, g != 0) flips `is_zero()` decisions
      let noisyZero := fs.any (fun (f : ImplSec) => f.deltas.any (fun (d : ImplDelta) =>
        (match d.gain with | some g => g != 0 && rabs g ≤ 1 / pow10 9 | none => false) ||
        (d.post.shares != 0 && rabs d.post.shares ≤ 1 / pow10 9) ||
        (match d.post.acb with | some a => a != 0 && rabs a ≤ 1 / pow10 9 | none => false)))
      let corr : Option String := match modelDs with
        | none => none   -- the model does not complete this history (near-threshold / noise): skip
        | some ds => if noisyZero then none else cmpSummaryTxs 0 (makeSummaryTxs yearOfJd jan1 cut annual ds) implSum
      match fs.head?, rs.head?, rerunAbort with
      | _, _, some l => { verdict := "ORACLE", tags := ["of=C10", "nt=C10"] ++ tags, msg := "feeding the summary CSV and the later rows back fails: " ++ String.intercalate " " (l.drop 1) }
      | some f, none, none =>
        if nsum == 0 && nlater == 0 then { verdict := "ok", tags := "nt=" :: tags }
        else { verdict := "ORACLE", tags := ["of=C10", "nt=C10"] ++ tags, msg := s!"re-run has no result for the security (full run has {f.deltas.length} rows)" }
      | some f, some r, none =>
        let hasSfl := f.deltas.any (fun (d : ImplDelta) => d.sfl.isSome)
        -- a summary sale that the re-run treats as a superficial loss (finding F-10c)
        let sumSfl := r.deltas.any (fun (d : ImplDelta) => d.idx < nsum && d.act == "sell" && d.sfl.isSome)
        let tags := tags ++ [s!"sfl={if hasSfl then 1 else 0}", s!"sumsfl={if sumSfl then 1 else 0}", "nt=C10"]
        if r.outcome ≠ "ok" then
          { verdict := "ORACLE", tags := "of=C10" :: tags, msg := s!"the summary CSV followed by the later rows is rejected: {r.msg}" }
        else
          -- split rows of an affiliate that holds nothing (0 -> 0) carry no figure: an affiliate that
          -- has sold out before the summary date no longer appears in the summary
          let keep := fun (d : ImplDelta) => !(d.act == "split" && d.pre.shares == 0 && d.post.shares == 0)
          let fLater := f.deltas.filter (fun (d : ImplDelta) => d.idx ≥ n - nlater && keep d)
          let rLater := r.deltas.filter (fun (d : ImplDelta) => d.idx ≥ nsum && keep d)
          -- a non-registered affiliate holding no shares but a cost base at the summary date
          let atCut := lastStatusPerAff (f.deltas.filter (fun (d : ImplDelta) => d.idx < n - nlater))
          let zeroAcb := atCut.any (fun (p : Aff × Status) => p.2.shares == 0 && (match p.2.acb with | some a => a > 0 | none => false))
          let tags := tags ++ [s!"zeroacb={if zeroAcb then 1 else 0}"]
          match cmpImplDeltas 0 fLater rLater with
          | some e => { verdict := "ORACLE", tags := "of=C10" :: tags, msg := s!"later rows differ between the full history and summary+later rows: {e}" }
          | none =>
            -- final holdings per affiliate
            let hf := lastStatusPerAff f.deltas
            let hr := lastStatusPerAff r.deltas
            let bad := hf.find? (fun (p : Aff × Status) =>
              match hr.find? (fun (q : Aff × Status) => q.1 == p.1) with
              | some q => !(close p.2.shares q.2.shares && closeOpt p.2.acb q.2.acb)
              | none => !(close p.2.shares 0 && (match p.2.acb with | some a => close a 0 | none => true)))
            match bad with
            | some p => { verdict := "ORACLE", tags := "of=C10" :: tags, msg := s!"final holdings of affiliate {p.1.key} differ (full: {ratToString p.2.shares} shares, cost base {showOpt p.2.acb})" }
            | none =>
              if annual then
                -- each past year's net gain per non-registered affiliate
                let gf := yearGains (f.deltas.filter (fun (d : ImplDelta) => d.idx < n - nlater))
                let gr := yearGains (r.deltas.filter (fun (d : ImplDelta) => d.idx < nsum))
                let badY := gf.find? (fun (p : (Aff × Int) × Rat) =>
                  !p.1.1.registered &&
                  (match gr.find? (fun (q : (Aff × Int) × Rat) => q.1 == p.1) with
                   | some q => !close p.2 q.2
                   | none => !close p.2 0))
                match badY with
                | some p => { verdict := "ORACLE", tags := "of=C10" :: tags, msg := s!"annual gains of affiliate {p.1.1.key} for {p.1.2} not reproduced (full history: {ratToString p.2})" }
                | none =>
                  match corr with
                  | some e => { verdict := "DIFF", tags := "dk=summary" :: tags, msg := e }
                  | none => { verdict := "ok", tags := tags }
              else
                match corr with
                | some e => { verdict := "DIFF", tags := "dk=summary" :: tags, msg := e }
                | none => { verdict := "ok", tags := tags }
      | none, _, none => { verdict := "ok", tags := "nt=" :: tags }
    | _, _ => { verdict := "BADCASE", msg := "unparsable summary case" }
  | some ("sum" :: "panic" :: m) => { verdict := "DIFF", tags := ["dk=panic", "nt=C05"], msg := "summary mode panicked: " ++ String.intercalate " " m }
  | some ("sum" :: "err" :: m) => { verdict := "ORACLE", tags := ["of=C10", "nt=C10"], msg := "summary mode fails on an error-free history: " ++ String.intercalate " " m }
  | _ => { verdict := "BADCASE", msg := "no sum line" }

end Driver
