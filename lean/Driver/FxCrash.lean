/-
  Family `fxcrash` (C14): the cache write of a real process is interrupted at every byte offset and
  at every named step; compared with the crash model (files left behind, answers of a fresh loader)
  and judged by the property's oracle: every rate returned afterwards is the published one.
-/
import Driver.FxCache
import AcbModel.Fx.CrashFs
namespace Driver
open Acb Acb.Fx

def unescFile (s : String) : Option (List Char) :=
  if s == "-" then none
  else if s == "<empty>" then some []
  else some (s.toList.map (fun c => if c == '|' then '\n' else if c == '_' then ' ' else c))

def showFile : Option (List Char) → String
  | none => "-"
  | some l => if l.isEmpty then "<empty>" else String.ofList (l.map (fun c => if c == '\n' then '|' else c))

/-- parse `d r d r …` keeping the rate texts -/
def parseTextPairs : List String → Option (List (Int × String))
  | [] => some []
  | d :: r :: rest => do
    let d ← parseInt? d
    let xs ← parseTextPairs rest
    some ((d, r) :: xs)
  | _ => none

/-- The rows `RateLoader` hands to `write_rates` for `year`, with the text each rate is written with. -/
def textRowsOf (today year : Int) (rem : List (Int × String)) : List TextRow :=
  let rates : List DailyRate := rem.filterMap (fun (d, t) => (parseRat? t).map (fun v => ⟨d, v⟩))
  (fillUnknown civil today rates year).map (fun (r : DailyRate) =>
    ({ date := r.date,
       rate := if r.rate == 0 then ['0'] else ((rem.find? (·.1 == r.date)).map (·.2.toList)).getD ['?'] } : TextRow))

structure CrashPoint where
  label : String
  status : String
  live : Option (List Char)
  tmp : Option (List Char)
  others : String
  after : List (LkObs × List Int)

def parseAfterTok (t : String) : Option (LkObs × List Int) :=
  match t.splitOn "/" with
  | [r, dl] => do
    let res ← (match r.splitOn ":" with
      | ["ok", d, v] => do some (LkObs.ok ⟨← parseInt? d, ← parseRat? v⟩)
      | ["err"] => some LkObs.err
      | "panic" :: m => some (LkObs.panic (String.intercalate ":" m))
      | _ => none)
    let dls ← (if dl == "-" then some [] else (dl.splitOn "+").mapM parseInt?)
    some (res, dls)
  | _ => none

def parseRefTok (r : String) : Option LkObs :=
  match r.splitOn ":" with
  | ["ok", d, v] => do some (LkObs.ok ⟨← parseInt? d, ← parseRat? v⟩)
  | ["err"] => some LkObs.err
  | _ => some (LkObs.panic r)

partial def parseCrashPoints : List (List String) → List CrashPoint → Option (List CrashPoint)
  | [], acc => some acc.reverse
  | l :: rest, acc =>
    match l, rest with
    | ["in", "crash", label], ("impl" :: "fs" :: _ :: fsToks) :: ("impl" :: "after" :: _ :: toks) :: rest' => do
      let get := fun (k : String) => fsToks.findSome? (fun t =>
        if t.startsWith (k ++ "=") then some (t.drop (k.length + 1)).toString else none)
      let after ← toks.mapM parseAfterTok
      parseCrashPoints rest' ({ label, status := (get "status").getD "?", live := unescFile ((get "live").getD "-"),
                                tmp := unescFile ((get "tmp").getD "-"), others := (get "others").getD "?", after } :: acc)
    | _, _ => parseCrashPoints rest acc

/-- The model's file-system state at a crash point of the (repaired) write procedure. -/
def modelStateAt (init : YearFiles) (content : List Char) (label : String) : Option YearFiles :=
  let ops := writeProc content
  let after (k : Nat) : YearFiles := (ops.take k).foldl applyOp init
  if label.startsWith "b" && label != "before_rename" then
    (label.drop 1).toString.toNat?.map (fun n => applyOp (after 1) (.append .tmp (content.take n)))
  else match label with
    | "after_create" => some (after 1)
    | "after_flush" => some (after 2)
    | "after_sync" => some (after 3)
    | "before_rename" => some (after 3)
    | "after_rename" => some (after 4)
    | "none" => some (after 4)
    | _ => none

def runFxCrash (c0 : Case) : Res :=
  let c := stripIn c0
  let hdrInt := fun (k : String) => (kv? c.header k).bind parseInt?
  match hdrInt "year", hdrInt "today", hdrInt "later" with
  | some year, some today, some later =>
    let oldToday := hdrInt "old"
    let linesOf := fun (k : String) => c.lines.filterMap (fun l =>
      match l with
      | h :: y :: ps => if h == k then (do some ((← parseInt? y), (← parseTextPairs ps))) else none
      | _ => none)
    let remNew := linesOf "rem"
    let remLater := linesOf "later"
    let remOld := linesOf "old"
    let full := (c.lines.find? (·.head? == some "full")).bind (fun l => l[1]?.bind unescFile)
    let dates := ((c.lines.find? (·.head? == some "dates")).map (fun l => l.drop 1 |>.filterMap parseInt?)).getD []
    let refs := ((c0.lines.find? (fun l => l.head? == some "impl" && l[1]? == some "ref")).map
      (fun l => (l.drop 2).filterMap parseRefTok)).getD []
    match parseCrashPoints c0.lines [] with
    | none => { verdict := "BADCASE", msg := "unparsable fxcrash case" }
    | some points =>
      let yearRem := fun (rem : List (Int × List (Int × String))) => (assocGet rem year).getD []
      let content := renderRows civilDateText (textRowsOf today year (yearRem remNew))
      let oldContent := oldToday.map (fun t0 => renderRows civilDateText (textRowsOf t0 year (yearRem remOld)))
      let init : YearFiles := { live := oldContent.map (fun d => ⟨d, d.length⟩), tmp := none }
      let laterLists : List (Int × List DailyRate) := remLater.map (fun (y, ps) =>
        (y, ps.filterMap (fun (d, t) => (parseRat? t).map (fun v => (⟨d, v⟩ : DailyRate)))))
      let envLater : Env := { cal := civil, today := later, force := false, remote := fun y => assocGet laterLists y }
      let pubLater := fun (d : Int) => pubOf civil envLater.remote d
      let nRead := (c0.lines.filter (fun l => l.head? == some "impl" && l[1]? == some "read")).length
      let tags := ["nt=C14", s!"prefixes={nRead}", s!"points={points.length}", s!"len={content.length}", s!"old={oldToday.isSome}",
                   s!"dates={dates.length}", s!"laterdays={later - today}"]
      if dates.length != refs.length || points.any (fun p => p.after.length != dates.length) then
        { verdict := "BADCASE", tags := tags, msg := "look-up counts do not match" }
      else
      -- oracle on the implementation's observations: a rate returned after the crash is the published one,
      -- and the answer is the one a loader without any cache gives
      let orc := points.flatMap (fun p => (dates.zip (p.after.zip refs)).filterMap (fun (d, (o, _), r) =>
        match o with
        | .ok x =>
          if pubLater x.date != some x.rate then
            some s!"crash at {p.label}: look-up {d} computes with rate {ratToString x.rate} for {x.date}, published: {showOpt (pubLater x.date)}"
          else if !lkSame true o r then some s!"crash at {p.label}: look-up {d} returns {o.render}, without a cache {r.render}"
          else none
        | .err => if !lkSame true o r then some s!"crash at {p.label}: look-up {d} fails, without a cache {r.render}" else none
        | .panic m => some s!"crash at {p.label}: look-up {d} panics: {m}"))
      -- correspondence
      let dFull := if full != some content then [s!"complete file: impl {showFile full} model {showFile (some content)}"] else []
      let dPts := points.flatMap (fun p =>
        match modelStateAt init content p.label with
        | none => [s!"unknown crash point {p.label}"]
        | some st =>
          let v := killView st
          let fsd := (if v.live != p.live then [s!"crash at {p.label}: live file impl {showFile p.live} model {showFile v.live}"] else []) ++
                     (if v.tmp != p.tmp then [s!"crash at {p.label}: temp file impl {showFile p.tmp} model {showFile v.tmp}"] else []) ++
                     (if p.others != "-" then [s!"crash at {p.label}: unexpected files {p.others}"] else []) ++
                     (if (p.status == "killed") != (p.label != "none") then [s!"crash at {p.label}: child status {p.status}"] else [])
          let parsed := v.live.map (parseFile civilDateText)
          let store : Store := fun y => if y == year then parsed else none
          let lks := (dates.zip p.after).filterMap (fun (d, o, dl) =>
            let m := getEffective envLater (St.init store) d
            if lkSame true o (lkOfModel m.1) && dl == m.2.downloads then none
            else some s!"crash at {p.label}: look-up {d} impl {o.render} dl={dl} model {(lkOfModel m.1).render} dl={m.2.downloads}")
          fsd ++ lks.take 2)
      -- the reader on every prefix of the file
      let dRead := (c0.lines.filter (fun l => l.head? == some "impl" && l[1]? == some "read")).filterMap (fun l =>
        match l with
        | [_, _, n, tok] =>
          match n.toNat? with
          | none => some s!"bad read line {n}"
          | some n =>
            let want := parseFile civilDateText (content.take n)
            let got : Option (List DailyRate) :=
              if tok == "-" then some []
              else (tok.splitOn ",").mapM (fun t => match t.splitOn ":" with
                | [d, r] => do some (⟨← parseInt? d, ← parseRat? r⟩ : DailyRate)
                | _ => none)
            if got == some want then none
            else some s!"reader on the first {n} bytes: impl {tok} model {want.map (fun r => s!"{r.date}:{ratToString r.rate}")}"
        | _ => some "bad read line")
      let diffs := dFull ++ dRead ++ dPts
      if !orc.isEmpty then
        { verdict := "ORACLE", tags := "of=C14" :: tags,
          msg := String.intercalate "; " (orc.take 3) ++ s!" ({orc.length} in all)" ++
                 (if diffs.isEmpty then "" else " || " ++ String.intercalate "; " (diffs.take 2)) }
      else if !diffs.isEmpty then
        { verdict := "DIFF", tags := "dk=crash" :: tags, msg := String.intercalate "; " (diffs.take 3) ++ s!" ({diffs.length} in all)" }
      else { verdict := "ok", tags := tags }
  | _, _, _ => { verdict := "BADCASE", msg := "fxcrash header" }

end Driver
