/-
  Property oracles evaluated on the IMPLEMENTATION's rows only (independent of `deltaList`):
  C01 (average-cost rules via `Spec`), C03 (conservation identity), C04 (invariants).
-/
import Driver.Ledger
import AcbModel.Ledger.Spec
namespace Driver
open Acb

/-- Pair each implementation row with the action it executed: input rows in order, generated
    SfLA rows (flagged by the harness) in between. -/
partial def alignRows : List Tx → List ImplDelta → Option (List (Tx × ImplDelta))
  | _, [] => some []
  | txs, x :: xs =>
    if x.gen then
      match x.sflaAmt with
      | some amt => do
        let rest ← alignRows txs xs
        some (({ trade := 0, settle := 0, idx := 0, aff := x.aff, act := .sfla 1 amt }, x) :: rest)
      | none => none
    else
      match txs with
      | [] => none
      | t :: ts => do
        let rest ← alignRows ts xs
        some ((t, x) :: rest)

structure OState where
  books : Spec.Books
  affs : List Aff
  gains : Rat := 0
  proceeds : Rat := 0
  costs : Rat := 0
  roc : Rat := 0
  overSeen : Bool := false
  implAcb : List (Aff × Rat) := []   -- the cost base the implementation itself reports, per affiliate (latest row)
  implShares : List (Aff × Rat) := [] -- the share balance the implementation reports, per affiliate (latest row)

def bookClose (mag : Rat) (b : Spec.Book) (sh : Rat) (acb : Option Rat) : Bool :=
  close b.shares sh && closeOptAt mag b.acb acb

/-- a decimal with at most 12 decimal places and magnitude below 10^12 -/
def shortDecimal (q : Rat) : Bool := isInteger (pow10 12 * q) && decide (rabs q < pow10 12)

def sumShares (st : OState) : Rat := sumOver st.affs (fun a => (st.books a).shares)
def sumAcb (st : OState) : Rat := sumOver st.affs (fun a => ((st.books a).acb).getD 0)
/-- cost base still held by all affiliates, as the implementation's own rows report it -/
def sumImplAcb (st : OState) : Rat := (st.implAcb.map (·.2)).foldl (· + ·) 0

/-- Returns the list of failed oracles as (property, message). -/
partial def oracleRows (mag : Rat) (initAcb : Rat) (c3 : Bool) (complete : Bool) (i : Nat) (st : OState) :
    List (Tx × ImplDelta) → List (String × String)
  | [] => []
  | (t, x) :: rest =>
    let affs := if st.affs.contains x.aff then st.affs else x.aff :: st.affs
    let st := { st with affs := affs }
    let b := st.books x.aff
    let b' := Spec.stepBook b t.act
    let books' := Spec.stepBooks st.books { t with aff := x.aff }
    let st' := { st with books := books' }
    let lossOf : Rat := match x.sfl with | some s => s.loss | none => 0
    let g0 := Spec.gain0 b t.act
    let expGain := g0.map (fun g => g - lossOf)
    let e1 : List (String × String) :=
      if !bookClose mag b x.pre.shares x.pre.acb then
        [("C01", s!"row {i}: pre status ({ratToString x.pre.shares},{showOpt x.pre.acb}) is not the affiliate's book ({ratToString b.shares},{showOpt b.acb})")]
      else if !bookClose mag b' x.post.shares x.post.acb then
        [("C01", s!"row {i}: post status ({ratToString x.post.shares},{showOpt x.post.acb}) deviates from the average-cost rules ({ratToString b'.shares},{showOpt b'.acb})")]
      else if !closeOptAt mag expGain x.gain then
        [("C01", s!"row {i}: gain {showOpt x.gain} deviates from proceeds-commission-cost-sfl {showOpt expGain}")]
      else []
    let e4 : List (String × String) :=
      (if x.post.shares < 0 || x.post.all < 0 || (match x.post.acb with | some a => a < 0 | none => false)
       then [("C04", s!"row {i}: negative balance or cost base")] else []) ++
      (if !close x.post.all (sumShares st') then
        [("C04", s!"row {i}: all-affiliate balance {ratToString x.post.all} is not the sum of balances {ratToString (sumShares st')}")] else []) ++
      (if x.aff.registered && (x.post.acb.isSome || x.gain.isSome) then
        [("C04", s!"row {i}: registered affiliate shows a cost base or gain")] else []) ++
      (match t.act with
       | .sell _ _ _ _ _ (some _) =>
         -- a declared superficial loss on a sale with no loss (a gain, or any sale of a registered
         -- affiliate) is one of the reasons for rejection: such a row must not have been accepted
         (match g0 with
          | none => [("C04", s!"row {i}: a superficial loss declared on a registered affiliate's sale was accepted")]
          | some g => if g > 1 / pow10 9 then
              [("C04", s!"row {i}: a superficial loss declared on a sale at a gain of {ratToString g} was accepted")] else [])
       | _ => []) ++
      (match t.act with
       | .split post pre true =>
         let frac := x.post.shares - (Rat.floor x.post.shares : Int)
         if pre > post && frac > 1 / pow10 9 && 1 - frac > 1 / pow10 9 then
           [("C04", s!"row {i}: whole-number reverse split accepted although it leaves {ratToString x.post.shares} shares")] else []
       | _ => [])
    -- a split whose exact result is a short decimal must be computed exactly (C15: only the
    -- share counts scale; 99 shares 1-for-3 are 33 shares, not 32.99…97)
    let e15 : List (String × String) := match t.act with
      | .split post pre _ =>
        let exact := x.pre.shares * post / pre
        if pre ≠ 0 && shortDecimal x.pre.shares && shortDecimal exact && x.post.shares ≠ exact then
          [("C15", s!"row {i}: split {ratToString post}-for-{ratToString pre} of {ratToString x.pre.shares} shares gives {ratToString x.post.shares}, not exactly {ratToString exact}")]
        else []
      | _ => []
    -- cash flows
    let st' := match t.act with
      | .buy sh px comm rate crate => { st' with costs := st'.costs + (px * sh * rate + comm * commRate rate crate) }
      | .sell sh px comm rate crate _ => { st' with proceeds := st'.proceeds + (px * sh * rate - comm * commRate rate crate) }
      | .roc ps rate => { st' with roc := st'.roc + ps * b.shares * rate }
      | _ => st'
    let st' := { st' with implAcb := (x.aff, x.post.acb.getD 0) :: st'.implAcb.filter (fun p => p.1 ≠ x.aff),
                          implShares := (x.aff, x.post.shares) :: st'.implShares.filter (fun p => p.1 ≠ x.aff) }
    -- while no other affiliate has appeared at all, the all-affiliate balance IS this affiliate's
    -- balance: no rounding can separate them (once another affiliate has held shares, 28-digit
    -- residue may remain in the total) (C04: total = sum of the affiliates' latest balances)
    let e4b : List (String × String) :=
      if (st'.implShares.all (fun p => p.1 == x.aff)) && x.post.all ≠ x.post.shares then
        let m := s!"row {i}: only this affiliate has ever held shares, yet the all-affiliate balance {ratToString x.post.all} differs from its balance {ratToString x.post.shares}"
        -- when it is a split that separates the two, the split did more than rescale the holding (C15)
        match t.act with
        | .split _ _ _ => [("C04", m), ("C15", m ++ " (after a split)")]
        | _ => [("C04", m)]
      else []
    let st' := { st' with gains := st'.gains + x.gain.getD 0,
                          overSeen := st'.overSeen || (match x.sfl with | some s => s.over | none => false) }
    -- a row boundary "with its automatic adjustments applied": the next row is an input row, or
    -- the ledger completed (a failed run may stop in the middle of the adjustments)
    let boundary := match rest with
      | (_, y) :: _ => !y.gen
      | [] => complete
    let e3 : List (String × String) :=
      if c3 && boundary && !st'.overSeen then
        let rhs := st'.proceeds - st'.costs - initAcb + st'.roc + sumImplAcb st'
        -- 1e-9 per row; beyond 10^13 a 28-digit decimal cannot resolve that: relative 1e-22 per row
        let mag := [rabs st'.gains, rabs st'.proceeds, rabs st'.costs, rabs (sumImplAcb st')].foldl (fun m x => if m < x then x else m) 0
        let unit : Rat := if 1 / pow10 9 < mag / pow10 22 then mag / pow10 22 else 1 / pow10 9
        if rabs (st'.gains - rhs) ≤ ((i + 1 : Nat) : Rat) * unit then []
        else [("C03", s!"after row {i}: gains so far {ratToString st'.gains} ≠ proceeds−costs+roc+held cost base {ratToString rhs}")]
      else []
    let errs := e1 ++ e4 ++ e4b ++ e3 ++ e15
    if errs.isEmpty then oracleRows mag initAcb c3 complete (i + 1) st' rest else errs

def ledgerOracles (dflt : Aff) (init : Option Status) (txs : List Tx) (impls : List ImplDelta)
    (complete : Bool := true) :
    List (String × String) :=
  match alignRows txs impls with
  | none => [("C01", "implementation rows cannot be aligned with the input rows")]
  | some rows =>
    let c3 := txs.all (fun t => !t.aff.registered &&
      (match t.act with | .sell _ _ _ _ _ (some _) => false | .sfla .. => false | _ => true))
    let initAcb := match init with | some s => s.acb.getD 0 | none => 0
    -- the largest money figure among the implementation's rows (see `Driver.caseMag`)
    let mag := rows.foldl (fun m (_, x) =>
      [rabs (x.pre.acb.getD 0), rabs (x.post.acb.getD 0), rabs (x.gain.getD 0)].foldl (fun m v => if m < v then v else m) m) 0
    oracleRows mag initAcb c3 complete 0
      { books := Spec.Books.init dflt init, affs := [dflt], implAcb := if initAcb == 0 then [] else [(dflt, initAcb)],
        implShares := match init with | some st => [(dflt, st.shares)] | none => [] } rows

/-- C04, "a history free of these is never rejected": when the implementation rejects a row, the
    reason must be one of those C04 lists, judged on the implementation's OWN rows so far (the
    affiliate's latest reported status).  Only the clear-cut kinds are judged: purchases, returns
    of capital, cost-base adjustments, splits, and over-sales; anything about superficial losses is
    left to the C02 oracles.  Decisions within 1e-9 of their threshold are not judged. -/
def rejectOracle (dflt : Aff) (init : Option Status) (txs : List Tx) (impls : List ImplDelta) (implMsg : String) :
    List (String × String) :=
  let k := (impls.filter (fun x => !x.gen)).length
  match txs[k]? with
  | none => []
  | some t =>
    let last := (impls.reverse.find? (fun x => x.aff == t.aff)).map (·.post)
    let pre : Status := match last with
      | some s => s
      | none => if t.aff == dflt then (init.getD (defaultStatus t.aff)) else defaultStatus t.aff
    let allHeld : Rat := match impls.reverse.head? with
      | some x => x.post.all
      | none => (init.map (·.shares)).getD 0
    let eps : Rat := 1 / pow10 9
    let sflMsg := (implMsg.splitOn "uperficial").length > 1 || (implMsg.splitOn "30-day").length > 1
    let bad (why : String) : List (String × String) :=
      [("C04", s!"row {k} is rejected ({implMsg}) although {why}")]
    -- the consistency check "all-affiliate balance below the affiliate's own" fires on 1e-27 rounding
    -- residue after splits with non-terminating factors: that is the recorded decimal-noise class
    -- (F-04n), reported through the correspondence, not judged here
    if (implMsg.splitOn "share balance across all affiliates").length > 1 then [] else
    match t.act with
    | .buy .. => bad "a purchase is never a reason for rejection"
    | .sfla .. => if t.aff.registered then [] else bad "a cost-base adjustment on a non-registered affiliate is allowed"
    | .roc ps rate =>
      if t.aff.registered then []
      else
        let red := ps * pre.shares * rate
        let acb := pre.acb.getD 0
        -- within 1e-9 of the cost base only judged when both figures are short decimals (no rounding noise)
        if red ≤ acb - eps || (red ≤ acb && shortDecimal red && shortDecimal acb) then
          bad s!"the return of capital {ratToString red} does not exceed the cost base {ratToString acb}" else []
    | .split post pr io =>
      if !shortDecimal pre.shares then []
      else if io && pr > post && !isInteger (pre.shares * post / pr) then []
      else bad "the split leaves a valid balance" ++
        -- (C15: the same history restated in post-split terms has no such row and is not refused)
        [("C15", s!"row {k}: the split {ratToString post}-for-{ratToString pr} of {ratToString pre.shares} shares is refused ({implMsg}) although it leaves a valid balance")]
    | .sell sh _ _ _ _ _ =>
      if sflMsg then []
      else if sh ≤ pre.shares - eps && sh ≤ allHeld - eps then bad s!"the affiliate holds {ratToString pre.shares} shares and sells {ratToString sh}"
      else []

def alignedRows (txs : List Tx) (impls : List ImplDelta) : List (Tx × ImplDelta) :=
  (alignRows txs impls).getD []

end Driver
