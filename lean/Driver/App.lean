/-
  Family `app`: run_acb_app_to_delta_models vs Acb.runPipeline; per-security ledger oracles;
  the C08 metamorphic verdict computed by the harness on the implementation alone.
-/
import Driver.LedgerOracle
import Driver.SflOracle
import AcbModel.App.Pipeline
namespace Driver
open Acb

def parsePRow? : List String → Option PRow
  | "row" :: sec :: glob :: rest => do
    let sec ← sec.toNat?
    let tx ← parseTx? ("tx" :: rest)
    some { sec := sec, glob := parseBool glob, tx := tx }
  | _ => none

/-- Sort each maximal run of consecutive split rows that stem from one input row (same idx)
    by affiliate key: the order inside such a run is the HashSet iteration order (subject of C09). -/
partial def canonRuns {α : Type} (isSplit : α → Bool) (idx : α → Nat) (key : α → Nat) : List α → List α
  | [] => []
  | x :: xs =>
    if isSplit x then
      let run := xs.takeWhile (fun y => isSplit y && idx y == idx x)
      let rest := xs.drop run.length
      let sorted := ((x :: run).toArray.qsort (fun a b => key a < key b)).toList
      sorted ++ canonRuns isSplit idx key rest
    else x :: canonRuns isSplit idx key xs

structure ImplSec where
  sec : Nat
  deltas : List ImplDelta
  outcome : String
  msg : String

def parseImplSecs (tag : String) (lines : List (List String)) : Option (List ImplSec) := do
  let secLines := lines.filter (fun l => l.head? == some tag && l[1]? == some "sec")
  secLines.mapM (fun l => do
    let sec ← (← l[2]?).toNat?
    let outcome ← l[3]?
    let dls := lines.filter (fun m => m.head? == some tag && m[1]? == some "delta" && m[2]? == some (toString sec))
    let ds ← dls.mapM (fun m => parseImplDelta? ("impl" :: "delta" :: m.drop 3))
    some { sec := sec, deltas := ds, outcome := outcome, msg := String.intercalate " " (l.drop 4) })


/-- Canonical form of a security's implementation rows for run-to-run comparison: inside the rows a
    global split expands to (same read index) the order is the HashSet iteration order, so they are
    sorted by affiliate and their all-affiliate figures are blanked except after the last one. -/
partial def canonImpl : List ImplDelta → List ImplDelta
  | [] => []
  | x :: xs =>
    if x.act == "split" then
      let run := xs.takeWhile (fun (y : ImplDelta) => y.act == "split" && y.idx == x.idx)
      let rest := xs.drop run.length
      let all := x :: run
      let lastAll := (all.getLast?.map (fun (d : ImplDelta) => d.post.all)).getD 0
      let sorted := (all.toArray.qsort (fun (a b : ImplDelta) => a.aff.key < b.aff.key)).toList
      let n := sorted.length
      let blanked := sorted.zipIdx.map (fun ((d : ImplDelta), i) =>
        { d with pre := { d.pre with all := 0 },
                 post := { d.post with all := if i + 1 == n then lastAll else 0 } })
      blanked ++ canonImpl rest
    else x :: canonImpl xs

def cmpImplDelta (i : Nat) (a b : ImplDelta) : Option String :=
  if a.aff ≠ b.aff then some s!"row {i}: affiliate"
  else if a.act ≠ b.act then some s!"row {i}: action"
  else if !statusClose a.pre b.pre then some s!"row {i}: pre status"
  else if !statusClose a.post b.post then some s!"row {i}: post status ({ratToString a.post.shares},{ratToString a.post.all},{showOpt a.post.acb}) vs ({ratToString b.post.shares},{ratToString b.post.all},{showOpt b.post.acb})"
  else if !closeOpt a.gain b.gain then some s!"row {i}: gain {showOpt a.gain} vs {showOpt b.gain}"
  else match a.sfl, b.sfl with
    | none, none => none
    | some x, some y => if close x.loss y.loss && close (x.num / x.den) (y.num / y.den) then none else some s!"row {i}: superficial loss"
    | _, _ => some s!"row {i}: superficial loss present on one side only"

partial def cmpImplDeltas (i : Nat) : List ImplDelta → List ImplDelta → Option String
  | [], [] => none
  | a :: as, b :: bs =>
    match cmpImplDelta i a b with
    | some e => some e
    | none => cmpImplDeltas (i + 1) as bs
  | as, bs => some s!"row count {i + as.length} vs {i + bs.length}"

/-- Two runs of one security agree (C08): same outcome; same rows — up to the last split run when
    the security failed inside one (which affiliate's split row fails first is the HashSet order). -/
def secRunsAgree (a b : ImplSec) : Option String :=
  if a.outcome ≠ b.outcome then some s!"outcome {a.outcome} vs {b.outcome}"
  else
    let trim := fun (l : List ImplDelta) =>
      if a.outcome == "ok" then l
      else (l.reverse.dropWhile (fun (d : ImplDelta) => d.act == "split")).reverse
    cmpImplDeltas 0 (trim (canonImpl a.deltas)) (trim (canonImpl b.deltas))

structure SecCmp where
  sec : Nat
  diff : Option (String × String)
  oracles : List (String × String)
  ds : List Delta
  fail : Option Failure

def runApp (c : Case) : Res :=
  let dflt? : Option Aff := do
    let s ← kv? c.header "dflt"
    s.toNat?.map (fun k => ({ key := k, registered := false } : Aff))
  let rows? := (c.lines.filter (fun l => l.head? == some "row")).mapM parsePRow?
  let inits? : Option (List (Nat × Status)) :=
    (c.lines.filter (fun l => l.head? == some "init")).mapM (fun l => do
      let sec ← (← l[1]?).toNat?
      match (← l[2]?).splitOn ":" with
      | [sh, acb] => do
        let sh ← parseRat? sh
        let acb ← parseRat? acb
        some (sec, ({ shares := sh, all := sh, acb := some acb } : Status))
      | _ => none)
  let implSecs? := parseImplSecs "impl" c.lines
  let abortLine := c.lines.find? (fun l => l.head? == some "impl" && (l[1]? == some "abort" || l[1]? == some "panic"))
  let aloneSecs := (parseImplSecs "alone" c.lines).getD []
  let aloneAborts := (c.lines.filter (fun l => l.head? == some "alone" && l[1]? == some "secabort")).filterMap (fun l => (l[2]?).bind String.toNat?)
  match dflt?, rows?, inits?, implSecs? with
  | some dflt, some rows, some inits, some implSecs =>
    let initOf := fun s => (inits.find? (fun p => p.1 == s)).map (·.2)
    let sorted := sortRows rows
    let modelSec := fun (s : Nat) =>
      let holders := if (initOf s).isSome then [dflt] else []
      match replaceGlobalSplits dflt holders (rowsOf s sorted) with
      | none => (([] : List Tx), ([] : List Delta), some (Failure.err .splitConflict))
      | some txs =>
        let r := deltaList dflt (initOf s) txs
        (txs, r.1, r.2)
    let model : Option (List (Nat × List Delta × Option Failure)) :=
      some (runPipeline dflt initOf rows)
    let nGlob := (rows.filter isGlobalSplit).length
    let secs := secsOf rows
    let baseTags := [s!"secs={secs.length}", s!"rows={rows.length}", s!"gsplits={nGlob}",
                     s!"inits={inits.length}"]
    let ntTag := fun (extra : List String) => "nt=" ++ String.intercalate "," extra
    let fullAborted := (c.lines.any (fun l => l.head? == some "impl" && l[1]? == some "abort"))
    let c08fail : Option String :=
      if fullAborted then
        -- the whole run aborted: fine only if every security aborts on its own as well
        match aloneSecs.head? with
        | some x => some s!"security {x.sec} is fine on its own but the whole run aborts"
        | none => none
      else
        match aloneAborts.head? with
        | some s => some s!"security {s} aborts on its own but not in the full run"
        | none =>
          (implSecs.filterMap (fun (x : ImplSec) =>
            match aloneSecs.find? (fun (y : ImplSec) => y.sec == x.sec) with
            | none => none
            | some y => (secRunsAgree x y).map (fun e => s!"security {x.sec} differs between the full run and the run on its own rows: {e}"))).head?
    match abortLine with
    | some l =>
      let kind := l[1]?.getD "?"
      let msg := String.intercalate " " (l.drop 2)
      if kind == "panic" then
        { verdict := "DIFF", tags := ["dk=panic", ntTag ["C05"], "abort=panic"] ++ baseTags, msg := "implementation panicked: " ++ msg }
      else
        match c08fail with
        | some m => { verdict := "ORACLE", tags := ["of=C04,C08", ntTag ["C08"], "abort=1"] ++ baseTags, msg := "C04/C08: " ++ m ++ " || " ++ msg }
        | none =>
          match model with
          | none => { verdict := "ok", tags := [ntTag ["C08"], "abort=1"] ++ baseTags }
          | some _ => { verdict := "DIFF", tags := ["dk=abort", ntTag ["C08"], "abort=1"] ++ baseTags, msg := "implementation aborted the run, model did not: " ++ msg }
    | none =>
      match model with
      | none => { verdict := "DIFF", tags := ["dk=abort", ntTag ["C08"], "abort=0"] ++ baseTags, msg := "model aborts (split validation), implementation did not" }
      | some ms =>
        -- per security comparison
        let cmpOne := fun (s : Nat) (x : ImplSec) (txs : List Tx) (ds : List Delta) (fail : Option Failure) =>
          let modelOutcome := match fail with | none => "ok" | some (.err _) => "err" | some (.panic _) => "panic"
          let os := ledgerOracles dflt (initOf s) txs x.deltas (x.outcome == "ok")
          -- the superficial-loss rule, evaluated declaratively on the implementation's rows
          let os := if os.isEmpty && x.outcome == "ok" && !nearThreshold ds then
                      sflOracle dflt (initOf s) (alignedRows txs x.deltas) else os
          let os := if os.isEmpty && x.outcome == "err" && (x.msg.splitOn "max allowed discrepancy").length > 1 then
                      let done := alignedRows txs x.deltas
                      let k := (done.filter (fun (_, y) => !y.gen)).length
                      sflTolRejectOracle dflt (initOf s) (done.map (·.1) ++ txs.drop k) done.length
                    else os
          -- a rejection must have one of the reasons C04 lists (the split-validation heuristic is F-04d)
          let os := if os.isEmpty && x.outcome == "err" && !nearThreshold ds && (x.msg.splitOn "global split").length ≤ 1 then
                      rejectOracle dflt (initOf s) txs x.deltas x.msg else os
          if nearThreshold ds || noiseBuyer txs ds x.deltas then ({ sec := s, diff := none, oracles := [], ds := ds, fail := fail } : SecCmp)
          else if modelOutcome ≠ x.outcome then
            { sec := s, diff := some ("dk=outcome", s!"security {s}: outcome model={modelOutcome}({match fail with | some f => failureName f | none => ""}) impl={x.outcome} {x.msg}"), oracles := os, ds := ds, fail := fail }
          else if modelOutcome == "err" && ds.length ≠ x.deltas.length then
            { sec := s, diff := some ("dk=outcome", s!"security {s}: outcome model=err({match fail with | some f => failureName f | none => ""})@row{ds.length} impl=err@row{x.deltas.length} {x.msg}"), oracles := os, ds := ds, fail := fail }
          else match cmpDeltas 0 ds x.deltas with
            | some e =>
              let dk := if (e.splitOn "sfl").length > 1 || (e.splitOn "over-applied").length > 1 || (e.splitOn "row count").length > 1 || (e.splitOn "action").length > 1 || (e.splitOn "affiliate").length > 1 then "dk=sfl" else "dk=status"
              { sec := s, diff := some (dk, s!"security {s}: {e}"), oracles := os, ds := ds, fail := fail }
            | none => { sec := s, diff := none, oracles := os, ds := ds, fail := fail }
        let results : List SecCmp := ms.map (fun (s, ds, fail) =>
          match implSecs.find? (fun (x : ImplSec) => x.sec == s) with
          | none => ({ sec := s, diff := some ("dk=rows", s!"security {s}: missing in the implementation's result"), oracles := [], ds := ds, fail := fail } : SecCmp)
          | some x =>
            let (txs, ds, fail) := modelSec s
            cmpOne s x txs ds fail)
        let extraSecs := implSecs.filter (fun (x : ImplSec) => !(ms.any (fun m => m.1 == x.sec)))
        let oracleFails := results.flatMap (fun r => r.oracles)
        let oracleFails := oracleFails ++ (match c08fail with | some m => [("C08", m)] | none => [])
        -- a rejection for a reason C04 does not list: the duplicate-split heuristic of splits.rs
        let oracleFails := oracleFails ++ (implSecs.filterMap (fun (x : ImplSec) =>
          if x.outcome == "err" && (x.msg.splitOn "near global split").length > 1 then
            some ("C04", s!"security {x.sec}: rejected by the probable-duplicate-split heuristic (a split for all affiliates within a day of an affiliate-specific one), which is not among the reasons a possible history may be rejected for")
          else none))
        let diffs := results.filterMap (fun r => r.diff)
        let diffs := diffs ++ extraSecs.map (fun x => ("dk=rows", s!"security {x.sec}: only in the implementation's result"))
        let nErr := (results.filter (fun r => r.fail.isSome)).length
        let nSfl := (results.map (fun r => (r.ds.filter (fun d => d.sfl.isSome)).length)).foldl (· + ·) 0
        let tags := [ntTag (["C05"] ++ (if secs.length ≥ 2 then ["C08"] else []) ++ (if nGlob ≥ 1 then ["C15", "C09"] else []) ++ (if nErr ≥ 1 then ["C04"] else [])),
                     "abort=0", s!"secerr={nErr}", s!"sfl={nSfl}"] ++ baseTags
        if !oracleFails.isEmpty then
          { verdict := "ORACLE", tags := s!"of={String.intercalate "," (oracleFails.map (·.1)).eraseDups}" :: tags,
            msg := String.intercalate "; " (oracleFails.map (fun (p, m) => p ++ ": " ++ m)) }
        else match diffs with
          | (dk, m) :: _ => { verdict := "DIFF", tags := dk :: tags, msg := m }
          | [] => { verdict := "ok", tags := tags }
  | _, _, _, _ => { verdict := "BADCASE", msg := "unparsable app case" }

end Driver
