/-
  Family `ledger`: txs_to_delta_list(txs, init) vs Acb.deltaList.
-/
import Driver.Proto
import AcbModel.Ledger.Delta
namespace Driver
open Acb

def parseAff? (k r : String) : Option Aff := do
  let k ← k.toNat?
  some { key := k, registered := r == "R" }

def parseBool (s : String) : Bool := s == "1"

def parseTx? : List String → Option Tx
  | "tx" :: tr :: st :: idx :: ak :: ar :: rest => do
    let tr ← parseInt? tr
    let st ← parseInt? st
    let idx ← idx.toNat?
    let af ← parseAff? ak ar
    let act ← (match rest with
      | ["buy", sh, px, comm, rate, crate] => do
        some (Action.buy (← parseRat? sh) (← parseRat? px) (← parseRat? comm) (← parseRat? rate) (← optRat? crate))
      | ["sell", sh, px, comm, rate, crate, sfl, force] => do
        let s ← optRat? sfl
        some (Action.sell (← parseRat? sh) (← parseRat? px) (← parseRat? comm) (← parseRat? rate) (← optRat? crate)
          (s.map (fun v => (v, parseBool force))))
      | ["roc", ps, rate] => do some (Action.roc (← parseRat? ps) (← parseRat? rate))
      | ["sfla", sh, ps] => do some (Action.sfla (← parseRat? sh) (← parseRat? ps))
      | ["split", post, pre, io] => do some (Action.split (← parseRat? post) (← parseRat? pre) (parseBool io))
      | _ => none)
    some { trade := tr, settle := st, idx := idx, aff := af, act := act }
  | _ => none

def actName : Action → String
  | .buy .. => "buy" | .sell .. => "sell" | .roc .. => "roc" | .sfla .. => "sfla" | .split .. => "split"

structure ImplDelta where
  aff : Aff
  act : String
  pre : Status
  post : Status
  gain : Option Rat
  sfl : Option SflInfo
  sflaAmt : Option Rat     -- for sfla rows: total amount
  gen : Bool := false      -- automatically generated SfLA row
  idx : Nat := 0           -- read index of the row (generated rows inherit the sale's)
  settle : Int := 0        -- settlement date (Julian day)

def parseStatus? (sh all acb : String) : Option Status := do
  some { shares := ← parseRat? sh, all := ← parseRat? all, acb := ← optRat? acb }

def parseImplDelta? : List String → Option ImplDelta
  | ["impl", "delta", ak, ar, act, psh, pall, pacb, qsh, qall, qacb, gain, sl, sn, sd, so, amt, g, idx, settle] => do
    let af ← parseAff? ak ar
    let pre ← parseStatus? psh pall pacb
    let post ← parseStatus? qsh qall qacb
    let gain ← optRat? gain
    let sfl ← (if sl == "-" then some none else do
      some (some { loss := ← parseRat? sl, num := ← parseRat? sn, den := ← parseRat? sd, over := parseBool so }))
    let amt ← optRat? amt
    some { aff := af, act := act, pre := pre, post := post, gain := gain, sfl := sfl, sflaAmt := amt, gen := g == "1", idx := idx.toNat?.getD 0, settle := (parseInt? settle).getD 0 }
  | _ => none

def statusClose (a b : Status) : Bool :=
  close a.shares b.shares && close a.all b.all && closeOpt a.acb b.acb

/-- the largest money figure of a report: a 28-digit decimal computation cannot resolve differences
    below about 1e-28 of it (1e-22 is allowed) -/
def caseMag (ds : List Delta) : Rat :=
  ds.foldl (fun m d =>
    let vals := [rabs (d.pre.acb.getD 0), rabs (d.post.acb.getD 0), rabs (d.gain.getD 0)]
    vals.foldl (fun m v => if m < v then v else m) m) 0

def statusCloseAt (mag : Rat) (a b : Status) : Bool :=
  close a.shares b.shares && close a.all b.all && closeOptAt mag a.acb b.acb

def failureName : Failure → String
  | .err k => "err:" ++ (reprStr k)
  | .panic s => "panic:" ++ (reprStr s)

def sflaAmount (d : Delta) : Option Rat :=
  match d.tx.act with
  | .sfla sh ps => some (sh * ps)
  | _ => none

/-- tiny = generated amount below the comparison tolerance: may exist on one side only. -/
def tinyDelta (d : Delta) : Bool :=
  match d.tx.act with
  | .sfla sh ps => rabs (sh * ps) ≤ 1 / pow10 9
  | _ => false

def cmpDelta (mag : Rat) (i : Nat) (m : Delta) (x : ImplDelta) : Option String :=
  if m.tx.aff ≠ x.aff then some s!"row {i}: affiliate model={m.tx.aff.key} impl={x.aff.key}"
  else if actName m.tx.act ≠ x.act then some s!"row {i}: action model={actName m.tx.act} impl={x.act}"
  else if !statusCloseAt mag m.pre x.pre then
    some s!"row {i}: pre status model=({ratToString m.pre.shares},{ratToString m.pre.all},{showOpt m.pre.acb}) impl=({ratToString x.pre.shares},{ratToString x.pre.all},{showOpt x.pre.acb})"
  else if !statusCloseAt mag m.post x.post then
    some s!"row {i}: post status model=({ratToString m.post.shares},{ratToString m.post.all},{showOpt m.post.acb}) impl=({ratToString x.post.shares},{ratToString x.post.all},{showOpt x.post.acb})"
  else if !closeOptAt mag m.gain x.gain then
    some s!"row {i}: gain model={showOpt m.gain} impl={showOpt x.gain}"
  else
    match m.sfl, x.sfl with
    | none, none => none
    | some a, some b =>
      if !closeAt mag a.loss b.loss then some s!"row {i}: sfl amount model={ratToString a.loss} impl={ratToString b.loss}"
      else if !close (a.num / a.den) (b.num / b.den) then some s!"row {i}: sfl ratio model={ratToString a.num}/{ratToString a.den} impl={ratToString b.num}/{ratToString b.den}"
      else if a.over ≠ b.over && rabs a.overMargin > 1 / pow10 9 then some s!"row {i}: over-applied flag model={a.over} impl={b.over}"
      else none
    | some a, none => if rabs a.loss ≤ 1 / pow10 9 then none else some s!"row {i}: sfl model={ratToString a.loss} impl=none"
    | none, some b => if rabs b.loss ≤ 1 / pow10 9 then none else some s!"row {i}: sfl model=none impl={ratToString b.loss}"

partial def cmpDeltasAt (mag : Rat) (i : Nat) : List Delta → List ImplDelta → Option String
  | [], [] => none
  | m :: ms, x :: xs =>
    match cmpDelta mag i m x with
    | some e => some e
    | none => cmpDeltasAt mag (i + 1) ms xs
  | ms, xs => some s!"row count model={i + ms.length} impl={i + xs.length}"

def cmpDeltas (i : Nat) (ms : List Delta) (xs : List ImplDelta) : Option String :=
  cmpDeltasAt (caseMag ms) i ms xs

/-- Decisions of the model that sit within 1e-9 of (but not on) their threshold. -/
def nearThreshold (ds : List Delta) : Bool :=
  ds.any (fun d =>
    let near0 (x : Rat) : Bool := x ≠ 0 && rabs x ≤ 1 / pow10 9
    (match d.gain, d.sfl with
     | some g, none => near0 g
     | some g, some s => near0 (g + s.loss) || near0 s.loss
     | _, _ => false)
    || near0 d.post.shares || near0 d.post.all
    || (match d.post.acb with | some a => near0 a | none => false))

def ledgerTags (txs : List Tx) (ds : List Delta) (fail : Option Failure) : List String :=
  let affs := (txs.map (·.aff)).eraseDups
  let nSfl := (ds.filter (fun d => d.sfl.isSome)).length
  let nPartial := (ds.filter (fun d => match d.sfl with | some s => s.num < s.den | none => false)).length
  let nOver := (ds.filter (fun d => match d.sfl with | some s => s.over | none => false)).length
  let nLoss := (ds.filter (fun d => match d.gain, d.sfl with
      | some g, none => g < 0 | some _, some _ => true | _, _ => false)).length
  let nSellNonReg := (txs.filter (fun t => t.act.isSell && !t.aff.registered)).length
  let c3 := txs.all (fun t => !t.aff.registered &&
      (match t.act with | .sell _ _ _ _ _ (some _) => false | .sfla .. => false | _ => true))
  let nt := (if txs.length ≥ 3 && nSellNonReg ≥ 1 then ["C01"] else []) ++
            (if nLoss ≥ 1 then ["C02"] else []) ++
            (if c3 && nSfl ≥ 1 then ["C03"] else []) ++
            (if txs.length ≥ 2 then ["C04"] else []) ++ ["C05"] ++
            (if txs.any (·.act.isSplit) then ["C15"] else [])
  [s!"nt={String.intercalate "," nt}", s!"n={txs.length}", s!"affs={affs.length}", s!"reg={(affs.filter (·.registered)).length}",
   s!"loss={nLoss}", s!"sfl={nSfl}", s!"partial={nPartial}", s!"over={nOver}",
   s!"splits={(txs.filter (·.act.isSplit)).length}",
   s!"out={match fail with | none => "ok" | some f => failureName f}"]

structure LedgerParsed where
  dflt : Aff
  init : Option Status
  txs : List Tx
  impls : List ImplDelta
  implOutcome : String
  implMsg : String

def parseLedger (c : Case) : Option LedgerParsed := do
  let dflt ← (do
    let s ← kv? c.header "dflt"
    s.toNat?.map (fun k => ({ key := k, registered := false } : Aff)))
  let initS := (kv? c.header "init").getD "-"
  let init ← (if initS == "-" then some none else
      match initS.splitOn ":" with
      | [sh, acb] => do
        let sh ← parseRat? sh
        let acb ← optRat? acb
        some (some ({ shares := sh, all := sh, acb := acb } : Status))
      | _ => none)
  let txLines := c.lines.filter (fun l => l.head? == some "tx")
  let implLines := c.lines.filter (fun l => l.head? == some "impl" && l[1]? == some "delta")
  let resLine := c.lines.find? (fun l => l.head? == some "impl" && l[1]? == some "result")
  let txs ← txLines.mapM parseTx?
  let impls ← implLines.mapM parseImplDelta?
  let implOutcome := match resLine with
    | some (_ :: _ :: o :: _) => o
    | _ => "?"
  some { dflt := dflt, init := init, txs := txs, impls := impls, implOutcome := implOutcome,
         implMsg := String.intercalate " " ((resLine.getD []).drop 3) }

/-- `q` has a finite decimal expansion (its reduced denominator is a product of 2s and 5s) -/
partial def stripFactor (n f : Nat) : Nat := if n % f == 0 && n > 0 && f > 1 then stripFactor (n / f) f else n
def finiteDecimal (q : Rat) : Bool := stripFactor (stripFactor q.den 2) 5 == 1

/-- some split of the history has a factor (or inverse factor) without a finite decimal expansion -/
def hasNonTermSplit (txs : List Tx) : Bool :=
  txs.any (fun t => match t.act with
    | .split post pre _ => pre != 0 && post != 0 && (!finiteDecimal (post / pre) || !finiteDecimal (pre / post))
    | _ => false)

/-- Decimal noise at a zero threshold (cf. F-04n): after divisions by a split factor without a finite
    decimal expansion, a buyer who sold everything can end the window with 1e-27 shares instead of 0
    in the implementation's 28-digit arithmetic; it then counts as "still holding" and receives the
    whole adjustment, where exact arithmetic finds no buyer holding shares.  The reports part at a
    generated SfLA row for an affiliate that holds nothing.  Such a case is skipped like the other
    near-threshold cases: the first row on which model and implementation differ in kind or
    affiliate is, on the implementation's side, a generated adjustment of an affiliate with no shares. -/
partial def noiseBuyerAt : List Delta → List ImplDelta → Bool
  | m :: ms, x :: xs =>
    if m.tx.aff == x.aff && actName m.tx.act == x.act then noiseBuyerAt ms xs
    else x.gen && x.act == "sfla" && x.pre.shares == 0
  | [], x :: _ => x.gen && x.act == "sfla" && x.pre.shares == 0
  | _, _ => false

def noiseBuyer (txs : List Tx) (ms : List Delta) (xs : List ImplDelta) : Bool :=
  hasNonTermSplit txs && noiseBuyerAt ms xs

/-- Correspondence verdict: (diffKind, message) or none. -/
def ledgerCompare (p : LedgerParsed) : Res :=
  let (ds, fail) := deltaList p.dflt p.init p.txs
  let tags := ledgerTags p.txs ds fail
  let modelOutcome := match fail with
    | none => "ok" | some (.err _) => "err" | some (.panic _) => "panic"
  if nearThreshold ds || noiseBuyer p.txs ds p.impls then { verdict := "ok", tags := "near=1" :: tags }
  else if p.implOutcome == "panic" then
    { verdict := "DIFF", tags := "dk=panic" :: tags,
      msg := s!"implementation panicked (model: {modelOutcome}): {p.implMsg}" }
  else if modelOutcome ≠ p.implOutcome then
    { verdict := "DIFF", tags := "dk=outcome" :: tags,
      msg := s!"outcome model={modelOutcome}({match fail with | some f => failureName f | none => ""}) impl={p.implOutcome} {p.implMsg}" }
  else if modelOutcome == "err" && ds.length ≠ p.impls.length then
    -- both reject, but at different rows
    { verdict := "DIFF", tags := "dk=outcome" :: tags,
      msg := s!"outcome model=err({match fail with | some f => failureName f | none => ""})@row{ds.length} impl=err@row{p.impls.length} {p.implMsg}" }
  else
    match cmpDeltas 0 ds p.impls with
    | some e =>
      let dk := if (e.splitOn "sfl").length > 1 || (e.splitOn "over-applied").length > 1 || (e.splitOn "row count").length > 1 || (e.splitOn "action").length > 1 then "sfl"
                else "status"
      { verdict := "DIFF", tags := s!"dk={dk}" :: tags, msg := e }
    | none => { verdict := "ok", tags := tags }

end Driver
