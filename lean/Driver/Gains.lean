/-
  Family `gains` (C06): footers and aggregate table of the real application vs `Acb.Gains`, and
  the property's own oracle on the implementation's tables alone: footer = sums of the rendered
  rows by settlement year, aggregate = sums of the footers of the securities that completed,
  "Since inception" = sum of its years, and every dollar figure printed with default options =
  the figure printed with --print-full-values rounded half away from zero to cents.
-/
import Driver.Proto
import Driver.Costs
import AcbModel.App.Gains
import AcbModel.App.Year
namespace Driver
open Acb Acb.Gains

structure FootLine where
  year : Option Int       -- none = "Total" / "Since inception"
  full : Rat
  dflt : Rat

structure GainsParsed where
  nsecs : Nat
  ok : List (Nat × Bool)
  grows : List (Nat × GRow)             -- deltas (model input)
  growYears : List (Int × Int)
  trows : List (Nat × Int × Option Rat × Option Rat)   -- rendered rows: sec, day, gain full, gain default
  tfoot : List (Nat × FootLine)
  terr : List (Nat × Nat)
  agg : List FootLine
  cells : List (Rat × Rat × String)
  cellMismatch : List String
  boundary : Nat
  result : String
  resultMsg : String

def parseFoot? (lbl full dflt : String) : Option FootLine := do
  let y ← (if lbl == "total" then some none else (parseInt? lbl).map some)
  some { year := y, full := ← parseRat? full, dflt := ← parseRat? dflt }

def parseGains (c : Case) : Option GainsParsed := do
  let secs := (linesOf c "secs").head?.getD ["secs"]
  let ok ← (linesOf c "gsec").mapM (fun l => match l with
    | [_, si, o] => do some (← si.toNat?, o == "1")
    | _ => none)
  let grows ← (linesOf c "grow").mapM (fun l => match l with
    | [_, si, jd, yr, g] => do
      let d ← parseInt? jd
      some ((← si.toNat?, ({ day := d, gain := ← optRat? g } : GRow)), (d, ← parseInt? yr))
    | _ => none)
  let trows ← (linesOf c "trow").mapM (fun l => match l with
    | [_, si, jd, gf, gd] => do some (← si.toNat?, ← parseInt? jd, ← optRat? gf, ← optRat? gd)
    | _ => none)
  let tfoot ← (linesOf c "tfoot").mapM (fun l => match l with
    | [_, si, lbl, f, d] => do some (← si.toNat?, ← parseFoot? lbl f d)
    | _ => none)
  let terr ← (linesOf c "terr").mapM (fun l => match l with
    | [_, si, n] => do some (← si.toNat?, ← n.toNat?)
    | _ => none)
  let agg ← (linesOf c "agg").mapM (fun l => match l with
    | [_, lbl, f, d] => parseFoot? lbl f d
    | _ => none)
  let cells ← (linesOf c "cell").mapM (fun l => match l with
    | [_, f, d, raw] => do some (← parseRat? f, ← parseRat? d, raw)
    | _ => none)
  let resLine := (linesOf c "impl" (some "result")).head?.getD []
  some { nsecs := secs.length - 1, ok := ok, grows := grows.map (·.1), growYears := grows.map (·.2),
         trows := trows, tfoot := tfoot, terr := terr, agg := agg, cells := cells,
         cellMismatch := (linesOf c "cellmismatch").map (fun l => String.intercalate " " l),
         boundary := (((linesOf c "boundary").head?.bind (·[1]?)).bind String.toNat?).getD 0,
         result := resLine[2]?.getD "?", resultMsg := String.intercalate " " (resLine.drop 3) }

def sumRats (l : List Rat) : Rat := l.foldl (· + ·) 0

/-- exactly two decimals, as `format!("{:.2}")` prints -/
def twoDecimals (raw : String) : Bool :=
  match raw.splitOn "." with
  | [i, f] => i.length ≥ 1 && f.length == 2 && i.all Char.isDigit && f.all Char.isDigit
  | _ => false

def footOf (p : GainsParsed) (si : Nat) : List FootLine := (p.tfoot.filter (·.1 == si)).map (·.2)

def showFoot (l : List (Option Int × Rat)) : String :=
  String.intercalate "," (l.map (fun (y, v) => (match y with | some y => toString y | none => "T") ++ ":" ++ ratToString v))

def sameTable (a b : List (Option Int × Rat)) : Bool :=
  a.length == b.length && (a.zip b).all (fun (x, y) => x.1 == y.1 && close x.2 y.2)

/-- `v` is within 1e-7 cents of the middle between two cents: the model's exact value and the
    implementation's 28-digit decimal may then fall on different sides (near-threshold, skipped) -/
def nearMid (v : Rat) : Bool :=
  let y := rabs v * 100
  rabs (y - (y.floor : Rat) - 1/2) ≤ 1 / pow10 7

/-- default-mode table: equal to the model's, except where the model's full value is `nearMid`
    (then either neighbouring cent is accepted).  Returns (same, some cell was near). -/
def sameCents (mFull mDef impl : List (Option Int × Rat)) : Bool × Bool :=
  if !(mFull.length == mDef.length && mDef.length == impl.length) then (false, false) else
  let cells := (mFull.zip mDef).zip impl
  let ok := cells.all (fun ((f, d), x) => d.1 == x.1 &&
    (close d.2 x.2 || (nearMid f.2 && rabs (d.2 - x.2) ≤ 1 / 100 + 1 / pow10 9)))
  let near := cells.any (fun ((f, d), x) => !close d.2 x.2 && nearMid f.2)
  (ok, near)

/-- correspondence: model vs implementation -/
def gainsDiff (p : GainsParsed) : Option String :=
  let results : List SecResult := p.ok.map (fun (si, o) =>
    { ok := o, rows := (p.grows.filter (·.1 == si)).map (·.2) })
  let perSec := (p.ok.zip results).findSome? (fun ((si, _), r) =>
    let g := tableGains yearOfJd r
    let implF := footOf p si
    let mf := footer true g
    let md := footer false g
    if !sameTable mf (implF.map (fun f => (f.year, f.full))) then
      some s!"security {si} footer (full): model {showFoot mf} impl {showFoot (implF.map (fun f => (f.year, f.full)))}"
    else if !(sameCents mf md (implF.map (fun f => (f.year, f.dflt)))).1 then
      some s!"security {si} footer (default): model {showFoot md} impl {showFoot (implF.map (fun f => (f.year, f.dflt)))}"
    else
      -- rendered rows carry the deltas' gains
      let dg := r.rows.map (·.gain)
      let tg := (p.trows.filter (·.1 == si)).map (fun t => t.2.2.1)
      if dg.length ≠ tg.length || !(dg.zip tg).all (fun (a, b) => closeOpt a b) then
        some s!"security {si}: rendered capital gains differ from the deltas'"
      else none)
  match perSec with
  | some e => some e
  | none =>
    let agg := aggGains id id (completed yearOfJd results)
    let ma := aggTable true agg
    let md := aggTable false agg
    if !sameTable ma (p.agg.map (fun f => (f.year, f.full))) then
      some s!"aggregate (full): model {showFoot ma} impl {showFoot (p.agg.map (fun f => (f.year, f.full)))}"
    else if !(sameCents ma md (p.agg.map (fun f => (f.year, f.dflt)))).1 then
      some s!"aggregate (default): model {showFoot md} impl {showFoot (p.agg.map (fun f => (f.year, f.dflt)))}"
    else none

def yearsOfFoot (l : List FootLine) : List Int := l.filterMap (·.year)

/-- the property itself on the implementation's tables alone -/
def gainsOracle (p : GainsParsed) : Option String :=
  let okSecs := (p.ok.filter (fun (si, o) => o && ((p.terr.find? (·.1 == si)).map (·.2)).getD 0 == 0)).map (·.1)
  -- (1) footers vs rendered rows
  let e1 := okSecs.findSome? (fun si =>
    let rows := (p.trows.filter (·.1 == si)).filterMap (fun t => t.2.2.1.map (fun g => (yearOfJd t.2.1, g)))
    let f := footOf p si
    let years := Costs.sortDays (Costs.dedup (rows.map (·.1)))
    if yearsOfFoot f ≠ years then some s!"security {si}: years under the table {yearsOfFoot f}, years with a capital gain {years}"
    else
      let bad := f.findSome? (fun fl => match fl.year with
        | some y =>
          let want := sumRats ((rows.filter (·.1 == y)).map (·.2))
          if close fl.full want then none else some s!"security {si}: year {y} shows {ratToString fl.full}, its rows sum to {ratToString want}"
        | none =>
          let want := sumRats ((f.filter (·.year.isSome)).map (·.full))
          if close fl.full want then none else some s!"security {si}: total {ratToString fl.full}, its years sum to {ratToString want}")
      match bad with
      | some e => some e
      | none => if (f.filter (·.year.isNone)).length == 1 then none else some s!"security {si}: no single Total line")
  match e1 with
  | some e => some e
  | none =>
  -- (2) aggregate vs footers of the securities that completed
  let allYears := Costs.sortDays (Costs.dedup (okSecs.flatMap (fun si => yearsOfFoot (footOf p si))))
  if yearsOfFoot p.agg ≠ allYears then some s!"aggregate years {yearsOfFoot p.agg}, years under completed tables {allYears}"
  else
    let bad := p.agg.findSome? (fun fl => match fl.year with
      | some y =>
        let want := sumRats (okSecs.map (fun si => (((footOf p si).find? (·.year == some y)).map (·.full)).getD 0))
        if close fl.full want then none else some s!"aggregate {y} shows {ratToString fl.full}, the completed securities sum to {ratToString want}"
      | none =>
        let want := sumRats ((p.agg.filter (·.year.isSome)).map (·.full))
        if close fl.full want then none else some s!"Since inception {ratToString fl.full}, its years sum to {ratToString want}")
    match bad with
    | some e => some e
    | none =>
    if (p.agg.filter (·.year.isNone)).length ≠ 1 then some "aggregate: no single Since inception line" else
    -- (3) display: default = full rounded half away from zero to cents, printed with two decimals
    match p.cellMismatch.head? with
    | some m => some s!"default and full renderings differ in shape: {m}"
    | none =>
      match p.cells.find? (fun (f, d, raw) => !(d == roundCent f) || !twoDecimals raw) with
      | some (f, d, raw) => some s!"figure {ratToString f} is displayed as {raw} ({ratToString d}); rounded half away from zero it is {ratToString (roundCent f)}"
      | none => none

def isTie (f : Rat) : Bool := ((rabs f) * 1000).den == 1 && (((rabs f) * 1000).num % 10 == 5)

def gainsTags (p : GainsParsed) : List String :=
  let gainRows := (p.grows.filter (fun g => g.2.gain.isSome)).length
  let years := Costs.dedup (p.agg.filterMap (·.year))
  let nerr := (p.ok.filter (fun x => !x.2)).length
  let ties := (p.cells.filter (fun (f, _, _) => isTie f)).length
  let negs := (p.cells.filter (fun (f, _, _) => f < 0)).length
  let lossy := (p.cells.filter (fun (f, d, _) => f ≠ d)).length
  let nt := (if gainRows ≥ 2 && p.cells.length ≥ 4 then "C06" else "") ++ (if p.nsecs ≥ 2 then ",C08" else "")
  let b (n : Nat) (k : Nat) : String := if n ≥ k then s!"{k}+" else toString n
  [s!"nt={nt}", s!"nsec={p.nsecs}", s!"gains={b gainRows 6}", s!"years={b years.length 5}", s!"errsecs={nerr}",
   s!"boundary={b p.boundary 2}", s!"ties={b ties 3}", s!"neg={b negs 3}", s!"rounded={b lossy 10}", s!"out={p.result}"]

def runGains (c : Case) : Res :=
  match parseGains c with
  | none => { verdict := "BADCASE", msg := "unparsable gains case" }
  | some p =>
    let tags := gainsTags p
    match p.growYears.find? (fun (d, y) => yearOfJd d ≠ y) with
    | some (d, y) => { verdict := "DIFF", tags := "dk=year" :: tags, msg := s!"year of day {d}: model {yearOfJd d} impl {y}" }
    | none =>
    if p.result == "err" then { verdict := "ok", tags := "skipped=err" :: tags }
    else if p.result ≠ "ok" then
      { verdict := "DIFF", tags := "dk=panic" :: tags, msg := s!"implementation: {p.result} {p.resultMsg}" }
    else
      let results : List SecResult := p.ok.map (fun (si, o) =>
        { ok := o, rows := (p.grows.filter (·.1 == si)).map (·.2) })
      let nearSec := (p.ok.zip results).any (fun ((si, _), r) =>
        let g := tableGains yearOfJd r
        (sameCents (footer true g) (footer false g) ((footOf p si).map (fun f => (f.year, f.dflt)))).2)
      let agg := aggGains id id (completed yearOfJd results)
      let nearAgg := (sameCents (aggTable true agg) (aggTable false agg) (p.agg.map (fun f => (f.year, f.dflt)))).2
      let tags := if nearSec || nearAgg then "near=1" :: tags else tags
      match gainsOracle p, gainsDiff p with
      | some e, d => { verdict := "ORACLE",
                       -- the aggregate is the sum of the completed securities' own figures: also C08
                       tags := (if e.startsWith "aggregate" then "of=C06,C08" else "of=C06") :: tags,
                       msg := e ++ (match d with | some x => " || model: " ++ x | none => "") }
      | none, some x => { verdict := "DIFF", tags := "dk=gains" :: tags, msg := x }
      | none, none => { verdict := "ok", tags := tags }

end Driver
