/-
  Family `determinism` (C09): repeated runs of the real front end must give one output per mode
  (the property's oracle, on the implementation alone), and the split expansion of every security
  must be the model's (`Acb.Splits.expand`, for the identity and the reversed hash order).
-/
import Driver.Proto
import Driver.Costs
import AcbModel.App.Splits
namespace Driver
open Acb Acb.Splits

structure ModeObs where
  name : String
  runs : Nat
  distinct : Nat
  exit : Int
  diff : String

structure DetParsed where
  dflt : Nat
  before : List (Nat × STx)
  after : List (Nat × STx)
  expandRes : List (Nat × String)
  modes : List ModeObs
  splitsProblem : Option String

def parseSx? (toks : List String) : Option (Nat × STx) :=
  match toks with
  | [si, tr, sp, af, tag] => do
    let aff ← (if af == "g" then some none else af.toNat?.map some)
    some (← si.toNat?, { trade := ← parseInt? tr, isSplit := sp == "1", aff := aff, tag := ← tag.toNat? })
  | _ => none

def parseDet (c : Case) : Option DetParsed := do
  let dflt := (((linesOf c "dflt").head?.bind (·[1]?)).bind String.toNat?).getD 0
  let before ← (linesOf c "sx").mapM (fun l => parseSx? (l.drop 1))
  let after ← (linesOf c "impl" (some "sx")).mapM (fun l => parseSx? (l.drop 2))
  let ex ← (linesOf c "impl" (some "expand")).mapM (fun l => match l with
    | _ :: _ :: si :: r :: _ => do some (← si.toNat?, r)
    | _ => none)
  let modes ← (linesOf c "impl" (some "mode")).mapM (fun l => match l with
    | _ :: _ :: name :: "runs" :: n :: "distinct" :: k :: "exit" :: e :: rest => do
      let rest := rest.dropWhile (· ≠ "diff")
      some { name := name, runs := ← n.toNat?, distinct := ← k.toNat?, exit := ← parseInt? e,
             diff := String.intercalate " " (rest.drop 1) }
    | _ => none)
  some { dflt := dflt, before := before, after := after, expandRes := ex, modes := modes,
         splitsProblem := (linesOf c "impl" (some "splits")).head?.map (fun l => String.intercalate " " (l.drop 2)) }

def detDiff (p : DetParsed) : Option String :=
  match p.splitsProblem with
  | some m => some s!"split observation failed: {m}"
  | none =>
  p.expandRes.findSome? (fun (si, r) =>
    let txs := (p.before.filter (·.1 == si)).map (·.2)
    let want := (p.after.filter (·.1 == si)).map (·.2)
    let m1 := expand id p.dflt txs
    let m2 := expand List.reverse p.dflt txs
    match m1, m2, r with
    | .ok a, .ok b, "ok" =>
      if a ≠ want then some s!"security {si}: expansion differs from the model's (affiliates model {a.map (·.aff)} impl {want.map (·.aff)})"
      else if b ≠ want then some s!"security {si}: model expansion depends on the order"
      else none
    | .error _, .error _, "err" => none
    | _, _, _ => some s!"security {si}: expansion outcome impl={r} model={match m1 with | .ok _ => "ok" | .error _ => "err"}")

def detTags (p : DetParsed) : List String :=
  let secs := Costs.dedup (p.before.map (·.1))
  -- the F-09a shape: a global split in a security with at least three affiliates
  let shapeA := secs.any (fun si =>
    let txs := (p.before.filter (·.1 == si)).map (·.2)
    txs.any STx.globalSplit && (nonGlobalAffiliates txs).length ≥ 3)
  let runs := (p.modes.head?.map (·.runs)).getD 0
  let exits := Costs.dedup (p.modes.map (·.exit))
  let nt := if secs.length ≥ 2 && runs ≥ 2 then "C09,C08" else ""
  [s!"nt={nt}", s!"nsec={secs.length}", s!"gsplit3={shapeA}", s!"runs={runs}", s!"modes={p.modes.length}",
   s!"exits={exits.length}", s!"exit0={(p.modes.head?.map (·.exit)).getD 0}"]

def runDeterminism (c : Case) : Res :=
  match parseDet c with
  | none => { verdict := "BADCASE", msg := "unparsable determinism case" }
  | some p =>
    let tags := detTags p
    if p.modes.isEmpty then { verdict := "BADCASE", msg := "no runs observed" } else
    match p.modes.find? (fun m => m.distinct ≠ 1) with
    | some m => { verdict := "ORACLE", tags := "of=C09" :: s!"mode={m.name}" :: tags,
                  msg := s!"mode {m.name}: {m.distinct} different outputs in {m.runs} runs of the same command; first difference: {m.diff}" }
    | none =>
      -- a panic (exit status 101 of a Rust process) in any mode loses every security's report
      match p.modes.find? (fun m => m.exit == 101) with
      | some m => { verdict := "ORACLE", tags := "of=C05,C08" :: s!"mode={m.name}" :: tags,
                    msg := s!"mode {m.name}: the process panicked (exit status 101); no security is reported" }
      | none =>
      -- --csv-output-dir writes one file per security (plus the aggregate and the two cost tables):
      -- a missing file means two securities were written to the same name (C08: one security's
      -- report silently replaces another's)
      let nsecs := ((kv? c.header "secs").bind (·.toNat?)).getD 0
      let csvDirLine := (linesOf c "impl" (some "mode")).find? (fun l => l[2]? == some "csv-dir")
      let nfiles := (csvDirLine.bind (fun l => (l.dropWhile (· != "files")).drop 1 |>.head?)).bind (·.toNat?)
      match nfiles with
      | some nf =>
        -- (a run that wrote nothing and failed is a global failure — unreadable input — and not judged)
        if nsecs > 0 && nf ≠ nsecs + 3 &&
            ((p.modes.find? (fun m => m.name == "csv-dir")).map (·.exit) == some 0 || nf > 0) then
          { verdict := "ORACLE", tags := "of=C08" :: tags,
            msg := s!"--csv-output-dir wrote {nf} files for {nsecs} securities (expected one per security plus 3 tables)" }
        else
          match detDiff p with
          | some e => { verdict := "DIFF", tags := "dk=splits" :: tags, msg := e }
          | none => { verdict := "ok", tags := tags }
      | none =>
      match detDiff p with
      | some e => { verdict := "DIFF", tags := "dk=splits" :: tags, msg := e }
      | none => { verdict := "ok", tags := tags }

end Driver
