import Driver.Proto
import Driver.Ledger
import Driver.LedgerOracle
import Driver.Costs
import Driver.Gains
import Driver.Determinism
open Driver

def runLedger (c : Case) : Res :=
  match parseLedger c with
  | none => { verdict := "BADCASE", msg := "unparsable ledger case" }
  | some p =>
    let r := ledgerCompare p
    let os := ledgerOracles p.dflt p.init p.txs p.impls
    if os.isEmpty then r
    else
      let props := String.intercalate "," (os.map (·.1)).eraseDups
      { verdict := "ORACLE", tags := s!"of={props}" :: r.tags,
        msg := String.intercalate "; " (os.map (fun (p, m) => p ++ ": " ++ m)) ++
               (if r.verdict == "DIFF" then " || " ++ r.msg else "") }

def dispatch (c : Case) : Res :=
  match c.family with
  | "ledger" => runLedger c
  | "costs" => runCosts c
  | "gains" => runGains c
  | "determinism" => runDeterminism c
  | f => { verdict := "BADCASE", msg := s!"unknown family {f}" }

def main : IO Unit := do
  let stdin ← IO.getStdin
  let stdout ← IO.getStdout
  readCases stdin (fun c => do
    stdout.putStrLn ((dispatch c).render c.id))
  stdout.flush
