import Driver.Proto
import Driver.Ledger
import Driver.LedgerOracle
import Driver.App
import Driver.SflOracle
import Driver.Symbase
import Driver.SplitNeutral
import Driver.Summary
import Driver.Pages
import Driver.Fmv
import Driver.Etrade
import Driver.QuestradeOracle
import Driver.Csvrt
import Driver.Layout
open Driver

def runLedger (c : Case) : Res :=
  match parseLedger c with
  | none => { verdict := "BADCASE", msg := "unparsable ledger case" }
  | some p =>
    let r := ledgerCompare p
    let os := ledgerOracles p.dflt p.init p.txs p.impls (p.implOutcome == "ok")
    -- the C02 rule is only evaluated on complete runs (a failed run may end inside a window)
    let os := if os.isEmpty && p.implOutcome == "ok" && r.tags.all (· != "near=1") then
                sflOracle p.dflt p.init (alignedRows p.txs p.impls) else os
    if os.isEmpty then r
    else
      let props := String.intercalate "," (os.map (·.1)).eraseDups
      { verdict := "ORACLE", tags := s!"of={props}" :: r.tags,
        msg := String.intercalate "; " (os.map (fun (p, m) => p ++ ": " ++ m)) ++
               (if r.verdict == "DIFF" then " || " ++ r.msg else "") }

def runQuestrade (c : Case) : Res :=
  match parseQt c with
  | none => { verdict := "BADCASE", msg := "unparsable questrade case" }
  | some p =>
    let (fails, tags) := qtOracle p
    let diff := (p.sheets.zipIdx.filterMap (fun (s, k) => qtCompareSheet p.opts k s)).head?
    if !fails.isEmpty then
      { verdict := "ORACLE", tags := "of=C18" :: tags,
        msg := String.intercalate "; " fails ++
               (match diff with | some (_, m) => " || " ++ m | none => "") }
    else
      match diff with
      | some (dk, m) => { verdict := "DIFF", tags := s!"dk={dk}" :: tags, msg := m }
      | none => { verdict := "ok", tags := tags }

/-- Family `fuzz` (C05): the only model statement is "never a panic". -/
def runFuzz (c : Case) : Res :=
  let impl := (c.lines.find? (fun l => l.head? == some "impl")).getD []
  let out := impl[1]?.getD "?"
  let tags := ["nt=C05", s!"out={out}", s!"malformed={(kv? c.header "malformed").getD "?"}"]
  if out == "panic" then
    { verdict := "DIFF", tags := "dk=panic" :: tags, msg := "implementation panicked: " ++ String.intercalate " " (impl.drop 2) }
  else { verdict := "ok", tags := tags }

def dispatch (c : Case) : Res :=
  match c.family with
  | "ledger" => runLedger c
  | "app" => runApp c
  | "symbase" => runSymbase c
  | "splitneutral" => runSplitneutral c
  | "summary" => runSummary c
  | "fuzz" => runFuzz c
  | "symparse" => runSymparse c
  | "pages" => runPages c
  | "fmv" => runFmv c
  | "etrade" => runEtrade c
  | "questrade" => runQuestrade c
  | "csvrt" => runCsvrt c
  | "layout" => runLayout c
  | f => { verdict := "BADCASE", msg := s!"unknown family {f}" }

def main : IO Unit := do
  let stdin ← IO.getStdin
  let stdout ← IO.getStdout
  readCases stdin (fun c => do
    stdout.putStrLn ((dispatch c).render c.id))
  stdout.flush
