import Driver.Proto
import Driver.Ledger
import Driver.LedgerOracle
import Driver.App
import Driver.SflOracle
import Driver.Symbase
import Driver.SplitNeutral
import Driver.Summary
import Driver.Pages
import Driver.Fmv
import Driver.Etrade
import Driver.QuestradeOracle
import Driver.Csvrt
import Driver.Layout
import Driver.Fx
import Driver.FxCache
import Driver.FxCrash
import Driver.Costs
import Driver.Gains
import Driver.Determinism
open Driver

def runLedger (c : Case) : Res :=
  match parseLedger c with
  | none => { verdict := "BADCASE", msg := "unparsable ledger case" }
  | some p =>
    let r := ledgerCompare p
    let os := ledgerOracles p.dflt p.init p.txs p.impls (p.implOutcome == "ok")
    -- the C02 rule is only evaluated on complete runs (a failed run may end inside a window)
    let os := if os.isEmpty && p.implOutcome == "ok" && r.tags.all (· != "near=1") then
                sflOracle p.dflt p.init (alignedRows p.txs p.impls) else os
    -- a rejection must have one of the reasons C04 lists
    let os := if os.isEmpty && p.implOutcome == "err" && r.tags.all (· != "near=1") then
                rejectOracle p.dflt p.init p.txs p.impls p.implMsg else os
    -- a run rejected for the specified-amount tolerance
    let os := if os.isEmpty && p.implOutcome == "err" && (p.implMsg.splitOn "max allowed discrepancy").length > 1 then
                let done := alignedRows p.txs p.impls
                let k := (done.filter (fun (_, x) => !x.gen)).length
                sflTolRejectOracle p.dflt p.init (done.map (·.1) ++ p.txs.drop k) done.length
              else os
    if os.isEmpty then r
    else
      let props := String.intercalate "," (os.map (·.1)).eraseDups
      { verdict := "ORACLE", tags := s!"of={props}" :: r.tags,
        msg := String.intercalate "; " (os.map (fun (p, m) => p ++ ": " ++ m)) ++
               (if r.verdict == "DIFF" then " || " ++ r.msg else "") }

def runQuestrade (c : Case) : Res :=
  match parseQt c with
  | none => { verdict := "BADCASE", msg := "unparsable questrade case" }
  | some p =>
    let (fails, tags) := qtOracle p
    let diff := (p.sheets.zipIdx.filterMap (fun (s, k) => qtCompareSheet p.opts k s)).head?
    if !fails.isEmpty then
      { verdict := "ORACLE", tags := "of=C18" :: tags,
        msg := String.intercalate "; " fails ++
               (match diff with | some (_, m) => " || " ++ m | none => "") }
    else
      match diff with
      | some (dk, m) => { verdict := "DIFF", tags := s!"dk={dk}" :: tags, msg := m }
      | none => { verdict := "ok", tags := tags }

/-- Family `fuzz` (C05): the only model statement is "never a panic". -/
def runFuzz (c : Case) : Res :=
  let impl := (c.lines.find? (fun l => l.head? == some "impl")).getD []
  let out := impl[1]?.getD "?"
  let tags := ["nt=C05", s!"out={out}", s!"malformed={(kv? c.header "malformed").getD "?"}"]
  if out == "panic" then
    { verdict := "DIFF", tags := "dk=panic" :: tags, msg := "implementation panicked: " ++ String.intercalate " " (impl.drop 2) }
  else if out == "err" then
    -- C05: an error message attributes the problem to a file, row or security.  The input file is
    -- `in.csv`; securities are S0..S3/ZZZ; messages about the options (-b, --date-fmt) are `argerr`.
    let msg := String.intercalate " " (impl.drop 2)
    let has := fun (t : String) => (msg.splitOn t).length > 1
    if has "in.csv" || has "row " || has "S0" || has "S1" || has "S2" || has "S3" || has "ZZZ" || msg.isEmpty then
      { verdict := "ok", tags := tags }
    else
      { verdict := "ORACLE", tags := "of=C05" :: tags,
        msg := "the run fails with a message that names neither the file, a row nor a security: " ++ msg }
  else { verdict := "ok", tags := tags }

/-- Family `errvis` (C04, application level): visibility of the rejection in every output mode,
    prefix length, exclusion from the capital-gain totals. -/
def runErrvis (c : Case) : Res :=
  let nerr := ((kv? c.header "nerr").bind (·.toNat?)).getD 0
  let nsec := ((kv? c.header "secs").bind (·.toNat?)).getD 0
  -- for C08 the case matters when a rejected security stands next to a healthy one
  let tags := [if nerr ≥ 1 && nsec > nerr then "nt=C01,C03,C04,C08" else "nt=C01,C03,C04",
               s!"secs={(kv? c.header "secs").getD "?"}", s!"nerr={(kv? c.header "nerr").getD "?"}"]
  if c.lines.any (fun l => l.head? == some "impl" && l[1]? == some "panic") then
    -- no report at all: the rejection does not reach the user (C04), the run ends in a panic (C05),
    -- and with several securities one of them took the others' tables with it (C08)
    { verdict := "ORACLE", tags := (if nsec ≥ 2 then "of=C04,C05,C08" else "of=C04,C05") :: tags,
      msg := "an output mode panicked: " ++ String.intercalate " " (((c.lines.find? (fun l => l.head? == some "impl")).getD []).drop 2) }
  else if c.lines.any (fun l => l.head? == some "impl" && l[1]? == some "moderr") then
    { verdict := "ORACLE", tags := "of=C04" :: tags,
      msg := "the render model fails as a whole although every security was processed: " ++
             String.intercalate " " (((c.lines.find? (fun l => l.head? == some "impl")).getD []).drop 2) }
  else
    let vis := c.lines.filter (fun l => l.head? == some "vis")
    let badVis := vis.filterMap (fun l =>
      let sec := l[1]?.getD "?"
      let g := fun k => (kv? l k).getD "?"
      if g "model" != "1" then some s!"security {sec}: the rejection message is missing from the render model"
      else if g "text" != "1" then some s!"security {sec}: the rejection message is missing from the text output"
      else if g "csv" != "1" then some s!"security {sec}: the rejection message is missing from the CSV output"
      else if g "rows_model" != g "rows_ledger" then some s!"security {sec}: {g "rows_model"} rows shown, the ledger produced {g "rows_ledger"} before the rejection"
      else if g "names_date" != "1" then some s!"security {sec}: the message names no transaction date of the security"
      else none)
    let num := fun (l : List String) => (l[2]?).bind Acb.parseRat?
    let exp := c.lines.filter (fun l => l.head? == some "aggexp")
    let got := c.lines.filter (fun l => l.head? == some "agg")
    let badAgg := exp.filterMap (fun l =>
      let key := l[1]?.getD "?"
      match num l, (got.find? (fun m => m[1]? == some key)).bind num with
      | some e, some g => if close e g then none
          else if key.startsWith "foot" then some s!"security {(key.drop 4).toString}: the table's footer shows a total gain of {Acb.ratToString g}, the security's own rows add up to {Acb.ratToString e} (0 for a rejected security)"
          else some s!"aggregate {key}: {Acb.ratToString g} shown, the securities that completed add up to {Acb.ratToString e}"
      | some e, none => if close e 0 then none else some s!"aggregate {key}: missing, expected {Acb.ratToString e}"
      | none, _ => some s!"aggregate {key}: unparsable")
    let extraAgg := got.filterMap (fun l =>
      let key := l[1]?.getD "?"
      if exp.any (fun m => m[1]? == some key) then none
      else match num l with
        | some g => if close g 0 then none else some s!"aggregate {key}: {Acb.ratToString g} shown although no completed security has a gain in that year"
        | none => none)
    -- the render model shows the ledger's own figures (C01/C03: what is reported is what was computed)
    let rmis := (c.lines.filter (fun l => l.head? == some "rmis")).map (fun l =>
      s!"security {l[1]?.getD "?"} row {l[2]?.getD "?"}: the report's {l[3]?.getD "?"} cell differs from the ledger ({String.intercalate " " (l.drop 4)})")
    match rmis with
    | m :: _ => { verdict := "ORACLE", tags := "of=C01,C03,C04" :: tags, msg := m }
    | [] =>
    match badVis ++ badAgg ++ extraAgg with
    | [] => { verdict := "ok", tags := tags }
    | m :: _ =>
      -- totals that lose a completed security or include a rejected one also break the
      -- independence of securities (C08)
      let ofs := if badVis.isEmpty then "of=C04,C08" else "of=C04"
      { verdict := "ORACLE", tags := ofs :: tags, msg := m }

/-- Family `cli`: oracles on the command-line front end alone (see harness/src/cli.rs). -/
def runCli (c : Case) : Res :=
  let kind := (kv? c.header "kind").getD "?"
  let impl := (c.lines.find? (fun l => l.head? == some "impl")).getD []
  let prop := if kind == "files" then "C07" else if kind == "symbase" then "C16" else if kind == "spelling" then "C01,C17" else if kind == "options" then "C01,C06,C17" else if kind == "sumlocal" then "C08,C10" else "C10"
  let tags := [s!"nt={prop}", s!"kind={kind}", s!"sorted={(kv? c.header "sorted").getD "-"}", s!"nfiles={(kv? c.header "nfiles").getD "-"}"]
  match impl[1]? with
  | some "same" => { verdict := "ok", tags := tags }
  | some "skipped" => { verdict := "ok", tags := "nt=" :: tags.drop 1 }
  | some "differ" =>
    { verdict := "ORACLE", tags := s!"of={prop}" :: tags,
      msg := (if kind == "files" then "the files given in order print something else than the single concatenated file: "
              else if kind == "symbase" then "acb -b SPEC... on the command line and the library run with the parsed opening positions disagree: "
              else if kind == "spelling" then "the same rows with the affiliate names typed in another letter case print another report: "
              else if kind == "options" then "the front end with these options and the library entry point with the same options disagree: "
              else if kind == "sumlocal" then "the summary of two securities together is not, security by security, the summary of each alone: "
              else "acb --summarize-before D prints something else than the summary for the date D: ") ++
             String.intercalate " " (impl.drop 2) }
  | _ => { verdict := "BADCASE", msg := "unparsable cli case" }

/-- Family `fmvpdf` (C20, end to end): the real tool on generated PDF files; the oracle was evaluated
    by the harness on the tool's printed table (read back through its own notes). -/
def runFmvpdf (c : Case) : Res :=
  let impl := (c.lines.find? (fun l => l.head? == some "impl")).getD []
  let tags := ["nt=C20", s!"statements={(kv? c.header "statements").getD "?"}", s!"parallel={(kv? c.header "parallel").getD "?"}"]
  match impl[1]? with
  | some "same" => { verdict := "ok", tags := tags }
  | some "skipped" => { verdict := "ok", tags := "nt=" :: tags.drop 1 }
  | some "differ" =>
    { verdict := "ORACLE", tags := "of=C20" :: tags,
      msg := "questrade-statement-fmv on the generated PDF statements: " ++ String.intercalate " " (impl.drop 2) }
  | _ => { verdict := "BADCASE", msg := "unparsable fmvpdf case" }

def dispatch (c : Case) : Res :=
  match c.family with
  | "ledger" => runLedger c
  | "cli" => runCli c
  | "fmvpdf" => runFmvpdf c
  | "app" => runApp c
  | "symbase" => runSymbase c
  | "splitneutral" => runSplitneutral c
  | "summary" => runSummary c
  | "fuzz" => runFuzz c
  | "errvis" => runErrvis c
  | "symparse" => runSymparse c
  | "pages" => runPages c
  | "fmv" => runFmv c
  | "etrade" => runEtrade c
  | "questrade" => runQuestrade c
  | "csvrt" => runCsvrt c
  | "layout" => runLayout c
  | "fx" => runFx c
  | "fxcache" => runFxCache c
  | "fxcrash" => runFxCrash c
  | "costs" => runCosts c
  | "gains" => runGains c
  | "determinism" => runDeterminism c
  | f => { verdict := "BADCASE", msg := s!"unknown family {f}" }

def main : IO Unit := do
  let stdin ← IO.getStdin
  let stdout ← IO.getStdout
  readCases stdin (fun c => do
    stdout.putStrLn ((dispatch c).render c.id))
  stdout.flush
