/-
  C02 oracle on the IMPLEMENTATION's rows: the superficial-loss rule evaluated declaratively from
  the input rows (window by settlement dates, balances from the average-cost rule book, split
  factors as products) and compared with the Sell rows the implementation reports.
-/
import Driver.LedgerOracle
import AcbModel.Ledger.Delta
namespace Driver
open Acb

def splitFactorOf (t : Tx) : Option Rat :=
  match t.act with
  | .split post pre _ => some (post / pre)
  | _ => none

/-- product of the split factors of affiliate `a` in `rows` -/
def factorProd (a : Aff) (rows : List Tx) : Rat :=
  rows.foldl (fun acc r => if r.aff = a then (match splitFactorOf r with | some f => acc * f | none => acc) else acc) 1

/-- shares acquired in the window after the sale, in the sale's split period -/
def acquiredAfter : List Tx → List Tx → Rat
  | _, [] => 0
  | seen, x :: rest =>
    (match x.act with
     | .buy sh _ _ _ _ => sh / factorProd x.aff seen.reverse
     | _ => 0) + acquiredAfter (x :: seen) rest

/-- `before` is in file order (oldest first), all inside the window -/
def acquiredBefore : List Tx → Rat
  | [] => 0
  | x :: rest =>
    (match x.act with
     | .buy sh _ _ _ _ => sh * factorProd x.aff rest
     | _ => 0) + acquiredBefore rest

structure SflExpect where
  loss : Rat
  num : Rat
  den : Rat

/-- Expected superficial loss of the sale `rows[i]` (rows = the report's rows in order). -/
def expectedSfl (dflt : Aff) (init : Option Status) (rows : List Tx) (i : Nat) : Option (Option SflExpect) :=
  match rows[i]? with
  | none => none
  | some sale =>
    match sale.act with
    | .sell sold px comm rate crate spec =>
      let past := rows.take i
      let future := rows.drop (i + 1)
      let bs := Spec.after (Spec.Books.init dflt init) past
      match Spec.gain0 (bs sale.aff) sale.act with
      | none => some none               -- registered seller: no gain, no superficial loss
      | some g0 =>
        if ¬ (g0 < 0) then some none
        else
          match spec with
          | some (v, _) => if v < 0 then some (some { loss := v, num := (v / g0) * sold, den := sold }) else some none
          | none =>
            let winA := future.filter (fun x => decide (x.settle ≤ sale.settle + 30))
            let winB := past.filter (fun x => decide (sale.settle - 30 ≤ x.settle))
            let bsAfter := Spec.stepBooks bs sale
            let affs := (dflt :: rows.map (·.aff)).eraseDups
            let bsEnd := Spec.after bsAfter winA
            let held := sumOver affs (fun a => (bsEnd a).shares / factorProd a winA)
            let acq := acquiredAfter [] winA + acquiredBefore winB
            if 0 < acq ∧ 0 < held then
              let num := min3 sold acq held
              let denied := effCent (g0 * (num / sold))
              if denied < 0 then some (some { loss := denied, num := num, den := sold }) else some none
            else some none
    | _ => none

/-- The amount the rule denies automatically for the sale `rows[i]`, whatever the row itself
    specifies (0 = nothing denied); `none` if the row is not a sale by a non-registered seller
    at a loss. -/
def autoDenied (dflt : Aff) (init : Option Status) (rows : List Tx) (i : Nat) : Option Rat :=
  match rows[i]? with
  | none => none
  | some sale =>
    match sale.act with
    | .sell sold px comm rate crate _ =>
      let bs := Spec.after (Spec.Books.init dflt init) (rows.take i)
      match Spec.gain0 (bs sale.aff) sale.act with
      | some g0 =>
        if g0 < 0 then
          expectedSfl dflt init (rows.set i { sale with act := .sell sold px comm rate crate none }) i
            |>.map (fun e => match e with | some x => x.loss | none => 0)
        else none
      | none => none
    | _ => none

def wholeCents (q : Rat) : Bool := isInteger (q * 100)

/-- C02, the tolerance for a specified amount: a sale the implementation rejected for "max allowed
    discrepancy" although the specified amount is within 0.001 of the rule's amount.  `rows` = the
    report's rows so far followed by the remaining input rows; `i` = index of the rejected row.
    Exactly at 0.001 the verdict is only judged when the rule's amount is a whole number of cents
    (otherwise 28-digit rounding noise decides the comparison). -/
def sflTolRejectOracle (dflt : Aff) (init : Option Status) (rows : List Tx) (i : Nat) : List (String × String) :=
  match rows[i]? with
  | some sale =>
    match sale.act with
    | .sell _ _ _ _ _ (some (v, false)) =>
      match autoDenied dflt init rows i with
      | some d =>
        let diff := rabs (d - v)
        if diff ≤ sflMaxDiff && (diff < sflMaxDiff - 1 / pow10 9 || (diff == sflMaxDiff && wholeCents d)) then
          [("C02", s!"row {i}: specified superficial loss {ratToString v} is within {ratToString sflMaxDiff} of the rule's {ratToString d} (difference {ratToString diff}) but the sale is rejected for exceeding the allowed discrepancy")]
        else []
      | none => []
    | _ => []
  | none => []

/-- Compare every Sell row of the implementation with the declarative rule. -/
partial def sflOracle (dflt : Aff) (init : Option Status) (rows : List (Tx × ImplDelta)) : List (String × String) :=
  let txs := rows.map (·.1)
  let mag := rows.foldl (fun m (_, x) =>
    [rabs (x.pre.acb.getD 0), rabs (x.post.acb.getD 0), rabs (x.gain.getD 0)].foldl (fun m v => if m < v then v else m) m) 0
  let rec go (i : Nat) : List (Tx × ImplDelta) → List (String × String)
    | [] => []
    | (t, x) :: rest =>
      let errs :=
        if t.act.isSell && !x.gen then
          match expectedSfl dflt init txs i with
          | some none =>
            (match x.sfl with
             | none => []
             | some s => if rabs s.loss ≤ 1 / pow10 9 then [] else
                [("C02", s!"row {i}: implementation reports a superficial loss of {ratToString s.loss}, the rule says none")])
          | some (some e) =>
            (match x.sfl with
             | none => if rabs e.loss ≤ 1 / pow10 9 then [] else
                [("C02", s!"row {i}: the rule denies {ratToString e.loss} ({ratToString e.num}/{ratToString e.den}), implementation reports no superficial loss")]
             | some s =>
               if !closeAt mag s.loss e.loss then [("C02", s!"row {i}: superficial loss {ratToString s.loss}, the rule says {ratToString e.loss}")]
               else if !close (s.num / s.den) (e.num / e.den) then [("C02", s!"row {i}: ratio {ratToString s.num}/{ratToString s.den}, the rule says {ratToString e.num}/{ratToString e.den}")]
               else [])
          | none => []
        else []
      -- a specified amount (without '!') beyond the tolerance must not have been accepted
      let errs := errs ++
        (match t.act with
         | .sell _ _ _ _ _ (some (v, false)) =>
           if x.gen then [] else
           (match autoDenied dflt init txs i with
            | some d =>
              if rabs (d - v) > sflMaxDiff + 1 / pow10 9 then
                [("C02", s!"row {i}: specified superficial loss {ratToString v} differs from the rule's {ratToString d} by more than {ratToString sflMaxDiff} and was accepted without '!'")]
              else []
            | none => [])
         | _ => [])
      if errs.isEmpty then go (i + 1) rest else errs
  go 0 rows

end Driver
