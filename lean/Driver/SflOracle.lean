/-
  C02 oracle on the IMPLEMENTATION's rows: the superficial-loss rule evaluated declaratively from
  the input rows (window by settlement dates, balances from the average-cost rule book, split
  factors as products) and compared with the Sell rows the implementation reports.
-/
import Driver.LedgerOracle
import AcbModel.Ledger.Delta
namespace Driver
open Acb

def splitFactorOf (t : Tx) : Option Rat :=
  match t.act with
  | .split post pre _ => some (post / pre)
  | _ => none

/-- product of the split factors of affiliate `a` in `rows` -/
def factorProd (a : Aff) (rows : List Tx) : Rat :=
  rows.foldl (fun acc r => if r.aff = a then (match splitFactorOf r with | some f => acc * f | none => acc) else acc) 1

/-- shares acquired in the window after the sale, in the sale's split period -/
def acquiredAfter : List Tx → List Tx → Rat
  | _, [] => 0
  | seen, x :: rest =>
    (match x.act with
     | .buy sh _ _ _ _ => sh / factorProd x.aff seen.reverse
     | _ => 0) + acquiredAfter (x :: seen) rest

/-- `before` is in file order (oldest first), all inside the window -/
def acquiredBefore : List Tx → Rat
  | [] => 0
  | x :: rest =>
    (match x.act with
     | .buy sh _ _ _ _ => sh * factorProd x.aff rest
     | _ => 0) + acquiredBefore rest

structure SflExpect where
  loss : Rat
  num : Rat
  den : Rat

/-- Expected superficial loss of the sale `rows[i]` (rows = the report's rows in order). -/
def expectedSfl (dflt : Aff) (init : Option Status) (rows : List Tx) (i : Nat) : Option (Option SflExpect) :=
  match rows[i]? with
  | none => none
  | some sale =>
    match sale.act with
    | .sell sold px comm rate crate spec =>
      let past := rows.take i
      let future := rows.drop (i + 1)
      let bs := Spec.after (Spec.Books.init dflt init) past
      match Spec.gain0 (bs sale.aff) sale.act with
      | none => some none               -- registered seller: no gain, no superficial loss
      | some g0 =>
        if ¬ (g0 < 0) then some none
        else
          match spec with
          | some (v, _) => if v < 0 then some (some { loss := v, num := (v / g0) * sold, den := sold }) else some none
          | none =>
            let winA := future.filter (fun x => decide (x.settle ≤ sale.settle + 30))
            let winB := past.filter (fun x => decide (sale.settle - 30 ≤ x.settle))
            let bsAfter := Spec.stepBooks bs sale
            let affs := (dflt :: rows.map (·.aff)).eraseDups
            let bsEnd := Spec.after bsAfter winA
            let held := sumOver affs (fun a => (bsEnd a).shares / factorProd a winA)
            let acq := acquiredAfter [] winA + acquiredBefore winB
            if 0 < acq ∧ 0 < held then
              let num := min3 sold acq held
              let denied := effCent (g0 * (num / sold))
              if denied < 0 then some (some { loss := denied, num := num, den := sold }) else some none
            else some none
    | _ => none

/-- Compare every Sell row of the implementation with the declarative rule. -/
partial def sflOracle (dflt : Aff) (init : Option Status) (rows : List (Tx × ImplDelta)) : List (String × String) :=
  let txs := rows.map (·.1)
  let rec go (i : Nat) : List (Tx × ImplDelta) → List (String × String)
    | [] => []
    | (t, x) :: rest =>
      let errs :=
        if t.act.isSell && !x.gen then
          match expectedSfl dflt init txs i with
          | some none =>
            (match x.sfl with
             | none => []
             | some s => if rabs s.loss ≤ 1 / pow10 9 then [] else
                [("C02", s!"row {i}: implementation reports a superficial loss of {ratToString s.loss}, the rule says none")])
          | some (some e) =>
            (match x.sfl with
             | none => if rabs e.loss ≤ 1 / pow10 9 then [] else
                [("C02", s!"row {i}: the rule denies {ratToString e.loss} ({ratToString e.num}/{ratToString e.den}), implementation reports no superficial loss")]
             | some s =>
               if !close s.loss e.loss then [("C02", s!"row {i}: superficial loss {ratToString s.loss}, the rule says {ratToString e.loss}")]
               else if !close (s.num / s.den) (e.num / e.den) then [("C02", s!"row {i}: ratio {ratToString s.num}/{ratToString s.den}, the rule says {ratToString e.num}/{ratToString e.den}")]
               else [])
          | none => []
        else []
      if errs.isEmpty then go (i + 1) rest else errs
  go 0 rows

end Driver
