/-
  Family `symbase` (C16): implementation run A (`-b SYM:n:c`) vs run B (opening purchase prepended);
  family `symparse`: well-formedness of `-b` strings.
-/
import Driver.App
namespace Driver
open Acb

def runSymbase (c : Case) : Res :=
  let zero := (kv? c.header "zero") == some "1"
  match parseImplSecs "implA" c.lines, parseImplSecs "implB" c.lines with
  | some as, some bs =>
    let abortA := c.lines.any (fun l => l.head? == some "implA" && (l[1]? == some "abort" || l[1]? == some "panic"))
    let abortB := c.lines.any (fun l => l.head? == some "implB" && (l[1]? == some "abort" || l[1]? == some "panic"))
    if abortA || abortB then
      if abortA == abortB then { verdict := "ok", tags := ["nt=", "abort=1"] }
      else
        let panicked := c.lines.any (fun l => (l.head? == some "implA" || l.head? == some "implB") && l[1]? == some "panic")
        { verdict := "ORACLE", tags := [if panicked then "of=C16,C05" else "of=C16", "nt=C16", "abort=1"],
          msg := "one of the two runs aborts, the other does not" ++ (if panicked then " (panic)" else "") }
    else
      let problems := as.filterMap (fun (a : ImplSec) =>
        match bs.find? (fun (b : ImplSec) => b.sec == a.sec) with
        | none => some s!"security {a.sec}: missing in run B"
        | some b =>
          -- run B shows the opening purchase as an extra first row of security 0
          let bRows := if a.sec == 0 && !zero then b.deltas.drop 1 else b.deltas
          -- a zero opening position has no purchase equivalent: it is compared with no opening
          -- row at all, ignoring the split rows of an affiliate that holds nothing (0 -> 0)
          let dropEmptySplits := fun (l : List ImplDelta) =>
            if zero then l.filter (fun (d : ImplDelta) => !(d.act == "split" && d.pre.shares == 0 && d.post.shares == 0)) else l
          let b' : ImplSec := { b with deltas := dropEmptySplits bRows }
          let a' : ImplSec := { a with deltas := dropEmptySplits a.deltas }
          (secRunsAgree a' b').map (fun e => s!"security {a.sec}: -b run and opening-purchase run differ: {e}"))
      let nGlob := (as.map (fun (a : ImplSec) => (a.deltas.filter (fun (d : ImplDelta) => d.act == "split")).length)).foldl (· + ·) 0
      let tags := ["nt=C16", s!"zero={if zero then 1 else 0}", s!"splitrows={nGlob}", s!"secs={as.length}"]
      match problems with
      | [] => { verdict := "ok", tags := tags }
      | m :: _ => { verdict := "ORACLE", tags := "of=C16" :: tags, msg := m }
  | _, _ => { verdict := "BADCASE", msg := "unparsable symbase case" }

/-- Structural well-formedness of a `SYM:shares:acb` string as `parse_initial_status` defines it;
    decimals are judged by the protocol's own decimal reader (digits with an optional point). -/
def symSpecOk (s : String) : Bool :=
  match s.splitOn ":" with
  | [sym, sh, acb] =>
    !(sym.trimAscii.toString.isEmpty) &&
    (match parseRat? sh, parseRat? acb with
     | some a, some b => decide (0 ≤ a) && decide (0 ≤ b) && !sh.isEmpty && !acb.isEmpty
     | _, _ => false)
  | _ => false

/-- the entry a well-formed `SYM:shares:acb` string stands for: symbol (trimmed, letter case kept),
    shares, cost base -/
def symEntry? (s : String) : Option (String × Rat × Rat) :=
  match s.splitOn ":" with
  | [sym, sh, acb] => do
    let a ← parseRat? sh
    let b ← parseRat? acb
    some (sym.trimAscii.toString, a, b)
  | _ => none

def runSymparse (c : Case) : Res :=
  let expect := (kv? c.header "expect").getD "?"
  let which := ((kv? c.header "which").bind (·.toNat?)).getD 0
  let ins := (c.lines.filter (fun l => l.head? == some "in")).map (fun l => ((l[1]?).getD "").replace "\\s" " ")
  let input := (ins[which]?).getD ""
  let implLine := (c.lines.find? (fun l => l.head? == some "impl")).getD []
  let got := (implLine[1]?).getD "?"
  let model := if symSpecOk input then "ok" else "err"
  let tags := ["nt=C16", s!"expect={expect}"]
  if got == "panic" then { verdict := "DIFF", tags := "dk=panic" :: tags, msg := "parse_initial_status panicked" }
  else if got ≠ expect then
    { verdict := "ORACLE", tags := "of=C16" :: tags, msg := s!"-b '{input}': expected {expect}, implementation says {got}" }
  else if model ≠ got then
    { verdict := "DIFF", tags := "dk=parse" :: tags, msg := s!"-b '{input}': model {model}, implementation {got}" }
  else if got == "ok" then
    -- the parsed table: one entry per symbol (a later entry replaces an earlier one of the same
    -- symbol), each with exactly the given symbol, shares and cost base
    let entries := ins.filterMap symEntry?
    let table := entries.foldl (fun (acc : List (String × Rat × Rat)) e => (acc.filter (fun x => x.1 != e.1)) ++ [e]) []
    let implItems := (implLine.drop 2).filterMap (fun it =>
      match (it.replace "\\s" " ").splitOn "|" with
      | [k, sec, sh, acb] => do
        let a ← parseRat? sh
        let b ← parseRat? acb
        some (k, sec, a, b)
      | _ => none)
    let bad := table.filter (fun (sym, sh, acb) =>
      !(implItems.any (fun (k, sec, a, b) => k == sym && sec == sym && a == sh && b == acb)))
    if implItems.length ≠ table.length || !bad.isEmpty then
      { verdict := "ORACLE", tags := "of=C16" :: tags,
        msg := s!"-b {ins}: the parsed opening positions {implLine.drop 2} are not the entries given (symbol kept as written, shares, cost base)" }
    else { verdict := "ok", tags := tags }
  else { verdict := "ok", tags := tags }

end Driver
