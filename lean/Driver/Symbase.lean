/-
  Family `symbase` (C16): implementation run A (`-b SYM:n:c`) vs run B (opening purchase prepended);
  family `symparse`: well-formedness of `-b` strings.
-/
import Driver.App
namespace Driver
open Acb

def runSymbase (c : Case) : Res :=
  let zero := (kv? c.header "zero") == some "1"
  match parseImplSecs "implA" c.lines, parseImplSecs "implB" c.lines with
  | some as, some bs =>
    let abortA := c.lines.any (fun l => l.head? == some "implA" && (l[1]? == some "abort" || l[1]? == some "panic"))
    let abortB := c.lines.any (fun l => l.head? == some "implB" && (l[1]? == some "abort" || l[1]? == some "panic"))
    if abortA || abortB then
      if abortA == abortB then { verdict := "ok", tags := ["nt=", "abort=1"] }
      else { verdict := "ORACLE", tags := ["of=C16", "nt=C16", "abort=1"], msg := "one of the two runs aborts, the other does not" }
    else
      let problems := as.filterMap (fun (a : ImplSec) =>
        match bs.find? (fun (b : ImplSec) => b.sec == a.sec) with
        | none => some s!"security {a.sec}: missing in run B"
        | some b =>
          -- run B shows the opening purchase as an extra first row of security 0
          let bRows := if a.sec == 0 && !zero then b.deltas.drop 1 else b.deltas
          -- a zero opening position has no purchase equivalent: it is compared with no opening
          -- row at all, ignoring the split rows of an affiliate that holds nothing (0 -> 0)
          let dropEmptySplits := fun (l : List ImplDelta) =>
            if zero then l.filter (fun (d : ImplDelta) => !(d.act == "split" && d.pre.shares == 0 && d.post.shares == 0)) else l
          let b' : ImplSec := { b with deltas := dropEmptySplits bRows }
          let a' : ImplSec := { a with deltas := dropEmptySplits a.deltas }
          (secRunsAgree a' b').map (fun e => s!"security {a.sec}: -b run and opening-purchase run differ: {e}"))
      let nGlob := (as.map (fun (a : ImplSec) => (a.deltas.filter (fun (d : ImplDelta) => d.act == "split")).length)).foldl (· + ·) 0
      let tags := ["nt=C16", s!"zero={if zero then 1 else 0}", s!"splitrows={nGlob}", s!"secs={as.length}"]
      match problems with
      | [] => { verdict := "ok", tags := tags }
      | m :: _ => { verdict := "ORACLE", tags := "of=C16" :: tags, msg := m }
  | _, _ => { verdict := "BADCASE", msg := "unparsable symbase case" }

/-- Structural well-formedness of a `SYM:shares:acb` string as `parse_initial_status` defines it;
    decimals are judged by the protocol's own decimal reader (digits with an optional point). -/
def symSpecOk (s : String) : Bool :=
  match s.splitOn ":" with
  | [sym, sh, acb] =>
    !(sym.trimAscii.toString.isEmpty) &&
    (match parseRat? sh, parseRat? acb with
     | some a, some b => decide (0 ≤ a) && decide (0 ≤ b) && !sh.isEmpty && !acb.isEmpty
     | _, _ => false)
  | _ => false

def runSymparse (c : Case) : Res :=
  let expect := (kv? c.header "expect").getD "?"
  let input := ((c.lines.find? (fun l => l.head? == some "in")).bind (fun l => l[1]?)).getD ""
  let input := input.replace "\\s" " "
  let got := ((c.lines.find? (fun l => l.head? == some "impl")).bind (fun l => l[1]?)).getD "?"
  let model := if symSpecOk input then "ok" else "err"
  let tags := ["nt=C16", s!"expect={expect}"]
  if got == "panic" then { verdict := "DIFF", tags := "dk=panic" :: tags, msg := "parse_initial_status panicked" }
  else if got ≠ expect then
    { verdict := "ORACLE", tags := "of=C16" :: tags, msg := s!"-b '{input}': expected {expect}, implementation says {got}" }
  else if model ≠ got then
    { verdict := "DIFF", tags := "dk=parse" :: tags, msg := s!"-b '{input}': model {model}, implementation {got}" }
  else { verdict := "ok", tags := tags }

end Driver
