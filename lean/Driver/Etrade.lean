/-
  Family `etrade` (C19): run_with_args on generated confirmations vs `Acb.Etrade.run`, plus the
  property's own multiset accounting on the implementation's CSV.
-/
import Driver.Proto
import AcbModel.Broker.Etrade
namespace Driver
open Acb Acb.Etrade

def parseAct (s : String) : Act := if s == "buy" then .buy else if s == "sell" then .sell else .other

def optInt? (s : String) : Option (Option Int) := if s == "-" then some none else (parseInt? s).map some

def parseBenefit? : List String → Option Benefit
  | [sec, acq, acqS, fmv, sh, stx, sst, sp, ss, sf, tag] => do
    some { sec := ← sec.toNat?, acqDate := ← parseInt? acq, acqSettle := ← parseInt? acqS, price := ← parseRat? fmv,
           shares := ← parseRat? sh, stcTxDate := ← optInt? stx, stcSettle := ← optInt? sst, stcPrice := ← optRat? sp,
           stcShares := ← optRat? ss, stcFee := ← optRat? sf, tag := ← tag.toNat? }
  | _ => none

def parseTrade? : List String → Option Trade
  | [sec, td, sd, act, px, sh, comm, file, row] => do
    some { sec := ← sec.toNat?, tradeDate := ← parseInt? td, settle := ← parseInt? sd, act := parseAct act,
           price := ← parseRat? px, shares := ← parseRat? sh, comm := ← parseRat? comm, file := ← file.toNat?,
           row := ← row.toNat? }
  | _ => none

/-- one row of the implementation's CSV -/
structure IRow where
  sec : Nat
  tradeDate : Int
  settle : Int
  act : Act
  shares : Rat
  price : Rat
  comm : Rat
  kind : String    -- buy | stc | manual (from the memo)
  deriving BEq

def parseIRow? : List String → Option IRow
  | [sec, td, sd, act, sh, px, comm, kind] => do
    some { sec := ← sec.toNat?, tradeDate := ← parseInt? td, settle := ← parseInt? sd, act := parseAct act,
           shares := ← parseRat? sh, price := ← parseRat? px, comm := ← parseRat? comm, kind }
  | _ => none

structure EtCase where
  benefits : List Benefit       -- intended
  trades : List Trade
  pBenefits : List Benefit      -- parsed by the implementation's text layer
  pTrades : List Trade
  perr : Nat
  out : String
  nerr : Nat
  rows : List IRow
  acbOk : Int
  acbN : Int

def parseEtCase (c : Case) : Option EtCase := do
  let mut bs : Array Benefit := #[]
  let mut ts : Array Trade := #[]
  let mut pbs : Array Benefit := #[]
  let mut pts : Array Trade := #[]
  let mut perr := 0
  let mut out := "missing"
  let mut nerr := 0
  let mut rows : Array IRow := #[]
  let mut acbOk : Int := 0
  let mut acbN : Int := 0
  for l in c.lines do
    match l with
    | "in" :: "b" :: rest => bs := bs.push (← parseBenefit? rest)
    | "in" :: "t" :: rest => ts := ts.push (← parseTrade? rest)
    | "impl" :: "pb" :: rest => pbs := pbs.push (← parseBenefit? rest)
    | "impl" :: "pt" :: rest => pts := pts.push (← parseTrade? rest)
    | ["impl", "perr", _] => perr := perr + 1
    | ["impl", "out", o] => out := o
    | ["impl", "nerr", n] => nerr := (← n.toNat?)
    | "impl" :: "row" :: rest => rows := rows.push (← parseIRow? rest)
    | ["impl", "acb", a, n] => acbOk := (← parseInt? a); acbN := (← parseInt? n)
    | _ => pure ()
  some { benefits := bs.toList, trades := ts.toList, pBenefits := pbs.toList, pTrades := pts.toList, perr, out, nerr,
         rows := rows.toList, acbOk, acbN }

def rowOfModel (r : Row) : IRow :=
  { sec := r.sec, tradeDate := r.tradeDate, settle := r.settle, act := r.act, shares := r.shares, price := r.price,
    comm := r.comm, kind := match r.src with | .buy _ => "buy" | .stc _ => "stc" | .manual _ => "manual" }

def showIRow (r : IRow) : String :=
  s!"({r.kind} sec{r.sec} {r.tradeDate}/{r.settle} {ratToString r.shares}@{ratToString r.price} fee {ratToString r.comm})"

/-! ### the property's oracle (implementation output + inputs only) -/

/-- remove the first element satisfying `p` -/
def removeFirst {α : Type} (p : α → Bool) : List α → Option (List α)
  | [] => none
  | x :: xs => if p x then some xs else (removeFirst p xs).map (x :: ·)

/-- all ways to split a list into (chosen sub-sequence, rest) -/
def splits {α : Type} : List α → List (List α × List α)
  | [] => [([], [])]
  | x :: xs => (splits xs).flatMap (fun (a, b) => [(x :: a, b), (a, x :: b)])

def inWin (b : Benefit) (t : Trade) : Bool :=
  t.act == .sell && t.sec == b.sec && decide (b.acqDate ≤ t.tradeDate) && decide (t.tradeDate ≤ b.acqDate + 5)

/-- Can the sell-to-cover rows be explained by disjoint sets of the remaining trades that together
    use all of them?  (`stcs` = rows still to explain, `bens` = benefits with sold shares not yet
    used, `rest` = trades not yet used) -/
def explain : Nat → List IRow → List Benefit → List Trade → Bool
  | 0, _, _, _ => false
  | _, [], bens, rest => bens.isEmpty && rest.isEmpty
  | fuel + 1, s :: ss, bens, rest =>
    -- choose the benefit of this row …
    (List.range bens.length).any (fun i =>
      match bens[i]? with
      | none => false
      | some b =>
        (s.sec == b.sec && b.stcShares == some s.shares && b.stcPrice == some s.price && b.stcFee == some s.comm &&
          s.act == .sell) &&
        -- … and its set of trades
        (splits rest).any (fun (m, others) =>
          !m.isEmpty && m.all (inWin b) && (m.map (·.shares)).sum == s.shares &&
          m.any (fun t => t.tradeDate == s.tradeDate && t.settle == s.settle) &&
          explain fuel ss (bens.eraseIdx i) others))

def matchingSets (b : Benefit) (trades : List Trade) : List (List Trade) :=
  match b.stcShares with
  | none => []
  | some sold => ((splits (trades.filter (inWin b))).map (·.1)).filter (fun m => !m.isEmpty && (m.map (·.shares)).sum == sold)

/-- is a refusal of the tool justified by the inputs? -/
def errorJustified (benefits : List Benefit) (trades : List Trade) : Bool :=
  let stcs := benefits.filter (·.stcShares.isSome)
  -- a sell-to-cover nobody can match
  stcs.any (fun b => (matchingSets b trades).isEmpty) ||
  -- several sets and no price to choose by
  stcs.any (fun b => (matchingSets b trades).length > 1 && b.stcPrice.isNone) ||
  -- two sell-to-covers compete for a trade (the tool matches benefit by benefit)
  (List.range stcs.length).any (fun i => (List.range stcs.length).any (fun j =>
    i < j && (match stcs[i]?, stcs[j]? with
      | some a, some b => trades.any (fun t => inWin a t && inWin b t)
      | _, _ => false))) ||
  -- sold shares without price/fee or the reverse
  benefits.any (fun b => !(b.stcShares.isSome == b.stcPrice.isSome && b.stcShares.isSome == b.stcFee.isSome))

def sortedBySettle : List IRow → Bool
  | a :: b :: rest => decide (a.settle ≤ b.settle) && sortedBySettle (b :: rest)
  | _ => true

def oracleEtrade (benefits : List Benefit) (trades : List Trade) (ec : EtCase) : List String :=
  if ec.out == "panic" then ["the tool panicked"]
  else if ec.out == "err" then
    (if errorJustified benefits trades then [] else ["the tool refused although every sell-to-cover has its own matching trades"])
  else
    let buys := ec.rows.filter (·.kind == "buy")
    let stcs := ec.rows.filter (·.kind == "stc")
    let manuals := ec.rows.filter (·.kind == "manual")
    -- one Buy per benefit
    let buyLeft := benefits.foldl (fun (acc : Option (List IRow)) b =>
      acc.bind (removeFirst (fun r => r.sec == b.sec && r.tradeDate == b.acqDate && r.settle == b.acqSettle &&
        r.act == .buy && r.shares == b.shares && r.price == b.price && r.comm == 0))) (some buys)
    -- every manual row is one of the trades, with its own figures
    let tradesLeft := manuals.foldl (fun (acc : Option (List Trade)) r =>
      acc.bind (removeFirst (fun t => t.sec == r.sec && t.tradeDate == r.tradeDate && t.settle == r.settle &&
        t.act == r.act && t.shares == r.shares && t.price == r.price && t.comm == r.comm))) (some trades)
    (match buyLeft with
     | some [] => []
     | some extra => [s!"Buy rows that belong to no benefit: {extra.map showIRow}"]
     | none => [s!"a benefit has no Buy row of its released shares at its FMV on its date: rows {buys.map showIRow}"]) ++
    (match tradesLeft with
     | none => [s!"a '(manual trade)' row is not one of the trade confirmations: {manuals.map showIRow}"]
     | some rest =>
       if explain (stcs.length + 1) stcs (benefits.filter (·.stcShares.isSome)) rest then []
       else [s!"trade confirmations are not used exactly once: after the manual rows {rest.length} trades remain for sell-to-cover rows {stcs.map showIRow}"]) ++
    (if sortedBySettle ec.rows then [] else ["rows are not ordered by settlement date"]) ++
    (if ec.acbOk == ec.acbN && ec.acbN == ec.rows.length then [] else [s!"acb accepts {ec.acbOk} of {ec.rows.length} rows"])

def benefitEqNoTag (a b : Benefit) : Bool := decide ({ a with tag := 0 } = { b with tag := 0 })

def runEtrade (c : Case) : Res :=
  match parseEtCase c with
  | none => { verdict := "BADCASE", msg := "unparsable etrade case" }
  | some ec =>
    let recorded := ec.benefits.isEmpty && ec.trades.isEmpty
    let benefits := if recorded then ec.pBenefits else ec.benefits
    let trades := if recorded then ec.pTrades else ec.trades
    let scen := (kv? c.header "scen").getD "-"
    let model := run benefits trades
    let mOut := match model with | .ok _ => "ok" | .unmatched _ => "err" | .txErr _ => "err" | .panic _ => "panic"
    let nstc := (benefits.filter (·.stcShares.isSome)).length
    let maxCands := benefits.foldl (fun m b => max m (trades.filter (inWindow b)).length) 0
    let multi := benefits.any (fun b => (matchingSets b trades).length > 1)
    let tags := [s!"out={ec.out}", s!"benefits={benefits.length}", s!"stc={nstc}", s!"trades={trades.length}",
                 s!"cands={maxCands}", s!"multi={if multi then 1 else 0}",
                 s!"layout={if scen.startsWith "pre" then "pre" else if scen.startsWith "post" then "post" else "rec"}",
                 s!"nt={if nstc ≥ 1 && trades.length ≥ 2 then "C19" else "-"}"]
    if !trades.Nodup then { verdict := "BADCASE", tags := tags, msg := "generator produced identical trade confirmations" } else
    let oracle := oracleEtrade benefits trades ec
    -- text layer: what was parsed must be what was written
    let parseDiff : Option String :=
      if recorded then none
      else if ec.perr > 0 then some s!"{ec.perr} generated confirmations were rejected by parse_pdf_text"
      else if ec.pBenefits.length != benefits.length || !(List.zip ec.pBenefits benefits).all (fun (a, b) => benefitEqNoTag a b) then
        some "benefit records parsed from the generated confirmations differ from the generated values"
      else if ec.pTrades != trades then some "trade records parsed from the generated confirmations differ from the generated values"
      else none
    let diff : Option (String × String) :=
      match parseDiff with
      | some m => some ("parse", m)
      | none =>
        if mOut != ec.out then some ("outcome", s!"outcome: impl {ec.out} model {mOut}")
        else match model with
          | .ok rows =>
            let mrows := rows.map rowOfModel
            if mrows == ec.rows then none
            else some ("rows", s!"rows: impl {ec.rows.map showIRow} model {mrows.map showIRow}")
          | .unmatched es => if es.length == ec.nerr then none else some ("nerr", s!"errors: impl {ec.nerr} model {es.length}")
          | _ => none
    let oracle := oracle ++ (match parseDiff with
      | some m => if recorded then [] else [m]
      | none => [])
    if !oracle.isEmpty then
      { verdict := "ORACLE", tags := "of=C19" :: tags,
        msg := "; ".intercalate oracle ++ (match diff with | some (_, m) => " || " ++ m | none => "") }
    else match diff with
    | none => { verdict := "ok", tags := tags }
    | some (k, m) => { verdict := "DIFF", tags := s!"dk={k}" :: tags, msg := m }

end Driver
