/-
  Family `csvrt` (C11).
  kind=rt   : Tx list through write_txs_to_csv -> parse_tx_csv -> Tx::try_from -> write again.
              correspondence: model table = implementation table, model read-back = implementation
              read-back; ORACLE (implementation only): the re-read list equals the original by the
              implementation's own `==` (memo trimmed; default-affiliate split may come back global
              when the header has no affiliate column) and the second write yields the same bytes.
  kind=cell : cell-level functions (decimal text, split ratio, SFL cell, affiliate spelling, date,
              action, currency, trim, case mapping): model vs implementation.
-/
import Driver.Proto
import AcbModel.App.CsvCodec
namespace Driver
open Acb Acb.Csv

def hexVal? (c : Char) : Option Nat :=
  if '0' ≤ c ∧ c ≤ '9' then some (c.toNat - 48)
  else if 'a' ≤ c ∧ c ≤ 'f' then some (c.toNat - 87)
  else if 'A' ≤ c ∧ c ≤ 'F' then some (c.toNat - 55)
  else none

def hexNat? (s : String) : Option Nat :=
  if s.isEmpty then none else
  s.toList.foldl (fun acc c => do let a ← acc; let v ← hexVal? c; some (a * 16 + v)) (some 0)

/-- string token `s<hex>.<hex>...` -/
def unstok? (t : String) : Option Str :=
  if !t.startsWith "s" then none else
  let body := (t.drop 1).toString
  if body.isEmpty then some [] else
  (body.splitOn ".").mapM (fun h => (hexNat? h).map Char.ofNat)

def decTok? (t : String) : Option Dec :=
  match t.splitOn ":" with
  | [n, m, s] => do some ⟨n == "1", ← m.toNat?, ← s.toNat?⟩
  | _ => none

def dateTok? (t : String) : Option Date :=
  match t.splitOn "-" with
  | [y, m, d] => do some ⟨← y.toNat?, ← m.toNat?, ← d.toNat?⟩
  | _ => none

def curRate? (c r : String) : Option CurRate := do some ⟨← unstok? c, ← decTok? r⟩

def optCurRate? (c r : String) : Option (Option CurRate) :=
  if c == "-" then some none else (curRate? c r).map some

def sflTok? (v f : String) : Option (Option (Dec × Bool)) :=
  if v == "-" then some none else do some (some (← decTok? v, f == "1"))

def specTok? : List String → Option Specifics
  | ["buy", sh, aps, comm, c, r, cc, cr] => do
    some (.buy (← decTok? sh) (← decTok? aps) (← decTok? comm) (← curRate? c r) (← optCurRate? cc cr))
  | ["sell", sh, aps, comm, c, r, cc, cr, sv, sf] => do
    some (.sell (← decTok? sh) (← decTok? aps) (← decTok? comm) (← curRate? c r) (← optCurRate? cc cr) (← sflTok? sv sf))
  | ["roc", aps, c, r] => do some (.roc (← decTok? aps) (← curRate? c r))
  | ["sfla", sh, aps] => do some (.sfla (← decTok? sh) (← decTok? aps))
  | ["split", post, pre, io] => do some (.split ⟨← decTok? pre, ← decTok? post, io == "1"⟩)
  | _ => none

def txTok? : List String → Option Tx
  | idx :: sec :: td :: sd :: aid :: aname :: areg :: memo :: spec => do
    some { security := ← unstok? sec, tradeDate := ← dateTok? td, settleDate := ← dateTok? sd,
           spec := ← specTok? spec, memo := ← unstok? memo,
           affiliate := ⟨← unstok? aid, ← unstok? aname, areg == "1"⟩, readIndex := ← idx.toNat? }
  | _ => none

def showStr (s : Str) : String := String.ofList s

def actOf : Specifics → String
  | .buy .. => "buy" | .sell .. => "sell" | .roc .. => "roc" | .sfla .. => "sfla" | .split .. => "split"

def oneLine (s : String) : String := (s.replace "\n" " ").replace "\r" " "

def showTx (t : Tx) : String := oneLine (reprStr t)

def affAgree (a b : AffData) : Bool := a.id == b.id && a.registered == b.registered && lower a.name == lower b.name

/-- model value vs implementation value of one transaction (decimals by `==`, i.e. `norm`;
    affiliate names up to case: the implementation keeps the first spelling seen per id). -/
def txAgree (a b : Tx) : Bool :=
  a.security == b.security && a.tradeDate == b.tradeDate && a.settleDate == b.settleDate &&
  a.memo == b.memo && affAgree a.affiliate b.affiliate && a.spec.norm == b.spec.norm && a.readIndex == b.readIndex

structure RtImpl where
  hdr : Option (List Str) := none
  rows : List (List Str) := []
  bytes1 : Option String := none
  bytes2 : Option String := none
  bytes3 : Option String := none
  readOk : Option Bool := none
  readN : Nat := 0
  rtxs : List Tx := []
  same : List (List Bool) := []
  sbuf : Option String := none
  panic : Bool := false
  bad : Bool := false

def parseRtImpl (lines : List (List String)) : RtImpl :=
  lines.foldl (fun (st : RtImpl) l =>
    match l with
    | "impl" :: "hdr" :: cells =>
      match cells.mapM unstok? with | some h => { st with hdr := some h } | none => { st with bad := true }
    | "impl" :: "row" :: _ :: cells =>
      match cells.mapM unstok? with | some r => { st with rows := st.rows ++ [r] } | none => { st with bad := true }
    | ["impl", "bytes1", b] => { st with bytes1 := some b }
    | ["impl", "bytes2", b] => { st with bytes2 := some b }
    | ["impl", "bytes3", b] => { st with bytes3 := some b }
    | ["impl", "read", "ok", n] => { st with readOk := some true, readN := n.toNat?.getD 0 }
    | "impl" :: "read" :: "err" :: _ => { st with readOk := some false }
    | "impl" :: "rtx" :: t =>
      match txTok? t with | some x => { st with rtxs := st.rtxs ++ [x] } | none => { st with bad := true }
    | "impl" :: "same" :: _ :: bits => { st with same := st.same ++ [bits.map (· == "1")] }
    | "impl" :: "sbuf" :: rest => { st with sbuf := some (String.intercalate " " rest) }
    | "impl" :: "panic" :: _ => { st with panic := true }
    | _ => st) {}

def runRt (c : Case) : Res :=
  let txs? := (c.lines.filter (fun l => l.take 2 == ["in", "tx"])).mapM (fun l => txTok? (l.drop 2))
  match txs? with
  | none => { verdict := "BADCASE", msg := "unparsable tx line" }
  | some txs =>
    let im := parseRtImpl c.lines
    if im.bad then { verdict := "BADCASE", msg := "unparsable impl line" } else
    let valid := txs.all Tx.valid
    let csvs := txs.map Tx.toCsv
    let table := toTable csvs
    let affCol := colInUse csvs .affiliate
    let acts := (txs.map (fun t => actOf t.spec)).eraseDups
    let tags := [s!"kind=rt", s!"n={txs.length}", s!"valid={if valid then 1 else 0}",
                 s!"affcol={if affCol then 1 else 0}", s!"cols={table.header.length}",
                 s!"acts={acts.length}"]
    let nt := if valid && txs.length > 0 then ["nt=C11"] else ["nt="]
    if im.panic then { verdict := "DIFF", tags := "dk=panic" :: tags ++ nt, msg := "implementation panicked" } else
    -- ---------------- ORACLE: implementation observations only
    let oracle : List String :=
      if !valid then [] else
      match im.readOk with
      | none => ["no read result"]
      | some false => ["a valid list was written but could not be read back"]
      | some true =>
        let e1 := if im.readN != txs.length then [s!"{txs.length} rows written, {im.readN} read back"] else []
        let e2 := (List.range txs.length).filterMap (fun i =>
          match txs[i]?, im.rtxs[i]?, im.same[i]? with
          | some o, some r, some [sec, td, sd, spec, aff, memo] =>
            let affOk := aff
            if sec && td && sd && spec && affOk && memo then none
            else some s!"row {i} differs after the round trip (security {sec} dates {td},{sd} action/values {spec} affiliate {affOk} memo {memo})"
          | _, _, _ => some s!"row {i}: missing observation")
        -- memos are compared up to surrounding whitespace, so the first write may differ from
        -- the second exactly when some memo is not trimmed; from then on the bytes are fixed
        let memosTrimmed := txs.all (fun t => trim t.memo == t.memo)
        let e3 := match im.bytes1, im.bytes2, im.bytes3 with
          | some a, some b, some c =>
            (if memosTrimmed && a != b then ["second write differs from the first"] else []) ++
            (if b != c then ["third write differs from the second"] else [])
          | _, _, _ => ["missing bytes"]
        -- the in-memory writer produces the same bytes as a file would
        let e4 := match im.sbuf with
          | some "same" | none => []
          | some other => [s!"writing the same list into the in-memory writer (WriteHandle string buffer): {other}"]
        e1 ++ e2 ++ e3 ++ e4
    -- ---------------- correspondence
    let dAff := txs.filterMap (fun t =>
      if fromStrep t.affiliate.name == t.affiliate then none
      else some s!"from_strep({showStr t.affiliate.name}): model id {showStr (fromStrep t.affiliate.name).id}, impl id {showStr t.affiliate.id}")
    let dTable :=
      (match im.hdr with
       | some h => if h == table.header then [] else [s!"header: model {table.header.map showStr}, impl {h.map showStr}"]
       | none => ["no impl header"]) ++
      (if im.rows.length != table.rows.length then [s!"row count model {table.rows.length} impl {im.rows.length}"] else
        (List.range table.rows.length).filterMap (fun i =>
          if im.rows[i]? == table.rows[i]? then none
          else some s!"row {i}: model {(table.rows[i]?.getD []).map showStr}, impl {(im.rows[i]?.getD []).map showStr}"))
    let mread := readTxs table 0
    let (dRead, dom) : List String × String :=
      match mread, im.readOk with
      | .error .numberRange, _ => ([], "out")
      | .error e, some true => ([s!"model rejects the table ({reprStr e}), implementation reads it"], "in")
      | .error _, _ => ([], "in")
      | .ok _, some false => (["model reads the table, implementation rejects it"], "in")
      | .ok _, none => (["no impl read result"], "in")
      | .ok ms, some true =>
        if ms.length != im.rtxs.length then ([s!"model reads {ms.length} rows, impl {im.rtxs.length}"], "in")
        else ((List.range ms.length).filterMap (fun i =>
          match ms[i]?, im.rtxs[i]? with
          | some a, some b => if txAgree a b then none else some s!"re-read row {i}: model {showTx a} impl {showTx b}"
          | _, _ => none), "in")
    let tags := tags ++ [s!"dom={dom}"] ++ nt
    if !oracle.isEmpty then
      { verdict := "ORACLE", tags := "of=C11" :: tags, msg := String.intercalate "; " (oracle.take 3) }
    else if !dAff.isEmpty then { verdict := "DIFF", tags := "dk=aff" :: tags, msg := String.intercalate "; " (dAff.take 2) }
    else if !dTable.isEmpty then { verdict := "DIFF", tags := "dk=table" :: tags, msg := String.intercalate "; " (dTable.take 2) }
    else if !dRead.isEmpty then { verdict := "DIFF", tags := "dk=read" :: tags, msg := String.intercalate "; " (dRead.take 2) }
    else { verdict := "ok", tags := tags }

/-! ### cell level -/

def isRange (r : Except DecErr Dec) : Bool :=
  match r with | .error .range => true | _ => false

def decObs (r : Except DecErr Dec) : Option (List String) :=
  match r with
  | .ok d => some ["ok", s!"{if d.neg then 1 else 0}:{d.mant}:{d.scale}"]
  | .error .syntax => some ["err"]
  | .error .range => none       -- outside the model

/-- Compares one `in`/`impl` pair; `none` = agree (or outside the model), `some msg` = disagree. -/
def cellCheck (inp impl : List String) : Option String :=
  let bad := some s!"unparsable cell case {inp}"
  match inp, impl with
  | ["in", "minp", d, p], ["impl", "minp", o] =>
    match decTok? d, p.toNat?, unstok? o with
    | some d, some p, some o =>
      let m := d.toStringMinPrecision p
      if m == o then none else some s!"to_string_min_precision({reprStr d},{p}): model {showStr m} impl {showStr o}"
    | _, _, _ => bad
  | ["in", "disp", d, p], ["impl", "disp", o, o0] =>
    match decTok? d, p.toNat?, unstok? o, unstok? o0 with
    | some d, some p, some o, some o0 =>
      let m := d.display (some p)
      let m0 := d.display none
      if m == o && m0 == o0 then none
      else some s!"Display({reprStr d},{p}): model {showStr m} / {showStr m0} impl {showStr o} / {showStr o0}"
    | _, _, _, _ => bad
  | ["in", "dec", s], "impl" :: "dec" :: rest =>
    match unstok? s with
    | some s =>
      -- rest = <from_str obs> exact <from_str_exact obs>
      let i := rest.idxOf "exact"
      let a := rest.take i
      let b := rest.drop (i + 1)
      match decObs (parseDec s) with
      | none => none
      | some m =>
        if m == a && m == b then none
        else some s!"Decimal::from_str({showStr s}): model {m} impl {a} exact {b}"
    | none => bad
  | ["in", "split", s], "impl" :: "split" :: rest =>
    match unstok? s with
    | some s =>
      -- a number outside the model's decimal range: skip
      let g := trim s
      let g1 := g.takeWhile isDigitOrDot
      let g2 := (g.dropWhile isDigitOrDot).drop 5
      if isRange (parseDec g1) || isRange (parseDec g2) then none else
      match parseSplit s, rest with
      | none, ["err"] => none
      | some r, ["ok", post, pre, io, disp] =>
        match decTok? post, decTok? pre, unstok? disp with
        | some post, some pre, some disp =>
          if r.post == post && r.pre == pre && r.intOnly == (io == "1") && r.display == disp then none
          else some s!"SplitRatio::parse({showStr s}): model {reprStr r} shown {showStr r.display}, impl {rest}"
        | _, _, _ => bad
      | m, _ => some s!"SplitRatio::parse({showStr s}): model {reprStr m} impl {rest}"
    | none => bad
  | ["in", "sfl", s], "impl" :: "sfl" :: rest =>
    match unstok? s with
    | some s =>
      let cell := trim s
      if cell.isEmpty then (if rest == ["absent"] then none else some s!"blank sfl cell: impl {rest}") else
      let num := if cell.getLast? == some '!' then cell.dropLast else cell
      if isRange (parseDec num) then none else
      match parseSfl cell, rest with
      | .error _, ["err"] => none
      | .ok (d, f), ["ok", dv, fv] =>
        if decTok? dv == some d && f == (fv == "1") then none
        else some s!"sfl cell {showStr s}: model {reprStr d} {f} impl {rest}"
      | m, _ => some s!"sfl cell {showStr s}: model {reprStr m.toOption} impl {rest}"
    | none => bad
  | ["in", "strep", s], ["impl", "strep", id, name, reg] =>
    match unstok? s, unstok? id, unstok? name with
    | some s, some id, some name =>
      let m := fromStrep s
      if m == ⟨id, name, reg == "1"⟩ then none
      else some s!"from_strep({showStr s}): model {showStr m.id}/{showStr m.name}/{m.registered} impl {showStr id}/{showStr name}/{reg}"
    | _, _, _ => bad
  | ["in", "date", s], "impl" :: "date" :: rest =>
    match unstok? s with
    | some s =>
      -- an explicit sign before the year is outside the model
      if s.head? == some '+' || s.head? == some '-' then none else
      match parseDate s, rest with
      | none, ["err"] => none
      | some d, ["ok", dv, shown] =>
        if dateTok? dv == some d && unstok? shown == some d.render then none
        else some s!"date {showStr s}: model {reprStr d} {showStr d.render} impl {rest}"
      | m, _ => some s!"date {showStr s}: model {reprStr m} impl {rest}"
    | none => bad
  | ["in", "act", s], "impl" :: "act" :: rest =>
    match unstok? s with
    | some s =>
      if (trim s).isEmpty then (if rest == ["absent"] then none else some s!"blank action cell: impl {rest}") else
      match parseAct (trim s), rest with
      | none, ["err"] => none
      | some a, ["ok", shown] =>
        if unstok? shown == some a.render then none else some s!"action {showStr s}: model {reprStr a} impl {rest}"
      | m, _ => some s!"action {showStr s}: model {reprStr m} impl {rest}"
    | none => bad
  | ["in", "cur", s], ["impl", "cur", o] =>
    match unstok? s, unstok? o with
    | some s, some o =>
      if currencyNew s == o then none else some s!"Currency::new({showStr s}): model {showStr (currencyNew s)} impl {showStr o}"
    | _, _ => bad
  | ["in", "trim", s], ["impl", "trim", o] =>
    match unstok? s, unstok? o with
    | some s, some o => if trim s == o then none else some s!"trim({s}): model {trim s} impl {o}"
    | _, _ => bad
  | ["in", "lower", s], ["impl", "lower", lo, up] =>
    match unstok? s, unstok? lo, unstok? up with
    | some s, some lo, some up =>
      if lower s == lo && upper s == up then none
      else some s!"case mapping of {s}: model {lower s} / {upper s} impl {lo} / {up}"
    | _, _, _ => bad
  | _, _ => some s!"unmatched cell lines {inp} / {impl}"

def runCells (c : Case) : Res :=
  let ins := c.lines.filter (fun l => l.head? == some "in")
  let impls := c.lines.filter (fun l => l.head? == some "impl")
  if ins.length != impls.length then { verdict := "BADCASE", msg := "in/impl line counts differ" } else
  if impls.any (fun l => l.contains "panic") then
    { verdict := "DIFF", tags := ["dk=panic", "kind=cell", "nt="], msg := s!"implementation panicked: {impls}" } else
  let probs := (ins.zip impls).filterMap (fun (a, b) => cellCheck a b)
  let kinds := (ins.filterMap (fun l => l[1]?)).eraseDups
  let tags := ["kind=cell", s!"n={ins.length}", s!"cellkinds={kinds.length}", "nt="]
  if probs.isEmpty then { verdict := "ok", tags := tags }
  else { verdict := "DIFF", tags := "dk=cell" :: tags, msg := String.intercalate "; " (probs.take 2) }

def runCsvrt (c : Case) : Res :=
  let r : Res := match kv? c.header "kind" with
    | some "rt" => runRt c
    | some "cell" => runCells c
    | _ => { verdict := "BADCASE", msg := "csvrt: unknown kind" }
  { r with msg := oneLine r.msg }

end Driver
