/-
  Family `questrade` (C18): tx_export_convert_impl::run_with_args on generated .xlsx exports
  vs Acb.Qt.convert.  Parsing of the protocol lines + correspondence check.
-/
import Driver.Proto
import AcbModel.Broker.Questrade
namespace Driver
open Acb Acb.Qt

def hexVal (c : Char) : Option Nat :=
  if '0' ≤ c && c ≤ '9' then some (c.toNat - '0'.toNat)
  else if 'A' ≤ c && c ≤ 'F' then some (c.toNat - 'A'.toNat + 10)
  else if 'a' ≤ c && c ≤ 'f' then some (c.toNat - 'a'.toNat + 10)
  else none

def unescChars : List Char → List Char
  | '%' :: a :: b :: rest =>
    match hexVal a, hexVal b with
    | some x, some y => Char.ofNat (x * 16 + y) :: unescChars rest
    | _, _ => '%' :: unescChars (a :: b :: rest)
  | c :: rest => c :: unescChars rest
  | [] => []

/-- inverse of the harness' `esc` (ASCII) -/
def unesc (s : String) : String :=
  if s == "%e" then "" else String.ofList (unescChars s.toList)

def parseCell? (t : String) : Option Cell :=
  if t == "E" then some .empty
  else
    match t.splitOn ":" with
    | ["S", v] => some (.str (unesc v))
    | ["N", d, shown] => (parseRat? d).map (fun v => .num v (unesc shown))
    | ["B", v] => some (.bool (v == "1"))
    | ["X", v] => some (.error (unesc v))
    | _ => none

/-- what the implementation printed for one row of its CSV -/
structure ImplTx where
  security : String
  tradeDate : String
  settleDate : String
  side : String
  shares : Rat
  price : Rat
  commission : Rat
  currency : String
  rate : Option Rat
  aff : String
  memo : String
  raw : List String

structure ImplObs where
  status : String := "?"         -- ok | rowerrs | fatal | panic | argerr
  fatalKind : String := ""
  msg : String := ""
  txs : List ImplTx := []
  errs : List (Nat × String) := []
  csv : String := "?"            -- none | rows | unparsable
  acceptOk : Nat := 0
  acceptTotal : Nat := 0
  acceptMsg : String := ""
  rawLines : List (List String) := []
  bad : Bool := false

structure QtSheet where
  sheet : Sheet
  obs : ImplObs

inductive PatSpec
  | any
  | sub (s : String)

def PatSpec.test : PatSpec → String → Bool
  | .any, s => !s.isEmpty
  | .sub p, s => hasInfix p.toList s.toList

structure QtOpts where
  acct : Option PatSpec
  sec : Option PatSpec
  noFx : Bool
  noSort : Bool
  rate : Option Rat

def QtOpts.toModel (o : QtOpts) : Opts :=
  { account := o.acct.map (·.test), security := o.sec.map (·.test), noFx := o.noFx,
    noSort := o.noSort, usdRate := o.rate }

def parsePat? (s : String) : Option (Option PatSpec) :=
  if s == "-" then some none
  else if s == "any" then some (some .any)
  else if s.startsWith "sub:" then some (some (.sub (unesc (s.drop 4).toString)))
  else none

def parseImplTx? (toks : List String) : Option ImplTx :=
  match toks with
  | [sec, td, sd, side, sh, px, cm, cur, rate, aff, memo] => do
    some { security := unesc sec, tradeDate := td, settleDate := sd, side := side,
           shares := ← parseRat? sh, price := ← parseRat? px, commission := ← parseRat? cm,
           currency := unesc cur, rate := ← optRat? rate, aff := aff, memo := unesc memo, raw := toks }
  | _ => none

def addImplLine (o : ImplObs) (rest : List String) : ImplObs :=
  -- canonical form used to compare two layouts of one export: messages are never compared
  let canon := match rest with
    | "status" :: "fatal" :: k :: _ => ["status", "fatal", k]
    | "status" :: s :: _ => ["status", s]
    | "err" :: row :: kind :: _ => ["err", row, kind]
    | ["accept", a, b, _] => ["accept", a, b]
    | r => r
  let o := { o with rawLines := o.rawLines ++ [canon] }
  match rest with
  | "status" :: "fatal" :: k :: m => { o with status := "fatal", fatalKind := k, msg := unesc (String.intercalate " " m) }
  | "status" :: s :: m => { o with status := s, msg := unesc (String.intercalate " " m) }
  | "tx" :: toks =>
    match parseImplTx? toks with
    | some t => { o with txs := o.txs ++ [t] }
    | none => { o with bad := true }
  | "err" :: row :: kind :: _ =>
    match row.toNat? with
    | some n => { o with errs := o.errs ++ [(n, kind)] }
    | none => { o with bad := true }
  | "csv" :: k :: _ => { o with csv := k }
  | ["accept", a, b, m] =>
    match a.toNat?, b.toNat? with
    | some x, some y => { o with acceptOk := x, acceptTotal := y, acceptMsg := unesc m }
    | _, _ => { o with bad := true }
  | _ => { o with bad := true }

structure QtParsed where
  opts : QtOpts
  sheets : List QtSheet

def parseQt (c : Case) : Option QtParsed := do
  let acct ← parsePat? ((kv? c.header "acct").getD "-")
  let sec ← parsePat? ((kv? c.header "sec").getD "-")
  let rate ← optRat? ((kv? c.header "rate").getD "-")
  let opts : QtOpts := { acct := acct, sec := sec, noFx := (kv? c.header "nofx") == some "1",
                         noSort := (kv? c.header "nosort") == some "1", rate := rate }
  let step (acc : Option (List QtSheet)) (l : List String) : Option (List QtSheet) := do
    let sheets ← acc
    match l with
    | ["in", "sheet", _] => some (sheets ++ [{ sheet := { hdr := [], rows := [] }, obs := {} }])
    | "in" :: "hdr" :: cells => do
      let cs ← cells.mapM parseCell?
      let last ← sheets.getLast?
      some (sheets.dropLast ++ [{ last with sheet := { last.sheet with hdr := cs } }])
    | "in" :: "row" :: cells => do
      let cs ← cells.mapM parseCell?
      let last ← sheets.getLast?
      some (sheets.dropLast ++ [{ last with sheet := { last.sheet with rows := last.sheet.rows ++ [cs] } }])
    | "impl" :: _ :: rest => do
      let last ← sheets.getLast?
      some (sheets.dropLast ++ [{ last with obs := addImplLine last.obs rest }])
    | "repro" :: _ => some sheets
    | _ => none
  let sheets ← c.lines.foldl step (some [])
  if sheets.isEmpty || sheets.any (·.obs.bad) then none else some { opts := opts, sheets := sheets }

def errKindName : ErrKind → String
  | .noColumn => "noColumn" | .rowTooShort => "rowTooShort" | .badDate => "badDate"
  | .unknownAction => "unknownAction" | .emptySymbol => "emptySymbol" | .emptyValue => "emptyValue"
  | .badNumber => "badNumber" | .notNumber => "notNumber" | .cellError => "cellError"
  | .fxtCurrencies => "fxtCurrencies" | .fxtDates => "fxtDates" | .fxtAccounts => "fxtAccounts"
  | .fxtBothPositive => "fxtBothPositive" | .fxtBothNegative => "fxtBothNegative"
  | .fxtZero => "fxtZero" | .fxUnsupported => "fxUnsupported" | .unpaired => "unpaired"

def cmpTx (i : Nat) (m : BTx) (x : ImplTx) : Option String :=
  let side := match m.side with | .buy => "B" | .sell => "S"
  if m.security ≠ x.security then some s!"tx {i}: security model={m.security} impl={x.security}"
  else if toString m.tradeDate ≠ x.tradeDate then some s!"tx {i}: trade date model={m.tradeDate} impl={x.tradeDate}"
  else if toString m.settleDate ≠ x.settleDate then some s!"tx {i}: settlement date model={m.settleDate} impl={x.settleDate}"
  else if side ≠ x.side then some s!"tx {i}: action model={side} impl={x.side}"
  else if m.shares ≠ x.shares then some s!"tx {i}: shares model={ratToString m.shares} impl={ratToString x.shares}"
  else if m.price ≠ x.price then some s!"tx {i}: price model={ratToString m.price} impl={ratToString x.price}"
  else if m.commission ≠ x.commission then some s!"tx {i}: commission model={ratToString m.commission} impl={ratToString x.commission}"
  else if m.currency ≠ x.currency then some s!"tx {i}: currency model={m.currency} impl={x.currency}"
  else if !closeOpt m.rate x.rate then some s!"tx {i}: rate model={showOpt m.rate} impl={showOpt x.rate}"
  else if (if m.registered then "R" else "D") ≠ x.aff then some s!"tx {i}: affiliate model registered={m.registered} impl={x.aff}"
  -- the CSV is read back through parse_tx_csv, which trims every field
  else if m.memo.trimAscii.toString ≠ x.memo then some s!"tx {i}: memo model='{m.memo}' impl='{x.memo}'"
  else none

partial def cmpTxs (i : Nat) : List BTx → List ImplTx → Option String
  | [], [] => none
  | m :: ms, x :: xs =>
    match cmpTx i m x with
    | some e => some e
    | none => cmpTxs (i + 1) ms xs
  | ms, xs => some s!"row count model={i + ms.length} impl={i + xs.length}"

/-- (diff kind, message) of the first disagreement on one sheet -/
def qtCompareSheet (o : QtOpts) (k : Nat) (s : QtSheet) : Option (String × String) :=
  let obs := s.obs
  if obs.status == "panic" then some ("panic", s!"sheet {k}: implementation panicked: {obs.msg}")
  else if obs.status == "argerr" then some ("qt_status", s!"sheet {k}: arguments rejected: {obs.msg}")
  else
    match convert o.toModel s.sheet with
    | .multiAccount =>
      if obs.status == "fatal" && obs.fatalKind == "multiAccount" then none
      else some ("qt_status", s!"sheet {k}: model=multiAccount impl={obs.status} {obs.fatalKind}")
    | .out txs errs =>
      let mstatus := if errs.isEmpty then "ok" else "rowerrs"
      if obs.status ≠ mstatus then
        some ("qt_status", s!"sheet {k}: status model={mstatus} {errs.map (fun e => (e.1, errKindName e.2))} impl={obs.status} {obs.fatalKind} {obs.errs} {obs.msg}")
      else if errs.map (fun e => (e.1, errKindName e.2)) ≠ obs.errs then
        some ("qt_errs", s!"sheet {k}: errors model={errs.map (fun e => (e.1, errKindName e.2))} impl={obs.errs}")
      else if obs.csv ≠ "rows" then some ("qt_txs", s!"sheet {k}: csv {obs.csv}")
      else (cmpTxs 0 txs obs.txs).map (fun e => ("qt_txs", s!"sheet {k}: {e}"))

end Driver
