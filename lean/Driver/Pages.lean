/-
  Family `pages` (C20): safe_page_chunks_with_remainder_pn + OptimizedPageIter on real in-memory
  documents vs `Acb.Pages`.
-/
import Driver.Proto
import AcbModel.Broker.Pages
import AcbModel.Generated.BrokerPdf
namespace Driver
open Acb Acb.Pages

structure PagesCase where
  kind : String
  n : Nat
  groups : List (List Nat)
  chunks : List (List Nat)         -- impl
  ys : List (Nat × Nat)            -- impl: (page reported, page read from the text)
  fin : String                     -- impl: none|oob|unwrap|other|skipped|chunkpanic:…|missing

def natsOf (ts : List String) : Option (List Nat) := ts.mapM (·.toNat?)

def parsePagesCase (c : Case) : Option PagesCase := do
  let kind := (kv? c.header "kind").getD "chunks"
  let n ← (kv? c.header "n").bind (·.toNat?)
  let mut groups : Array (List Nat) := #[]
  let mut chunks : Array (List Nat) := #[]
  let mut ys : Array (Nat × Nat) := #[]
  let mut fin := "missing"
  for l in c.lines do
    match l with
    | "in" :: "g" :: ts => groups := groups.push (← natsOf ts)
    | "impl" :: "chunk" :: ts => chunks := chunks.push (← natsOf ts)
    | ["impl", "y", p, k] => ys := ys.push (← p.toNat?, ← k.toNat?)
    | ["impl", "end", f] => fin := f
    | _ => pure ()
  some { kind, n, groups := groups.toList, chunks := chunks.toList, ys := ys.toList, fin }

def panicName : Option IterPanic → String
  | none => "none"
  | some (.indexOob _) => "oob"
  | some (.unwrapNone _) => "unwrap"
  | some .emptyGroup => "unwrap"
  | some .pageZero => "pagezero"

def showGroups (gs : List (List Nat)) : String :=
  ";".intercalate (gs.map (fun g => ",".intercalate (g.map toString)))

def nondecreasing : List Nat → Bool
  | a :: b :: rest => a ≤ b && nondecreasing (b :: rest)
  | _ => true

def runPages (c : Case) : Res :=
  match parsePagesCase c with
  | none => { verdict := "BADCASE", msg := "unparsable pages case" }
  | some pc =>
    let n := pc.n
    let isRaw := pc.kind == "raw"
    -- what the iterator is given
    let iterGroupsImpl := if isRaw then pc.groups else pc.chunks
    let mono := iterGroupsImpl.all nondecreasing
    let tags := [s!"kind={pc.kind}", s!"n={n}", s!"groups={pc.groups.length}",
                 s!"mono={if mono then 1 else 0}",
                 s!"nt={if n ≥ 1 && !pc.groups.flatten.isEmpty then "C20" else "-"}"]
    -- ---------- oracle on the implementation alone
    let flat := pc.chunks.flatten
    let oracle : List String :=
      (if isRaw then [] else
        (if flat.any (fun p => p = 0 || p > n) then [s!"a non-existent page is scheduled: {showGroups pc.chunks}"] else []) ++
        (if (List.range' 1 n).any (fun p => !flat.contains p) then [s!"a page of the document is never scheduled: {showGroups pc.chunks} for {n} pages"] else []) ++
        (if pc.chunks.any (·.isEmpty) then ["an empty group is scheduled"] else []) ++
        (if pc.groups.flatten.eraseDups.length = pc.groups.flatten.length && flat.eraseDups.length ≠ flat.length
          then [s!"a page is scheduled twice although no hint names it twice: {showGroups pc.chunks}"] else [])) ++
      (if pc.fin != "none" then [s!"iterator over {showGroups iterGroupsImpl} ended with {pc.fin} after yielding {pc.ys.length} pages"]
       else
        (if pc.ys.map (·.1) != iterGroupsImpl.flatten then [s!"iterator yielded pages {pc.ys.map (·.1)} for groups {showGroups iterGroupsImpl}"] else []) ++
        (if pc.ys.any (fun y => y.1 != y.2) then ["a yielded page carries the text of another page"] else []))
    -- ---------- correspondence
    let mChunks := safeChunks n pc.groups
    let mIter := if isRaw then iterGroups false (fun p => p) [] pc.groups
                 else iterGroups false (fun p => p) [] mChunks
    let diffs : List (String × String) :=
      (if !isRaw && mChunks != pc.chunks && !pc.fin.startsWith "chunkpanic"
        then [("chunks", s!"chunks: impl {showGroups pc.chunks} model {showGroups mChunks}")] else []) ++
      (if pc.fin.startsWith "chunkpanic" then [("panic", "safe_page_chunks_with_remainder_pn panicked")] else []) ++
      (if pc.fin == "skipped" || pc.fin.startsWith "chunkpanic" then []
       else if mIter.1 != pc.ys || panicName mIter.2 != pc.fin
        then [("iter", s!"iterator: impl yields {pc.ys.map (·.1)} end {pc.fin}; model yields {mIter.1.map (·.1)} end {panicName mIter.2}")]
        else []) ++
      (if pc.kind == "cli" && pc.groups != Gen.statementPageHints
        then [("clihints", s!"the harness's copy of the CLI hints {showGroups pc.groups} differs from the source's {showGroups Gen.statementPageHints}")]
        else [])
    if !oracle.isEmpty then
      { verdict := "ORACLE", tags := "of=C20" :: tags,
        msg := "; ".intercalate oracle ++ (if diffs.isEmpty then "" else " || " ++ "; ".intercalate (diffs.map (·.2))) }
    else match diffs with
    | [] => { verdict := "ok", tags := tags }
    | (k, _) :: _ => { verdict := "DIFF", tags := s!"dk={k}" :: tags, msg := "; ".intercalate (diffs.map (·.2)) }

end Driver
