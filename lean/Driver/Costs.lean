/-
  Family `costs` (C17): the --total-costs report of the real application vs `Acb.Costs.calcTotalCosts`,
  plus the property's own oracle (the declarative `figure`/`carry`/`opening` of
  AcbModel/App/CostsSpec.lean, evaluated on the implementation's own rows and tables, independent of
  the model's loops).
-/
import Driver.Proto
import AcbModel.App.CostsSpec
import AcbModel.App.Year
namespace Driver
open Acb Acb.Costs

structure ImplRow where
  year : Option Int := none
  day : Int
  total : Rat
  figs : List Rat

structure CostsParsed where
  nsecs : Nat
  errsecs : Nat
  rows : List Row
  rowYears : List (Int × Int)        -- (day, implementation's year of that day)
  result : String
  resultMsg : String
  totalCols : List Nat
  yearlyCols : List Nat
  total : List ImplRow
  yearly : List ImplRow
  notes : List Note
  ynotesSame : Bool

def parseRow? : List String → Option (Row × (Int × Int))
  | ["row", si, jd, yr, pre, post, dflt, ak] => do
    let r : Row := { sec := ← si.toNat?, day := ← parseInt? jd, pre := ← optRat? pre, post := ← optRat? post,
                     dflt := dflt == "1", aff := ← ak.toNat? }
    some (r, (r.day, ← parseInt? yr))
  | _ => none

def parseImplRow? (yearly : Bool) (toks : List String) : Option ImplRow := do
  let toks := toks.drop 2
  let (yr, toks) ← (if yearly then
      match toks with
      | y :: rest => (parseInt? y).map (fun v => (some v, rest))
      | [] => none
    else some (none, toks))
  match toks with
  | jd :: tot :: figs =>
    some { year := yr, day := ← parseInt? jd, total := ← parseRat? tot, figs := ← figs.mapM parseRat? }
  | _ => none

def parseNote? : List String → Option Note
  | ["impl", "note", "reg", jd, si] => do some (Note.registered (← parseInt? jd) (← si.toNat?))
  | ["impl", "note", "nondef", jd, si, ak] => do some (Note.nonDefault (← parseInt? jd) (← si.toNat?) (← ak.toNat?))
  | _ => none

def linesOf (c : Case) (a : String) (b : Option String := none) : List (List String) :=
  c.lines.filter (fun l => l.head? == some a && (match b with | some x => l[1]? == some x | none => true))

def parseCosts (c : Case) : Option CostsParsed := do
  let secs := (linesOf c "secs").head?.getD ["secs"]
  let errsecs := ((linesOf c "errsecs").head?.bind (·[1]?)).bind String.toNat? |>.getD 0
  let rws ← (linesOf c "row").mapM parseRow?
  let resLine := (linesOf c "impl" (some "result")).head?.getD []
  let cols (k : String) : Option (List Nat) := ((linesOf c "impl" (some k)).head?.getD []).drop 2 |>.mapM String.toNat?
  let total ← (linesOf c "impl" (some "total")).mapM (parseImplRow? false)
  let yearly ← (linesOf c "impl" (some "yearly")).mapM (parseImplRow? true)
  let notes ← (linesOf c "impl" (some "note")).mapM parseNote?
  some { nsecs := secs.length - 1, errsecs := errsecs, rows := rws.map (·.1), rowYears := rws.map (·.2),
         result := resLine[2]?.getD "?", resultMsg := String.intercalate " " (resLine.drop 3),
         totalCols := ← cols "totalcols", yearlyCols := ← cols "yearlycols",
         total := total, yearly := yearly, notes := notes,
         ynotesSame := ((linesOf c "impl" (some "ynotes")).head?.bind (·[2]?)) == some "same" }

def closeList : List Rat → List Rat → Bool
  | [], [] => true
  | a :: as, b :: bs => close a b && closeList as bs
  | _, _ => false

def showRats (l : List Rat) : String := String.intercalate "," (l.map ratToString)

/-- correspondence: model vs implementation -/
def costsDiff (p : CostsParsed) (c : Result) : Option String :=
  let mrows := c.totalRows
  let myear := c.yearlyRows yearOfJd
  if p.totalCols ≠ c.sortedSecs then some s!"columns model={c.sortedSecs} impl={p.totalCols}"
  else if p.yearlyCols ≠ c.sortedSecs then some s!"yearly columns model={c.sortedSecs} impl={p.yearlyCols}"
  else if mrows.map (·.day) ≠ p.total.map (·.day) then
    some s!"dated rows model={mrows.map (·.day)} impl={p.total.map (·.day)}"
  else
    let bad := (mrows.zip p.total).find? (fun (m, x) =>
      !(close m.total x.total && closeList (m.figs.map (·.getD (-1))) x.figs))
    match bad with
    | some (m, x) => some s!"day {m.day}: model total={ratToString m.total} figs={showRats (m.figs.map (·.getD (-1)))} impl total={ratToString x.total} figs={showRats x.figs}"
    | none =>
      if myear.map (·.1) ≠ p.yearly.map (fun x => x.year.getD 0) then
        some s!"years model={myear.map (·.1)} impl={p.yearly.map (fun x => x.year.getD 0)}"
      else
        -- a year's day may differ from the model's only among days whose totals tie within 1e-9
        -- (the implementation compares 28-digit decimals, the model exact rationals): `nearTie`
        let bady := (myear.zip p.yearly).find? (fun (m, x) =>
          match m.2 with
          | none => true
          | some r =>
            let r' := if r.day == x.day then r else
              (if yearOfJd x.day == m.1 && c.days.contains x.day && close (c.tab.total x.day) r.total then c.rowOf x.day else r)
            !(r'.day == x.day && close r'.total x.total && closeList (r'.figs.map (·.getD (-1))) x.figs))
        match bady with
        | some (m, x) => some s!"yearly {m.1}: model day={(m.2.map (·.day)).getD 0} impl day={x.day} total={ratToString x.total}"
        | none =>
          if c.notes ≠ p.notes then some s!"notes differ: model {c.notes.length} impl {p.notes.length} (or order)"
          else none

def sortedDistinctDays (rows : List Row) : List Int :=
  sortDays (dedup ((counted rows).map (·.day)))

def sortedDistinctSecs (rows : List Row) : List Nat :=
  sortNats (dedup ((counted rows).map (·.sec)))

def countNote (n : Note) (l : List Note) : Nat := (l.filter (· == n)).length

/-- The property itself, on the implementation's observations alone. -/
def costsOracle (p : CostsParsed) : Option String :=
  let rows := p.rows
  let days := sortedDistinctDays rows
  let secs := sortedDistinctSecs rows
  if p.totalCols ≠ secs then some s!"columns {p.totalCols}, securities traded by the default affiliate {secs}"
  else if p.yearlyCols ≠ secs then some s!"yearly columns {p.yearlyCols}, expected {secs}"
  else if p.total.map (·.day) ≠ days then some s!"dated rows {p.total.map (·.day)}, settlement days {days}"
  else
    let badFig := p.total.findSome? (fun x =>
      let want := secs.map (fun s => figure rows s x.day)
      if !closeList want x.figs then
        some s!"day {x.day}: figures shown {showRats x.figs}, required {showRats want}"
      else if !close x.total (x.figs.foldl (· + ·) 0) then
        some s!"day {x.day}: total {ratToString x.total} is not the sum of the figures {showRats x.figs}"
      else none)
    match badFig with
    | some e => some e
    | none =>
      let years := sortDays (dedup (days.map yearOfJd))
      if p.yearly.map (fun x => x.year.getD 0) ≠ years then
        some s!"years listed {p.yearly.map (fun x => x.year.getD 0)}, years with a transaction {years}"
      else
        let badY := p.yearly.findSome? (fun x =>
          let y := x.year.getD 0
          match p.total.find? (fun t => t.day == x.day) with
          | none => some s!"year {y}: day {x.day} is not a dated row"
          | some t =>
            if yearOfJd x.day ≠ y then some s!"year {y}: day {x.day} is not in that year"
            else if !(close t.total x.total && closeList t.figs x.figs) then
              some s!"year {y}: figures differ from the dated row of day {x.day}"
            else
              match p.total.find? (fun t' => yearOfJd t'.day == y && t'.total > x.total + 1 / pow10 9) with
              | some t' => some s!"year {y}: day {x.day} total {ratToString x.total} but day {t'.day} has {ratToString t'.total}"
              | none => none)
        match badY with
        | some e => some e
        | none =>
          let want := notesOf rows
          if want.length ≠ p.notes.length || want.any (fun n => countNote n want ≠ countNote n p.notes) then
            some s!"ignored transactions listed {p.notes.length}, rows of other affiliates {want.length} (or not the same ones)"
          else if !p.ynotesSame then some "the yearly table does not list the same ignored transactions"
          else none

def costsTags (p : CostsParsed) : List String :=
  let rows := p.rows
  let cr := counted rows
  let days := sortedDistinctDays rows
  let secs := sortedDistinctSecs rows
  -- a (security, day) whose closing value is below the day's maximum (the F-17 shape)
  let peak := secs.any (fun s => days.any (fun d =>
    match (today rows s d).getLast? with
    | some last => (today rows s d).any (fun v => v > last)
    | none => false))
  let carryUsed := secs.any (fun s => days.any (fun d => (today rows s d).isEmpty))
  let multi := secs.any (fun s => days.any (fun d => (today rows s d).length ≥ 2))
  let years := dedup (days.map yearOfJd)
  let tie := years.any (fun y =>
    let ts := (p.total.filter (fun t => yearOfJd t.day == y)).map (·.total)
    match ts with
    | [] => false
    | t :: rest => let m := rest.foldl max t; (ts.filter (· == m)).length ≥ 2)
  let nt := if cr.length ≥ 2 && days.length ≥ 1 then "C17" else ""
  [s!"nt={nt}", s!"nsec={p.nsecs}", s!"cols={secs.length}", s!"ndays={if days.length ≥ 8 then "8+" else toString days.length}",
   s!"years={years.length}", s!"peak={peak}", s!"carry={carryUsed}", s!"multi={multi}", s!"tie={tie}",
   s!"notes={if p.notes.length ≥ 4 then "4+" else toString p.notes.length}", s!"errsecs={p.errsecs}", s!"out={p.result}"]

/-- executable `Costs.WF` (what `C17_ledger_rows_wf` proves of the model's ledger output), checked on the
    rows the implementation's ledger handed to the report -/
def wfRows (rows : List Row) : Option String :=
  match rows.find? (fun r => (match r.post with | some p => decide (p < 0) | none => false) ||
                             (match r.pre with | some p => decide (p < 0) | none => false)) with
  | some r => some s!"negative cost base in row sec={r.sec} day={r.day}"
  | none =>
  match rows.find? (fun r => r.post.isSome && r.pre.isNone) with
  | some r => some s!"post cost base without pre cost base in row sec={r.sec} day={r.day}"
  | none =>
    let rec go : List Row → Option String
      | [] => none
      | a :: rest =>
        match rest.find? (fun b => a.sec == b.sec && decide (b.day < a.day)) with
        | some b => some s!"rows of security {a.sec} out of date order: day {a.day} before day {b.day}"
        | none => go rest
    go (counted rows)

def runCosts (c : Case) : Res :=
  match parseCosts c with
  | none => { verdict := "BADCASE", msg := "unparsable costs case" }
  | some p =>
    let tags := costsTags p
    match p.rowYears.find? (fun (d, y) => yearOfJd d ≠ y) with
    | some (d, y) => { verdict := "DIFF", tags := "dk=year" :: tags, msg := s!"year of day {d}: model {yearOfJd d} impl {y}" }
    | none =>
    if p.result == "err" then
      -- the whole run was rejected before any table (CSV/row level or split validation): nothing to compare
      { verdict := "ok", tags := "skipped=err" :: tags }
    else if p.result ≠ "ok" then
      { verdict := "DIFF", tags := "dk=panic" :: tags, msg := s!"implementation: {p.result} {p.resultMsg}" }
    else if let some e := wfRows p.rows then
      { verdict := "DIFF", tags := "dk=wf" :: tags, msg := s!"ledger rows violate the report's precondition (C17_ledger_rows_wf): {e}" }
    else
      let orc := costsOracle p
      let diff := match calcTotalCosts yearOfJd p.rows id id with
        | .error e => some s!"model panics ({reprStr e}), implementation completed"
        | .ok m => costsDiff p m
      let near := match calcTotalCosts yearOfJd p.rows id id with
        | .ok m => ((m.yearlyRows yearOfJd).zip p.yearly).any (fun (a, x) => (a.2.map (·.day)) != some x.day)
        | .error _ => false
      let tags := if near && diff.isNone then "near=1" :: tags else tags
      match orc, diff with
      | some e, d => { verdict := "ORACLE", tags := "of=C17" :: tags,
                       msg := e ++ (match d with | some x => " || model: " ++ x | none => "") }
      | none, some x => { verdict := "DIFF", tags := "dk=costs" :: tags, msg := x }
      | none, none => { verdict := "ok", tags := tags }

end Driver
