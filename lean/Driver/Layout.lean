/-
  Family `layout` (C07): the same rows in two layouts through run_acb_app_to_render_model.
  ORACLE (implementation only): every table of the re-laid-out run equals the table of the base
  run (per-security tables, aggregate gains, total costs; yearly maxima except in years where two
  days have the same total — which of them is reported is C09's subject; notes compared sorted).
  Correspondence: the order in which the implementation processed the rows of each security
  (memo tags in table order) = `Order.process` of the model, for both layouts; the generator's
  row order must be admissible.
-/
import Driver.Proto
import Driver.Csvrt
import AcbModel.App.Order
namespace Driver
open Acb Acb.Order

structure LRun where
  status : String := "none"      -- ok | err | panic | none
  secs : List (String × String) := []          -- (sec token, dump token)
  orders : List (String × Nat × List Nat) := [] -- (sec token, #errors, row ids in table order)
  agg : String := ""
  totalhdr : String := ""
  totalnotes : String := ""
  totals : List (String × String × String) := []   -- date, total, row
  yearly : List (String × String) := []            -- year, row

def parseIds (s : String) : List Nat := (s.splitOn ",").filterMap (·.toNat?)

def parseLRun (which : String) (lines : List (List String)) : LRun :=
  lines.foldl (fun (st : LRun) l =>
    match l with
    | "impl" :: w :: rest =>
      if w != which then st else
      match rest with
      | ["ok"] => { st with status := "ok" }
      | "err" :: _ => { st with status := "err" }
      | "panic" :: _ => { st with status := "panic" }
      | ["sec", s, d] => { st with secs := st.secs ++ [(s, d)] }
      | ["order", s, ne, ids] => { st with orders := st.orders ++ [(s, ne.toNat?.getD 0, parseIds ids)] }
      | ["order", s, ne] => { st with orders := st.orders ++ [(s, ne.toNat?.getD 0, [])] }
      | ["agg", d] => { st with agg := d }
      | ["totalhdr", d] => { st with totalhdr := d }
      | ["totalnotes", d] => { st with totalnotes := d }
      | ["total", dt, tot, row] => { st with totals := st.totals ++ [(dt, tot, row)] }
      | ["yearly", y, row] => { st with yearly := st.yearly ++ [(y, row)] }
      | _ => st
    | _ => st) {}

/-- years (as the 4 characters after the token prefix `e`) in which two days show the same total -/
def tieYears (r : LRun) : List String :=
  let ys := (r.totals.map (fun (d, _, _) => ((d.drop 1).take 4).toString)).eraseDups
  ys.filter (fun y =>
    let ts := (r.totals.filter (fun (d, _, _) => ((d.drop 1).take 4).toString == y)).map (fun (_, t, _) => t)
    ts.eraseDups.length != ts.length)

def runLayout (c : Case) : Res :=
  let rowLines := c.lines.filter (fun l => l.take 2 == ["in", "row"])
  let rows? : Option (List (InRow Nat)) := rowLines.mapM (fun l =>
    match l with
    | _ :: _ :: k :: sec :: jd :: _ => do
      let k ← k.toNat?
      let s ← unstok? sec
      let d ← parseInt? jd
      some ⟨String.ofList s, d, k⟩
    | _ => none)
  let order? := (c.lines.find? (fun l => l.take 2 == ["in", "order"])).map (fun l => parseIds (l.getD 2 ""))
  match rows?, order? with
  | some rows, some order =>
    let rows' := order.filterMap (fun i => rows[i]?)
    if rows'.length != rows.length then { verdict := "BADCASE", msg := "order is not a permutation of the rows" } else
    let secNames := (rows.map (·.sec)).eraseDups
    let dts := (rows.map (·.settle)).eraseDups
    let admissible := secNames.all (fun s => dts.all (fun d =>
      (cls rows' s d).map (·.val) == (cls rows s d).map (·.val)))
    if !admissible then { verdict := "BADCASE", msg := "generated row order is not admissible" } else
    let base := parseLRun "base" c.lines
    let rel := parseLRun "relaid" c.lines
    let hk := fun k => (kv? c.header k).getD "0"
    let changed := hk "files" != "1" || hk "colperm" == "1" || hk "rowperm" == "1" || hk "recase" == "1" || hk "extra" != "0"
    let ties := tieYears base
    let tags := [s!"n={rows.length}", s!"files={hk "files"}", s!"colperm={hk "colperm"}", s!"rowperm={hk "rowperm"}",
      s!"recase={hk "recase"}", s!"extra={hk "extra"}", s!"secs={secNames.length}", s!"out={base.status}",
      s!"tie={if ties.isEmpty then 0 else 1}", (if changed && rows.length ≥ 2 then "nt=C07" else "nt=")]
    -- a panic in both runs is C05's subject (same outcome for both layouts); in one run only it is
    -- a different outcome and falls under the oracle below
    if base.status == "panic" && rel.status == "panic" then
      { verdict := "DIFF", tags := "dk=panic" :: tags, msg := "implementation panicked in both runs" } else
    -- ---------------- ORACLE
    let oracle : List String :=
      if base.status != rel.status then [s!"base run {base.status}, re-laid-out run {rel.status}"] else
      if base.status != "ok" then [] else
      (if base.secs.map (·.1) != rel.secs.map (·.1) then ["the two runs report different securities"] else
        (base.secs.zip rel.secs).filterMap (fun ((s, d1), (_, d2)) =>
          if d1 == d2 then none else some s!"table of security {(unstok? s).map String.ofList |>.getD s} differs")) ++
      (if base.agg != rel.agg then ["aggregate gains differ"] else []) ++
      (if base.totalhdr != rel.totalhdr || base.totals != rel.totals then ["total costs table differs"] else []) ++
      (if base.totalnotes != rel.totalnotes then ["total costs notes differ"] else []) ++
      (if base.yearly.map (·.1) != rel.yearly.map (·.1) then ["yearly costs: different years"] else
        (base.yearly.zip rel.yearly).filterMap (fun ((y, r1), (_, r2)) =>
          if r1 == r2 || ties.contains (y.drop 1).toString then none else some s!"yearly max cost row of {y.drop 1} differs"))
    -- ---------------- ORACLE, second sentence of the property (implementation only): per security the
    -- rows are processed in settlement-date order, ties broken by position in the concatenated input
    let sortedBy := fun (which : String) (run : LRun) (rs : List (InRow Nat)) =>
      if run.status != "ok" then [] else
      let pos := fun (id : Nat) => (rs.findIdx? (fun r => r.val == id)).getD 0
      let key := fun (id : Nat) => (((rs.find? (fun r => r.val == id)).map (·.settle)).getD 0, pos id)
      run.orders.filterMap (fun (s, _, ids) =>
        let ks := ids.map key
        let ok := (ks.zip (ks.drop 1)).all (fun (a, b) => a.1 < b.1 || (a.1 == b.1 && a.2 < b.2))
        if ok then none else some s!"{which}: rows of {(unstok? s).map String.ofList |>.getD s} not processed in (settlement date, input position) order: {ids}")
    let oracle := oracle ++ sortedBy "base" base rows ++ sortedBy "relaid" rel rows'
    -- ---------------- correspondence: processing order
    let checkOrder := fun (which : String) (run : LRun) (rs : List (InRow Nat)) =>
      if run.status != "ok" then [] else
      run.orders.filterMap (fun (s, nerr, ids) =>
        let name := (unstok? s).map String.ofList |>.getD ""
        let m := (process rs name).map (·.val)
        if m == ids || (nerr > 0 && ids.isPrefixOf m) then none
        else some s!"{which} {name}: model order {m}, implementation order {ids}")
    let dOrder := checkOrder "base" base rows ++ checkOrder "relaid" rel rows'
    if !oracle.isEmpty then
      { verdict := "ORACLE", tags := "of=C07" :: tags, msg := oneLine (String.intercalate "; " (oracle.take 3)) }
    else if !dOrder.isEmpty then
      { verdict := "DIFF", tags := "dk=order" :: tags, msg := oneLine (String.intercalate "; " (dOrder.take 2)) }
    else { verdict := "ok", tags := tags }
  | _, _ => { verdict := "BADCASE", msg := "unparsable layout case" }

end Driver
