/-
  C18's own oracle, evaluated on the implementation's observations only (no model function of
  `AcbModel/Broker/Questrade.lean` is called here; only the cell decoders of `Sheet.lean` and
  text helpers are shared).  The oracle re-derives, from the first sheet of the case and by its own
  lookup of the named headers, what the property demands of the CSV.
-/
import Driver.Questrade
namespace Driver
open Acb Acb.Qt

/-- first column whose header cell is the string `name` (generated exports have unique names) -/
def oCol (hdr : List Cell) (name : String) : Option Nat := hdr.findIdx? (· == Cell.str name)

def oCell (s : Sheet) (row : List Cell) (name : String) : Cell :=
  match oCol s.hdr name with
  | some i => row.getD i .empty
  | none => .empty

def oText (s : Sheet) (row : List Cell) (name : String) : String := (oCell s row name).text

def oDec (s : Sheet) (row : List Cell) (name : String) : Option Rat :=
  match (oCell s row name).dec with
  | .ok v => some v
  | .error _ => none

/-- an activity of the export, as the property reads it -/
inductive Activity
  | trade (sec : String) (td sd : Nat) (buy : Bool) (qty price comm : Rat) (cur : String)
      (reg : Bool) (acct : String)
  | div (usd : Bool) (net : Rat) (acct : String)
  | fxt (cur : String) (td : Nat) (amt : Rat) (reg : Bool) (acct : String)
  | ignored
  | malformed (why : String)

def oCurrency (s : String) : String := if s.toUpper == "" then "CAD" else s.toUpper

def oRegistered (t : String) : Bool :=
  let l := t.toLower.toList
  hasInfix "rrsp".toList l || hasInfix "tfsa".toList l || hasInfix "resp".toList l

def documentedIgnored : List String :=
  ["BRW", "TFI", "TF6", "MGR", "DEP", "NAC", "CON", "INT", "EFT", "RDM", ""]

def classify (s : Sheet) (row : List Cell) : Activity :=
  let action := (oText s row "Action").toUpper
  if documentedIgnored.contains action then .ignored
  else if !(["BUY", "SELL", "DIS", "LIQ", "DIV", "FXT"].contains action) then .malformed "action"
  else
    let acct := oText s row "Account Type" ++ " " ++ oText s row "Account #"
    let reg := oRegistered (oText s row "Account Type")
    match parseDate (oText s row "Transaction Date"), parseDate (oText s row "Settlement Date") with
    | some td, some sd =>
      if action == "FXT" then
        match oDec s row "Net Amount" with
        | some a => .fxt (oCurrency (oText s row "Currency")) td a reg acct
        | none => .malformed "fxt amount"
      else
        let sym := oText s row "Symbol"
        if sym.isEmpty then .malformed "symbol"
        else if action == "DIV" then
          if (oText s row "Currency").toUpper == "USD" then
            match oDec s row "Net Amount" with
            | some a => .div true a acct
            | none => .malformed "div amount"
          else .div false 0 acct
        else
          match oDec s row "Quantity", oDec s row "Price", oDec s row "Commission" with
          | some q, some p, some c =>
            let cur := oCurrency (oText s row "Currency")
            if cur != "CAD" && cur != "USD" then .malformed "currency"
            else
              .trade (if sym == "H038778" then "DLR.TO" else sym) td sd
                (action == "BUY" || action == "DIS") q p c cur reg acct
          | _, _, _ => .malformed "number"
    | _, _ => .malformed "date"

structure FxPair where
  td : Nat
  usd : Rat
  cad : Rat
  acct : String

/-- consecutive FXT activities are paired in order; `none` = some pair is not a well-formed conversion -/
def pairFxts : List Activity → Option (List FxPair)
  | [] => some []
  | .fxt c1 d1 a1 r1 k1 :: .fxt c2 d2 a2 r2 k2 :: rest =>
    let ok := d1 == d2 && r1 == r2 && k1 == k2 && a1 ≠ 0 && a2 ≠ 0 && !(a1 * a2 > 0)
    if ok && c1 == "CAD" && c2 == "USD" then (pairFxts rest).map ({ td := d1, usd := a2, cad := a1, acct := k1 } :: ·)
    else if ok && c1 == "USD" && c2 == "CAD" then (pairFxts rest).map ({ td := d1, usd := a1, cad := a2, acct := k1 } :: ·)
    else none
  | _ => none

def isFxt : Activity → Bool
  | .fxt .. => true
  | _ => false

def isMalformed : Activity → Bool
  | .malformed _ => true
  | _ => false

def rabsD (x : Rat) : Rat := if x < 0 then -x else x

def sameTokens (a b : ImplObs) : Bool := a.rawLines == b.rawLines

structure Expect where
  sec : String
  td : Nat
  sd : Nat
  side : String
  shares : Rat
  price : Rat
  comm : Rat
  cur : String
  rate : Option Rat
  aff : String
deriving BEq

def implKey (x : ImplTx) : Option Expect := do
  some { sec := x.security, td := ← x.tradeDate.toNat?, sd := ← x.settleDate.toNat?, side := x.side,
         shares := x.shares, price := x.price, comm := x.commission, cur := x.currency, rate := x.rate,
         aff := x.aff }

/-- `a` is a permutation of `b` -/
def multisetEq [BEq α] : List α → List α → Bool
  | [], b => b.isEmpty
  | x :: xs, b => if b.contains x then multisetEq xs (b.erase x) else false

def qtNondecreasing : List Nat → Bool
  | a :: b :: rest => a ≤ b && qtNondecreasing (b :: rest)
  | _ => true

/-- All failures of C18's oracle on one case (empty = property holds on this case), plus tags. -/
def qtOracle (p : QtParsed) : List String × List String :=
  match p.sheets with
  | [] => ([], [])
  | base :: variants =>
    let o := p.opts
    let obs := base.obs
    let s := base.sheet
    -- (6) layout independence: every other layout of the same export gives the same observation
    let layoutFails := (variants.zipIdx.filter (fun (v, _) => !sameTokens v.obs obs)).map
      (fun (v, i) => s!"layout: sheet {i + 1} (same export, other column layout) gives a different result: status {v.obs.status} rows {v.obs.txs.length} errors {v.obs.errs} vs status {obs.status} rows {obs.txs.length} errors {obs.errs}")
    let acts := s.rows.map (classify s)
    let pairs := pairFxts (acts.filter isFxt)
    -- a well-formed export names each column the converter reads exactly once, in every layout
    let hdrOk := p.sheets.all (fun q => usedNames.all (fun n => (q.sheet.hdr.filter (· == Cell.str n)).length == 1))
    let layoutFails := if hdrOk then layoutFails else []
    let wf := hdrOk && !(acts.any isMalformed) && pairs.isSome
    let acctOk (a : String) : Bool := match o.acct with | some f => f.test a | none => true
    let secOk (x : String) : Bool := match o.sec with | some f => f.test x | none => true
    let trades := acts.filterMap (fun a => match a with
      | .trade sec td sd buy q pr c cur reg acct =>
        if acctOk acct && secOk sec then
          some ({ sec := sec, td := td, sd := sd, side := if buy then "B" else "S", shares := rabsD q,
                  price := pr, comm := rabsD c, cur := cur,
                  rate := if cur == "USD" then o.rate else none,
                  aff := if reg then "R" else "D" } : Expect)
        else none
      | _ => none)
    let nTrades := (acts.filter (fun a => match a with | .trade .. => true | _ => false)).length
    let nUsd := (acts.filter (fun a => match a with | .trade _ _ _ _ _ _ _ cur _ _ => cur == "USD" | _ => false)).length
    let nDiv := (acts.filter (fun a => match a with | .div true _ _ => true | _ => false)).length
    let nIgn := (acts.filter (fun a => match a with | .ignored => true | _ => false)).length
    let blankHdr := p.sheets.any (fun q => q.sheet.hdr.any (fun c => !c.isStr))
    let tags := [s!"wf={if wf then 1 else 0}", s!"st={obs.status}", s!"rows={s.rows.length}",
      s!"lay={p.sheets.length}", s!"blank={if blankHdr then 1 else 0}", s!"trades={nTrades}",
      s!"usd={nUsd}", s!"div={nDiv}", s!"ign={nIgn}", s!"pairs={(pairs.getD []).length}",
      s!"acct={match o.acct with | none => "none" | some .any => "any" | some (.sub _) => "sub"}",
      s!"sec={match o.sec with | none => "none" | some .any => "any" | some (.sub _) => "sub"}",
      s!"nofx={if o.noFx then 1 else 0}", s!"nosort={if o.noSort then 1 else 0}",
      s!"rate={if o.rate.isSome then 1 else 0}", s!"hdr={if hdrOk then 1 else 0}"]
    let nt := wf && obs.status == "ok" && nTrades ≥ 1
    let tags := (if nt then ["nt=C18"] else ["nt="]) ++ tags
    if !wf then (layoutFails, tags)
    else if obs.status == "panic" then
      (layoutFails ++ [s!"well-formed export makes the converter panic: {obs.msg}"], tags)
    else if obs.status == "fatal" then
      -- only legitimate fatal outcome: several accounts and no --account
      let accts := (acts.filterMap (fun a => match a with
        | .trade _ _ _ _ _ _ _ _ _ k => some k | .div true _ k => some k | .fxt _ _ _ _ k => some k | _ => none)).eraseDups
      if obs.fatalKind == "multiAccount" && o.acct.isNone && accts.length > 1 then (layoutFails, tags)
      else (layoutFails ++ [s!"well-formed export rejected: {obs.fatalKind} {obs.msg}"], tags)
    else if obs.status ≠ "ok" then
      (layoutFails ++ [s!"well-formed export reported row errors {obs.errs}"], tags)
    else
      let implKeys := obs.txs.filterMap implKey
      let implTrades := (obs.txs.filter (fun x => x.security ≠ "USD.FX")).filterMap implKey
      let implFx := obs.txs.filter (fun x => x.security == "USD.FX")
      -- (1)(2) one row per trade activity with its fields, nothing for the ignored activities
      let f1 := if implKeys.length ≠ obs.txs.length then ["unparsable dates in the CSV"]
        else if o.noSort then
          (if implTrades == trades then [] else [s!"trades: with --no-sort the non-FX rows must be the {trades.length} trade activities in sheet order with their fields; got {implTrades.length} rows or different fields"])
        else
          (if multisetEq implTrades trades then [] else [s!"trades: the non-FX rows must be exactly the {trades.length} (filtered) BUY/SELL/DIS/LIQ activities with their dates, |quantity|, price, |commission|, currency, affiliate; got {implTrades.length} rows or different fields"])
      let f1b := if !o.noSort && !qtNondecreasing (implKeys.map (·.sd)) then ["order: settlement dates of the output are not non-decreasing"] else []
      -- (3) USD cash conservation
      let fxVisible := !o.noFx && secOk "USD.FX"
      let flow := (acts.map (fun a => match a with
        | .trade _ _ _ buy q pr c cur _ acct =>
          if cur == "USD" && acctOk acct then (if buy then -(pr * rabsD q) else pr * rabsD q) - rabsD c else 0
        | .div true net acct => if acctOk acct then net else 0
        | .fxt cur _ amt _ acct => if cur == "USD" && acctOk acct then amt else 0
        | _ => 0)).foldl (· + ·) 0
      let fxTotal := (implFx.map (fun x => if x.side == "B" then x.shares else -x.shares)).foldl (· + ·) 0
      let f3 := if fxVisible then
          (if close fxTotal flow then [] else [s!"cash: USD.FX rows sum to {ratToString fxTotal} but the USD cash flow of the export is {ratToString flow}"])
        else (if implFx.isEmpty then [] else ["USD.FX rows present although filtered out"])
      -- (4) each conversion carries the rate implied by its legs
      let convRows := implFx.filter (fun x => x.memo.endsWith "; FXT")
      let expConv := (pairs.getD []).filter (fun q => acctOk q.acct)
      let f4 := if !fxVisible then []
        else if convRows.length ≠ expConv.length then [s!"conversions: {expConv.length} FXT pairs but {convRows.length} conversion rows"]
        else
          let unmatched := expConv.filter (fun q => !(convRows.any (fun x =>
            x.tradeDate == toString q.td && x.shares == rabsD q.usd && x.side == (if (0 : Rat) < q.usd then "B" else "S") &&
            (match x.rate with | some r => close r (rabsD (q.cad / q.usd)) | none => false))))
          unmatched.map (fun q => s!"conversion on {q.td}: no USD.FX row with {ratToString (rabsD q.usd)} shares at the implied rate {ratToDecimalString (rabsD (q.cad / q.usd))}")
      -- (5) every emitted row is accepted by acb
      let valuesOk := acts.all (fun a => match a with
        | .trade _ _ _ _ q pr _ _ _ _ => q ≠ 0 && pr ≥ 0
        | .div true net _ => net ≠ 0
        | _ => true) && (match o.rate with | some r => r > 0 | none => true)
      let f5 := if valuesOk && obs.acceptOk ≠ obs.acceptTotal then
          [s!"acb rejects {obs.acceptTotal - obs.acceptOk} of the {obs.acceptTotal} emitted rows: {obs.acceptMsg}"] else []
      (layoutFails ++ f1 ++ f1b ++ f3 ++ f4 ++ f5, tags)

end Driver
