/-
  Family `splitneutral` (C15): run A = history H, run B = H with an a-for-b split inserted before
  row k (one row per affiliate or one row for all) and later rows restated.  Both observations come
  from the implementation; the comparison is the property itself.
-/
import Driver.App
namespace Driver
open Acb

def cmpScaled (i : Nat) (f : Rat) (a b : ImplDelta) : Option String :=
  let st := fun (x y : Status) => close (x.shares * f) y.shares && close (x.all * f) y.all && closeOpt x.acb y.acb
  if a.aff ≠ b.aff then some s!"row {i}: affiliate"
  else if a.act ≠ b.act then some s!"row {i}: action {a.act} vs {b.act}"
  else if !closeOpt a.gain b.gain then some s!"row {i}: capital gain {showOpt a.gain} vs {showOpt b.gain}"
  else if !closeOpt a.post.acb b.post.acb then some s!"row {i}: cost base {showOpt a.post.acb} vs {showOpt b.post.acb}"
  else if !st a.post b.post then some s!"row {i}: share balances do not scale by {ratToString f}: ({ratToString a.post.shares},{ratToString a.post.all}) vs ({ratToString b.post.shares},{ratToString b.post.all})"
  else match a.sfl, b.sfl with
    | none, none => none
    | some x, some y =>
      if !close x.loss y.loss then some s!"row {i}: superficial loss {ratToString x.loss} vs {ratToString y.loss}"
      else if !close (x.num / x.den) (y.num / y.den) then some s!"row {i}: superficial-loss ratio"
      else none
    | some x, none => if rabs x.loss ≤ 1 / pow10 9 then none else some s!"row {i}: superficial loss {ratToString x.loss} vs none"
    | none, some y => if rabs y.loss ≤ 1 / pow10 9 then none else some s!"row {i}: superficial loss none vs {ratToString y.loss}"

partial def cmpScaledList (i : Nat) (k nsplit : Nat) (f : Rat) : List ImplDelta → List ImplDelta → Option String
  | [], [] => none
  | a :: as, b :: bs =>
    -- rows of H' at or after the inserted split carry read index >= k + nsplit
    let scale := if b.idx ≥ k + nsplit then f else 1
    match cmpScaled i scale a b with
    | some e => some e
    | none => cmpScaledList (i + 1) k nsplit f as bs
  | as, bs => some s!"row count {i + as.length} vs {i + bs.length}"

def runSplitneutral (c : Case) : Res :=
  let num := fun key => (kv? c.header key).bind String.toNat?
  let rat := fun key => (kv? c.header key).bind parseRat?
  match num "k", num "nsplit", rat "post", rat "pre", parseImplSecs "implA" c.lines, parseImplSecs "implB" c.lines with
  | some k, some nsplit, some post, some pre, some as, some bs =>
    let f := post / pre
    let isGlobal := (kv? c.header "global") == some "1"
    let tags := ["nt=C15", s!"global={if isGlobal then 1 else 0}", s!"f={ratToString f}", s!"k={k}"]
    match as.head?, bs.head? with
    | some a, some b =>
      -- drop the inserted split rows of run B
      let inserted := b.deltas.filter (fun (d : ImplDelta) => d.act == "split" && d.idx ≥ k && d.idx < k + nsplit)
      let bRows := b.deltas.filter (fun (d : ImplDelta) => !(d.act == "split" && d.idx ≥ k && d.idx < k + nsplit))
      let badInserted := inserted.find? (fun (d : ImplDelta) => !closeOpt d.pre.acb d.post.acb || d.gain.isSome)
      let hasSfl := a.deltas.any (fun (d : ImplDelta) => d.sfl.isSome)
      let tags := tags ++ [s!"sfl={if hasSfl then 1 else 0}", s!"outA={a.outcome}"]
      let m := a.msg ++ " " ++ b.msg
      let has := fun (pat : String) => (m.splitOn pat).length > 1
      let noise := has "went below zero in 30-day period" || has "is more than the current" ||
           has "is lower than the share balance for the affiliate" || has "non-integer share balance"
      -- a declared amount sitting exactly on the 0.001 tolerance: after a restatement with a
      -- non-terminating factor the computed amount carries 1e-27 of rounding, which then decides
      let tolNoise := has "max allowed discrepancy" &&
        (match m.splitOn "value (" with
         | _ :: x :: y :: _ =>
           (match parseRat? ((x.splitOn ")").headD ""), parseRat? ((y.splitOn ")").headD "") with
            | some u, some v => rabs (rabs (u - v) - 1 / 1000) ≤ 1 / pow10 9
            | _, _ => false)
         | _ => false)
      if noise || tolNoise then
        -- one of the runs was cut short by a decimal-rounding rejection (finding F-04n, reported
        -- under C04): the two row lists are not comparable
        { verdict := "ok", tags := "near=1" :: tags }
      else if let some _ := badInserted then
        { verdict := "ORACLE", tags := "of=C15" :: tags, msg := "an inserted split row changes the cost base or reports a gain" }
      else if a.outcome ≠ b.outcome then
        -- Decimal rounding after a non-terminating division can make one side fail by a hair
        -- (finding F-04n, reported under C04); anything else is a failure of C15 itself.
        let m := a.msg ++ " " ++ b.msg
        let has := fun (pat : String) => (m.splitOn pat).length > 1
        if has "went below zero in 30-day period" || has "is more than the current" ||
           has "is lower than the share balance for the affiliate" || has "non-integer share balance" then
          { verdict := "ok", tags := "near=1" :: tags }
        else
          { verdict := "ORACLE", tags := "of=C15" :: tags,
            msg := s!"outcome H={a.outcome} H'={b.outcome}: {m}" }
      else
        let trim := fun (l : List ImplDelta) => if a.outcome == "ok" then l else (l.reverse.dropWhile (fun (d : ImplDelta) => d.act == "split")).reverse
        match cmpScaledList 0 k nsplit f (trim a.deltas) (trim bRows) with
        | none => { verdict := "ok", tags := tags }
        | some e => { verdict := "ORACLE", tags := "of=C15" :: tags, msg := e }
    | none, none => { verdict := "ok", tags := "nt=" :: tags }
    | _, _ => { verdict := "ORACLE", tags := "of=C15" :: tags, msg := "one run has no result for the security" }
  | _, _, _, _, _, _ => { verdict := "BADCASE", msg := "unparsable splitneutral case" }

end Driver
