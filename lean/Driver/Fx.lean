/-
  Family `fx` (C12): a fresh `RateLoader` over a generated publication calendar, and CSV rows
  through `load_tx_rates` + `Tx::try_from`; model = Acb.Fx.getEffective / rowRates,
  oracle = Acb.Fx.specRate on the calendar + the currency rules as the property words them.
-/
import Driver.Proto
import AcbModel.Fx.Loader
import AcbModel.Fx.Civil
import AcbModel.Fx.Row
import AcbModel.Fx.Json
namespace Driver
open Acb Acb.Fx

/-- result of a look-up as observed: ok (date, rate) | err | panic -/
inductive LkObs
  | ok (r : DailyRate)
  | err
  | panic (msg : String)

def LkObs.render : LkObs → String
  | .ok r => s!"ok({r.date},{ratToString r.rate})"
  | .err => "err"
  | .panic m => s!"panic({m})"

def lkOfModel : Except FxErr DailyRate → LkObs
  | .ok r => .ok r
  | .error _ => .err

def lkOfSpec : Except Unit DailyRate → LkObs
  | .ok r => .ok r
  | .error _ => .err

/-- equal outcome; rates within 1e-9 (exactly equal when `exact`) -/
def lkSame (exact : Bool) : LkObs → LkObs → Bool
  | .ok a, .ok b => a.date == b.date && (if exact then a.rate == b.rate else close a.rate b.rate)
  | .err, .err => true
  | _, _ => false

def parsePairs : List String → Option (List DailyRate)
  | [] => some []
  | d :: r :: rest => do
    let d ← parseInt? d
    let r ← parseRat? r
    let xs ← parsePairs rest
    some (⟨d, r⟩ :: xs)
  | _ => none

def parseJField (s : String) : Option JField :=
  if s == "-" then some .absent
  else if s.startsWith "b" then some .invalid
  else if s.startsWith "n" then (parseRat? (s.drop 1).toString).map .val
  else (parseRat? s).map .val

def parseObs (tok : String) : Option Obs :=
  match tok.splitOn ":" with
  | [d, n, v] => do
    let n ← parseJField n
    let v ← parseJField v
    some { date := parseInt? d, noon := n, daily := v }
  | _ => none

def assocGet {β : Type} (l : List (Int × β)) (k : Int) : Option β :=
  (l.find? (fun p => p.1 == k)).map (·.2)

def parseCur (s : String) : Option Currency :=
  if s == "-" then none
  else
    let u := s.toUpper
    if u == "" || u == "CAD" then some .cad else if u == "USD" then some .usd else some (.other u)

structure FxRow where
  trade : Int
  settle : Int
  cur : Option Currency
  fx : Option Rat
  ccur : Option Currency
  cfx : Option Rat

/-- observed row outcome: ok (cur, rate, commission slot) | err load | err conv | panic -/
inductive RowObs
  | ok (cur : Currency) (rate : Rat) (comm : Option (Currency × Rat))
  | errLoad
  | errConv
  | other (s : String)

def RowObs.render : RowObs → String
  | .ok c r cm => s!"ok({reprStr c},{ratToString r},{match cm with | none => "-" | some (c, r) => reprStr c ++ "," ++ ratToString r})"
  | .errLoad => "err-load"
  | .errConv => "err-conv"
  | .other s => s

def curOfImpl (s : String) : Currency :=
  if s == "CAD" then .cad else if s == "USD" then .usd else .other s

def rowSame (exact : Bool) : RowObs → RowObs → Bool
  | .ok c r cm, .ok c' r' cm' =>
    let cl := fun (a b : Rat) => if exact then a == b else close a b
    c == c' && cl r r' &&
      (match cm, cm' with
       | none, none => true
       | some (a, x), some (b, y) => a == b && cl x y
       | _, _ => false)
  | .errLoad, .errLoad => true
  | .errConv, .errConv => true
  | _, _ => false

structure FxParsed where
  kind : String
  today : Int
  force : Bool
  rem : List (Int × List DailyRate)
  srv : List (String × Int × List Obs)
  lks : List Int
  rows : List FxRow
  implLk : List LkObs
  implRows : List RowObs
  implCal : List (Int × Int × Int)
  implUrl : List (Int × String)

/-- input lines carry the prefix `in` (so that ./check counts distinct inputs) -/
def stripIn (c : Case) : Case :=
  { c with lines := c.lines.map (fun l => if l.head? == some "in" then l.drop 1 else l) }

def parseFx (c0 : Case) : Option FxParsed := do
  let c := stripIn c0
  let kind ← kv? c.header "kind"
  let today ← (kv? c.header "today").bind parseInt?
  let force := (kv? c.header "force") == some "1"
  let rem ← (c.lines.filter (·.head? == some "rem")).mapM (fun l =>
    match l with
    | _ :: y :: rest => do some ((← parseInt? y), (← parsePairs rest))
    | _ => none)
  let srv ← (c.lines.filter (·.head? == some "srv")).mapM (fun l =>
    match l with
    | _ :: s :: y :: rest => do some (s, (← parseInt? y), (← rest.mapM parseObs))
    | _ => none)
  let lks ← (c.lines.filter (·.head? == some "lk")).mapM (fun l =>
    match l with | [_, d] => parseInt? d | _ => none)
  let rows ← (c.lines.filter (·.head? == some "row")).mapM (fun l =>
    match l with
    | [_, t, s, cur, fx, ccur, cfx] => do
      some { trade := ← parseInt? t, settle := ← parseInt? s, cur := parseCur cur, fx := ← optRat? fx,
             ccur := parseCur ccur, cfx := ← optRat? cfx }
    | _ => none)
  let impl := c.lines.filter (·.head? == some "impl")
  let implLk ← (impl.filter (·[1]? == some "lk")).mapM (fun l =>
    match l with
    | [_, _, _, "ok", d, r] => do some (LkObs.ok ⟨← parseInt? d, ← parseRat? r⟩)
    | [_, _, _, "err"] => some LkObs.err
    | _ :: _ :: _ :: "panic" :: m => some (LkObs.panic (String.intercalate " " m))
    | _ => none)
  let implRows ← (impl.filter (·[1]? == some "row")).mapM (fun l =>
    match l with
    | [_, _, _, "ok", cur, r, cc, cr] => do
      let r ← parseRat? r
      let cm ← (if cc == "-" then some none else do some (some (curOfImpl cc, ← parseRat? cr)))
      some (RowObs.ok (curOfImpl cur) r cm)
    | [_, _, _, "err", "load"] => some RowObs.errLoad
    | [_, _, _, "err", "conv"] => some RowObs.errConv
    | _ :: _ :: _ :: rest => some (RowObs.other (String.intercalate " " rest))
    | _ => none)
  let implCal ← (impl.filter (·[1]? == some "cal")).mapM (fun l =>
    match l with
    | [_, _, d, y, j] => do some ((← parseInt? d), (← parseInt? y), (← parseInt? j))
    | _ => none)
  let implUrl ← (impl.filter (·[1]? == some "url")).mapM (fun l =>
    match l with
    | [_, _, y, s] => do some ((← parseInt? y), s)
    | _ => none)
  some { kind, today, force, rem, srv, lks, rows, implLk, implRows, implCal, implUrl }

def srvGet (srv : List (String × Int × List Obs)) (s : String) (y : Int) : Option (List Obs) :=
  (srv.find? (fun p => p.1 == s && p.2.1 == y)).map (·.2.2)

def seriesName : Series → String
  | .noon => "noon"
  | .daily => "daily"

/-- the remote as the MODEL sees it -/
def modelRemote (p : FxParsed) : Int → Option (List DailyRate) :=
  if p.kind == "json" then
    fun y => (srvGet p.srv (seriesName (seriesForYear y)) y).map parseObservations
  else fun y => assocGet p.rem y

/-- A clean observation of one series: good date, exactly that key, positive value. -/
def cleanNoon (o : Obs) : Option DailyRate :=
  match o.date, o.noon, o.daily with
  | some d, .val v, .absent => if 0 < v then some ⟨d, v⟩ else none
  | _, _, _ => none

def cleanDaily (o : Obs) : Option DailyRate :=
  match o.date, o.noon, o.daily with
  | some d, .absent, .val v => if 0 < v then some ⟨d, 1 / v⟩ else none
  | _, _, _ => none

/-- The publication calendar as the PROPERTY reads the server's data: noon observations as
    published up to 2016, daily observations inverted from 2017; `none` inside = not clean. -/
def oracleRemote (p : FxParsed) : Int → Option (Option (List DailyRate)) :=
  if p.kind == "json" then
    fun y =>
      if 2017 ≤ y then (srvGet p.srv "daily" y).map (fun l => l.mapM cleanDaily)
      else (srvGet p.srv "noon" y).map (fun l => l.mapM cleanNoon)
  else fun y => (assocGet p.rem y).map some

def sortedB : List DailyRate → Bool
  | [] => true
  | [_] => true
  | a :: b :: rest => a.date < b.date && sortedB (b :: rest)

/-- `RemoteWF` for the years the case mentions. -/
def wfYear (today y : Int) (l : List DailyRate) : Bool :=
  sortedB l && l.all (fun x => civilYearOf x.date == y && x.rate != 0 && x.date ≤ today)

def caseYears (p : FxParsed) : List Int :=
  ((p.rem.map (·.1)) ++ (p.srv.map (·.2.1))).eraseDups

/-- The currency rules as the property words them, for one amount of a row.
    `eff` = the look-up result the property prescribes for the trade date. -/
def slotOracle (cur : Option Currency) (fx : Option Rat) (eff : LkObs) : Option (Except Unit (Option (Currency × Rat))) :=
  match cur, fx with
  | none, none => some (.ok none)                                   -- CAD needs none
  | some .cad, none => some (.ok (some (.cad, 1)))
  | some .cad, some r => some (if r == 1 then .ok (some (.cad, 1)) else .error ())   -- only accepts 1
  | some (.other _), none => some (.error ())                          -- must carry its own rate
  | some c, some r => if 0 < r then some (.ok (some (c, r))) else some (.error ())   -- explicit rate wins
  | some .usd, none =>
    match eff with
    | .ok r => some (.ok (some (.usd, r.rate)))
    | .err => some (.error ())
    | .panic _ => none
  | none, some _ => some (.error ())

def rowOracle (rw : FxRow) (eff : LkObs) : Option RowObs :=
  match slotOracle rw.cur rw.fx eff, slotOracle rw.ccur rw.cfx eff with
  | some (.ok t), some (.ok c) =>
    let t' := t.getD (.cad, 1)
    some (.ok t'.1 t'.2 c)
  | some _, some _ => some .errLoad     -- some error (stage not compared by the oracle)
  | _, _ => none

def rowErrSame : RowObs → RowObs → Bool
  | .errLoad, .errConv => true
  | .errConv, .errLoad => true
  | a, b => rowSame false a b

def runFx (c : Case) : Res :=
  match parseFx c with
  | none => { verdict := "BADCASE", msg := "unparsable fx case" }
  | some p =>
    -- calendar probes
    let calBad := p.implCal.find? (fun (d, y, j) => civilYearOf d != y || civilYearStart y != j)
    if p.kind == "cal" then
      match calBad with
      | some (d, y, j) => { verdict := "DIFF", tags := ["dk=cal", "kind=cal"],
                            msg := s!"calendar: day {d} impl year={y} jan1={j} model year={civilYearOf d} jan1={civilYearStart (civilYearOf d)}" }
      | none => { verdict := "ok", tags := ["kind=cal", "nt=", s!"n={p.implCal.length}"] }
    else
    let exact := p.kind != "json"
    let env : Env := { cal := civil, today := p.today, force := p.force, remote := modelRemote p }
    let garbage : Store := fun y => if p.force && 2013 ≤ y && y < 2027 then some [⟨civilYearStart y, 4242 / 100⟩] else none
    let s0 := St.init garbage
    -- seq=1: all look-ups through one loader, in order (the model's state is threaded)
    let seq := (kv? c.header "seq") == some "1"
    let mLk := if seq then
        (p.lks.foldl (fun (acc : List LkObs × St) d =>
          let res := getEffective env acc.2 d
          (acc.1 ++ [lkOfModel res.1], res.2)) ([], s0)).1
      else p.lks.map (fun d => lkOfModel (getEffective env s0 d).1)
    let mRows := p.rows.map (fun rw =>
      match (rowRates env s0 rw.trade rw.cur rw.fx rw.ccur rw.cfx).1 with
      | .ok (t, cm) => RowObs.ok t.1 t.2 cm
      | .error (.fx _) => RowObs.errLoad
      | .error .notAuto => RowObs.errLoad
      | .error _ => RowObs.errConv)
    -- oracle world
    let years := caseYears p
    let oRem := oracleRemote p
    let clean := years.all (fun y => match oRem y with | some none => false | _ => true)
    let oRemote : Int → Option (List DailyRate) := fun y => (oRem y).bind id
    let wf := clean && years.all (fun y => match oRemote y with | some l => wfYear p.today y l | none => true)
    let oenv : Env := { env with remote := oRemote }
    let sLk := p.lks.map (fun d => lkOfSpec (specRate oenv d))
    -- tags
    let backs := (p.lks.zip p.implLk).map (fun (d, o) => match o with | .ok r => (d - r.date).toNat | _ => 99)
    let maxBack := (backs.filter (· < 99)).foldl max 0
    let nErr := (backs.filter (· == 99)).length
    let yb := (p.lks.zip p.implLk).any (fun (d, o) => match o with | .ok r => civilYearOf r.date != civilYearOf d | _ => false)
    let todayRel := if p.lks.any (· == p.today) then "hit" else if p.lks.any (· > p.today) then "future" else "past"
    let nt := wf && (maxBack ≥ 1 || nErr ≥ 1)
    let tags := [s!"nt={if nt then "C12" else ""}", s!"kind={p.kind}", s!"wf={wf}", s!"force={p.force}", s!"back={maxBack}",
                 s!"err={nErr}", s!"yb={yb}", s!"today={todayRel}", s!"rows={p.rows.length}", s!"lks={p.lks.length}"]
    if p.implLk.length != p.lks.length || p.implRows.length != p.rows.length then
      { verdict := "BADCASE", tags := tags, msg := "impl line count does not match the case" }
    else
    -- 1. oracle on the implementation's observations
    let oLk := if wf then
        ((p.lks.zip (p.implLk.zip sLk)).filter (fun (_, o, s) => !lkSame false o s)).map
          (fun (d, o, s) => s!"look-up {d} (today {p.today}): implementation {o.render}, property requires {s.render}")
      else []
    let oUrl := (p.implUrl.filter (fun (y, s) => s != (if 2017 ≤ y then "FXCADUSD" else "IEXE0101"))).map
      (fun (y, s) => s!"year {y}: series {s} requested")
    let oRows := if wf then
        ((p.rows.zip p.implRows).filterMap (fun (rw, o) =>
          match rowOracle rw (lkOfSpec (specRate oenv rw.trade)) with
          | some want => if rowErrSame o want then none
              else some s!"row trade={rw.trade} cur={reprStr rw.cur} fx={showOpt rw.fx} ccur={reprStr rw.ccur} cfx={showOpt rw.cfx}: implementation {o.render}, property requires {want.render}"
          | none => none))
      else []
    let panics := (p.implLk.filterMap (fun o => match o with | .panic m => some m | _ => none)) ++
                  (p.implRows.filterMap (fun o => match o with | .other m => some m | _ => none))
    let oracleMsgs := oLk ++ oUrl ++ oRows
    -- 2. correspondence
    let dLk := ((p.lks.zip (p.implLk.zip mLk)).filter (fun (_, o, m) => !lkSame exact o m)).map
      (fun (d, o, m) => s!"look-up {d}: impl {o.render} model {m.render}")
    let dRows := ((p.rows.zip (p.implRows.zip mRows)).filter (fun (_, o, m) => !rowSame exact o m)).map
      (fun (rw, o, m) => s!"row trade={rw.trade}: impl {o.render} model {m.render}")
    let dUrl := if p.kind == "json" then
        (p.implUrl.filter (fun (y, s) => s != (if seriesForYear y == .daily then Gen.fxDailyKey else Gen.fxNoonKey))).map
          (fun (y, s) => s!"url year {y}: impl requested {s}")
      else []
    let diff : Option (String × String) :=
      if !panics.isEmpty then some ("panic", String.intercalate "; " panics)
      else if calBad.isSome then some ("cal", "calendar probe differs")
      else if !dLk.isEmpty then some ("lk", String.intercalate "; " (dLk.take 3))
      else if !dUrl.isEmpty then some ("url", String.intercalate "; " (dUrl.take 3))
      else if !dRows.isEmpty then some ("row", String.intercalate "; " (dRows.take 3))
      else none
    if !oracleMsgs.isEmpty then
      { verdict := "ORACLE", tags := "of=C12" :: tags,
        msg := String.intercalate "; " (oracleMsgs.take 3) ++
               (match diff with | some (_, m) => " || " ++ m | none => "") }
    else match diff with
      | some (dk, m) => { verdict := "DIFF", tags := s!"dk={dk}" :: tags, msg := m }
      | none => { verdict := "ok", tags := tags }

end Driver
