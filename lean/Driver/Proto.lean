/-
  Line protocol shared by all families.
    case <id> <family> <k=v>...
    <family-specific lines>
    end
  Output: one line per case:  res <id> <ok|DIFF|ORACLE|BADCASE> [tag=..]... [| message]
-/
import AcbModel.Basic.Text
namespace Driver
open Acb

structure Case where
  id : String
  family : String
  header : List String        -- remaining tokens of the case line
  lines : List (List String)  -- body lines, tokenised

def tokens (line : String) : List String :=
  (line.trimAscii.toString.splitOn " ").filter (· ≠ "")

def kv? (toks : List String) (k : String) : Option String :=
  toks.findSome? (fun t =>
    if t.startsWith (k ++ "=") then some (t.drop (k.length + 1)).toString else none)

structure Res where
  verdict : String            -- ok | DIFF | ORACLE | BADCASE
  tags : List String := []
  msg : String := ""

def Res.render (id : String) (r : Res) : String :=
  let t := String.intercalate " " r.tags
  s!"res {id} {r.verdict} {t}" ++ (if r.msg.isEmpty then "" else " | " ++ r.msg)

/-- |a - b| ≤ 1e-9, or — for figures beyond 10^13, where a 28-digit decimal cannot resolve 1e-9
    any more — a relative difference of at most 1e-22. -/
def close (a b : Rat) : Bool :=
  rabs (a - b) ≤ 1 / pow10 9 ||
  rabs (a - b) ≤ (if rabs a < rabs b then rabs b else rabs a) / pow10 22

/-- like `close`, for a figure obtained as a difference of figures of magnitude `mag` -/
def closeAt (mag a b : Rat) : Bool := close a b || rabs (a - b) ≤ rabs mag / pow10 22

def closeOptAt (mag : Rat) : Option Rat → Option Rat → Bool
  | none, none => true
  | some a, some b => closeAt mag a b
  | _, _ => false

def closeOpt : Option Rat → Option Rat → Bool
  | none, none => true
  | some a, some b => close a b
  | _, _ => false

def optRat? (s : String) : Option (Option Rat) :=
  if s == "-" then some none else (parseRat? s).map some

def showOpt : Option Rat → String
  | none => "-"
  | some r => ratToString r

partial def readCases (h : IO.FS.Stream) (handle : Case → IO Unit) : IO Unit := do
  let rec loop (cur : Option Case) (acc : Array (List String)) : IO Unit := do
    let line ← h.getLine
    if line.isEmpty then return ()
    let toks := tokens line
    match toks with
    | "case" :: id :: fam :: hdr =>
      loop (some { id := id, family := fam, header := hdr, lines := [] }) #[]
    | ["end"] =>
      match cur with
      | some c => handle { c with lines := acc.toList }; loop none #[]
      | none => loop none #[]
    | [] => loop cur acc
    | _ => loop cur (acc.push toks)
  loop none #[]

end Driver
