/-
  Superficial-loss window scan and ratio (src/portfolio/bookkeeping/superficial_loss.rs).
  The two `for` loops with `break` become structural recursion over the future / past rows;
  HashMaps become total functions, the HashSet of buyers a duplicate-free list.
-/
import AcbModel.Ledger.Tracker
import AcbModel.Generated.Constants
namespace Acb

/-- Loop state of the forward scan. -/
structure Scan where
  adj : Aff → Rat                 -- af_split_adjustments (default 1)
  allEop : Rat                    -- all_aff_spladj_shares_at_end_of_period
  acquired : Rat                  -- total_aquired_spladj_shares_in_period
  buyers : List Aff               -- buying_affiliates
  active : Aff → Option Rat       -- active_affiliate_spladj_shares_at_eop

def insertAff (l : List Aff) (a : Aff) : List Aff := if a ∈ l then l else l ++ [a]

/-- Forward part: rows after the sale, until the first row settling after `lastDay`. -/
def scanFwd (t : Tracker) (lastDay : Int) : Scan → List Tx → Except Failure Scan
  | s, [] => .ok s
  | s, x :: rest =>
    if x.settle > lastDay then .ok s
    else
      let af := x.aff
      let sa := s.adj af
      match x.act with
      | .buy sh _ _ _ _ =>
        let b := sh * sa
        let old := (s.active af).getD (t.bal af)
        scanFwd t lastDay
          { s with allEop := s.allEop + b, active := upd s.active af (some (old + b)),
                   acquired := s.acquired + b, buyers := insertAff s.buyers af } rest
      | .sell sh _ _ _ _ _ =>
        let q := sh * sa
        if s.allEop - q < 0 then .error (.err .lookTotalNeg)
        else
          let old := (s.active af).getD (t.bal af)
          if old - q < 0 then .error (.err .lookAffNeg)
          else scanFwd t lastDay
            { s with allEop := s.allEop - q, active := upd s.active af (some (old - q)) } rest
      | .split post pre _ =>
        scanFwd t lastDay { s with adj := upd s.adj af (sa / splitFactor post pre) } rest
      | _ => scanFwd t lastDay s rest

/-- Backward part: rows before the sale, most recent first, until the first row settling
    before `firstDay`. -/
def scanBwd (t : Tracker) (firstDay : Int) : Scan → List Tx → Scan
  | s, [] => s
  | s, x :: rest =>
    if x.settle < firstDay then s
    else
      let af := x.aff
      let sa := s.adj af
      match x.act with
      | .buy sh _ _ _ _ =>
        scanBwd t firstDay
          { s with acquired := s.acquired + sh * sa, buyers := insertAff s.buyers af,
                   active := if (s.active af).isNone then upd s.active af (some (t.bal af))
                             else s.active } rest
      | .split post pre _ =>
        scanBwd t firstDay { s with adj := upd s.adj af (sa * splitFactor post pre) } rest
      | _ => scanBwd t firstDay s rest

/-- `SuperficialLossInfo` (only the fields used downstream). -/
structure SliInfo where
  allEop : Rat
  acquired : Rat
  buyers : List Aff
  active : Aff → Option Rat

/-- State of the forward scan before its first row: the post-sale all-affiliate balance, the
    seller's post-sale balance, nothing acquired yet. -/
def initScan (t : Tracker) (seller : Aff) (sold : Rat) : Scan :=
  { adj := fun _ => 1, allEop := t.latestPostAll - sold, acquired := 0, buyers := [],
    active := upd (fun _ => none) seller (some (t.bal seller - sold)) }

/-- `get_superficial_loss_info`; `past` is the processed rows, most recent first. -/
def sflInfo (t : Tracker) (seller : Aff) (settle : Int) (sold : Rat)
    (past future : List Tx) : Except Failure (Option SliInfo) :=
  let allAfter := t.latestPostAll - sold
  if allAfter < 0 then .error (.err .lookAllNeg)
  else
    let sellerAfter := t.bal seller - sold
    if sellerAfter < 0 then .error (.err .lookSellerNeg)
    else
      match scanFwd t (settle + Gen.sflWindowAfterDays) (initScan t seller sold) future with
      | .error f => .error f
      | .ok s1 =>
        if ¬ (0 < s1.allEop) then .ok none
        else
          let s2 := scanBwd t (settle - Gen.sflWindowBeforeDays) { s1 with adj := fun _ => 1 } past
          if 0 < s2.acquired then
            .ok (some { allEop := s1.allEop, acquired := s2.acquired, buyers := s2.buyers,
                        active := s2.active })
          else .ok none

/-- `SflRatioResultResult`. -/
structure SflRatio where
  num : Rat
  den : Rat
  portions : List (Aff × Rat × Rat)    -- (buyer, numerator, denominator), unordered in Rust
  over : Bool
  overMargin : Rat := 0

def sumOver (l : List Aff) (f : Aff → Rat) : Rat := (l.map f).sum

/-- `buying_affiliate_split_adjusted_shares_at_eop_total`. -/
def buyersTotal (i : SliInfo) : Rat := sumOver i.buyers (fun a => (i.active a).getD 0)

def portionsOf (active : Aff → Option Rat) (tot : Rat) :
    List Aff → Except Failure (List (Aff × Rat × Rat))
  | [] => .ok []
  | a :: as =>
    match active a with
    | none => .error (.panic .buyerNotActive)
    | some v =>
      match portionsOf active tot as with
      | .error f => .error f
      | .ok r => .ok ((a, v, tot) :: r)

/-- `calc_superficial_loss_ratio`. -/
def calcRatio (sold : Rat) (i : SliInfo) : Except Failure SflRatio :=
  let num := min3 sold i.acquired i.allEop
  if i.buyers.length = 0 then .error (.panic .noBuyersAssert)
  else
    let tot := buyersTotal i
    let ps : Except Failure (List (Aff × Rat × Rat)) :=
      if 0 < tot then portionsOf i.active tot i.buyers else .ok []
    match ps with
    | .error f => .error f
    | .ok portions => .ok { num := num, den := sold, portions := portions, over := tot < num, overMargin := tot - num }

/-- `get_superficial_loss_ratio`. -/
def sflRatio (t : Tracker) (seller : Aff) (settle : Int) (sold : Rat)
    (past future : List Tx) : Except Failure (Option SflRatio) :=
  match sflInfo t seller settle sold past future with
  | .error f => .error f
  | .ok none => .ok none
  | .ok (some i) =>
    match calcRatio sold i with
    | .error f => .error f
    | .ok r => .ok (some r)

end Acb
