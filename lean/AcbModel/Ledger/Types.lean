/-
  Vocabulary of the bookkeeping model (src/portfolio/model/{tx,txdelta}.rs,
  src/portfolio/bookkeeping/portfolio_status.rs).
-/
import AcbModel.Basic.Num
namespace Acb

/-- An affiliate.  `key` is the rank of the affiliate's `id()` string (the harness numbers
    affiliates in the order of their ids, so "sort by id" in Rust is "sort by key" here);
    `registered` is `Affiliate::registered()`. -/
structure Aff where
  key : Nat
  registered : Bool
deriving DecidableEq, Repr, Inhabited

/-- `TxActionSpecifics`.  All amounts are exact rationals.  `crate` is the *separate*
    commission currency's rate, if one is given (`separate_commission_currency`). -/
inductive Action where
  | buy (sh px comm rate : Rat) (crate : Option Rat)
  | sell (sh px comm rate : Rat) (crate : Option Rat) (sfl : Option (Rat × Bool))
  | roc (perShare rate : Rat)
  | sfla (sh perShare : Rat)
  | split (post pre : Rat) (intOnly : Bool)
deriving Repr, Inhabited

structure Tx where
  trade : Int
  settle : Int
  idx : Nat
  aff : Aff
  act : Action
deriving Repr, Inhabited

/-- `PortfolioSecurityStatus` (security name dropped: one ledger = one security). -/
structure Status where
  shares : Rat
  all : Rat
  acb : Option Rat
deriving Repr, Inhabited, DecidableEq

/-- `DeltaSflInfo`. -/
structure SflInfo where
  loss : Rat
  num : Rat
  den : Rat
  over : Bool
  /-- buyers' end-of-window total minus the shares the loss is applied to
      (`over = (overMargin < 0)`); model-internal, used to recognise exact ties. -/
  overMargin : Rat := 0
deriving Repr, Inhabited

/-- `TxDelta`. -/
structure Delta where
  tx : Tx
  pre : Status
  post : Status
  gain : Option Rat
  sfl : Option SflInfo
deriving Repr, Inhabited

/-- `Result::Err` paths of the bookkeeping core. -/
inductive ErrKind where
  | allLtShares | regHasAcb | nonregNoAcb          -- sanity_check_ptfs
  | oversell | oversellAll                          -- Sell arm
  | sflNoLoss | sflMismatch                         -- specified SFL
  | rocExceeds | rocRegistered | sflaRegistered
  | splitAllNeg | reverseSplitFraction
  | lookAllNeg | lookSellerNeg | lookTotalNeg | lookAffNeg   -- superficial_loss.rs scan
  | splitConflict                                   -- splits.rs: non-global split near a global split
deriving Repr, DecidableEq, Inhabited

/-- Panic sites of the bookkeeping core that the model carries explicitly. -/
inductive Site where
  | trackerAcbAssert      -- portfolio_status.rs set_latest_post_status assert_eq!(registered, acb.is_none())
  | trackerAllAssert      -- portfolio_status.rs set_latest_post_status assert_eq!(all, expected)
  | initAssert            -- portfolio_status.rs new(): assert_eq!(share_balance, all_affiliate_share_balance)
  | effCentNegZero        -- util/math.rs c_maybe_round_to_effective_cent::<Neg> unwrap
  | calcSflNegUnwrap      -- delta_list.rs NegDecimal::try_from(calculated).unwrap()
  | afRatioPosUnwrap      -- delta_list.rs PosDecimal::try_from(ratio_of_sfl).unwrap()
  | rocAssertNonReg | rocAssertReg | sflaAssertNonReg | sflaAssertReg
  | noBuyersAssert        -- superficial_loss.rs assert_ne!(buying_affiliates.len(), 0)
  | buyerNotActive        -- superficial_loss.rs active.get(af).unwrap()
  | ratioPosUnwrap        -- util/math.rs to_posdecimal unwrap
deriving Repr, DecidableEq, Inhabited

inductive Failure where
  | err (k : ErrKind)
  | panic (s : Site)
deriving Repr, DecidableEq, Inhabited

def Action.isBuy : Action → Bool | .buy .. => true | _ => false
def Action.isSell : Action → Bool | .sell .. => true | _ => false
def Action.isSplit : Action → Bool | .split .. => true | _ => false
def Action.isSfla : Action → Bool | .sfla .. => true | _ => false

/-- `BuyTxSpecifics::commission_currency_and_rate().exchange_rate`. -/
def commRate (rate : Rat) (crate : Option Rat) : Rat := crate.getD rate

/-- `SplitRatio::pre_to_post_factor` (exact). -/
def splitFactor (post pre : Rat) : Rat := post / pre

end Acb
