/-
  delta_for_tx / get_delta_superficial_loss_info / txs_to_delta_list
  (src/portfolio/bookkeeping/delta_list.rs).
-/
import AcbModel.Ledger.Sfl
namespace Acb

def sflMaxDiff : Rat := (Gen.sflMaxDiffNum : Rat) / (Gen.sflMaxDiffDen : Rat)
def effCentTol : Rat := 1 / pow10 Gen.effCentTolExp

/-- `util::math::maybe_round_to_effective_cent`. -/
def effCent (d : Rat) : Rat :=
  let r := roundHalfAway Gen.centDp d
  if rabs (r - d) < effCentTol then r else d

/-- `sanity_check_ptfs`. -/
def sanityCheck (pre : Status) (af : Aff) : Except Failure Unit :=
  if pre.all < pre.shares then .error (.err .allLtShares)
  else if af.registered && pre.acb.isSome then .error (.err .regHasAcb)
  else if !af.registered && pre.acb.isNone then .error (.err .nonregNoAcb)
  else .ok ()

/-- Insertion sort of the buyers by affiliate id (`sort_by(|a, b| a.id().cmp(b.id()))`). -/
def insertByKey (x : Aff × Rat × Rat) : List (Aff × Rat × Rat) → List (Aff × Rat × Rat)
  | [] => [x]
  | y :: ys => if x.1.key ≤ y.1.key then x :: y :: ys else y :: insertByKey x ys

def sortByKey (l : List (Aff × Rat × Rat)) : List (Aff × Rat × Rat) :=
  l.foldr insertByKey []

/-- The automatic SfLA rows generated for a superficial loss of (negative) amount `csfl`. -/
def adjustTxs (tx : Tx) (csfl : Rat) :
    List (Aff × Rat × Rat) → Except Failure (List Tx)
  | [] => .ok []
  | (af, n, d) :: rest =>
    match adjustTxs tx csfl rest with
    | .error f => .error f
    | .ok r =>
      -- `PosDecimal::try_from(-calculated * ratio)`: a zero amount is skipped
      if ¬ af.registered ∧ 0 < (-csfl) * (n / d) then
        .ok ({ trade := tx.trade, settle := tx.settle, idx := tx.idx, aff := af,
               act := .sfla 1 ((-csfl) * (n / d)) } :: r)
      else .ok r

/-- `get_delta_superficial_loss_info`.  `loss < 0` is the unadjusted capital loss. -/
def deltaSflInfo (t : Tracker) (tx : Tx) (sold : Rat) (spec : Option (Rat × Bool))
    (loss : Rat) (past future : List Tx) : Except Failure (Option (SflInfo × List Tx)) :=
  match sflRatio t tx.aff tx.settle sold past future with
  | .error f => .error f
  | .ok msfl =>
    let calcE : Except Failure Rat :=
      match msfl with
      | none => .ok 0
      | some r =>
        -- rounds on the plain Decimal; may be zero (a loss far below a cent)
        .ok (effCent (loss * (r.num / r.den)))
    match calcE with
    | .error f => .error f
    | .ok csfl =>
      match spec with
      | some (v, force) =>
        if !force && (rabs (csfl - v) > sflMaxDiff) then .error (.err .sflMismatch)
        else if v < 0 then
          .ok (some ({ loss := v, num := (v / loss) * sold, den := sold, over := false }, []))
        else .ok none
      | none =>
        match msfl with
        | none => .ok none
        | some r =>
          -- `NegDecimal::try_from(calculated)` failing = the loss rounded to zero: not superficial
          if ¬ (csfl < 0) then .ok none
          else
            match adjustTxs tx csfl (sortByKey r.portions) with
            | .error f => .error f
            | .ok adj =>
              .ok (some ({ loss := csfl, num := r.num, den := r.den, over := r.over, overMargin := r.overMargin }, adj))

/-- Result of one arm of the `match &tx.action_specifics` in `delta_for_tx`. -/
structure ArmOut where
  post : Status
  gain : Option Rat := none
  sfl : Option SflInfo := none
  inj : List Tx := []

def armBuy (pre : Status) (sh px comm rate : Rat) (crate : Option Rat) : ArmOut :=
  { post := { shares := pre.shares + sh, all := pre.all + sh,
              acb := match pre.acb with
                | some old => some (old + (px * sh * rate + comm * commRate rate crate))
                | none => none } }

def armSell (t : Tracker) (tx : Tx) (pre : Status) (sh px comm rate : Rat) (crate : Option Rat)
    (spec : Option (Rat × Bool)) (past future : List Tx) : Except Failure ArmOut :=
  if pre.shares - sh < 0 then .error (.err .oversell)
  else if pre.all - sh < 0 then .error (.err .oversellAll)
  else
    let newShares := pre.shares - sh
    let newAll := pre.all - sh
    match perShareAcb pre with
    | none =>
      -- registered seller: no cost base, no gain or loss; a declared superficial loss is an error
      if spec.isSome then .error (.err .sflNoLoss)
      else .ok { post := { shares := newShares, all := newAll, acb := pre.acb } }
    | some aps =>
      let payout := px * sh * rate - comm * commRate rate crate
      let gain0 := payout - aps * sh
      let post : Status := { shares := newShares, all := newAll, acb := some (newShares * aps) }
      if gain0 < 0 then
        match deltaSflInfo t tx sh spec gain0 past future with
        | .error f => .error f
        | .ok none => .ok { post := post, gain := some gain0 }
        | .ok (some (info, adj)) =>
          .ok { post := post, gain := some (gain0 - info.loss), sfl := some info, inj := adj }
      else if spec.isSome then .error (.err .sflNoLoss)
      else .ok { post := post, gain := some gain0 }

def armRoc (registered : Bool) (pre : Status) (perShare rate : Rat) : Except Failure ArmOut :=
  match pre.acb with
  | some old =>
    if registered then .error (.panic .rocAssertNonReg)
    else
      let red := perShare * pre.shares * rate
      if old - red < 0 then .error (.err .rocExceeds)
      else .ok { post := { pre with acb := some (old - red) } }
  | none =>
    if ¬ registered then .error (.panic .rocAssertReg)
    else .error (.err .rocRegistered)

def armSfla (registered : Bool) (pre : Status) (sh perShare : Rat) : Except Failure ArmOut :=
  match pre.acb with
  | some old =>
    if registered then .error (.panic .sflaAssertNonReg)
    else .ok { post := { pre with acb := some (old + sh * perShare) } }
  | none =>
    if ¬ registered then .error (.panic .sflaAssertReg)
    else .error (.err .sflaRegistered)

def armSplit (pre : Status) (post pre' : Rat) (intOnly : Bool) : Except Failure ArmOut :=
  let newShares := pre.shares * splitFactor post pre'
  let newAll := pre.all + (newShares - pre.shares)
  if newAll < 0 then .error (.err .splitAllNeg)
  else if pre' > post ∧ intOnly ∧ ¬ isInteger newShares then .error (.err .reverseSplitFraction)
  else .ok { post := { shares := newShares, all := newAll, acb := pre.acb } }

def arm (t : Tracker) (tx : Tx) (pre : Status) (past future : List Tx) : Except Failure ArmOut :=
  match tx.act with
  | .buy sh px comm rate crate => .ok (armBuy pre sh px comm rate crate)
  | .sell sh px comm rate crate spec => armSell t tx pre sh px comm rate crate spec past future
  | .roc perShare rate => armRoc tx.aff.registered pre perShare rate
  | .sfla sh perShare => armSfla tx.aff.registered pre sh perShare
  | .split post pre' intOnly => armSplit pre post pre' intOnly

/-- `delta_for_tx`: the delta of `tx` and the SfLA rows to inject after it. -/
def deltaForTx (t : Tracker) (tx : Tx) (past future : List Tx) :
    Except Failure (Delta × List Tx) :=
  let pre := t.nextPre tx.aff
  match sanityCheck pre tx.aff with
  | .error f => .error f
  | .ok _ =>
    match arm t tx pre past future with
    | .error f => .error f
    | .ok o => .ok ({ tx := tx, pre := pre, post := o.post, gain := o.gain, sfl := o.sfl }, o.inj)

/-- One iteration of the `while` loop: delta, tracker update. -/
def stepRow (t : Tracker) (tx : Tx) (past future : List Tx) :
    Except Failure (Delta × Tracker × List Tx) :=
  match deltaForTx t tx past future with
  | .error f => .error f
  | .ok (d, inj) =>
    match t.setLatest tx.aff d.post with
    | .error f => .error f
    | .ok t' => .ok (d, t', inj)

/-- The injected SfLA rows are inserted right after the sale and processed by the same loop
    body; they can inject nothing further (any rows they might return are dropped, as the
    Rust loop would only ever see SfLA rows return `None`). -/
def runInjected (t : Tracker) (past : List Tx) (acc : List Delta) :
    List Tx → List Tx → (Tracker × List Tx × List Delta) ⊕ (List Delta × Failure)
  | [], _ => .inl (t, past, acc)
  | x :: xs, future =>
    match stepRow t x past (xs ++ future) with
    | .error f => .inr (acc, f)
    | .ok (d, t', _) => runInjected t' (x :: past) (acc ++ [d]) xs future

/-- The main loop of `txs_to_delta_list`: `past` = processed rows (most recent first),
    `acc` = deltas so far. -/
def deltaLoop : Tracker → List Tx → List Delta → List Tx → List Delta × Option Failure
  | _, _, acc, [] => (acc, none)
  | t, past, acc, tx :: rest =>
    match stepRow t tx past rest with
    | .error f => (acc, some f)
    | .ok (d, t', inj) =>
      match runInjected t' (tx :: past) (acc ++ [d]) inj rest with
      | .inr (acc', f) => (acc', some f)
      | .inl (t'', past', acc') => deltaLoop t'' past' acc' rest

/-- `txs_to_delta_list(txs, initial_status)`: the deltas produced (all of them, or the partial
    list before the failing row) and the failure, if any. -/
def deltaList (dflt : Aff) (init : Option Status) (txs : List Tx) : List Delta × Option Failure :=
  match txs with
  | [] => ([], none)
  | _ =>
    match Tracker.new dflt init with
    | .error f => ([], some f)
    | .ok t => deltaLoop t [] [] txs

end Acb
