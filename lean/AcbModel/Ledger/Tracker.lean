/-
  AffiliatePortfolioSecurityStatuses (src/portfolio/bookkeeping/portfolio_status.rs).
  The HashMap is a total function `Aff → Option Status` (computable: a closure chain).
-/
import AcbModel.Ledger.Types
namespace Acb

structure Tracker where
  m : Aff → Option Status
  latestAll : Rat
  latestAff : Aff

def defaultStatus (af : Aff) : Status :=
  { shares := 0, all := 0, acb := if af.registered then none else some 0 }

def upd {β : Type} (f : Aff → β) (a : Aff) (v : β) : Aff → β :=
  fun x => if x = a then v else f x

/-- Latest share balance of an affiliate, zero if it has no status yet
    (`default_post_sale_share_balance` of the SFL scan; `last_share_balance` of the tracker). -/
def Tracker.bal (t : Tracker) (af : Aff) : Rat :=
  match t.m af with
  | some s => s.shares
  | none => 0

/-- `set_latest_post_status`, with its two `assert_eq!` as panic sites. -/
def Tracker.setLatest (t : Tracker) (af : Aff) (v : Status) : Except Failure Tracker :=
  let expected := v.shares + t.latestAll - t.bal af
  if af.registered = v.acb.isNone then
    if v.all = expected then .ok { m := upd t.m af (some v), latestAll := v.all, latestAff := af }
    else .error (.panic .trackerAllAssert)
  else .error (.panic .trackerAcbAssert)

/-- `AffiliatePortfolioSecurityStatuses::new`; `dflt` is `Affiliate::default()`. -/
def Tracker.new (dflt : Aff) (init : Option Status) : Except Failure Tracker :=
  let t0 : Tracker := { m := fun _ => none, latestAll := 0, latestAff := dflt }
  match init with
  | none => .ok t0
  | some st =>
    if st.shares = st.all then t0.setLatest dflt st
    else .error (.panic .initAssert)

/-- `get_next_pre_status`. -/
def Tracker.nextPre (t : Tracker) (af : Aff) : Status :=
  let last := (t.m af).getD (defaultStatus af)
  if last.all = t.latestAll then last else { last with all := t.latestAll }

/-- `get_latest_post_status().all_affiliate_share_balance`. -/
def Tracker.latestPostAll (t : Tracker) : Rat :=
  match t.m t.latestAff with
  | some s => s.all
  | none => 0

/-- `PortfolioSecurityStatus::per_share_acb`. -/
def perShareAcb (s : Status) : Option Rat :=
  match s.acb with
  | none => none
  | some a => some (if 0 < s.shares then a / s.shares else 0)

end Acb
