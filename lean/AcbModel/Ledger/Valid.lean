/-
  What the Rust types guarantee about a parsed transaction (`PosDecimal`, `GreaterEqualZeroDecimal`,
  `LessEqualZeroDecimal` fields of `Tx`): the guard under which the theorems are stated.
-/
import AcbModel.Ledger.Types
namespace Acb

def optPos : Option Rat → Prop
  | none => True
  | some r => 0 < r

def Action.Valid : Action → Prop
  | .buy sh px comm rate crate => 0 < sh ∧ 0 ≤ px ∧ 0 ≤ comm ∧ 0 < rate ∧ optPos crate
  | .sell sh px comm rate crate sfl =>
      0 < sh ∧ 0 ≤ px ∧ 0 ≤ comm ∧ 0 < rate ∧ optPos crate ∧
      (match sfl with | some (v, _) => v ≤ 0 | none => True)
  | .roc ps rate => 0 ≤ ps ∧ 0 < rate
  | .sfla sh ps => 0 < sh ∧ 0 < ps
  | .split post pre _ => 0 < post ∧ 0 < pre

def Tx.Valid (t : Tx) : Prop := t.act.Valid

instance : DecidablePred optPos := fun o => by
  cases o <;> simp [optPos] <;> infer_instance

instance (a : Action) : Decidable a.Valid := by
  cases a with
  | buy => simp [Action.Valid]; infer_instance
  | sell sh px comm rate crate sfl =>
    simp only [Action.Valid]
    cases sfl <;> simp <;> infer_instance
  | roc => simp [Action.Valid]; infer_instance
  | sfla => simp [Action.Valid]; infer_instance
  | split => simp [Action.Valid]; infer_instance

instance (t : Tx) : Decidable t.Valid := inferInstanceAs (Decidable t.act.Valid)

end Acb
