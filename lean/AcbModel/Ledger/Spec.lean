/-
  The average-cost rules, stated as simply as possible (what C01 says in words).
  One `Book` per affiliate: shares held and total cost base (`none` for registered affiliates).
-/
import AcbModel.Ledger.Types
namespace Acb.Spec

structure Book where
  shares : Rat
  acb : Option Rat
deriving Repr, Inhabited, DecidableEq

def Book.zero (a : Aff) : Book := { shares := 0, acb := if a.registered then none else some 0 }

/-- Effect of one row on the book of the row's affiliate. -/
def stepBook (b : Book) : Action → Book
  | .buy sh px comm rate crate =>
    { shares := b.shares + sh, acb := b.acb.map (fun a => a + (px * sh * rate + comm * commRate rate crate)) }
  | .sell sh _ _ _ _ _ =>
    { shares := b.shares - sh, acb := b.acb.map (fun a => a - a * sh / b.shares) }
  | .roc ps rate => { b with acb := b.acb.map (fun a => a - ps * b.shares * rate) }
  | .sfla sh ps => { b with acb := b.acb.map (fun a => a + sh * ps) }
  | .split post pre _ => { b with shares := b.shares * (post / pre) }

/-- Capital gain of a sale before any superficial-loss adjustment:
    proceeds − commission − cost removed. -/
def gain0 (b : Book) : Action → Option Rat
  | .sell sh px comm rate crate _ =>
    b.acb.map (fun a => px * sh * rate - comm * commRate rate crate - a * sh / b.shares)
  | _ => none

abbrev Books := Aff → Book

def Books.init (dflt : Aff) (init : Option Status) : Books :=
  fun a =>
    match init with
    | some st => if a = dflt then { shares := st.shares, acb := st.acb } else Book.zero a
    | none => Book.zero a

def stepBooks (bs : Books) (tx : Tx) : Books :=
  fun a => if a = tx.aff then stepBook (bs tx.aff) tx.act else bs a

def after (bs : Books) (rows : List Tx) : Books := rows.foldl stepBooks bs

end Acb.Spec
