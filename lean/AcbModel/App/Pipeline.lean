/-
  The application pipeline around the ledger (src/app/approot.rs run_acb_app_to_delta_models,
  src/portfolio/misc.rs split_txs_by_security, src/portfolio/splits.rs replace_global_security_splits).
  Rows carry a security id and a flag for the `__global__` affiliate of a Split row.
-/
import AcbModel.Ledger.Delta
namespace Acb

/-- A parsed row of the concatenated input (`Tx`), before per-security processing. -/
structure PRow where
  sec : Nat
  glob : Bool          -- affiliate is `Affiliate::global()` (only meaningful for Split rows)
  tx : Tx
deriving Inhabited

/-- `Tx::cmp`: settlement date, then read index. -/
def rowLe (a b : PRow) : Bool :=
  a.tx.settle < b.tx.settle || (a.tx.settle == b.tx.settle && a.tx.idx ≤ b.tx.idx)

def insertRow (x : PRow) : List PRow → List PRow
  | [] => [x]
  | y :: ys => if rowLe x y then x :: y :: ys else y :: insertRow x ys

/-- `all_txs.sort()` — any sort algorithm gives the same list because the key (settle, idx) is
    unique per row (see Props/C07); modelled as insertion sort. -/
def sortRows (l : List PRow) : List PRow := l.foldr insertRow []

/-- `split_txs_by_security`: the rows of one security, in order. -/
def rowsOf (s : Nat) (l : List PRow) : List PRow := l.filter (fun r => r.sec == s)

/-- securities in order of first appearance -/
def secsOf (l : List PRow) : List Nat := (l.map (·.sec)).eraseDups

/-- `find_all_non_global_affiliates` (as a duplicate-free list in order of first appearance;
    the Rust HashSet's iteration order is some permutation of it). -/
def nonGlobalAffs (rows : List PRow) : List Aff :=
  ((rows.filter (fun r => !r.glob)).map (·.tx.aff)).eraseDups

def isNonGlobalSplit (r : PRow) : Bool := r.tx.act.isSplit && !r.glob
def isGlobalSplit (r : PRow) : Bool := r.tx.act.isSplit && r.glob

/-- backward part of `has_non_global_surrounding_splits`: rows before idx, most recent first. -/
def surroundBack (target : Int) : List PRow → Bool
  | [] => false
  | r :: rest =>
    if target - r.tx.trade > 1 then false
    else if isNonGlobalSplit r then true
    else surroundBack target rest

def surroundFwd (target : Int) : List PRow → Bool
  | [] => false
  | r :: rest =>
    if r.tx.trade - target > 1 then false
    else if isNonGlobalSplit r then true
    else surroundFwd target rest

/-- Validation pass of `replace_global_security_splits`: the first global split that has a
    non-global split within a day (by trade date) is an error. -/
def splitConflict : List PRow → List PRow → Bool
  | _, [] => false
  | before, r :: rest =>
    if isGlobalSplit r && (surroundBack r.tx.trade before || surroundFwd r.tx.trade rest) then true
    else splitConflict (r :: before) rest

/-- Expansion: each global split becomes one split row per affiliate of `affs` (in that order). -/
def expandSplits (affs : List Aff) (rows : List PRow) : List Tx :=
  rows.flatMap (fun r =>
    if isGlobalSplit r then affs.map (fun a => { r.tx with aff := a })
    else [r.tx])

def insertAffByKey (a : Aff) : List Aff → List Aff
  | [] => [a]
  | b :: bs => if a.key ≤ b.key then a :: b :: bs else b :: insertAffByKey a bs

/-- `non_global_affiliates.sort_by(|a, b| a.id().cmp(b.id()))` -/
def sortAffs (l : List Aff) : List Aff := l.foldr insertAffByKey []

/-- The affiliates a global split is expanded to: those with a row of the security, plus the
    `holders` passed by the caller (the default affiliate when the security has an opening
    position), the default affiliate if there is none at all; sorted by id. -/
def splitAffs (dflt : Aff) (holders : List Aff) (rows : List PRow) : List Aff :=
  let affs := nonGlobalAffs rows
  let affs := affs ++ (holders.filter (fun h => !affs.contains h))
  let affs := if affs.isEmpty then [dflt] else affs
  sortAffs affs

/-- `replace_global_security_splits_with_holders(sorted_security_txs, holders)`.
    `none` = the "non-global split near global split" error. -/
def replaceGlobalSplits (dflt : Aff) (holders : List Aff) (rows : List PRow) : Option (List Tx) :=
  if splitConflict [] rows then none
  else if (rows.filter isGlobalSplit).isEmpty then some (rows.map (·.tx))
  else some (expandSplits (splitAffs dflt holders rows) rows)

/-- What is computed for one security from its (sorted) rows: a split-validation failure is an
    error of that security alone, with no rows. -/
def secResultSorted (dflt : Aff) (init : Option Status) (sortedRowsS : List PRow) :
    List Delta × Option Failure :=
  match replaceGlobalSplits dflt (if init.isSome then [dflt] else []) sortedRowsS with
  | none => ([], some (.err .splitConflict))
  | some txs => deltaList dflt init txs

/-- `run_acb_app_to_delta_models`: per security (in order of first appearance in the sorted
    rows; the Rust result is a HashMap) the deltas and the failure, if any. -/
def runPipeline (dflt : Aff) (inits : Nat → Option Status) (rows : List PRow) :
    List (Nat × List Delta × Option Failure) :=
  let sorted := sortRows rows
  (secsOf sorted).map (fun s => (s, secResultSorted dflt (inits s) (rowsOf s sorted)))

end Acb
