/-
  Text layer shared by the CSV codec (C11) and the header mapping (C07): strings are `List Char`.

  * `isWs`      = Rust `char::is_whitespace` (Unicode White_Space), used by `str::trim` and by `\s`
                  of the `regex` crate.
  * `trim`      = `str::trim`.
  * `lower` / `upper` = `str::to_lowercase` / `to_uppercase`.  Exact on ASCII; outside ASCII only the
                  simple mappings of Latin-1, Latin Extended-A, Greek (without the final-sigma rule) and Cyrillic plus
                  U+0130, U+212A, U+212B, U+00DF are modelled (the harness generates only such
                  characters); everything else is mapped to itself.
  * digits      : `fracDigits k n` = the last `k` decimal digits of `n`, most significant first;
                  `ofDigits` = value of a digit string.
  Core Lean only (the driver links this file).
-/
namespace Acb.Csv

abbrev Str := List Char

/-- Rust `char::is_whitespace`. -/
def isWs (c : Char) : Bool :=
  let n := c.toNat
  (9 ≤ n && n ≤ 13) || n == 32 || n == 0x85 || n == 0xA0 || n == 0x1680 ||
  (0x2000 ≤ n && n ≤ 0x200A) || n == 0x2028 || n == 0x2029 || n == 0x202F || n == 0x205F || n == 0x3000

def trimStart (s : Str) : Str := s.dropWhile isWs
def trimEnd (s : Str) : Str := (s.reverse.dropWhile isWs).reverse
/-- `str::trim`. -/
def trim (s : Str) : Str := trimEnd (trimStart s)

/-- `char::to_lowercase` (see the header comment for the domain). -/
def lowerChar (c : Char) : List Char :=
  let n := c.toNat
  if 65 ≤ n && n ≤ 90 then [Char.ofNat (n + 32)]
  else if n < 128 then [c]
  else if 0xC0 ≤ n && n ≤ 0xDE && n != 0xD7 then [Char.ofNat (n + 32)]
  else if n == 0x130 then ['i', Char.ofNat 0x307]
  else if ((0x100 ≤ n && n ≤ 0x137) || (0x14A ≤ n && n ≤ 0x177)) && n % 2 == 0 then [Char.ofNat (n + 1)]
  else if ((0x139 ≤ n && n ≤ 0x148) || (0x179 ≤ n && n ≤ 0x17E)) && n % 2 == 1 then [Char.ofNat (n + 1)]
  else if n == 0x178 then [Char.ofNat 0xFF]
  else if n == 0x212A then ['k']
  else if n == 0x212B then [Char.ofNat 0xE5]
  else if 0x391 ≤ n && n ≤ 0x3A9 && n != 0x3A2 then [Char.ofNat (n + 32)]
  else if 0x410 ≤ n && n ≤ 0x42F then [Char.ofNat (n + 32)]
  else if 0x400 ≤ n && n ≤ 0x40F then [Char.ofNat (n + 80)]
  else [c]

/-- `char::to_uppercase` (see the header comment for the domain). -/
def upperChar (c : Char) : List Char :=
  let n := c.toNat
  if 97 ≤ n && n ≤ 122 then [Char.ofNat (n - 32)]
  else if n < 128 then [c]
  else if n == 0xDF then ['S', 'S']
  else if 0xE0 ≤ n && n ≤ 0xFE && n != 0xF7 then [Char.ofNat (n - 32)]
  else if n == 0xFF then [Char.ofNat 0x178]
  else if n == 0x131 then ['I']
  else if n == 0x17F then ['S']
  else if n == 0x149 then [Char.ofNat 0x2BC, 'N']
  else if ((0x100 ≤ n && n ≤ 0x137) || (0x14A ≤ n && n ≤ 0x177)) && n % 2 == 1 then [Char.ofNat (n - 1)]
  else if ((0x139 ≤ n && n ≤ 0x148) || (0x179 ≤ n && n ≤ 0x17E)) && n % 2 == 0 then [Char.ofNat (n - 1)]
  else if n == 0xB5 then [Char.ofNat 0x39C]
  else if 0x3B1 ≤ n && n ≤ 0x3C9 && n != 0x3C2 then [Char.ofNat (n - 32)]
  else if n == 0x3C2 then [Char.ofNat 0x3A3]
  else if 0x430 ≤ n && n ≤ 0x44F then [Char.ofNat (n - 32)]
  else if 0x450 ≤ n && n ≤ 0x45F then [Char.ofNat (n - 80)]
  else [c]

def lower (s : Str) : Str := s.flatMap lowerChar
def upper (s : Str) : Str := s.flatMap upperChar

/-! ### decimal digits -/

def isDigit (c : Char) : Bool := 48 ≤ c.toNat && c.toNat ≤ 57

def digitChar (n : Nat) : Char :=
  match n with
  | 0 => '0' | 1 => '1' | 2 => '2' | 3 => '3' | 4 => '4'
  | 5 => '5' | 6 => '6' | 7 => '7' | 8 => '8' | _ => '9'

def digitVal (c : Char) : Nat := c.toNat - 48

/-- The last `k` decimal digits of `n`, most significant first (exactly `k` characters). -/
def fracDigits : Nat → Nat → Str
  | 0, _ => []
  | k + 1, n => fracDigits k (n / 10) ++ [digitChar (n % 10)]

/-- Value of a string of decimal digits. -/
def ofDigits (s : Str) : Nat := s.foldl (fun a c => a * 10 + digitVal c) 0

/-- Digits of a natural below `10^29` (every 96-bit mantissa) without leading zeros; `"0"` for zero. -/
def wholeDigits (n : Nat) : Str :=
  let ds := (fracDigits 29 n).dropWhile (· == '0')
  if ds.isEmpty then ['0'] else ds

/-- Strip trailing `'0'` characters. -/
def trimZeros (s : Str) : Str := (s.reverse.dropWhile (· == '0')).reverse

def strOf (s : String) : Str := s.toList

end Acb.Csv
