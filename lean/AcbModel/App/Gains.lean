/-
  Model of src/portfolio/cumulative_gains.rs (`calc_security_cumulative_capital_gains`,
  `calc_cumulative_capital_gains`), of `get_cumulative_capital_gains` in src/app/approot.rs (only
  securities whose ledger completed take part), and of the display decision of
  src/portfolio/render.rs (`PrintHelper::curr_str`, `plus_minus_dollar`: full precision or cents).

  * A `TxDelta` is seen through its settlement day and its `capital_gain`.
  * `HashMap<i32, Decimal>` is a total function plus its key list (`CG.years`); the walk over
    `sec_gains` takes the order `σ` (since the fix for F-09e the code sorts the securities by name
    first, i.e. uses one particular `σ`; the theorems hold for every `σ`), the walk over each
    security's year map the order `ρ`.
  Core Lean only.
-/
import AcbModel.Basic.Num
import AcbModel.App.Costs
namespace Acb.Gains
open Acb.Costs (addKey sortDays)

structure GRow where
  day : Int
  gain : Option Rat
deriving Repr, Inhabited

/-- `CumulativeCapitalGains` -/
structure CG where
  total : Rat
  years : List Int
  byYear : Int → Option Rat

def CG.empty : CG := { total := 0, years := [], byYear := fun _ => none }

/-- `m.insert(year, m.get(&year).unwrap_or(&0) + v)` -/
def CG.add (g : CG) (y : Int) (v : Rat) : CG :=
  { g with years := addKey g.years y,
           byYear := fun y' => if y' = y then some ((g.byYear y).getD 0 + v) else g.byYear y' }

/-- body of the loop of `calc_security_cumulative_capital_gains` -/
def secStep (yearOf : Int → Int) (g : CG) (r : GRow) : CG :=
  match r.gain with
  | none => g
  | some v => { g.add (yearOf r.day) v with total := g.total + v }

def secGains (yearOf : Int → Int) (rows : List GRow) : CG := rows.foldl (secStep yearOf) CG.empty

/-- body of the outer loop of `calc_cumulative_capital_gains`; `ρ` is the order in which the
    security's year map is walked -/
def aggStep (ρ : List Int → List Int) (acc : CG) (g : CG) : CG :=
  let acc1 := (ρ g.years).foldl (fun a y => a.add y ((g.byYear y).getD 0)) acc
  { acc1 with total := acc.total + g.total }

/-- `calc_cumulative_capital_gains`; `σ` is the order of `sec_gains.values()` -/
def aggGains (σ : List CG → List CG) (ρ : List Int → List Int) (secs : List CG) : CG :=
  (σ secs).foldl (aggStep ρ) CG.empty

/-- A security's ledger result as `get_cumulative_capital_gains` sees it. -/
structure SecResult where
  ok : Bool                -- `deltas_res.0.is_ok()`
  rows : List GRow         -- the deltas (all of them, or the prefix before the rejected row)

/-- `security_gains`: one entry per security that completed -/
def completed (yearOf : Int → Int) (rs : List SecResult) : List CG :=
  (rs.filter (·.ok)).map (fun r => secGains yearOf r.rows)

/-- gains a security's table is rendered with: its own if it completed, else `default_gains` -/
def tableGains (yearOf : Int → Int) (r : SecResult) : CG :=
  if r.ok then secGains yearOf r.rows else CG.empty

/-- `capital_gains_year_totals_keys_sorted` -/
def CG.sortedYears (g : CG) : List Int := sortDays g.years

/-! ### what the totals must be (spec side) -/

/-- the capital gains of the rows settling in year `y`, in row order -/
def gainsIn (yearOf : Int → Int) (rows : List GRow) (y : Int) : List Rat :=
  (rows.filter (fun r => r.gain.isSome && decide (yearOf r.day = y))).map (fun r => r.gain.getD 0)

/-- all capital gains of the rows -/
def allGains (rows : List GRow) : List Rat := rows.filterMap (·.gain)

/-! ### display -/

/-- the value a dollar cell shows: `curr_str` -/
def shown (full : Bool) (v : Rat) : Rat := if full then v else roundCent v

/-- `plus_minus_dollar`: a negative value is printed as `-$` followed by `curr_str(-v)` -/
def shownSigned (full : Bool) (v : Rat) : Rat := if v < 0 then -(shown full (-v)) else shown full v

/-- footer of a security table: (label, value shown): "Total" first, then the years ascending -/
def footer (full : Bool) (g : CG) : List (Option Int × Rat) :=
  (none, shownSigned full g.total) ::
    g.sortedYears.map (fun y => (some y, shownSigned full ((g.byYear y).getD 0)))

/-- aggregate table: the years ascending, then "Since inception" -/
def aggTable (full : Bool) (g : CG) : List (Option Int × Rat) :=
  g.sortedYears.map (fun y => (some y, shownSigned full ((g.byYear y).getD 0))) ++
    [(none, shownSigned full g.total)]

end Acb.Gains
