/-
  Summary generation (src/portfolio/summary.rs): `get_summary_range_delta_indicies`,
  `make_simple_summary_txs`, `make_annual_gains_summary_txs`, `make_summary_txs`, over the deltas of
  one security.  Dates are Julian day numbers; the civil calendar (`yearOf`, `jan1`) is a parameter.
-/
import AcbModel.Ledger.Delta
import AcbModel.Basic.Date
namespace Acb

def Delta.isSfl (d : Delta) : Bool :=
  match d.sfl with
  | some s => s.loss != 0
  | none => false

/-- a sale at a loss, superficial or not (repaired code: such a sale constrains the range) -/
def Delta.isLossOrSfl (d : Delta) : Bool :=
  d.isSfl || (match d.gain with | some g => decide (g < 0) | none => false)

/-- Step 1: index of the latest delta settling on or before `latest` (the loop `break`s at the
    first later one). -/
def latestInRange (latest : Int) : List Delta → Nat → Option Nat → Option Nat
  | [], _, acc => acc
  | d :: ds, i, acc => if d.tx.settle > latest then acc else latestInRange latest ds (i + 1) (some i)

/-- Step 2: first (potential) superficial loss after the range: does the last summarized date
    fall in its 30-day period?  Returns the first day of that period if so. -/
def firstConflict (lastDate : Int) : List Delta → Option Int
  | [] => none
  | d :: ds =>
    if d.isLossOrSfl then
      let first := d.tx.settle - Gen.sflWindowBeforeDays
      if lastDate ≥ first then some first else none
    else firstConflict lastDate ds

/-- Step 3: walk back from the last delta in range; the first delta settling before the
    (moving) period start is the latest summarizable one. `rev` = deltas 0..=last, reversed, with
    their indices. -/
def latestSummarizable : Int → List (Nat × Delta) → Option Nat
  | _, [] => none
  | first, (i, d) :: rest =>
    if d.tx.settle < first then some i
    else
      let first' := if d.isLossOrSfl then d.tx.settle - Gen.sflWindowBeforeDays else first
      latestSummarizable first' rest

structure SummaryRange where
  lastInRange : Nat
  lastSummarizable : Option Nat
deriving DecidableEq, Repr

def summaryRange (latest : Int) (ds : List Delta) : Option SummaryRange :=
  match latestInRange latest ds 0 none with
  | none => none
  | some li =>
    let lastDate := (ds[li]?.map (·.tx.settle)).getD 0
    match firstConflict lastDate (ds.drop (li + 1)) with
    | none => some { lastInRange := li, lastSummarizable := some li }
    | some first =>
      let idxd := (ds.take (li + 1)).zipIdx.map (fun (d, i) => (i, d))
      some { lastInRange := li, lastSummarizable := latestSummarizable first idxd.reverse }

/-- the carrying row for a cost base held with no shares -/
def zeroShareRows (af : Aff) (last : Tx) (st : Status) : List Tx :=
  match st.acb with
  | some acb => if 0 < acb then [{ trade := last.settle, settle := last.settle, idx := 0, aff := af, act := .sfla 1 acb }] else []
  | none => []

/-- `make_simple_summary_txs` -/
def simpleSummary (af : Aff) (d : Delta) : List Tx :=
  let st := d.post
  if 0 < st.shares then
    [{ trade := d.tx.settle, settle := d.tx.settle, idx := 0, aff := af,
       act := .buy st.shares (match st.acb with | some a => a / st.shares | none => 0) 0 1 none }]
  else zeroShareRows af d.tx st

def insertYear (y : Int) : List Int → List Int
  | [] => [y]
  | z :: zs => if y < z then y :: z :: zs else if y = z then z :: zs else z :: insertYear y zs

/-- yearly gains of affiliate `af` over the deltas `ds` (years with a non-zero total entry) -/
def yearlyGains (yearOf : Int → Int) (af : Aff) (ds : List Delta) : List (Int × Rat) :=
  let rel := ds.filter (fun d => d.tx.aff == af && (d.gain.getD 0) != 0)
  let years := rel.foldl (fun acc d => insertYear (yearOf d.tx.settle) acc) []
  years.map (fun y => (y, ((rel.filter (fun d => yearOf d.tx.settle == y)).map (fun d => d.gain.getD 0)).sum))

/-- `make_annual_gains_summary_txs` -/
def annualSummary (yearOf : Int → Int) (jan1 : Int → Int) (af : Aff) (ds : List Delta) (li : Nat) : List Tx :=
  match ds[li]? with
  | none => []
  | some d =>
    let st := d.post
    let gains := if af.registered then [] else yearlyGains yearOf af (ds.take (li + 1))
    let firstYear := match ds.head? with | some d0 => yearOf d0.tx.settle | none => 0
    let aps : Option Rat := match st.acb with
      | some a => some (if 0 < st.shares then a / st.shares else 0)
      | none => none
    let nBase := st.shares + (gains.length : Rat)
    let buyRows : List Tx :=
      if 0 < nBase then
        [{ trade := jan1 (firstYear - 1), settle := jan1 (firstYear - 1), idx := 0, aff := af,
           act := .buy nBase (aps.getD 0) 0 1 none }]
      else []
    let sellRows : List Tx := gains.map (fun (y, g) =>
      let (gain, loss) := if g < 0 then ((0 : Rat), -g) else (g, 0)
      { trade := jan1 y, settle := jan1 y, idx := 0, aff := af,
        act := .sell 1 (match aps with | some a => a + gain | none => 0) loss 1 none none })
    buyRows ++ sellRows ++ (if st.shares = 0 then zeroShareRows af d.tx st else [])

def txLe (a b : Tx) : Bool := a.settle < b.settle || (a.settle == b.settle && a.idx ≤ b.idx)

def insertTx (x : Tx) : List Tx → List Tx
  | [] => [x]
  | y :: ys => if txLe x y then x :: y :: ys else y :: insertTx x ys

def insertPair (x : Aff × Nat) : List (Aff × Nat) → List (Aff × Nat)
  | [] => [x]
  | y :: ys => if x.1.key ≤ y.1.key then x :: y :: ys else y :: insertPair x ys

/-- last index (≤ bound) of each affiliate, affiliates sorted by id -/
def lastIdxPerAff (ds : List Delta) (bound : Nat) : List (Aff × Nat) :=
  let pairs := (ds.take (bound + 1)).zipIdx.foldl (fun acc (d, i) =>
    (d.tx.aff, i) :: acc.filter (fun p => p.1 != d.tx.aff)) ([] : List (Aff × Nat))
  pairs.foldr insertPair []

/-- The row an unsummarisable delta is carried over as: its transaction, with the superficial loss
    that was computed for it written into the `superficial loss` cell. -/
def carryTx (d : Delta) : Tx :=
  match d.sfl, d.tx.act with
  | some s, .sell sh px comm rate crate spec =>
    -- an amount the user forced stays forced (fix cd15d29)
    let force := match spec with | some (_, f) => f | none => false
    { d.tx with act := .sell sh px comm rate crate (some (s.loss, force)) }
  | _, _ => d.tx

/-- `make_summary_txs` for one security. -/
def makeSummaryTxs (yearOf : Int → Int) (jan1 : Int → Int) (latest : Int) (annual : Bool) (ds : List Delta) : List Tx :=
  match summaryRange latest ds with
  | none => []
  | some r =>
    let sumRows : List Tx :=
      match r.lastSummarizable with
      | none => []
      | some ls =>
        (lastIdxPerAff ds ls).flatMap (fun (af, i) =>
          if annual then annualSummary yearOf jan1 af ds i
          else match ds[i]? with | some d => simpleSummary af d | none => [])
    -- sort with the position as tie-break, then forget the index
    let sorted := (sumRows.zipIdx.map (fun (t, i) => { t with idx := i })).foldr insertTx []
    let sorted := sorted.map (fun t => { t with idx := 0 })
    let firstUnsum := match r.lastSummarizable with | some ls => ls + 1 | none => 0
    let unsum := (ds.take (r.lastInRange + 1)).drop firstUnsum
    sorted ++ unsum.map carryTx

end Acb
