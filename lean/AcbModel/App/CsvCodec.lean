/-
  C11 — model of acb's transaction CSV codec.

    src/util/decimal.rs            to_string_min_precision (over rust_decimal's Display / from_str)
    src/portfolio/model/tx.rs      SplitRatio parse/Display, CsvTx, Tx::to_csvtx, Tx::try_from(CsvTx)
    src/portfolio/model/affiliate.rs  AffiliateData::from_strep
    src/portfolio/model/currency.rs   Currency::new, CurrencyAndExchangeRate::try_new
    src/portfolio/io/tx_csv.rs     txs_to_csv_table (optional-column elision), parse_tx_csv
                                   (header mapping, trimmed cells, empty = absent), csvtx_from_csv_values

  The `csv` crate's quoting layer is NOT modelled: the model works on tables of cells
  (`List Str × List (List Str)`); the theorems take the crate's `decode (encode t) = t` as a
  hypothesis.  Decimals are `(sign bit, 96-bit mantissa, scale ≤ 28)` exactly as rust_decimal
  holds them; Rust's `==` on `Decimal` is equality of `Dec.norm`.
  Core Lean only (the driver links this file).
-/
import AcbModel.App.CsvText
namespace Acb.Csv

/-! ## Decimals -/

structure Dec where
  neg : Bool
  mant : Nat
  scale : Nat
deriving DecidableEq, Repr, Inhabited

def pow2_96 : Nat := 79228162514264337593543950336

/-- What a `rust_decimal::Decimal` can hold. -/
def Dec.InRange (d : Dec) : Prop := d.scale ≤ 28 ∧ d.mant < pow2_96

instance (d : Dec) : Decidable d.InRange := by unfold Dec.InRange; exact inferInstance

/-- `Display for Decimal` (`to_str_internal`): all `scale` fractional digits when no precision is
    given; with a precision the fraction is truncated (not rounded) or zero-padded. -/
def Dec.display (d : Dec) (prec : Option Nat) : Str :=
  let p := prec.getD d.scale
  (if d.neg then ['-'] else []) ++ wholeDigits (d.mant / 10 ^ d.scale) ++
    (if p = 0 then [] else '.' :: (fracDigits d.scale d.mant ++ List.replicate p '0').take p)

/-- Number of fractional digits up to the last non-zero one: length of group 5 of
    `^(-?\d+)(\.((0+)|(\d*[1-9])0*))?$` on the full rendering. -/
def Dec.trimmedPrecision (d : Dec) : Nat := (trimZeros (fracDigits d.scale d.mant)).length

/-- `util::decimal::to_string_min_precision`. -/
def Dec.toStringMinPrecision (d : Dec) (minP : Nat) : Str :=
  d.display (some (max d.trimmedPrecision minP))

inductive DecErr | syntax | range
deriving DecidableEq, Repr

/-- leading `-` or `+`. -/
def stripSign : Str → Bool × Str
  | '-' :: r => (true, r)
  | '+' :: r => (false, r)
  | r => (false, r)

/-- digits, at most one point, at least one digit. -/
def parseUnsigned (neg : Bool) (r : Str) : Option Dec :=
  let ip := r.takeWhile isDigit
  match r.dropWhile isDigit with
  | [] => if ip.isEmpty then none else some ⟨neg, ofDigits ip, 0⟩
  | '.' :: fp =>
    if fp.all isDigit && !(ip.isEmpty && fp.isEmpty) then some ⟨neg, ofDigits (ip ++ fp), fp.length⟩
    else none
  | _ => none

/-- Text → (sign, mantissa, scale) as `parse_str_radix_10` reads it: optional sign, digits, at
    most one point, at least one digit.  (`_` separators are not modelled.) -/
def parseDecRaw (s : Str) : Option Dec :=
  parseUnsigned (stripSign s).1 (stripSign s).2

/-- `Decimal::from_str` / `from_str_exact` on text whose mantissa and scale fit; a zero never
    carries the sign bit (`Decimal::from_parts`).  Out-of-range text (`range`) is outside the
    model: `from_str` rounds it, `from_str_exact` rejects it. -/
def parseDec (s : Str) : Except DecErr Dec :=
  match parseDecRaw s with
  | none => .error .syntax
  | some d =>
    if d.scale ≤ 28 ∧ d.mant < pow2_96 then .ok { d with neg := d.neg && d.mant != 0 }
    else .error .range

/-- Trailing fractional zeros removed: Rust's `==` on `Decimal` is `norm a = norm b`
    (up to the sign bit of zero, which `parseDec` never sets). -/
def normGo (neg : Bool) : Nat → Nat → Dec
  | 0, m => ⟨neg, m, 0⟩
  | k + 1, m => if m % 10 = 0 then normGo neg k (m / 10) else ⟨neg, m, k + 1⟩

def Dec.norm (d : Dec) : Dec := normGo d.neg d.scale d.mant

/-- Same sign bit and same numeric value (`a.mant / 10^a.scale = b.mant / 10^b.scale`). -/
def Dec.Same (a b : Dec) : Prop := a.neg = b.neg ∧ a.mant * 10 ^ b.scale = b.mant * 10 ^ a.scale

def Dec.isZero (d : Dec) : Bool := d.mant == 0
/-- `Pos` constraint: sign positive and not zero. -/
def Dec.isPos (d : Dec) : Bool := !d.neg && d.mant != 0
/-- `GreaterEqualZero` constraint. -/
def Dec.isGez (d : Dec) : Bool := !d.neg || d.mant == 0
/-- `LessEqualZero` constraint. -/
def Dec.isLez (d : Dec) : Bool := d.neg || d.mant == 0
/-- `Decimal::is_integer`. -/
def Dec.isInteger (d : Dec) : Bool := d.mant % 10 ^ d.scale == 0
/-- `a < b` for non-negative decimals. -/
def Dec.absLt (a b : Dec) : Bool := a.mant * 10 ^ b.scale < b.mant * 10 ^ a.scale
/-- value `= 1` (`*r != dec!(1.0)` is its negation). -/
def Dec.isOne (d : Dec) : Bool := !d.neg && d.mant == 10 ^ d.scale

def Dec.one : Dec := ⟨false, 1, 0⟩
def Dec.zero : Dec := ⟨false, 0, 0⟩

/-! ## Dates (`time::Date`, format `[year]-[month]-[day]`, years 0..9999) -/

structure Date where
  y : Nat
  m : Nat
  d : Nat
deriving DecidableEq, Repr, Inhabited

def isLeap (y : Nat) : Bool := (y % 4 == 0 && y % 100 != 0) || y % 400 == 0

def daysInMonth (y m : Nat) : Nat :=
  if m == 2 then (if isLeap y then 29 else 28)
  else if m == 4 || m == 6 || m == 9 || m == 11 then 30 else 31

def Date.valid (t : Date) : Bool :=
  t.y ≤ 9999 && 1 ≤ t.m && t.m ≤ 12 && 1 ≤ t.d && t.d ≤ daysInMonth t.y t.m

/-- `Date::to_string()` for years 0..9999. -/
def Date.render (t : Date) : Str :=
  fracDigits 4 t.y ++ '-' :: fracDigits 2 t.m ++ '-' :: fracDigits 2 t.d

/-- `parse_standard_date` on the plain `YYYY-MM-DD` form (an explicit sign before the year is not
    modelled). -/
def parseDate (s : Str) : Option Date :=
  match s with
  | [a, b, c, d, '-', e, f, '-', g, h] =>
    if isDigit a && isDigit b && isDigit c && isDigit d && isDigit e && isDigit f && isDigit g && isDigit h then
      let t : Date := ⟨ofDigits [a, b, c, d], ofDigits [e, f], ofDigits [g, h]⟩
      if t.valid then some t else none
    else none
  | _ => none

/-! ## Actions -/

inductive Act | buy | sell | roc | sfla | split
deriving DecidableEq, Repr, Inhabited

/-- `TxAction::pretty_str` / `Display`. -/
def Act.render : Act → Str
  | .buy => strOf "Buy" | .sell => strOf "Sell" | .roc => strOf "RoC"
  | .sfla => strOf "SfLA" | .split => strOf "Split"

/-- `parse_csv_action`. -/
def parseAct (s : Str) : Option Act :=
  let v := lower (trim s)
  if v = strOf "buy" then some .buy
  else if v = strOf "sell" then some .sell
  else if v = strOf "roc" then some .roc
  else if v = strOf "sfla" then some .sfla
  else if v = strOf "split" then some .split
  else none

/-! ## Split ratios -/

structure SplitRatio where
  pre : Dec
  post : Dec
  intOnly : Bool
deriving DecidableEq, Repr, Inhabited

/-- `is_reverse_split`: `pre > post`. -/
def SplitRatio.isReverse (r : SplitRatio) : Bool := r.post.absLt r.pre

/-- `Display for SplitRatio` without a formatter precision. -/
def SplitRatio.display (r : SplitRatio) : Str :=
  if r.post.isInteger && r.pre.isInteger then
    if r.isReverse && !r.intOnly then
      r.post.display (some 1) ++ strOf "-for-" ++ r.pre.display (some 1)
    else r.post.display (some 0) ++ strOf "-for-" ++ r.pre.display (some 0)
  else r.post.display none ++ strOf "-for-" ++ r.pre.display none

def isDigitOrDot (c : Char) : Bool := isDigit c || c == '.'

/-- regex `\.\d` finds a match. -/
def hasDotDigit : Str → Bool
  | [] => false
  | c :: r => (c == '.' && (match r with | x :: _ => isDigit x | [] => false)) || hasDotDigit r

/-- `SplitRatio::parse`: `^\s*([\d\.]+)-for-([\d\.]+)\s*$`, case-insensitive (`\d` restricted to
    ASCII digits), both numbers through `from_str_exact` and `PosDecimal`. -/
def parseSplit (s0 : Str) : Option SplitRatio :=
  let s := trim s0
  let g1 := s.takeWhile isDigitOrDot
  match s.dropWhile isDigitOrDot with
  | c1 :: f :: o :: r :: c2 :: g2 =>
    if c1 == '-' && (f == 'f' || f == 'F') && (o == 'o' || o == 'O') && (r == 'r' || r == 'R') && c2 == '-'
        && !g1.isEmpty && !g2.isEmpty && g2.all isDigitOrDot then
      match parseDec g1, parseDec g2 with
      | .ok post, .ok pre =>
        if post.isPos && pre.isPos then
          let io := !hasDotDigit g1 && !hasDotDigit g2
          let r0 : SplitRatio := ⟨pre, post, io⟩
          some (if r0.isReverse then r0 else { r0 with intOnly := false })
        else none
      | _, _ => none
    else none
  | _ => none

/-! ## Superficial-loss cell -/

/-- cell written by `txs_to_csv_table`. -/
def renderSfl (v : Dec × Bool) : Str :=
  v.1.toStringMinPrecision 2 ++ (if v.2 then ['!'] else [])

/-- `parse_csv_superficial_loss`. -/
def parseSfl (s : Str) : Except DecErr (Dec × Bool) :=
  let force := s.getLast? == some '!'
  let num := if force then s.dropLast else s
  match parseDec num with
  | .ok d => if d.isLez then .ok (d, force) else .error .syntax
  | .error e => .error e

/-! ## Affiliates -/

structure AffData where
  id : Str
  name : Str
  registered : Bool
deriving DecidableEq, Repr, Inhabited

/-- `\([rR]\)` matches at the start of the string. -/
def regAt : Str → Bool
  | '(' :: c :: ')' :: _ => c == 'r' || c == 'R'
  | _ => false

/-- `REGISTERED_RE.is_match`. -/
def hasReg : Str → Bool
  | [] => false
  | c :: r => regAt (c :: r) || hasReg r

/-- `REGISTERED_RE.replace_all(s, " ")`: leftmost non-overlapping matches; `skip` = characters of
    the current match still to be dropped. -/
def replaceRegGo : Nat → Str → Str
  | _, [] => []
  | k + 1, _ :: r => replaceRegGo k r
  | 0, c :: r => if regAt (c :: r) then ' ' :: replaceRegGo 2 r else c :: replaceRegGo 0 r

def replaceReg (s : Str) : Str := replaceRegGo 0 s

/-- `EXTRA_SPACE_RE.replace_all(s, " ")`: every run of two or more spaces becomes one space. -/
def collapseSpaces : Str → Str
  | [] => []
  | c :: r => if c == ' ' && r.head? == some ' ' then collapseSpaces r else c :: collapseSpaces r

def defaultName : Str := strOf "Default"
def regSuffix : Str := strOf " (R)"

/-- `AffiliateData::from_strep`. -/
def fromStrep (s : Str) : AffData :=
  let registered := hasReg s
  let p0 := if registered then replaceReg s else s
  let p1 := trim (collapseSpaces p0)
  let pretty := if p1.isEmpty then defaultName else p1
  if registered then ⟨lower pretty ++ regSuffix, pretty ++ regSuffix, true⟩
  else ⟨lower pretty, pretty, false⟩

def AffData.default : AffData := fromStrep []
def AffData.global : AffData := fromStrep (strOf "__global__")
def defaultId : Str := strOf "default"

/-! ## Currencies -/

def cad : Str := strOf "CAD"

/-- `Currency::new`. -/
def currencyNew (s : Str) : Str :=
  let u := upper s
  if u.isEmpty then cad else u

structure CurRate where
  cur : Str
  rate : Dec
deriving DecidableEq, Repr, Inhabited

def CurRate.default : CurRate := ⟨cad, Dec.one⟩
def CurRate.isDefault (c : CurRate) : Bool := c.cur == cad

/-! ## CsvTx and Tx -/

structure CsvTx where
  security : Option Str := none
  tradeDate : Option Date := none
  settleDate : Option Date := none
  action : Option Act := none
  shares : Option Dec := none
  aps : Option Dec := none
  commission : Option Dec := none
  txCurr : Option Str := none
  txFx : Option Dec := none
  commCurr : Option Str := none
  commFx : Option Dec := none
  memo : Option Str := none
  affiliate : Option AffData := none
  sfl : Option (Dec × Bool) := none
  split : Option SplitRatio := none
  readIndex : Nat := 0
deriving DecidableEq, Repr, Inhabited

inductive Specifics
  | buy (shares aps commission : Dec) (cur : CurRate) (commCur : Option CurRate)
  | sell (shares aps commission : Dec) (cur : CurRate) (commCur : Option CurRate) (sfl : Option (Dec × Bool))
  | roc (aps : Dec) (cur : CurRate)
  | sfla (shares aps : Dec)
  | split (ratio : SplitRatio)
deriving DecidableEq, Repr, Inhabited

structure Tx where
  security : Str
  tradeDate : Date
  settleDate : Date
  spec : Specifics
  memo : Str
  affiliate : AffData
  readIndex : Nat
deriving DecidableEq, Repr, Inhabited

def Specifics.isSplit : Specifics → Bool
  | .split _ => true
  | _ => false

/-- rate column of `populate_csvtx_fields_from_action_specifics`: omitted for CAD. -/
def CurRate.fxCell (c : CurRate) : Option Dec := if c.isDefault then none else some c.rate

/-- `Tx::to_csvtx`. -/
def Tx.toCsv (t : Tx) : CsvTx :=
  let base : CsvTx := match t.spec with
    | .buy sh aps comm cur cc =>
      { action := some .buy, shares := some sh, aps := some aps, commission := some comm,
        txCurr := some cur.cur, txFx := cur.fxCell,
        commCurr := cc.map (·.cur), commFx := cc.bind (·.fxCell) }
    | .sell sh aps comm cur cc sfl =>
      { action := some .sell, shares := some sh, aps := some aps, commission := some comm,
        txCurr := some cur.cur, txFx := cur.fxCell,
        commCurr := cc.map (·.cur), commFx := cc.bind (·.fxCell), sfl := sfl }
    | .roc aps cur =>
      { action := some .roc, aps := some aps, txCurr := some cur.cur, txFx := cur.fxCell }
    | .sfla sh aps => { action := some .sfla, shares := some sh, aps := some aps }
    | .split r => { action := some .split, split := some r }
  { base with security := some t.security, tradeDate := some t.tradeDate, settleDate := some t.settleDate,
              memo := some t.memo, affiliate := some t.affiliate, readIndex := t.readIndex }

inductive TxErr
  | noAction | missing | notPositive | negative | rate | rocShares | sflaCurrency | emptySecurity
deriving DecidableEq, Repr

/-- `get_valid_exchange_rate`. -/
def validExchangeRate (cur : Option Str) (fx : Option Dec) : Except TxErr (Option CurRate) :=
  match cur, fx with
  | none, none => .ok none
  | none, some _ => .error .missing
  | some c, none => if c == cad then .ok (some CurRate.default) else .error .missing
  | some c, some r =>
    if r.isPos then
      (if c == cad && !r.isOne then .error .rate else .ok (some ⟨c, r⟩))
    else .error .notPositive

/-- `buy_or_sell_common_attrs_from_csv_tx`. -/
def commonAttrs (c : CsvTx) : Except TxErr (Dec × Dec × Dec × CurRate × Option CurRate) :=
  match c.shares with
  | none => .error .missing
  | some sh =>
    match c.aps with
    | none => .error .missing
    | some aps =>
      let comm := c.commission.getD Dec.zero
      match validExchangeRate c.txCurr c.txFx with
      | .error e => .error e
      | .ok cur =>
        match validExchangeRate c.commCurr c.commFx with
        | .error e => .error e
        | .ok cc =>
          if sh.isPos then
            if aps.isGez then
              if comm.isGez then .ok (sh, aps, comm, cur.getD CurRate.default, cc)
              else .error .negative
            else .error .negative
          else .error .notPositive

/-- action-specific part of `Tx::try_from(CsvTx)`. -/
def specificsOfCsv (c : CsvTx) : Except TxErr Specifics :=
  match c.action with
  | none => .error .noAction
  | some .buy =>
    match commonAttrs c with
    | .error e => .error e
    | .ok (sh, aps, comm, cur, cc) => .ok (.buy sh aps comm cur cc)
  | some .sell =>
    match commonAttrs c with
    | .error e => .error e
    | .ok (sh, aps, comm, cur, cc) => .ok (.sell sh aps comm cur cc c.sfl)
  | some .roc =>
    match c.aps with
    | none => .error .missing
    | some aps =>
      if aps.isGez then
        match c.shares with
        | some _ => .error .rocShares
        | none =>
          match validExchangeRate c.txCurr c.txFx with
          | .error e => .error e
          | .ok cur => .ok (.roc aps (cur.getD CurRate.default))
      else .error .negative
  | some .sfla =>
    match c.aps with
    | none => .error .missing
    | some aps =>
      match c.shares with
      | none => .error .missing
      | some sh =>
        match validExchangeRate c.txCurr c.txFx with
        | .error e => .error e
        | .ok cur =>
          if (match cur with | some x => x.isDefault | none => true) then
            if sh.isPos then
              if aps.isPos then .ok (.sfla sh aps) else .error .notPositive
            else .error .notPositive
          else .error .sflaCurrency
  | some .split =>
    match c.split with
    | none => .error .missing
    | some r => .ok (.split r)

/-- `impl TryFrom<CsvTx> for Tx`. -/
def Tx.ofCsv (c : CsvTx) : Except TxErr Tx :=
  match specificsOfCsv c with
  | .error e => .error e
  | .ok spec =>
    match c.security with
    | none => .error .missing
    | some sec =>
      match c.tradeDate with
      | none => .error .missing
      | some td =>
        match c.settleDate with
        | none => .error .missing
        | some sd =>
          if sec.isEmpty then .error .emptySecurity
          else .ok {
            security := sec, tradeDate := td, settleDate := sd, spec := spec,
            memo := c.memo.getD [],
            affiliate := c.affiliate.getD (if spec.isSplit then AffData.global else AffData.default),
            readIndex := c.readIndex }

/-! ## Columns, table writer -/

inductive Col
  | security | tradeDate | legacyDate | settleDate | action | shares | aps | commission
  | txCurr | txFx | commCurr | commFx | sfl | split | affiliate | memo
deriving DecidableEq, Repr, Inhabited

/-- `CsvCol::*`. -/
def Col.name : Col → Str
  | .security => strOf "security" | .tradeDate => strOf "trade date" | .legacyDate => strOf "date"
  | .settleDate => strOf "settlement date" | .action => strOf "action" | .shares => strOf "shares"
  | .aps => strOf "amount/share" | .commission => strOf "commission" | .txCurr => strOf "currency"
  | .txFx => strOf "exchange rate" | .commCurr => strOf "commission currency"
  | .commFx => strOf "commission exchange rate" | .sfl => strOf "superficial loss"
  | .split => strOf "split ratio" | .affiliate => strOf "affiliate" | .memo => strOf "memo"

def allCols : List Col :=
  [.security, .tradeDate, .legacyDate, .settleDate, .action, .shares, .aps, .commission,
   .txCurr, .txFx, .commCurr, .commFx, .sfl, .split, .affiliate, .memo]

/-- `CsvCol::export_order_non_deprecated_cols`. -/
def exportOrder : List Col :=
  [.security, .tradeDate, .settleDate, .action, .shares, .aps, .commission,
   .txCurr, .txFx, .commCurr, .commFx, .sfl, .split, .affiliate, .memo]

/-- `optional_headers` of `txs_to_csv_table`. -/
def Col.optional : Col → Bool
  | .txFx | .commCurr | .commFx | .sfl | .split | .affiliate => true
  | _ => false

/-- `optional_cols_in_use` (`*af != Affiliate::default()` is inequality of ids: the process-wide
    de-duplication table keeps one `Affiliate` per id).  The affiliate column is also kept when a
    split names an affiliate at all: a split without an affiliate cell is read as a split for all
    affiliates. -/
def colInUse (txs : List CsvTx) : Col → Bool
  | .txFx => txs.any (·.txFx.isSome)
  | .commCurr => txs.any (·.commCurr.isSome)
  | .commFx => txs.any (·.commFx.isSome)
  | .sfl => txs.any (·.sfl.isSome)
  | .split => txs.any (·.split.isSome)
  | .affiliate => txs.any (fun t => match t.affiliate with
      | some a => a.id != defaultId || t.action == some .split
      | none => false)
  | _ => false

def headerCols (txs : List CsvTx) : List Col :=
  exportOrder.filter (fun c => !c.optional || colInUse txs c)

/-- text of one cell of `txs_to_csv_table`. -/
def cellOf (t : CsvTx) : Col → Str
  | .security => t.security.getD []
  | .tradeDate => (t.tradeDate.map Date.render).getD []
  | .settleDate => (t.settleDate.map Date.render).getD []
  | .legacyDate => []
  | .action => (t.action.map Act.render).getD []
  | .shares => (t.shares.map (·.toStringMinPrecision 0)).getD []
  | .aps => (t.aps.map (·.toStringMinPrecision 2)).getD []
  | .commission => (t.commission.map (·.toStringMinPrecision 2)).getD []
  | .txCurr => t.txCurr.getD []
  | .txFx => (t.txFx.map (·.toStringMinPrecision 0)).getD []
  | .commCurr => t.commCurr.getD []
  | .commFx => (t.commFx.map (·.toStringMinPrecision 0)).getD []
  | .sfl => (t.sfl.map renderSfl).getD []
  | .split => (t.split.map SplitRatio.display).getD []
  | .affiliate => (t.affiliate.map (·.name)).getD []
  | .memo => t.memo.getD []

structure Table where
  header : List Str
  rows : List (List Str)
deriving DecidableEq, Repr, Inhabited

/-- `txs_to_csv_table`. -/
def toTable (txs : List CsvTx) : Table :=
  let h := headerCols txs
  { header := h.map Col.name, rows := txs.map (fun t => h.map (cellOf t)) }

/-! ## Table reader (`parse_tx_csv`) -/

def colOfName (s : Str) : Option Col := allCols.find? (fun c => c.name == s)

/-- header cell → recognised column (`to_lowercase`, `trim`, look-up); `none` = ignored with a warning. -/
def mapHeader (hdr : List Str) : List (Option Col) := hdr.map (fun h => colOfName (trim (lower h)))

/-- The value stored under column `c` after the row loop: the trimmed text of the LAST non-blank
    cell whose header maps to `c` (`HashMap::insert` overwrites). -/
def lookupCell (c : Col) : List (Option Col) → List Str → Option Str
  | oc :: cols, v :: cells =>
    match lookupCell c cols cells with
    | some x => some x
    | none => if oc = some c ∧ ¬ (trim v).isEmpty then some (trim v) else none
  | _, _ => none

inductive ReadErr
  | bothDates | ragged | date | action | number | numberRange | sfl | split
  | tx (e : TxErr)
deriving DecidableEq, Repr

def optParse {α} (v : Option Str) (f : Str → Except ReadErr α) : Except ReadErr (Option α) :=
  match v with
  | none => .ok none
  | some s => (f s).map some

def readDate (s : Str) : Except ReadErr Date :=
  match parseDate s with | some d => .ok d | none => .error .date
def readAct (s : Str) : Except ReadErr Act :=
  match parseAct s with | some d => .ok d | none => .error .action
def readDec (s : Str) : Except ReadErr Dec :=
  match parseDec s with | .ok d => .ok d | .error .syntax => .error .number | .error .range => .error .numberRange
def readSfl (s : Str) : Except ReadErr (Dec × Bool) :=
  match parseSfl s with | .ok d => .ok d | .error .syntax => .error .sfl | .error .range => .error .numberRange
def readSplit (s : Str) : Except ReadErr SplitRatio :=
  match parseSplit s with | some d => .ok d | none => .error .split

/-- the cells of one row → fields of a `CsvTx` (read index filled in by `csvTxOfValues`). -/
def csvFields (get : Col → Option Str) : Except ReadErr CsvTx := do
  let tradeDate ← optParse (get .tradeDate) readDate
  let sDate ← optParse (get .settleDate) readDate
  let legacy ← optParse (get .legacyDate) readDate
  let action ← optParse (get .action) readAct
  let shares ← optParse (get .shares) readDec
  let aps ← optParse (get .aps) readDec
  let commission ← optParse (get .commission) readDec
  let txFx ← optParse (get .txFx) readDec
  let commFx ← optParse (get .commFx) readDec
  let sfl ← optParse (get .sfl) readSfl
  let split ← optParse (get .split) readSplit
  return {
    security := get .security, tradeDate := tradeDate,
    settleDate := if sDate.isSome then sDate else legacy,
    action := action, shares := shares, aps := aps, commission := commission,
    txCurr := (get .txCurr).map currencyNew, txFx := txFx,
    commCurr := (get .commCurr).map currencyNew, commFx := commFx,
    memo := get .memo,
    affiliate := (get .affiliate).bind (fun s => if (trim s).isEmpty then none else some (fromStrep s)),
    sfl := sfl, split := split, readIndex := 0 }

/-- `csvtx_from_csv_values` over the cell look-up `get`. -/
def csvTxOfValues (get : Col → Option Str) (idx : Nat) : Except ReadErr CsvTx :=
  match csvFields get with
  | .error e => .error e
  | .ok c => .ok { c with readIndex := idx }

def readRows (cols : List (Option Col)) : List (List Str) → Nat → Except ReadErr (List CsvTx)
  | [], _ => .ok []
  | r :: rs, idx =>
    if r.length = cols.length then
      match csvTxOfValues (fun c => lookupCell c cols r) idx with
      | .error e => .error e
      | .ok t =>
        match readRows cols rs (idx + 1) with
        | .error e => .error e
        | .ok ts => .ok (t :: ts)
    else .error .ragged

/-- `parse_tx_csv` on a decoded table, rows numbered from `start`. -/
def parseTable (t : Table) (start : Nat) : Except ReadErr (List CsvTx) :=
  let cols := mapHeader t.header
  if cols.contains (some .settleDate) && cols.contains (some .legacyDate) then .error .bothDates
  else readRows cols t.rows start

def txsOfCsv : List CsvTx → Except ReadErr (List Tx)
  | [] => .ok []
  | c :: cs =>
    match Tx.ofCsv c with
    | .error e => .error (.tx e)
    | .ok t =>
      match txsOfCsv cs with
      | .error e => .error e
      | .ok ts => .ok (t :: ts)

/-- `parse_tx_csv` then `Tx::try_from` on every row. -/
def readTxs (t : Table) (start : Nat) : Except ReadErr (List Tx) :=
  match parseTable t start with
  | .error e => .error e
  | .ok cs => txsOfCsv cs

/-! ## The domain of the round-trip property: transactions in the parser's normal form -/

/-- The decimal is one a `rust_decimal::Decimal` can hold, a zero does not carry the sign bit
    (no reader produces such a zero), and its text at minimum precision `p` still fits 96 bits. -/
def Dec.renderable (d : Dec) (p : Nat) : Bool :=
  d.scale ≤ 28 && d.mant * 10 ^ (p - d.scale) < pow2_96 && (!d.neg || d.mant != 0)

def CurRate.valid (c : CurRate) : Bool :=
  trim c.cur == c.cur && !c.cur.isEmpty && upper c.cur == c.cur &&
  c.rate.isPos && c.rate.renderable 0 && (c.cur != cad || c.rate.isOne)

def SplitRatio.valid (r : SplitRatio) : Bool :=
  r.pre.isPos && r.post.isPos && r.pre.renderable 0 && r.post.renderable 0 &&
  (!r.intOnly || (r.isReverse && r.pre.isInteger && r.post.isInteger)) &&
  -- the `N.0-for-M.0` form is read with `from_str_exact`: one more digit has to fit
  (!(r.pre.isInteger && r.post.isInteger && r.isReverse && !r.intOnly) ||
    (decide (r.pre.mant / 10 ^ r.pre.scale * 10 < pow2_96) && decide (r.post.mant / 10 ^ r.post.scale * 10 < pow2_96)))

def sflValid (v : Dec × Bool) : Bool := v.1.isLez && v.1.renderable 2

def Specifics.valid : Specifics → Bool
  | .buy sh aps comm cur cc =>
    sh.isPos && sh.renderable 0 && aps.isGez && aps.renderable 2 && comm.isGez && comm.renderable 2 &&
    cur.valid && (match cc with | some c => c.valid | none => true)
  | .sell sh aps comm cur cc sfl =>
    sh.isPos && sh.renderable 0 && aps.isGez && aps.renderable 2 && comm.isGez && comm.renderable 2 &&
    cur.valid && (match cc with | some c => c.valid | none => true) &&
    (match sfl with | some v => sflValid v | none => true)
  | .roc aps cur => aps.isGez && aps.renderable 2 && cur.valid
  | .sfla sh aps => sh.isPos && sh.renderable 0 && aps.isPos && aps.renderable 2
  | .split r => r.valid

/-- A transaction as `parse_tx_csv` + `Tx::try_from` can produce it (the Rust types already
    guarantee the sign constraints and that the affiliate comes from `from_strep`). -/
def Tx.valid (t : Tx) : Bool :=
  trim t.security == t.security && !t.security.isEmpty &&
  t.tradeDate.valid && t.settleDate.valid &&
  fromStrep t.affiliate.name == t.affiliate &&
  trim t.affiliate.name == t.affiliate.name && !t.affiliate.name.isEmpty &&
  t.spec.valid

/-! ## What "the same transactions" means -/

def CurRate.norm (c : CurRate) : CurRate := { c with rate := c.rate.norm }

def Specifics.norm : Specifics → Specifics
  | .buy sh aps comm cur cc => .buy sh.norm aps.norm comm.norm cur.norm (cc.map CurRate.norm)
  | .sell sh aps comm cur cc sfl =>
    .sell sh.norm aps.norm comm.norm cur.norm (cc.map CurRate.norm) (sfl.map (fun v => (v.1.norm, v.2)))
  | .roc aps cur => .roc aps.norm cur.norm
  | .sfla sh aps => .sfla sh.norm aps.norm
  | .split r => .split { r with pre := r.pre.norm, post := r.post.norm }

/-- Every decimal brought to the representative of its `==` class; read index dropped (it is
    not written to the file: rows are renumbered by position). -/
def Tx.norm (t : Tx) : Tx := { t with spec := t.spec.norm, readIndex := 0 }

/-- The documented difference of the round trip: memos come back trimmed.  When the file has no
    affiliate column (every affiliate has the default id and no row is a split) a row comes back
    with `Affiliate::default()` — in the implementation the same de-duplicated object, in the
    model possibly another spelling of the name. -/
def canonTx (affColumn : Bool) (t : Tx) : Tx :=
  { t with memo := trim t.memo,
           affiliate := if affColumn then t.affiliate else AffData.default }

def canonTxs (txs : List Tx) : List Tx :=
  txs.map (canonTx (colInUse (txs.map Tx.toCsv) .affiliate))

end Acb.Csv
