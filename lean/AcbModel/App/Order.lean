/-
  C07 — the order in which rows are processed (src/app/approot.rs `run_acb_app_to_delta_models`,
  src/portfolio/model/tx.rs `Ord for Tx`, src/portfolio/misc.rs `split_txs_by_security`).

    for each file: rows get read_index = global position (index continues across files)
    all_txs.sort()                  -- key (settlement_date, read_index)
    split_txs_by_security(all_txs)  -- per security, in sorted order

  Rows are abstract here: a security, a settlement date (day number) and a payload.
  The model sorts by insertion on the strict key `(settle, idx)`; `Lemmas/Order.lean` shows that
  ANY list with the same members that is sorted on that key is the same list, so the algorithm
  behind Rust's `sort()` is immaterial.
  Core Lean only (the driver links this file).
-/
namespace Acb.Order

/-- a row as it comes out of a file -/
structure InRow (α : Type) where
  sec : String
  settle : Int
  val : α
deriving Repr

/-- a row with its global read index -/
structure Keyed (α : Type) where
  settle : Int
  idx : Nat
  sec : String
  val : α
deriving Repr

/-- `Ord for Tx`: settlement date, then read index. -/
def keyLt {α} (a b : Keyed α) : Prop := a.settle < b.settle ∨ (a.settle = b.settle ∧ a.idx < b.idx)

instance {α} (a b : Keyed α) : Decidable (keyLt a b) := by unfold keyLt; exact inferInstance

def insertKeyed {α} (a : Keyed α) : List (Keyed α) → List (Keyed α)
  | [] => [a]
  | b :: r => if keyLt a b then a :: b :: r else b :: insertKeyed a r

/-- `all_txs.sort()` -/
def sortKeyed {α} : List (Keyed α) → List (Keyed α)
  | [] => []
  | a :: r => insertKeyed a (sortKeyed r)

/-- rows of the concatenated input numbered from `start` (`global_read_index`). -/
def reindex {α} : List (InRow α) → Nat → List (Keyed α)
  | [], _ => []
  | r :: rs, i => ⟨r.settle, i, r.sec, r.val⟩ :: reindex rs (i + 1)

/-- `split_txs_by_security(...)[s]` -/
def perSecurity {α} (s : String) (l : List (Keyed α)) : List (Keyed α) := l.filter (fun k => k.sec == s)

def strip {α} (k : Keyed α) : InRow α := ⟨k.sec, k.settle, k.val⟩

/-- The rows of security `s` in the order in which the ledger receives them. -/
def process {α} (rows : List (InRow α)) (s : String) : List (InRow α) :=
  (perSecurity s (sortKeyed (reindex rows 0))).map strip

/-- insert into a strictly increasing list of dates -/
def insertDate (d : Int) : List Int → List Int
  | [] => [d]
  | e :: r => if d < e then d :: e :: r else if d = e then e :: r else e :: insertDate d r

/-- the settlement dates that occur, ascending, each once -/
def dates {α} : List (InRow α) → List Int
  | [] => []
  | r :: rs => insertDate r.settle (dates rs)

/-- rows of security `s` settling on day `d`, in input order -/
def cls {α} (rows : List (InRow α)) (s : String) (d : Int) : List (InRow α) :=
  rows.filter (fun r => r.sec == s && r.settle == d)

/-- The processing order stated declaratively: by settlement date, and within one date by
    position in the concatenated input. -/
def canonical {α} (rows : List (InRow α)) (s : String) : List (InRow α) :=
  (dates rows).flatMap (fun d => cls rows s d)

/-- A re-ordering of the input that keeps the relative order of the rows of every
    (security, settlement date) class. -/
def Admissible {α} (rows' rows : List (InRow α)) : Prop := ∀ s d, cls rows' s d = cls rows s d

end Acb.Order
