/-
  Every place where the iteration order of a hash container can reach the output of `acb`
  (src/app/approot.rs, src/portfolio/{splits,misc,cumulative_gains,summary}.rs,
  src/portfolio/bookkeeping/costs.rs), put together, with each order as an explicit parameter
  (`Orders`), as repaired by the fixes for F-09a/b/c/d/e.  The per-security ledger
  (`txs_to_delta_list`, C01) and the per-security summary (`make_summary_txs`, which sorts its
  affiliates and years itself) are arbitrary functions here: they contain no hash iteration whose
  order reaches their result.
  Core Lean only.
-/
import AcbModel.App.Splits
import AcbModel.App.Gains
import AcbModel.App.CostsSpec
namespace Acb.Orders
open Acb.Costs Acb.Gains Acb.Splits

structure Orders where
  affs : List Nat → List Nat      -- HashSet<Affiliate> in replace_global_security_splits
  secs : List Nat → List Nat      -- HashMap<Security, _>: txs_by_sec, deltas_results_by_sec, sec_render_tables, deltas_by_sec, security_gains
  years : List Int → List Int     -- a security's capital_gains_years_totals
  secSet : List Nat → List Nat    -- costs: security_set
  days : List Int → List Int      -- costs: max_costs_by_day.keys()

structure Orders.Ok (o : Orders) : Prop where
  affs : IsOrder o.affs
  secs : IsOrder o.secs
  years : IsOrder o.years
  secSet : IsOrder o.secSet
  days : IsOrder o.days

/-- a `TxDelta` as the report code sees it -/
structure DRow where
  cost : Costs.Row
  gain : Option Rat

/-- `DeltaListResult`: all deltas, or the deltas before the rejected row -/
structure SecOut where
  ok : Bool
  rows : List DRow

def SecOut.toResult (r : SecOut) : SecResult :=
  { ok := r.ok, rows := r.rows.map (fun d => { day := d.cost.day, gain := d.gain }) }

/-- everything that reaches stdout and the output files, in print order -/
structure AppOut where
  /-- per security, in print order: its rows, whether it errored, its footer -/
  tables : List (Nat × SecOut × List (Option Int × Rat))
  aggregate : List (Option Int × Rat)
  costs : Option (List TableRow × List (Int × Option TableRow) × List Note)

/-- the inputs of one run after `split_txs_by_security`: distinct securities with their rows -/
abbrev Inputs := List (Nat × List STx)

def txsOf (inp : Inputs) (s : Nat) : List STx := ((inp.find? (fun p => p.1 == s)).map (·.2)).getD []

/-- a security's ledger result for the given hash orders -/
def resultOf (o : Orders) (dflt : Nat) (ledger : Nat → List STx → SecOut) (inp : Inputs) (s : Nat) : SecOut :=
  match expand o.affs dflt (txsOf inp s) with
  | .ok txs => ledger s txs
  | .error _ => { ok := false, rows := [] }     -- not reached: the run has failed before

/-- the securities in print order (`secs.sort()` in `write_render_result`); since the fix for
    F-09c also the order in which `all_deltas` is concatenated -/
def printOrder (o : Orders) (inp : Inputs) : List Nat := sortNats (o.secs (inp.map (·.1)))

/-- `all_deltas` as `calc_total_costs` receives it -/
def allCostRows (o : Orders) (dflt : Nat) (ledger : Nat → List STx → SecOut) (inp : Inputs) : List Costs.Row :=
  (printOrder o inp).flatMap (fun s => (resultOf o dflt ledger inp s).rows.map (·.cost))

/-- `run_acb_app_to_render_model` followed by `write_render_result` -/
def appOutput (o : Orders) (yearOf : Int → Int) (dflt : Nat) (ledger : Nat → List STx → SecOut)
    (full totalCosts : Bool) (inp : Inputs) : Except Unit AppOut :=
  let keys := inp.map (·.1)
  -- `replace_global_security_splits(..)?` inside the loop over txs_by_sec
  if (o.secs keys).any (fun s => hasConflict (txsOf inp s)) then .error ()
  else
    let res := resultOf o dflt ledger inp
    let tables := (printOrder o inp).map (fun s => (s, res s, footer full (tableGains yearOf (res s).toResult)))
    -- `calc_cumulative_capital_gains` adds the securities up in name order (fix F-09e)
    let agg := aggGains id o.years (completed yearOf ((printOrder o inp).map (fun s => (res s).toResult)))
    if totalCosts then
      match calcTotalCosts yearOf (allCostRows o dflt ledger inp) o.secSet o.days with
      | .ok c => .ok { tables := tables, aggregate := aggTable full agg,
                       costs := some (c.totalRows, c.yearlyRows yearOf, c.notes) }
      | .error _ => .error ()
    else .ok { tables := tables, aggregate := aggTable full agg, costs := none }

/-- `run_acb_app_summary_to_model` + `make_aggregate_summary_txs`: the summary rows (stdout), for an
    arbitrary per-security summary function -/
def summaryOutput {τ : Type} (o : Orders) (dflt : Nat) (ledger : Nat → List STx → SecOut)
    (summarize : Nat → SecOut → List τ) (inp : Inputs) : Except Unit (List τ) :=
  let keys := inp.map (·.1)
  if (o.secs keys).any (fun s => hasConflict (txsOf inp s)) then .error ()
  else
    let res := resultOf o dflt ledger inp
    if (o.secs keys).any (fun s => !(res s).ok) then .error ()
    else .ok ((printOrder o inp).flatMap (fun s => summarize s (res s)))

end Acb.Orders
