/-
  Calendar year of a Julian day number (`time::Date::year` of `Date::from_julian_day`).
  The theorems of C06/C17/C09 use the year only through an abstract function `yearOf : Int → Int`;
  the concrete one the drivers plug in is `Acb.yearOfJd` of `Basic/Date.lean`, and the harness
  prints the implementation's own `settlement_date.year()` next to every day so that the driver
  can check the two agree on every generated day.
-/
import AcbModel.Basic.Date
