/-
  Calendar year of a Julian day number (`time::Date::year` of `Date::from_julian_day`),
  proleptic Gregorian calendar (Richards' algorithm).  The theorems of C06/C17/C09 use the year
  only through an abstract function `yearOf : Int → Int`; this concrete one is what the driver
  plugs in, and the harness prints the implementation's own `settlement_date.year()` next to
  every day so that the driver can check the two agree on every generated day.
-/
namespace Acb

def yearOfJd (jd : Int) : Int :=
  let a := jd + 32044
  let b := (4 * a + 3) / 146097
  let c := a - 146097 * b / 4
  let d := (4 * c + 3) / 1461
  let e := c - 1461 * d / 4
  let m := (5 * e + 2) / 153
  100 * b + d - 4800 + m / 10

end Acb
