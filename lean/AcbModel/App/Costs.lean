/-
  Model of src/portfolio/bookkeeping/costs.rs (`calc_total_costs` and its two helpers), as
  repaired by the `fix:` commits for F-17 (carry the closing cost of a day forward, not the day's
  maximum), F-09b (the yearly maximum visits the days in date order) and F-09d (the second loop
  walks the securities in name order).

  * A `TxDelta` is seen only through the fields the code reads: security, settlement date, pre and
    post `total_acb` (`none` = registered affiliate), `tx.affiliate.is_default()`, and the
    affiliate (for the text of the note).  Securities are numbered by the rank of their name, so
    "sorted by name" in Rust is "sorted by number" here; days are day numbers.
  * Every `HashMap`/`HashSet` is a total function plus the list of its keys.  Where the code walks
    a hash container the walk order is an explicit parameter (`σ` for `security_set`, `τ` for the
    keys of `max_costs_by_day`), an arbitrary rearrangement of the key list.
  * `MaxSingleDayCosts` of all days at once is `DayTable`: `cost d s` is
    `max_costs_by_day[d].sec_max_cost_for_day.get(s)`, `total d` is `max_costs_by_day[d].total`.
    `Costs.yearly` (a clone of one day's entry per year) is the chosen day per year.
  Core Lean only.
-/
import AcbModel.Basic.Num
import AcbModel.Basic.Sort
namespace Acb.Costs

structure Row where
  sec : Nat
  day : Int
  pre : Option Rat
  post : Option Rat
  dflt : Bool
  aff : Nat := 0
deriving Repr, Inhabited

/-- `ignored_delta_descs`, structured (the harness parses the text back into this form). -/
inductive Note where
  | registered (day : Int) (sec : Nat)
  | nonDefault (day : Int) (sec : Nat) (aff : Nat)
deriving Repr, DecidableEq, Inhabited

inductive Panic where
  | unsorted      -- panic!("Deltas for {sec} were not sorted by settlement date")
  | preNone       -- d.pre_status.total_acb.unwrap()
deriving Repr, DecidableEq, Inhabited

structure DayTable where
  cost : Int → Nat → Option Rat
  total : Int → Rat

def DayTable.empty : DayTable := { cost := fun _ _ => none, total := fun _ => 0 }

/-- `MaxSingleDayCosts::observe_new_cost` on the entry of day `d`. -/
def observe (t : DayTable) (d : Int) (s : Nat) (c : Rat) : DayTable :=
  let old := (t.cost d s).getD 0
  let cur := max old c
  { cost := fun d' s' => if d' = d ∧ s' = s then some cur else t.cost d' s',
    total := fun d' => if d' = d then t.total d - old + cur else t.total d' }

/-- State of the first loop of `calc_max_day_cost_per_sec`. -/
structure St where
  days : List Int                       -- keys of max_costs_by_day, in insertion order
  tab : DayTable
  zero : Nat → Option (Int × Rat)       -- day_zero_sec_costs
  secs : List Nat                       -- security_set, in insertion order
  closing : Int → Nat → Option Rat      -- day_closing_sec_costs
  notes : List Note                     -- ignored_delta_descs

def St.init : St :=
  { days := [], tab := DayTable.empty, zero := fun _ => none, secs := [],
    closing := fun _ _ => none, notes := [] }

def addKey {α : Type} [DecidableEq α] (l : List α) (k : α) : List α := if k ∈ l then l else l ++ [k]

/-- the part of the loop body after the two `continue`s -/
def stepCounted (st : St) (r : Row) (acb : Rat) : Except Panic St :=
  let st1 : St := { st with
    secs := addKey st.secs r.sec,
    days := addKey st.days r.day,
    tab := observe st.tab r.day r.sec acb,
    closing := fun d s => if d = r.day ∧ s = r.sec then some acb else st.closing d s }
  match st.zero r.sec with
  | none =>
    match r.pre with
    | none => .error .preNone
    | some p => .ok { st1 with zero := fun s => if s = r.sec then some (r.day, p) else st.zero s }
  | some z => if z.1 ≤ r.day then .ok st1 else .error .unsorted

/-- one iteration of `for d in all_deltas` -/
def step (st : St) (r : Row) : Except Panic St :=
  match r.post with
  | none => .ok { st with notes := st.notes ++ [Note.registered r.day r.sec] }
  | some acb =>
    if r.dflt = true then stepCounted st r acb
    else .ok { st with notes := st.notes ++ [Note.nonDefault r.day r.sec r.aff] }

def loop1 : List Row → St → Except Panic St
  | [], st => .ok st
  | r :: rs, st =>
    match step st r with
    | .ok st' => loop1 rs st'
    | .error e => .error e

def sortDays (l : List Int) : List Int := isort (fun a b => decide (a ≤ b)) l
def sortNats (l : List Nat) : List Nat := isort (fun a b => decide (a ≤ b)) l

/-- State of the second loop: the table being completed and `last_acbs`. -/
structure Fill where
  tab : DayTable
  last : Nat → Option Rat

/-- the value carried into a day for a security without a settlement that day:
    `last_acbs.get(sec).unwrap_or_else(|| &day_zero_sec_costs.get(sec).unwrap().1)` -/
def carriedCost (st : St) (f : Fill) (s : Nat) : Rat :=
  match f.last s with
  | some v => v
  | none =>
    match st.zero s with
    | some z => z.2
    | none => 0          -- `.unwrap()`; unreachable for `s ∈ security_set`, see `C17_zero_present`

/-- body of `for sec in &security_set` on day `d` -/
def fillSec (st : St) (d : Int) (f : Fill) (s : Nat) : Fill :=
  match st.closing d s with
  | some c => { f with last := fun s' => if s' = s then some c else f.last s' }
  | none => { f with tab := observe f.tab d s (carriedCost st f s) }

def fillDay (st : St) (σ : List Nat → List Nat) (f : Fill) (d : Int) : Fill :=
  (σ st.secs).foldl (fillSec st d) f

def loop2 (st : St) (σ : List Nat → List Nat) (τ : List Int → List Int) : Fill :=
  (sortDays (τ st.days)).foldl (fillDay st σ) { tab := st.tab, last := fun _ => none }

/-- `max_cost_day_for_year` (a structure rather than a bare function so that each step of the
    fold is evaluated when it is taken) -/
structure YMap where
  get : Int → Option Int

/-- one iteration of the loop of `calc_yearly_max_cost_day` -/
def yearStep (yearOf : Int → Int) (total : Int → Rat) (m : YMap) (d : Int) : YMap :=
  match m.get (yearOf d) with
  | some old =>
    if total old < total d then { get := fun y => if y = yearOf d then some d else m.get y } else m
  | none => { get := fun y => if y = yearOf d then some d else m.get y }

/-- `calc_yearly_max_cost_day`: `τ` is the order in which `keys()` yields the days, which are then
    sorted. -/
def yearly (yearOf : Int → Int) (total : Int → Rat) (days : List Int) (τ : List Int → List Int) : Int → Option Int :=
  ((sortDays (τ days)).foldl (yearStep yearOf total) { get := fun _ => none }).get

/-- `Costs` -/
structure Result where
  secs : List Nat            -- security_set (as a key list)
  days : List Int            -- `total`: the days in date order
  tab : DayTable             -- figures of every day
  yearly : Int → Option Int  -- `yearly`: year ↦ day whose entry was cloned
  notes : List Note          -- ignored_deltas

/-- the order in which the second loop walks `security_set`: since the fix for F-09d the set's
    elements (yielded in the arbitrary order `σ`) are sorted by name first -/
def secWalk (σ : List Nat → List Nat) : List Nat → List Nat := fun l => sortNats (σ l)

/-- `calc_total_costs` -/
def calcTotalCosts (yearOf : Int → Int) (rows : List Row)
    (σ : List Nat → List Nat) (τ : List Int → List Int) : Except Panic Result :=
  match loop1 rows St.init with
  | .error e => .error e
  | .ok st =>
    let f := loop2 st (secWalk σ) τ
    .ok { secs := st.secs, days := sortDays (τ st.days), tab := f.tab,
          yearly := yearly yearOf f.tab.total st.days τ, notes := st.notes }

/-! ### `render_total_costs` (figures only; the text of a cell is modelled in App/Render) -/

structure TableRow where
  day : Int
  total : Rat
  figs : List (Option Rat)    -- one per security in name order; `none` would be the `.unwrap()` panic
deriving Repr

def Result.sortedSecs (c : Result) : List Nat := sortNats c.secs

def Result.rowOf (c : Result) (d : Int) : TableRow :=
  { day := d, total := c.tab.total d, figs := c.sortedSecs.map (c.tab.cost d) }

def Result.totalRows (c : Result) : List TableRow := c.days.map c.rowOf

def dedup {α : Type} [DecidableEq α] : List α → List α
  | [] => []
  | x :: xs => if x ∈ xs then dedup xs else x :: dedup xs

/-- `Costs::sorted_years` (the keys of `yearly`, sorted) -/
def Result.years (yearOf : Int → Int) (c : Result) : List Int :=
  sortDays (dedup (c.days.map yearOf))

def Result.yearlyRows (yearOf : Int → Int) (c : Result) : List (Int × Option TableRow) :=
  (c.years yearOf).map (fun y => (y, (c.yearly y).map c.rowOf))

end Acb.Costs
