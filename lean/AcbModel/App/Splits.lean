/-
  Model of src/portfolio/splits.rs (`has_non_global_surrounding_splits`,
  `replace_global_security_splits`) and `find_all_non_global_affiliates` (src/portfolio/misc.rs),
  as repaired by the `fix:` commit for F-09a (the affiliates taken out of the `HashSet` are sorted
  by id before the per-affiliate splits are generated).

  A `Tx` of one security is seen through its trade date, whether it is a split, its affiliate
  (`none` = the global affiliate `__global__`, `some k` = the affiliate whose id has rank `k`) and a
  tag that identifies the row (its read index).  The iteration order of the `HashSet<Affiliate>`
  is the parameter `σ`.  The in-place / remove-and-insert loop over the split indices (in reverse)
  is modelled by its effect: every global split is replaced, in place, by one copy per affiliate
  in the order of the affiliate vector.
  Core Lean only.
-/
import AcbModel.App.Costs
namespace Acb.Splits
open Acb.Costs (sortNats dedup)

structure STx where
  trade : Int
  isSplit : Bool
  aff : Option Nat
  tag : Nat
deriving Repr, DecidableEq, Inhabited

def STx.globalSplit (t : STx) : Bool := t.isSplit && t.aff.isNone
def STx.localSplit (t : STx) : Bool := t.isSplit && t.aff.isSome

/-- one direction of `has_non_global_surrounding_splits`: walk while within one day -/
def scanNear (dist : STx → Int) : List STx → Bool
  | [] => false
  | t :: ts => if dist t > 1 then false else if t.localSplit then true else scanNear dist ts

def nearLocalSplit (before after : List STx) (t : STx) : Bool :=
  scanNear (fun x => t.trade - x.trade) before.reverse || scanNear (fun x => x.trade - t.trade) after

/-- the validation loop: some global split has an affiliate-specific split within a day -/
def hasConflict (txs : List STx) : Bool :=
  (List.range txs.length).any (fun i =>
    match txs[i]? with
    | some t => t.globalSplit && nearLocalSplit (txs.take i) (txs.drop (i + 1)) t
    | none => false)

/-- `find_all_non_global_affiliates` (the key list of the set) -/
def nonGlobalAffiliates (txs : List STx) : List Nat := dedup (txs.filterMap (·.aff))

/-- the affiliate vector the splits are generated for -/
def splitAffiliates (σ : List Nat → List Nat) (dflt : Nat) (txs : List STx) : List Nat :=
  let a := σ (nonGlobalAffiliates txs)
  sortNats (if a.isEmpty then [dflt] else a)

/-- `replace_global_security_splits` -/
def expand (σ : List Nat → List Nat) (dflt : Nat) (txs : List STx) : Except Unit (List STx) :=
  if hasConflict txs then .error ()
  else if txs.any STx.globalSplit then
    let affs := splitAffiliates σ dflt txs
    .ok (txs.flatMap (fun t => if t.globalSplit then affs.map (fun a => { t with aff := some a }) else [t]))
  else .ok txs

end Acb.Splits
