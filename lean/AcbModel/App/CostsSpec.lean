/-
  What the --total-costs report is supposed to show (property C17), stated directly on the rows
  the report is computed from, without any loop state.  Small enough to be read in a minute.

  The rows that count are those of the default, non-registered affiliate (`counted`).  Within one
  security the list order is the chronological order (hypothesis `WF.sorted` of the theorems).
-/
import AcbModel.App.Costs
namespace Acb.Costs

def Row.counted (r : Row) : Bool := r.post.isSome && r.dflt

/-- the rows that count -/
def counted (rows : List Row) : List Row := rows.filter Row.counted

/-- the counted rows of security `s` -/
def ofSec (rows : List Row) (s : Nat) : List Row := (counted rows).filter (fun r => r.sec = s)

/-- cost bases of security `s` after each of its transactions settling on day `d` -/
def today (rows : List Row) (s : Nat) (d : Int) : List Rat :=
  ((ofSec rows s).filter (fun r => r.day = d)).map (fun r => r.post.getD 0)

/-- opening cost base: the cost base before the security's first transaction -/
def opening (rows : List Row) (s : Nat) : Rat :=
  match (ofSec rows s).head? with
  | some r => r.pre.getD 0
  | none => 0

/-- cost base after the most recent transaction settling before day `d`, the opening cost base
    if there is none -/
def carry (rows : List Row) (s : Nat) (d : Int) : Rat :=
  match ((ofSec rows s).filter (fun r => r.day < d)).getLast? with
  | some r => r.post.getD 0
  | none => opening rows s

/-- `v` is the figure the report must show for security `s` on day `d`. -/
def Figure (rows : List Row) (s : Nat) (d : Int) (v : Rat) : Prop :=
  (today rows s d ≠ [] ∧ v ∈ today rows s d ∧ ∀ p ∈ today rows s d, p ≤ v) ∨
  (today rows s d = [] ∧ v = carry rows s d)

/-- executable version of `Figure` (used by the driver's oracle; `figure_spec` ties the two) -/
def figure (rows : List Row) (s : Nat) (d : Int) : Rat :=
  match today rows s d with
  | [] => carry rows s d
  | p :: ps => ps.foldl max p

/-- the notes the report must list: one per row that does not count, in row order -/
def noteOf (r : Row) : Option Note :=
  match r.post with
  | none => some (Note.registered r.day r.sec)
  | some _ => if r.dflt = true then none else some (Note.nonDefault r.day r.sec r.aff)

def notesOf (rows : List Row) : List Note := rows.filterMap noteOf

/-- What the Rust types and the caller guarantee about the rows:
    cost bases are not negative (`GreaterEqualZeroDecimal`), a row with a post cost base has a pre
    cost base (same affiliate, so both or neither are registered), and the rows of one security
    are in chronological order (documented precondition of `calc_max_day_cost_per_sec`;
    `all_txs.sort()` in the caller). -/
structure WF (rows : List Row) : Prop where
  nonneg : ∀ r ∈ rows, ∀ p, (r.post = some p ∨ r.pre = some p) → 0 ≤ p
  pre : ∀ r ∈ rows, r.post.isSome = true → r.pre.isSome = true
  sorted : (counted rows).Pairwise (fun a b => a.sec = b.sec → a.day ≤ b.day)

theorem WF.sortedSec {rows : List Row} (h : WF rows) (s : Nat) :
    (ofSec rows s).Pairwise (fun a b => a.day ≤ b.day) := by
  have := h.sorted.filter (fun r => decide (r.sec = s))
  refine this.imp_of_mem ?_
  intro a b ha hb hab
  simp only [List.mem_filter, decide_eq_true_eq] at ha hb
  exact hab (ha.2.trans hb.2.symm)

/-- `σ` only rearranges -/
def IsOrder {α : Type} (σ : List α → List α) : Prop := ∀ l, (σ l).Perm l

end Acb.Costs
