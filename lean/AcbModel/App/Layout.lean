/-
  C07 — how the input is laid out in files and columns (src/app/approot.rs reading loop,
  src/portfolio/io/tx_csv.rs header mapping).  The table reader itself (`mapHeader`,
  `lookupCell`, `parseTable`, `readTxs`) is the one of AcbModel/App/CsvCodec.lean.
  Core Lean only (the driver links this file).
-/
import AcbModel.App.CsvCodec
namespace Acb.Csv

/-- The reading loop of `run_acb_app_to_delta_models`: every file is parsed and converted with
    the read index continuing where the previous file stopped.  (`load_tx_rates` sits between
    parsing and conversion; with explicit rates it changes nothing and is not modelled.) -/
def readFiles : List Table → Nat → Except ReadErr (List Tx)
  | [], _ => .ok []
  | f :: fs, i =>
    match readTxs f i with
    | .error e => .error e
    | .ok txs =>
      match readFiles fs (i + txs.length) with
      | .error e => .error e
      | .ok rest => .ok (txs ++ rest)

def insertAt {α} (k : Nat) (x : α) (l : List α) : List α := l.take k ++ x :: l.drop k

/-- the text under which a header cell is looked up -/
def sanitize (h : Str) : Str := trim (lower h)

/-- no two header cells name the same recognised column -/
def DistinctRecognised (hdr : List Str) : Prop := ((mapHeader hdr).filterMap id).Nodup

end Acb.Csv
