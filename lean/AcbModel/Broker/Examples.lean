/-
  Concrete exports used by the non-vacuity examples of `Props/C18.lean`.
-/
import AcbModel.Broker.Spec
namespace Acb.Qt.Ex

def stdHdr : List Cell :=
  ["Transaction Date", "Settlement Date", "Action", "Symbol", "Quantity", "Price", "Commission",
   "Net Amount", "Currency", "Account #", "Account Type"].map Cell.str

def mkRec (td sd act sym : String) (q p c net : Cell) (cur num typ : String) : Record := fun n =>
  if n = "Transaction Date" then .str td else if n = "Settlement Date" then .str sd
  else if n = "Action" then .str act else if n = "Symbol" then (if sym = "" then .empty else .str sym)
  else if n = "Quantity" then q else if n = "Price" then p else if n = "Commission" then c
  else if n = "Net Amount" then net else if n = "Currency" then .str cur
  else if n = "Account #" then .str num else if n = "Account Type" then .str typ else .empty

def d1 := "2023-01-04 12:00:00 AM"
def d2 := "2023-01-06 12:00:00 AM"

/-- BUY in USD, a deposit, a CAD→USD conversion (two legs), a USD dividend, a SELL in CAD -/
def recs : List Record :=
  [ mkRec d1 d2 "Buy" "UCO" (.num (5/2) "2.5") (.num 10 "10") (.str "-4.95") (.num (-2995/100) "-29.95") "USD" "10000001" "Individual TFSA",
    mkRec d1 d1 "DEP" "" .empty .empty .empty (.num 1000 "1000") "CAD" "10000001" "Individual TFSA",
    mkRec d1 d1 "FXT" "" (.num 0 "0") (.num 0 "0") (.num 0 "0") (.num (-130) "-130") "CAD" "10000001" "Individual TFSA",
    mkRec d1 d1 "FXT" "" (.num 0 "0") (.num 0 "0") (.num 0 "0") (.num 100 "100") "USD" "10000001" "Individual TFSA",
    mkRec d2 d2 "DIV" "UCO" (.num 0 "0") (.num 0 "0") (.num 0 "0") (.num (61/2) "30.5") "USD" "10000001" "Individual TFSA",
    mkRec d2 d2 "SELL" "CCO" (.num (-8) "-8") (.num 10 "10") (.num (-1) "-1") (.num 79 "79") "CAD" "10000001" "Individual TFSA" ]

def names11 : List String :=
  ["Transaction Date", "Settlement Date", "Action", "Symbol", "Quantity", "Price", "Commission",
   "Net Amount", "Currency", "Account #", "Account Type"]

/-- the records in the standard column order -/
def sheetA : Sheet := { hdr := stdHdr, rows := recs.map (fun r => names11.map r) }

def namesB : List String :=
  ["Currency", "Account Type", "Quantity", "Action", "Net Amount", "Transaction Date", "Symbol",
   "Account #", "Commission", "Settlement Date", "Price"]

/-- the same records: columns permuted, a blank-headed column in front (with data in it),
    a numeric-headed column and an unrelated column "Notes" in between -/
def sheetB : Sheet :=
  { hdr := [.empty] ++ (namesB.take 3).map Cell.str ++ [.num 3 "3"] ++ ((namesB.drop 3).take 4).map Cell.str ++
           [.str "Notes"] ++ (namesB.drop 7).map Cell.str
    rows := recs.map (fun r => [.str "BUY"] ++ (namesB.take 3).map r ++ [.str "x"] ++
                               ((namesB.drop 3).take 4).map r ++ [.empty] ++ (namesB.drop 7).map r) }

def rdBuy : Reader := (mkRec d1 d2 "Buy" "UCO" (.num (5/2) "2.5") (.num 10 "10") (.str "-4.95") .empty "USD" "10000001" "Individual TFSA").reader

def cadLeg : FxtRow := { row := 4, currency := "CAD", registered := true, tradeDate := 20230104, tradeStr := d1, amount := -130, account := { typ := "Individual TFSA", num := "10000001" } }
def usdLeg : FxtRow := { row := 5, currency := "USD", registered := true, tradeDate := 20230104, tradeStr := d1, amount := 100, account := { typ := "Individual TFSA", num := "10000001" } }

/-- the `i`-th converted row of `sheetA` (trades first, then FX rows) -/
def txA (i : Nat) : BTx := (sheetToTxs sheetA).txs.getD i default

end Acb.Qt.Ex
