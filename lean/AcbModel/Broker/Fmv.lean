/-
  Model of `src/peripheral/questrade_statement_fmv_impl.rs`:

  * `sm::FmvParseSm::parse_page` (the three-state line machine)          →  `parsePage`
  * `gather_security_line` / `finalize_security_fmv` / `gather_total_line` →  `gatherLine` / `finalize` / `parseTotal`
  * `parse_statement_text`                                                →  `parseStatement`

  Granularity: a text line is the list of its whitespace-separated tokens (`Line := List Tok`,
  `Tok := List Char`); a blank line is `[]`.  Every regular expression of the file is anchored on
  whitespace/token boundaries, so it becomes a predicate on tokens:

    SEC_FIRST_ROW_RE  ^\s*■\s*(\S.*)\s*$                        →  `firstRow`
    SEC_DATA_RE       ^\s*(desc)\s+(\d[0-9\.]+)\s+(\d[0-9,\.]*)\s*$  →  `secData`  (last two tokens)
    TOTAL_ROW_RE      ^\s*100.00?\s+(\d[0-9,\.]+)\s*$            →  `totalRow`
    line.contains("ALLOCATION") / line.contains("■")             →  `hasAllocation` / `hasBullet`

  What the token view forgets: the amount of whitespace between tokens (the description the
  implementation returns keeps inner runs of spaces; the driver compares descriptions token by
  token), and the fact that the `.` of `100.00?` may itself be a single blank ("100 0 12.5"; kept
  as the three-token form of `totalRow`).  `\d` is taken as ASCII digits.  `rust_decimal`'s
  `from_str_exact` is modelled by `parseDec` (digits with at most one point, at most 28 digits).

  Core Lean only.
-/
namespace Acb.Fmv

abbrev Tok := List Char
abbrev Line := List Tok

def bullet : Char := '■'

def isD (c : Char) : Bool := decide ('0' ≤ c) && decide (c ≤ '9')
def allocChar (c : Char) : Bool := isD c || c == '.'
def fmvChar (c : Char) : Bool := isD c || c == ',' || c == '.'

/-- `\d[0-9\.]+` -/
def allocTok : Tok → Bool
  | c :: d :: rest => isD c && (d :: rest).all allocChar
  | _ => false

/-- `\d[0-9,\.]*` -/
def fmvTok : Tok → Bool
  | c :: rest => isD c && rest.all fmvChar
  | _ => false

/-- `\d[0-9,\.]+` -/
def totalValTok : Tok → Bool
  | c :: d :: rest => isD c && (d :: rest).all fmvChar
  | _ => false

/-- `100.00?` as one token (the `.` is the regex wildcard) -/
def totalLeadTok : Tok → Bool
  | ['1', '0', '0', _, '0'] => true
  | ['1', '0', '0', _, '0', '0'] => true
  | _ => false

def contains (t : Tok) (pat : List Char) : Bool :=
  (List.range (t.length + 1)).any (fun i => pat.isPrefixOf (t.drop i))

def hasAllocation (l : Line) : Bool := l.any (fun t => contains t "ALLOCATION".toList)
def hasBullet (l : Line) : Bool := l.any (fun t => t.contains bullet)

/-- the first token of the line begins with the bullet -/
def startsWithBullet : Line → Bool
  | (c :: _) :: _ => c == bullet
  | _ => false

/-- `SEC_FIRST_ROW_RE`: the tokens of capture group 1 -/
def firstRow : Line → Option (List Tok)
  | (c :: cs) :: rest =>
    if c == bullet then
      (if cs = [] then (if rest = [] then none else some rest) else some (cs :: rest))
    else none
  | _ => none

/-- `TOTAL_ROW_RE`: the captured total -/
def totalRow : Line → Option Tok
  | [a, t] => if totalLeadTok a && totalValTok t then some t else none
  | [a, b, t] =>
    if a == "100".toList && (b == "0".toList || b == "00".toList) && totalValTok t then some t else none
  | _ => none

/-- `SEC_DATA_RE` on the accumulated text of one security: description, allocation, market value -/
def secData (toks : List Tok) : Option (List Tok × Tok × Tok) :=
  match toks.reverse with
  | f :: a :: d :: ds => if allocTok a && fmvTok f then some ((d :: ds).reverse, a, f) else none
  | _ => none

/-! ### numbers -/

def digitVal (c : Char) : Nat := c.toNat - '0'.toNat
def natOfDigits (cs : List Char) : Nat := cs.foldl (fun acc c => acc * 10 + digitVal c) 0

/-- `Decimal::from_str_exact` on text made of digits and points (the regexes admit nothing else):
    at most one point, at least one digit, at most 28 digits. -/
def parseDec (t : Tok) : Option Rat :=
  let ip := t.takeWhile (· != '.')
  let rest := t.dropWhile (· != '.')
  let fp := rest.drop 1
  if fp.contains '.' then none
  else if !(ip ++ fp).all isD then none
  else if (ip ++ fp).length = 0 || 28 < (ip ++ fp).length then none
  else some ((natOfDigits (ip ++ fp) : Rat) / ((10 ^ fp.length : Nat) : Rat))

/-- `util::decimal::parse_large_decimal`: thousands separators removed first -/
def parseLarge (t : Tok) : Option Rat := parseDec (t.filter (· != ','))

/-! ### the line machine -/

structure Fmv where
  desc : List Tok
  alloc : Rat
  fmv : Rat
  deriving DecidableEq

inductive PErr where
  | noSecData      -- "Unable to parse allocation and FMV from …"
  | badAlloc       -- "Unable to parse allocation from …"
  | badFmv         -- "Unable to parse FMV from …"
  | noTotal        -- "No header or allocation total line found"
  deriving DecidableEq, Repr

/-- `security_text_to_fmv` -/
def finalize (desc : List Tok) : Except PErr Fmv :=
  match secData desc with
  | none => .error .noSecData
  | some (d, a, f) =>
    match parseDec a with
    | none => .error .badAlloc
    | some av =>
      match parseLarge f with
      | none => .error .badFmv
      | some fv => .ok { desc := d, alloc := av, fmv := fv }

/-- `gather_total_line` -/
def parseTotal (t : Tok) : Except PErr Rat :=
  match parseLarge t with
  | none => .error .badFmv
  | some v => .ok v

/-- `gather_security_line`: `acc` = `self.fmvs`, `desc` = `self.security_desc` -/
def gatherLine (acc : List Fmv) (desc : List Tok) (line : Line) : Except PErr (List Fmv × List Tok) :=
  match firstRow line with
  | some d =>
    if desc = [] then .ok (acc, d)
    else
      match finalize desc with
      | .error e => .error e
      | .ok f => .ok (acc ++ [f], d)
  | none => .ok (acc, desc ++ line)

/-- state `GatheringSecurities` -/
def gather (acc : List Fmv) (desc : List Tok) : List Line → Except PErr (List Fmv × Rat)
  | [] => .error .noTotal
  | l :: ls =>
    if l = [] then gather acc desc ls
    else
      match totalRow l with
      | some t =>
        match finalize desc with
        | .ok f =>
          match parseTotal t with
          | .error e => .error e
          | .ok v => .ok (acc ++ [f], v)
        | .error _ =>
          match gatherLine acc desc l with
          | .error e => .error e
          | .ok r => gather r.1 r.2 ls
      | none =>
        match gatherLine acc desc l with
        | .error e => .error e
        | .ok r => gather r.1 r.2 ls

/-- state `LookingForFirstSecurityStart` -/
def lookFirst : List Line → Except PErr (List Fmv × Rat)
  | [] => .error .noTotal
  | l :: ls =>
    if l = [] then lookFirst ls
    else if hasBullet l then
      match gatherLine [] [] l with
      | .error e => .error e
      | .ok r => gather r.1 r.2 ls
    else
      match totalRow l with
      | some t =>
        match parseTotal t with
        | .error e => .error e
        | .ok v => .ok ([], v)
      | none => lookFirst ls

/-- state `LookingForHeader` -/
def lookHeader : List Line → Except PErr (List Fmv × Rat)
  | [] => .error .noTotal
  | l :: ls =>
    if l = [] then lookHeader ls
    else if hasAllocation l then lookFirst ls
    else lookHeader ls

/-- `parse_fmvs_from_page` -/
def parsePage (lines : List Line) : Except PErr (List Fmv × Rat) := lookHeader lines

/-! ### parse_statement_text -/

/-- what the `Current month:` regex finds on a page (first match only) -/
inductive MonthHit where
  | absent            -- no match
  | badName           -- matched, but `parse_month` rejects the month word: ignored
  | invalid           -- matched, month word fine, but day/year do not parse or are no calendar date
  | date (jd : Int)   -- the statement date (Julian day number)
  deriving DecidableEq, Repr

structure Page where
  month : MonthHit
  marker : Bool          -- `Securities\s+Owned\s+Combined\s+in\s+\(CAD\)` matches
  lines : List Line

inductive SErr where
  | monthInvalid
  | page (e : PErr)
  | noMonth           -- "Could not find month"
  | noFmv             -- "Did not find FMVs in statement"
  deriving DecidableEq, Repr

def updMonth (m : Option Int) (h : MonthHit) : Except SErr (Option Int) :=
  match m with
  | some d => .ok (some d)
  | none =>
    match h with
    | .absent => .ok none
    | .badName => .ok none
    | .invalid => .error .monthInvalid
    | .date d => .ok (some d)

structure Statement where
  month : Int
  fmvs : List Fmv
  total : Rat
  deriving DecidableEq

def parseStatementFrom : Option Int → List Page → Except SErr Statement
  | _, [] => .error .noFmv
  | m, pg :: rest =>
    match updMonth m pg.month with
    | .error e => .error e
    | .ok m' =>
      if pg.marker then
        match parsePage pg.lines with
        | .error e => .error (.page e)
        | .ok r =>
          match m' with
          | none => .error .noMonth
          | some d => .ok { month := d, fmvs := r.1, total := r.2 }
      else parseStatementFrom m' rest

/-- `parse_statement_text(pages)` -/
def parseStatement (pages : List Page) : Except SErr Statement := parseStatementFrom none pages

/-! ### the documented layout -/

/-- One row of the allocation table as the statement prints it: a description over one or more
    lines, then the allocation and the market value, either at the end of the last description
    line or on a line of their own. -/
structure SecRow where
  first : Line            -- first description line (printed after the bullet)
  more : List Line        -- continuation lines of the description
  alloc : Tok
  fmv : Tok
  ownLine : Bool          -- the two figures stand on a line of their own
  allocVal : Rat
  fmvVal : Rat

def SecRow.descToks (r : SecRow) : List Tok := r.first ++ r.more.flatten

def appendLast (ls : List Line) (x : Line) : List Line :=
  match ls with
  | [] => [x]
  | [l] => [l ++ x]
  | l :: ls' => l :: appendLast ls' x

/-- first text line of the row (after the bullet) -/
def SecRow.head (r : SecRow) : Line :=
  if r.ownLine then r.first else if r.more = [] then r.first ++ [r.alloc, r.fmv] else r.first

/-- the remaining text lines of the row -/
def SecRow.tail (r : SecRow) : List Line :=
  if r.ownLine then r.more ++ [[r.alloc, r.fmv]]
  else if r.more = [] then [] else appendLast r.more [r.alloc, r.fmv]

def SecRow.lines (r : SecRow) : List Line := ([bullet] :: r.head) :: r.tail

def SecRow.toFmv (r : SecRow) : Fmv := { desc := r.descToks, alloc := r.allocVal, fmv := r.fmvVal }

/-- The row is laid out as documented and cannot be confused with the total row:
    whenever a line of the row other than its first looks like the total row `100.0 N`, the text of
    the row before that line must not already end in two number-like tokens (otherwise
    `parse_page` takes those for the figures and the look-alike line for the total). -/
structure SecRow.WF (r : SecRow) : Prop where
  first_ne : r.first ≠ []
  more_ne : ∀ l ∈ r.more, l ≠ []
  more_nb : ∀ l ∈ r.more, startsWithBullet l = false
  alloc_ok : allocTok r.alloc = true
  fmv_ok : fmvTok r.fmv = true
  alloc_val : parseDec r.alloc = some r.allocVal
  fmv_val : parseLarge r.fmv = some r.fmvVal
  no_early_total : ∀ pre l post, r.tail = pre ++ l :: post → totalRow l ≠ none →
      secData (r.head ++ pre.flatten) = none

structure Table where
  pre : List Line         -- anything before the column header
  header : Line           -- the line carrying "ALLOCATION (%)"
  mid : List Line         -- anything between the header and the first row
  rows : List SecRow
  totalLead : Tok         -- "100.0"
  total : Tok
  totalVal : Rat
  post : List Line        -- anything after the total row

def Table.layout (t : Table) : List Line :=
  t.pre ++ [t.header] ++ t.mid ++ (t.rows.map SecRow.lines).flatten ++ [[t.totalLead, t.total]] ++ t.post

structure Table.WF (t : Table) : Prop where
  pre_ok : ∀ l ∈ t.pre, hasAllocation l = false
  header_ok : hasAllocation t.header = true
  mid_ok : ∀ l ∈ t.mid, hasBullet l = false ∧ totalRow l = none
  rows_ok : ∀ r ∈ t.rows, r.WF
  total_ok : totalLeadTok t.totalLead = true ∧ totalValTok t.total = true
  total_nb : hasBullet [t.totalLead, t.total] = false   -- the wildcard of `100.00?` is not the bullet
  total_val : parseLarge t.total = some t.totalVal

end Acb.Fmv
