/-
  Model of `src/peripheral/etrade_plan_pdf_tx_extract_impl.rs` over the records that
  `broker/etrade.rs` parses out of the confirmations (the regex/text layer is not modelled; the
  harness exercises it and compares the parsed records with the generator's):

  * `find_sell_to_cover_trade_set`  →  `findSet`   (itertools `combinations(n)` for n = len … 1,
                                                     filter by security and share sum, stable sort
                                                     by distance of the average price, first wins)
  * `amend_benefit_sales`           →  `amend`     (pool of left-over trades, 5-day window, removal
                                                     by `position` of an equal element, indexes sorted
                                                     and removed from the back)
  * `txs_from_data` + `sort`        →  `txsFromData`
  * `BenefitEntry::sell_to_cover_data` → `stcData`

  Numbers are exact rationals.  Securities are interned as naturals (only compared for equality).
  Core Lean only.
-/
import AcbModel.Basic.Num
import AcbModel.Generated.BrokerPdf
namespace Acb.Etrade

inductive Act where
  | buy | sell | other
  deriving DecidableEq, Repr

/-- `BrokerTx` as produced by the two trade-confirmation parsers.  `file`/`row` stand for
    `filename`/`row_num`; together with the other fields they decide `==` on `BrokerTx`
    (memo, currency, affiliate, account are constant per file). -/
structure Trade where
  sec : Nat
  tradeDate : Int
  settle : Int
  act : Act
  price : Rat
  shares : Rat
  comm : Rat
  file : Nat
  row : Nat
  deriving DecidableEq

/-- `BenefitEntry` -/
structure Benefit where
  sec : Nat
  acqDate : Int
  acqSettle : Int
  price : Rat               -- FMV per share at release / purchase / exercise
  shares : Rat
  stcTxDate : Option Int
  stcSettle : Option Int
  stcPrice : Option Rat
  stcShares : Option Rat
  stcFee : Option Rat
  tag : Nat                 -- stands for plan_note / sell_note / filename (memo text only)
  deriving DecidableEq

/-! ### find_sell_to_cover_trade_set -/

/-- `Itertools::combinations(k)`: k-element sub-sequences in lexicographic index order -/
def combos {α : Type} : Nat → List α → List (List α)
  | 0, _ => [[]]
  | _ + 1, [] => []
  | k + 1, x :: xs => (combos k xs).map (x :: ·) ++ combos (k + 1) xs

def sumShares (c : List Trade) : Rat := (c.map (·.shares)).sum

def isMatch (sec : Nat) (sold : Rat) (c : List Trade) : Bool :=
  c.all (fun t => t.sec == sec) && decide (sumShares c = sold)

/-- step 1: every combination (largest first) of the candidates with the benefit's security whose
    share counts add up to the sold shares -/
def allMatching (sec : Nat) (sold : Rat) (cands : List Trade) : List (List Trade) :=
  ((List.range cands.length).reverse.map (· + 1)).flatMap
    (fun k => (combos k cands).filter (isMatch sec sold))

inductive FindErr where
  | noMatch       -- "Found no trades matching the sell-to-cover for …"
  | ambiguous     -- "Unable to decide between multiple trade combinations …"
  | divByZero     -- Decimal division by zero (panic): several matching sets of zero shares in total
  deriving DecidableEq, Repr

def avgPrice (c : List Trade) : Rat := (c.map (fun t => t.price * t.shares)).sum / sumShares c

/-- Stable insertion sort (Rust's `sort`/`sort_by` are stable; for a total preorder every stable
    sort gives the same list).  Structural, so that concrete instances reduce in the kernel. -/
def insertBy {α : Type} (le : α → α → Bool) (x : α) : List α → List α
  | [] => [x]
  | y :: ys => if le x y then x :: y :: ys else y :: insertBy le x ys

def sortBy {α : Type} (le : α → α → Bool) : List α → List α
  | [] => []
  | x :: xs => insertBy le x (sortBy le xs)

/-- `find_sell_to_cover_trade_set(benefit, candidates)`; `sold` = `sell_to_cover_shares.unwrap()` -/
def findSet (sec : Nat) (sold : Rat) (stcPrice : Option Rat) (cands : List Trade) : Except FindErr (List Trade) :=
  match allMatching sec sold cands with
  | [] => .error .noMatch
  | [c] => .ok c
  | c1 :: c2 :: cs =>
    if (c1 :: c2 :: cs).any (fun c => sumShares c == 0) then .error .divByZero
    else
      match stcPrice with
      | none => .error .ambiguous
      | some p =>
        match sortBy (fun a b => decide (rabs (p - avgPrice a) ≤ rabs (p - avgPrice b))) (c1 :: c2 :: cs) with
        | [] => .error .noMatch     -- unreachable
        | best :: _ => .ok best

/-! ### amend_benefit_sales -/

/-- candidate filter: a Sell traded between the benefit date and `stcWindowDays` days after it -/
def inWindow (b : Benefit) (t : Trade) : Bool :=
  t.act == .sell && decide (b.acqDate ≤ t.tradeDate) && decide (t.tradeDate ≤ b.acqDate + Gen.stcWindowDays)

inductive AmendPanic where
  | positionNone     -- `position(..).unwrap()` on a trade that is not in the pool
  | removeOob        -- `Vec::remove` past the end
  deriving DecidableEq, Repr

/-- `Vec::remove` for each index, largest first -/
def eraseIdxsDesc {α : Type} (l : List α) : List Nat → Except AmendPanic (List α)
  | [] => .ok l
  | i :: is => if i < l.length then eraseIdxsDesc (l.eraseIdx i) is else .error .removeOob

/-- "Remove matches from leftover trades": index of the first equal element for every matched
    trade, indexes sorted, removed from the back -/
def removeMatched (pool m : List Trade) : Except AmendPanic (List Trade) :=
  if m.all (fun t => pool.contains t) then
    eraseIdxsDesc pool (sortBy (fun a b => decide (a ≤ b)) (m.map (fun t => pool.idxOf t))).reverse
  else .error .positionNone

structure AmendState where
  done : List Benefit               -- amended benefits so far (in order)
  pool : List Trade                 -- leftover_trade_confs
  matched : List (Nat × List Trade) -- ghost: (benefit index, matched trades)
  errors : List (Nat × FindErr)     -- (benefit index, error)

inductive AmendOut where
  | ok (benefits : List Benefit) (leftover : List Trade) (matched : List (Nat × List Trade))
  | errors (es : List (Nat × FindErr))
  | panic (p : AmendPanic)

def amendStep (idx : Nat) (b : Benefit) (st : AmendState) : Except AmendPanic AmendState :=
  match b.stcShares with
  | none => .ok { st with done := st.done ++ [b] }
  | some sold =>
    match findSet b.sec sold b.stcPrice (st.pool.filter (inWindow b)) with
    | .error e => .ok { st with done := st.done ++ [b], errors := st.errors ++ [(idx, e)] }
    | .ok m =>
      match m with
      | [] => .error .positionNone     -- unreachable: combinations have at least one element
      | t0 :: _ =>
        match removeMatched st.pool m with
        | .error p => .error p
        | .ok pool' =>
          .ok { done := st.done ++ [{ b with stcTxDate := some t0.tradeDate, stcSettle := some t0.settle }],
                pool := pool', matched := st.matched ++ [(idx, m)], errors := st.errors }

def amendLoop : Nat → List Benefit → AmendState → Except AmendPanic AmendState
  | _, [], st => .ok st
  | idx, b :: bs, st =>
    match amendStep idx b st with
    | .error p => .error p
    | .ok st' => amendLoop (idx + 1) bs st'

/-- `amend_benefit_sales(PdfData { benefits, trade_confs })` -/
def amend (benefits : List Benefit) (trades : List Trade) : AmendOut :=
  match amendLoop 0 benefits { done := [], pool := trades, matched := [], errors := [] } with
  | .error p => .panic p
  | .ok st => if st.errors.isEmpty then .ok st.done st.pool st.matched else .errors st.errors

/-! ### txs_from_data -/

inductive Src where
  | buy (benefit : Nat)
  | stc (benefit : Nat)
  | manual (t : Trade)
  deriving DecidableEq

/-- one `CsvTx` of the output -/
structure Row where
  sec : Nat
  tradeDate : Int
  settle : Int
  act : Act
  shares : Rat
  price : Rat
  comm : Rat
  readIdx : Nat
  src : Src
  deriving DecidableEq

structure Stc where
  txDate : Int
  settle : Int
  price : Rat
  shares : Rat
  fee : Rat

inductive TxErr where
  | partialStc (benefit : Nat)   -- "Some, but not all, sell-to-cover fields were found …"
  deriving DecidableEq, Repr

/-- `BenefitEntry::sell_to_cover_data` -/
def stcData (b : Benefit) : Except Unit (Option Stc) :=
  match b.stcTxDate, b.stcSettle, b.stcPrice, b.stcShares, b.stcFee with
  | none, none, none, none, none => .ok none
  | some d, some s, some p, some n, some f => .ok (some { txDate := d, settle := s, price := p, shares := n, fee := f })
  | _, _, _, _, _ => .error ()

def buyRow (i : Nat) (b : Benefit) : Row :=
  { sec := b.sec, tradeDate := b.acqDate, settle := b.acqSettle, act := .buy, shares := b.shares,
    price := b.price, comm := 0, readIdx := i * 2, src := .buy i }

def stcRow (i : Nat) (b : Benefit) (s : Stc) : Row :=
  { sec := b.sec, tradeDate := s.txDate, settle := s.settle, act := .sell, shares := s.shares,
    price := s.price, comm := s.fee, readIdx := i * 2 + 1, src := .stc i }

def manualRow (idx : Nat) (t : Trade) : Row :=
  { sec := t.sec, tradeDate := t.tradeDate, settle := t.settle, act := t.act, shares := t.shares,
    price := t.price, comm := t.comm, readIdx := idx, src := .manual t }

def benefitRows : Nat → List Benefit → Except TxErr (List Row)
  | _, [] => .ok []
  | i, b :: bs =>
    match stcData b with
    | .error _ => .error (.partialStc i)
    | .ok none =>
      match benefitRows (i + 1) bs with
      | .error e => .error e
      | .ok rs => .ok (buyRow i b :: rs)
    | .ok (some s) =>
      match benefitRows (i + 1) bs with
      | .error e => .error e
      | .ok rs => .ok (buyRow i b :: stcRow i b s :: rs)

def manualRows : Nat → List Trade → List Row
  | _, [] => []
  | idx, t :: ts => manualRow idx t :: manualRows (idx + 1) ts

/-- `CsvTx`'s `Ord`: settlement date, then read index -/
def rowLe (a b : Row) : Bool := decide (a.settle < b.settle) || (decide (a.settle = b.settle) && decide (a.readIdx ≤ b.readIdx))

/-- `txs_from_data` (rows before and after `csv_txs.sort()`, which is stable) -/
def unsortedRows (benefits : List Benefit) (leftover : List Trade) : Except TxErr (List Row) :=
  match benefitRows 0 benefits with
  | .error e => .error e
  | .ok rs => .ok (rs ++ manualRows rs.length leftover)

def txsFromData (benefits : List Benefit) (leftover : List Trade) : Except TxErr (List Row) :=
  match unsortedRows benefits leftover with
  | .error e => .error e
  | .ok rs => .ok (sortBy rowLe rs)

/-! ### the tool -/

inductive RunOut where
  | ok (rows : List Row)
  | unmatched (es : List (Nat × FindErr))    -- "Error: Found no trades matching …" per benefit, exit failure
  | txErr (e : TxErr)
  | panic (p : AmendPanic)

/-- `run_with_args` after parsing (without `--extract-only`) -/
def run (benefits : List Benefit) (trades : List Trade) : RunOut :=
  match amend benefits trades with
  | .panic p => .panic p
  | .errors es => .unmatched es
  | .ok bs left _ =>
    match txsFromData bs left with
    | .error e => .txErr e
    | .ok rows => .ok rows

/-- what `Tx::try_from(CsvTx)` demands of a Buy/Sell row (security non-empty and dates present hold
    by construction; currency USD without rate is accepted) -/
def acbAccepts (r : Row) : Bool :=
  (r.act == .buy || r.act == .sell) && decide (0 < r.shares) && decide (0 ≤ r.price) && decide (0 ≤ r.comm)

end Acb.Etrade
