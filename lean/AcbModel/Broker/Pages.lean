/-
  Model of the page-ordering helpers of `src/peripheral/pdf.rs`:

  * `LazyPageTextVec::safe_page_chunks_with_remainder_pn`  →  `safeChunks`
  * `LazyPageTextVec::load_pages` (incl. its `Vec::resize`)  →  `loadPages`
  * `OptimizedPageIter::next`, driven to exhaustion           →  `iterGroups`

  Page numbers are 1-based naturals (`u32` in the code; the overflow of `num_pages + 1` at
  `u32::MAX` pages is not modelled).  The text of a page is abstract: `doc : Nat → T` is what
  `get_page_text(doc, p)` returns (the pdf crates are outside the model).  Text extraction
  errors (`load_pages` returning `Err`, which ends the iterator silently) are not modelled: for
  an in-memory document and in-range pages the extraction cannot fail short of a defect of the
  pdf crates.

  Core Lean only.
-/
namespace Acb.Pages

/-! ## safe_page_chunks_with_remainder_pn -/

/-- one hint group with out-of-range pages pruned (`*page_num <= num_pages && *page_num > 0`) -/
def safeChunk (n : Nat) (chunk : List Nat) : List Nat :=
  chunk.filter (fun p => decide (p ≤ n) && decide (0 < p))

/-- `HashSet::insert` over a list, as a duplicate-free list (only its length and membership are used) -/
def insertSet (s : List Nat) (p : Nat) : List Nat := if p ∈ s then s else p :: s

def toSet (l : List Nat) : List Nat := l.foldl insertSet []

/-- the pruned, non-empty groups in hint order -/
def keptChunks (n : Nat) (hints : List (List Nat)) : List (List Nat) :=
  (hints.map (safeChunk n)).filter (fun c => decide (0 < c.length))

/-- `safe_page_chunks_with_remainder_pn(num_pages, ideal_page_groups)` -/
def safeChunks (n : Nat) (hints : List (List Nat)) : List (List Nat) :=
  let kept := keptChunks n hints
  let found := toSet kept.flatten
  if found.length = n then kept
  else kept ++ [(List.range' 1 n).filter (fun p => !(found.contains p))]

/-! ## load_pages and the iterator -/

/-- the ways `OptimizedPageIter::next` can panic -/
inductive IterPanic where
  | indexOob (page : Nat)      -- `self.lazy_pages.page_texts[next_idx]` out of bounds
  | unwrapNone (page : Nat)    -- `.clone().unwrap()` on a slot that holds `None`
  | emptyGroup                 -- `self.unyielded_pages.pop_front().unwrap()` on an empty group
  | pageZero                   -- `page_num - 1` with `page_num = 0` (u32 underflow)
  deriving DecidableEq, Repr

/-- How `load_pages` sizes `page_texts` before storing page `p` (slot `p - 1`).
    `truncating = true` is `Vec::resize(p, None)` as originally written (shrinks the vector when it
    is already longer); `false` is the repaired grow-only form
    `if self.page_texts.len() < p { self.page_texts.resize(p, None) }`. -/
def sizeFor {T : Type} (truncating : Bool) (v : List (Option T)) (p : Nat) : List (Option T) :=
  if v.length < p then v ++ List.replicate (p - v.length) none
  else if truncating then v.take p else v

/-- `load_pages(page_numbers)` on the vector `v`: every page's text is fetched and stored in order. -/
def loadPages {T : Type} (truncating : Bool) (doc : Nat → T) :
    List (Option T) → List Nat → Except IterPanic (List (Option T))
  | v, [] => .ok v
  | v, p :: ps =>
    if p = 0 then .error .pageZero
    else loadPages truncating doc ((sizeFor truncating v p).set (p - 1) (some (doc p))) ps

/-- the pages of one loaded group being handed out one by one; returns what was yielded and the
    panic that stopped the iteration, if any -/
def yieldPages {T : Type} (v : List (Option T)) : List Nat → List (Nat × T) × Option IterPanic
  | [] => ([], none)
  | p :: ps =>
    match v[p - 1]? with
    | none => ([], some (.indexOob p))
    | some none => ([], some (.unwrapNone p))
    | some (some t) =>
      let r := yieldPages v ps
      ((p, t) :: r.1, r.2)

/-- The iterator driven until it returns `None` or panics: the `(page number, text)` pairs it
    yielded, in order, and the panic if one occurred. -/
def iterGroups {T : Type} (truncating : Bool) (doc : Nat → T) :
    List (Option T) → List (List Nat) → List (Nat × T) × Option IterPanic
  | _, [] => ([], none)
  | v, g :: gs =>
    match loadPages truncating doc v g with
    | .error e => ([], some e)
    | .ok v' =>
      if g = [] then ([], some .emptyGroup)
      else
        let y := yieldPages v' g
        match y.2 with
        | some e => (y.1, some e)
        | none =>
          let r := iterGroups truncating doc v' gs
          (y.1 ++ r.1, r.2)

/-- `parse_statement`'s pipeline: hints → safe chunks → iterator over a fresh `LazyPageTextVec`. -/
def visit {T : Type} (truncating : Bool) (doc : Nat → T) (n : Nat) (hints : List (List Nat)) :
    List (Nat × T) × Option IterPanic :=
  iterGroups truncating doc [] (safeChunks n hints)

/-- F-20 on the model of the code as originally written: a non-ascending group makes the
    truncating `resize` drop an already loaded page, and the iterator panics before yielding it. -/
example : iterGroups true (fun p => p) [] [[1, 3], [4, 2]] = ([(1, 1), (3, 3)], some (.indexOob 4)) := by
  decide
example : iterGroups true (fun p => p) [] [[3, 1]] = ([], some (.indexOob 3)) := by decide
/-- … and the repaired form visits all of them. -/
example : iterGroups false (fun p => p) [] [[1, 3], [4, 2]] = ([(1, 1), (3, 3), (4, 4), (2, 2)], none) := by
  decide

end Acb.Pages
