/-
  Model of `src/peripheral/broker/questrade.rs` (`sheet_to_txs`) and of the option pipeline of
  `src/peripheral/tx_export_convert_impl.rs` (`run_with_args`: account check/filter, security
  filter, --no-fx, --usd-exchange-rate, sort).  Models the repaired code (F-18, F-05c, F-18b).

  Not modelled: regular expressions given on the command line (the filters are predicates on the
  account / security text), Unicode case mapping (ASCII upper/lower-casing), CSV rendering.

  Core Lean only.
-/
import AcbModel.Broker.FxTracker
namespace Acb.Qt

/-! ### text helpers -/

def hasInfix (pat : List Char) : List Char → Bool
  | [] => pat.isEmpty
  | c :: cs => pat.isPrefixOf (c :: cs) || hasInfix pat cs

def daysInMonth (y m : Nat) : Nat :=
  if m = 2 then (if (y % 4 = 0 ∧ y % 100 ≠ 0) ∨ y % 400 = 0 then 29 else 28)
  else if m = 4 ∨ m = 6 ∨ m = 9 ∨ m = 11 then 30 else 31

/-- `convert_date_str`: the text must start with `dddd-dd-dd` and that must be a calendar date.
    Result: `yyyymmdd`. -/
def parseDate (s : String) : Option Nat :=
  match s.toList with
  | y1 :: y2 :: y3 :: y4 :: '-' :: m1 :: m2 :: '-' :: d1 :: d2 :: _ =>
    if [y1, y2, y3, y4, m1, m2, d1, d2].all isDigit then
      let y := digitsVal [y1, y2, y3, y4]
      let m := digitsVal [m1, m2]
      let d := digitsVal [d1, d2]
      if 1 ≤ m ∧ m ≤ 12 ∧ 1 ≤ d ∧ d ≤ daysInMonth y m then some (y * 10000 + m * 100 + d) else none
    else none
  | _ => none

/-- `Currency::new(s).as_str()` -/
def currencyOf (s : String) : String :=
  if upper s = "" then "CAD" else upper s

/-- the case-insensitive `rrsp|tfsa|resp` test on the account type -/
def isRegistered (accountType : String) : Bool :=
  (splitOnChar '|' Gen.qtRegisteredRegex.toList).any (fun alt => hasInfix alt (lower accountType).toList)

/-- `symbol_aliases.get` : `(alias, aka)` -/
def aliasOf (sym : String) : Option (String × String) :=
  ((Gen.qtAliasFrom.zip (Gen.qtAliasTo.zip Gen.qtAliasAka)).find? (fun p => p.1 = sym)).map (·.2)

/-- the `match action_str` of trade rows: side and memo note -/
def tradeSide (action : String) : Option (Side × String) :=
  if action = "BUY" then some (.buy, "")
  else if action = "SELL" then some (.sell, "")
  else if action = "DIS" then some (.buy, "; From DIS action.")
  else if action = "LIQ" then some (.sell, "; From LIQ action.")
  else none

def ofOpt {α : Type} (e : ErrKind) : Option α → Except ErrKind α
  | some a => .ok a
  | none => .error e

/-! ### one row -/

/-- What a row asks the converter to do, once all its cells have been read. -/
inductive RowAct
  | skip
  | fxt (r : FxtRow)
  | income (t : BTx)
  | trade (t : BTx)
deriving Repr, DecidableEq

/-- The column names `sheet_to_txs` reads. -/
def usedNames : List String :=
  ["Action", "Transaction Date", "Settlement Date", "Account Type", "Account #", "Currency",
   "Net Amount", "Symbol", "Price", "Quantity", "Commission"]

/-- The cell-reading part of the row closure of `sheet_to_txs` (reads in the order of the code,
    so the first failing read is the reported error). -/
def parseRow (rd : Reader) (n : Nat) : Except ErrKind RowAct :=
  (rd.getStr "Action").bind fun actionRaw =>
  let action := upper actionRaw
  if Gen.qtIgnoredActions.contains action then .ok .skip
  else if Gen.qtAllowedActions.contains action then
    (rd.getStr "Transaction Date").bind fun tds =>
    (ofOpt .badDate (parseDate tds)).bind fun td =>
    (rd.getStr "Settlement Date").bind fun sds =>
    (ofOpt .badDate (parseDate sds)).bind fun sd =>
    (rd.getStr "Account Type").bind fun acctType =>
    (rd.getStr "Account #").bind fun acctNum =>
    let account : Account := { typ := acctType, num := acctNum }
    let reg := isRegistered acctType
    if action = "FXT" then
      (rd.getStr "Currency").bind fun cur =>
      (rd.getDec "Net Amount").bind fun amt =>
      .ok (.fxt { row := n, currency := currencyOf cur, registered := reg, tradeDate := td,
                  tradeStr := tds, amount := amt, account := account })
    else
      (rd.getStr "Symbol").bind fun sym =>
      if sym = "" then .error .emptySymbol
      else if action = "DIV" then
        (rd.getStr "Currency").bind fun cur =>
        if upper cur = "USD" then
          (rd.getDec "Net Amount").bind fun amt =>
          (fxTx "USD" td tds amt reg n account none ("DIV from " ++ sym)).map .income
        else .ok .skip
      else
        match tradeSide action with
        | none => .error .unknownAction
        | some (side, note) =>
          (rd.getDec "Price").bind fun price =>
          (rd.getDec "Quantity").bind fun qty =>
          (rd.getDec "Commission").bind fun comm =>
          (rd.getStr "Currency").bind fun cur =>
          .ok (.trade
            { security := match aliasOf sym with
                          | some (al, _) => al
                          | none => sym
              tradeDate := td
              settleDate := sd
              tradeStr := tds
              settleStr := sds
              side := side
              price := price
              shares := rabs qty
              commission := rabs comm
              currency := currencyOf cur
              memo := account.memo ++
                      (match aliasOf sym with
                       | some (_, aka) => "; " ++ sym ++ " AKA " ++ aka
                       | none => "") ++ note
              rate := none
              registered := reg
              row := n
              account := account
              tiebreak := none })
  else .error .unknownAction

structure St where
  fx : Tracker := {}
  trades : List BTx := []
  errors : List (Nat × ErrKind) := []
deriving Repr, Inhabited

def St.addErr (st : St) (n : Nat) : Option ErrKind → St
  | none => st
  | some e => { st with errors := st.errors ++ [(n, e)] }

/-- The state-changing part of the row closure. -/
def applyAct (st : St) (n : Nat) : RowAct → St
  | .skip => st
  | .fxt r => ({ st with fx := (addFxtRow st.fx r).1 }).addErr n (addFxtRow st.fx r).2
  | .income t => { st with fx := addIncome st.fx t }
  | .trade t =>
    if t.currency = "CAD" then { st with trades := st.trades ++ [t] }
    else ({ st with trades := st.trades ++ [t], fx := (addImplicit st.fx t).1 }).addErr n (addImplicit st.fx t).2

def stepRow (st : St) (n : Nat) (rd : Reader) : St :=
  match parseRow rd n with
  | .error e => st.addErr n (some e)
  | .ok act => applyAct st n act

/-- rows numbered from `n` on -/
def runRows : St → Nat → List Reader → St
  | st, _, [] => st
  | st, n, rd :: rds => runRows (stepRow st n rd) (n + 1) rds

/-- Result of `sheet_to_txs`: trades in row order, FX rows in the order generated, row errors. -/
structure Conv where
  trades : List BTx
  fx : List BTx
  errors : List (Nat × ErrKind)
deriving Repr, Inhabited

def Conv.txs (c : Conv) : List BTx := c.trades ++ c.fx

def finish (st : St) : Conv :=
  { trades := st.trades
    fx := st.fx.txs
    errors := match st.fx.adjacent with
              | some a => st.errors ++ [(a.row, .unpaired)]
              | none => st.errors }

/-- the converter on logical rows (one reader per data row; the header is row 1) -/
def convertReaders (rds : List Reader) : Conv := finish (runRows {} 2 rds)

/-- `sheet_to_txs` on a sheet with a header row. -/
def sheetToTxs (s : Sheet) : Conv := convertReaders (s.rows.map (fun row => cellAt s.hdr row))

/-! ### options (`run_with_args`) -/

structure Opts where
  account : Option (String → Bool) := none     -- --account REGEX on `Account::account_str`
  security : Option (String → Bool) := none    -- --security REGEX on the security
  noFx : Bool := false
  noSort : Bool := false
  usdRate : Option Rat := none

inductive Outcome
  | multiAccount                                   -- no --account and more than one account
  | out (txs : List BTx) (errors : List (Nat × ErrKind))
deriving Repr, DecidableEq

def Outcome.txs? : Outcome → Option (List BTx)
  | .out txs _ => some txs
  | .multiAccount => none

def Outcome.errors? : Outcome → Option (List (Nat × ErrKind))
  | .out _ errs => some errs
  | .multiAccount => none

def distinctAccounts (txs : List BTx) : List Account := (txs.map (·.account)).eraseDups

def applyRate (r : Rat) (t : BTx) : BTx :=
  if t.currency = "USD" ∧ t.rate = none then { t with rate := some r } else t

def endsWithFx (s : String) : Bool := s.endsWith ".FX"

def sortTxs (txs : List BTx) : List BTx := txs.mergeSort leBTx

/-- everything after the account check -/
def postFilter (o : Opts) (txs : List BTx) : List BTx :=
  let t1 := match o.security with
            | some f => txs.filter (fun t => f t.security)
            | none => txs
  let t2 := if o.noFx then t1.filter (fun t => !endsWithFx t.security) else t1
  let t3 := match o.usdRate with
            | some r => t2.map (applyRate r)
            | none => t2
  if o.noSort then t3 else sortTxs t3

def pipeline (o : Opts) (c : Conv) : Outcome :=
  match o.account with
  | some f => .out (postFilter o (c.txs.filter (fun t => f t.account.str))) c.errors
  | none =>
    if (distinctAccounts c.txs).length > 1 then .multiAccount
    else .out (postFilter o c.txs) c.errors

def convert (o : Opts) (s : Sheet) : Outcome := pipeline o (sheetToTxs s)

end Acb.Qt
