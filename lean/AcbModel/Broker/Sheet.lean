/-
  Model of `src/peripheral/excel.rs`: a sheet as the `office` crate hands it over
  (`Range::rows()`: first row = header, every row the same width), the header reader
  `read_sheet_header` and the cell accessors of `SheetReader`.

  Core Lean only (linked into the driver).
-/
import AcbModel.Basic.Num
namespace Acb.Qt

/-- `office::DataType`.  `num` stands for `Int`/`Float`: `v` is the value as `Decimal`
    (`Decimal::from_i64` / `from_f64`), `shown` its `to_string()` rendering (what `get_str` returns). -/
inductive Cell
  | empty
  | str (s : String)
  | num (v : Rat) (shown : String)
  | bool (b : Bool)
  | error (shown : String)
deriving Repr, DecidableEq, Inhabited

structure Sheet where
  hdr : List Cell
  rows : List (List Cell)
deriving Repr

/-- Row-level error kinds (`SheetParseError`; messages are not modelled). -/
inductive ErrKind
  | noColumn          -- "Sheet contained no column 'X'"
  | rowTooShort       -- `row.get(col).unwrap()` (cannot happen on a rectangular `Range`)
  | badDate           -- "Unable to parse date"
  | unknownAction     -- "Unrecognized transaction action"
  | emptySymbol       -- "Symbol was empty"
  | emptyValue        -- "value in X was empty"
  | badNumber         -- "Unable to parse number from .."
  | notNumber         -- "true in X not convertible to Decimal"
  | cellError         -- "Error in X: .."
  | fxtCurrencies     -- "FXTs not supported between A and B. Exactly one currency must be CAD."
  | fxtDates          -- "Adjacent FXT rows .. were on different dates"
  | fxtAccounts       -- "adjacent FXT rows .. were in different accounts"
  | fxtBothPositive
  | fxtBothNegative
  | fxtZero           -- "FXT on .. has a zero amount"
  | fxUnsupported     -- "FX currency X not supported"
  | unpaired          -- "Unpaired FXT"
deriving Repr, DecidableEq, Inhabited

/-- `read_sheet_header` (repaired, F-18): the column index of a name is the position of the
    header cell in the sheet; non-string header cells are skipped *after* numbering.
    `HashMap::from_iter` keeps the last of several equal names. -/
def headerIndex : List Cell → String → Option Nat
  | [], _ => none
  | c :: cs, name =>
    match headerIndex cs name with
    | some j => some (j + 1)
    | none => if c = .str name then some 0 else none

def Cell.isStr : Cell → Bool
  | .str _ => true
  | _ => false

/-- `read_sheet_header` as shipped (before the repair): the string cells were numbered after the
    others had been filtered out.  Kept only to state the defect (`Props/C18.lean`). -/
def headerIndexShipped (hdr : List Cell) (name : String) : Option Nat :=
  headerIndex (hdr.filter Cell.isStr) name

/-- `SheetReader::get`. -/
def cellAt (hdr row : List Cell) (name : String) : Except ErrKind Cell :=
  match headerIndex hdr name with
  | none => .error .noColumn
  | some i =>
    match row[i]? with
    | some c => .ok c
    | none => .error .rowTooShort

/-- `SheetReader::get_str` on a cell. -/
def Cell.text : Cell → String
  | .str s => s
  | .bool b => if b then "true" else "false"
  | .error e => e
  | .empty => ""
  | .num _ shown => shown

/-- ASCII upper-casing (`str::to_uppercase` on ASCII text), structurally recursive so that the
    kernel can evaluate it in examples. -/
def upper (s : String) : String := String.ofList (s.toList.map Char.toUpper)
def lower (s : String) : String := String.ofList (s.toList.map Char.toLower)

def splitOnChar (c : Char) : List Char → List (List Char)
  | [] => [[]]
  | x :: xs =>
    if x = c then [] :: splitOnChar c xs
    else
      match splitOnChar c xs with
      | [] => [[x]]
      | h :: t => (x :: h) :: t

def isDigit (c : Char) : Bool := '0' ≤ c && c ≤ '9'

def digitsVal (cs : List Char) : Nat := cs.foldl (fun n c => n * 10 + (c.toNat - '0'.toNat)) 0

/-- unsigned decimal text `ddd`, `ddd.ddd`, `.ddd`, `ddd.` (at least one digit) -/
def parseUDecimal (cs : List Char) : Option Rat :=
  let ip := cs.takeWhile isDigit
  let rest := cs.dropWhile isDigit
  match rest with
  | [] => if ip.isEmpty then none else some (digitsVal ip : Nat)
  | '.' :: fp =>
    if fp.all isDigit && !(ip.isEmpty && fp.isEmpty) then
      some ((digitsVal ip : Nat) + (digitsVal fp : Nat) / pow10 fp.length)
    else none
  | _ => none

/-- `Decimal::from_str` on plain decimal text (optional sign, digits, optional fraction).
    Scientific notation, digit separators and > 28 significant digits are not modelled. -/
def parseDecimal (s : String) : Option Rat :=
  match s.toList with
  | '-' :: cs => (parseUDecimal cs).map (fun v => -v)
  | '+' :: cs => parseUDecimal cs
  | cs => parseUDecimal cs

/-- `SheetReader::get_dec` on a cell. -/
def Cell.dec : Cell → Except ErrKind Rat
  | .num v _ => .ok v
  | .str s =>
    match parseDecimal s with
    | some v => .ok v
    | none => .error .badNumber
  | .bool _ => .error .notNumber
  | .error _ => .error .cellError
  | .empty => .error .emptyValue

instance {ε α : Type} [DecidableEq ε] [DecidableEq α] : DecidableEq (Except ε α) := fun a b =>
  match a, b with
  | .ok x, .ok y => if h : x = y then isTrue (by rw [h]) else isFalse (fun e => h (by cases e; rfl))
  | .error x, .error y => if h : x = y then isTrue (by rw [h]) else isFalse (fun e => h (by cases e; rfl))
  | .ok _, .error _ => isFalse (fun e => by cases e)
  | .error _, .ok _ => isFalse (fun e => by cases e)

/-- What the converter needs from a row: the cell under a column name. -/
abbrev Reader := String → Except ErrKind Cell

def Reader.getStr (rd : Reader) (name : String) : Except ErrKind String :=
  (rd name).map Cell.text

def Reader.getDec (rd : Reader) (name : String) : Except ErrKind Rat :=
  (rd name).bind Cell.dec

end Acb.Qt
