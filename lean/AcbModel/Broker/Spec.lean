/-
  Declarative vocabulary in which C18 is stated (`Props/C18.lean`): logical records and their
  layouts, the trade rows and the USD cash flow of an export, what `acb` demands of a row.
-/
import AcbModel.Broker.Questrade
namespace Acb.Qt

/-! ### logical exports and their layouts -/

/-- A logical activity record: the cell of every named field. -/
abbrev Record := String → Cell

def Record.reader (r : Record) : Reader := fun n => .ok (r n)

/-- `s` is *a layout of* the records `recs` for the column names `names`: one data row per record,
    and every name heads exactly one column, in which each row holds the record's cell of that
    name.  Nothing is said about the order of the columns, about other columns, or about header
    cells that are blank / not text: any column permutation and any extra or blank-headed
    columns are layouts of the same records. -/
structure IsLayout (names : List String) (recs : List Record) (s : Sheet) : Prop where
  nrows : s.rows.length = recs.length
  cols : ∀ n ∈ names, ∃ i : Nat,
    s.hdr[i]? = some (Cell.str n) ∧ (∀ j : Nat, s.hdr[j]? = some (Cell.str n) → j = i) ∧
    ∀ (k : Nat) (h₁ : k < s.rows.length) (h₂ : k < recs.length), (s.rows[k])[i]? = some (recs[k] n)

/-- insert `x` before position `k` (at the end if the list is shorter) -/
def insertCol {α : Type} (k : Nat) (x : α) (l : List α) : List α := l.take k ++ x :: l.drop k

/-! ### trades -/

/-- the trade row a data row gives rise to, if any -/
def tradeOf (n : Nat) (rd : Reader) : Option BTx :=
  match parseRow rd n with
  | .ok (.trade t) => some t
  | _ => none

def tradesFrom : Nat → List Reader → List BTx
  | _, [] => []
  | n, rd :: rds => (tradeOf n rd).toList ++ tradesFrom (n + 1) rds

/-! ### USD cash -/

/-- signed share count of a row: bought shares count positive, sold shares negative -/
def signedShares (t : BTx) : Rat := if t.side = .buy then t.shares else -t.shares

/-- Σ signed shares of the rows whose account satisfies `p` -/
def fxSum (p : Account → Bool) : List BTx → Rat
  | [] => 0
  | t :: ts => (if p t.account then signedShares t else 0) + fxSum p ts

/-- USD cash a row moves in the accounts selected by `p`:
    a USD trade moves `±price·|quantity| − |commission|`, a USD dividend its net amount,
    the USD leg of a conversion its net amount. -/
def rowCash (p : Account → Bool) : RowAct → Rat
  | .skip => 0
  | .fxt r => if r.currency = "USD" ∧ p r.account then r.amount else 0
  | .income t => if p t.account then signedShares t else 0
  | .trade t => if t.currency = "USD" ∧ p t.account then implicitAmount t else 0

def rowCashOf (p : Account → Bool) (n : Nat) (rd : Reader) : Rat :=
  match parseRow rd n with
  | .ok act => rowCash p act
  | .error _ => 0

def cashFrom (p : Account → Bool) : Nat → List Reader → Rat
  | _, [] => 0
  | n, rd :: rds => rowCashOf p n rd + cashFrom p (n + 1) rds

/-- the USD amount of a pending (first) FXT leg -/
def pending (p : Account → Bool) : Option FxtRow → Rat
  | some a => if a.currency = "USD" ∧ p a.account then a.amount else 0
  | none => 0

/-! ### acceptance by acb -/

/-- What `load_tx_rates` followed by `Tx::try_from` demand of a Buy/Sell row
    (`buy_or_sell_common_attrs_from_csv_tx`, `get_valid_exchange_rate`): a security, a positive
    share count, non-negative price and commission; an explicit rate must be positive and 1 for CAD;
    without a rate the currency must be CAD or USD (for USD the day's rate is loaded). -/
def AcbAccepts (t : BTx) : Prop :=
  t.security ≠ "" ∧ 0 < t.shares ∧ 0 ≤ t.price ∧ 0 ≤ t.commission ∧
  (match t.rate with
   | some r => 0 < r ∧ (t.currency = "CAD" → r = 1)
   | none => t.currency = "CAD" ∨ t.currency = "USD")

/-- the rows kept by the account, security and no-fx options -/
def keeps (o : Opts) (t : BTx) : Bool :=
  (match o.account with | some f => f t.account.str | none => true) &&
  (match o.security with | some f => f t.security | none => true) &&
  (if o.noFx then !endsWithFx t.security else true)

/-- the rate the usd-exchange-rate option leaves on a row -/
def rated (o : Opts) (t : BTx) : BTx :=
  match o.usdRate with
  | some r => applyRate r t
  | none => t

end Acb.Qt

namespace Acb.Qt

/-- the shape of every generated FX row -/
def FxRow (t : BTx) : Prop :=
  t.security = "USD.FX" ∧ t.currency = "USD" ∧ t.price = 1 ∧ t.commission = 0 ∧ 0 ≤ t.shares ∧
  (∀ r, t.rate = some r → 0 < r)

/-- the FX row a dividend row gives rise to, if any -/
def incomeOf (n : Nat) (rd : Reader) : Option BTx :=
  match parseRow rd n with
  | .ok (.income t) => some t
  | _ => none

def incomesFrom : Nat → List Reader → List BTx
  | _, [] => []
  | n, rd :: rds => (incomeOf n rd).toList ++ incomesFrom (n + 1) rds

end Acb.Qt

namespace Acb.Qt

/-- Σ signed shares of the rows of security `USD.FX` (what a reader of the CSV adds up) -/
def usdFxTotal : List BTx → Rat
  | [] => 0
  | t :: ts => (if t.security = "USD.FX" then signedShares t else 0) + usdFxTotal ts

/-- the set of accounts selected by the account option -/
def acctPred (o : Opts) (a : Account) : Bool :=
  match o.account with
  | some f => f a.str
  | none => true

end Acb.Qt
