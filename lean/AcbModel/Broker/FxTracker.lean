/-
  Model of `src/peripheral/broker/broker_tx.rs` (Account, BrokerTx, its ordering) and
  `src/peripheral/broker/fx_tracker.rs` (FxTracker).  Models the repaired code
  (F-05c: a pair with a zero leg is a row error instead of a division by zero).

  Core Lean only.
-/
import AcbModel.Broker.Sheet
import AcbModel.Generated.Questrade
namespace Acb.Qt

structure Account where
  typ : String
  num : String
deriving Repr, DecidableEq, Inhabited

/-- `Account::account_str` -/
def Account.str (a : Account) : String := a.typ ++ " " ++ a.num
/-- `Account::memo_str` -/
def Account.memo (a : Account) : String := Gen.qtBrokerName ++ " " ++ a.str

inductive Side
  | buy
  | sell
deriving Repr, DecidableEq, Inhabited

def Side.text : Side → String
  | .buy => "Buy"
  | .sell => "Sell"

/-- `BrokerTx`.  Dates are `yyyymmdd` numbers (ordered like `time::Date`);
    `registered` is the affiliate (`Default` / `Default (R)`); currencies are the upper-cased
    codes of `Currency::new`. -/
structure BTx where
  security : String
  tradeDate : Nat
  settleDate : Nat
  tradeStr : String
  settleStr : String
  side : Side
  price : Rat
  shares : Rat
  commission : Rat
  currency : String
  memo : String
  rate : Option Rat
  registered : Bool
  row : Nat
  account : Account
  tiebreak : Option Nat
deriving Repr, DecidableEq, Inhabited

/-- `impl PartialOrd for BrokerTx`, as coded. -/
def cmpBTx (a b : BTx) : Ordering :=
  match compare a.settleDate b.settleDate with
  | .lt => .lt
  | .gt => .gt
  | .eq =>
    match compare a.settleStr b.settleStr with
    | .lt => .lt
    | .gt => .gt
    | .eq =>
      match a.tiebreak, b.tiebreak with
      | some st, some ost =>
        (match compare st ost with
         | .lt => .lt
         | .gt => .gt
         | .eq => compare a.row b.row)
      | some _, none => .gt
      | none, some _ => .lt
      | none, none => compare a.row b.row

/-- the `≤` that `Vec::sort` (stable) uses -/
def leBTx (a b : BTx) : Bool := (cmpBTx a b).isLE

structure FxtRow where
  row : Nat
  currency : String
  registered : Bool
  tradeDate : Nat
  tradeStr : String
  amount : Rat
  account : Account
deriving Repr, DecidableEq, Inhabited

/-- `FxTracker::fx_tx` -/
def fxTx (currency : String) (tradeDate : Nat) (tradeStr : String) (amount : Rat)
    (registered : Bool) (row : Nat) (account : Account) (rate : Option Rat)
    (memoExtra : String) : Except ErrKind BTx :=
  if currency = "USD" then
    .ok { security := currency ++ ".FX"
          tradeDate := tradeDate
          settleDate := tradeDate
          tradeStr := tradeStr
          settleStr := tradeStr
          side := if 0 < amount then .buy else .sell
          price := 1
          shares := rabs amount
          commission := 0
          currency := currency
          memo := account.memo ++ "; " ++ memoExtra
          rate := rate
          registered := registered
          row := row
          account := account
          tiebreak := some (if 0 < amount then Gen.qtFxTiebreakBuy else Gen.qtFxTiebreakSell) }
  else .error .fxUnsupported

structure Tracker where
  adjacent : Option FxtRow := none
  txs : List BTx := []
deriving Repr, Inhabited, DecidableEq

/-- the CAD leg and the other leg of two adjacent FXT rows (`adj` came first) -/
def fxtCad (adj r : FxtRow) : FxtRow := if adj.currency = "CAD" then adj else r
def fxtOther (adj r : FxtRow) : FxtRow := if adj.currency = "CAD" then r else adj

/-- `FxTracker::add_fxt_row`: returns the new tracker and the row error, if any. -/
def addFxtRow (t : Tracker) (r : FxtRow) : Tracker × Option ErrKind :=
  match t.adjacent with
  | none => ({ t with adjacent := some r }, none)
  | some adj =>
    let t0 : Tracker := { t with adjacent := none }
    let cad := fxtCad adj r
    let other := fxtOther adj r
    if cad.currency = "CAD" ∧ other.currency ≠ "CAD" then
      if other.tradeDate = cad.tradeDate then
        if other.registered = cad.registered ∧ other.account = cad.account then
          if 0 < cad.amount * other.amount then
            (t0, some (if 0 < cad.amount then ErrKind.fxtBothPositive else ErrKind.fxtBothNegative))
          else if cad.amount = 0 ∨ other.amount = 0 then (t0, some .fxtZero)
          else
            match fxTx other.currency other.tradeDate other.tradeStr other.amount other.registered
                    r.row other.account (some (rabs (cad.amount / other.amount))) "FXT" with
            | .ok tx => ({ t0 with txs := t0.txs ++ [tx] }, none)
            | .error e => (t0, some e)
        else (t0, some .fxtAccounts)
      else (t0, some .fxtDates)
    else (t0, some .fxtCurrencies)

/-- the signed amount `add_implicit_fxt` books for a trade -/
def implicitAmount (tx : BTx) : Rat :=
  (if tx.side = .buy then -(tx.price * tx.shares) else tx.price * tx.shares) - tx.commission

/-- `FxTracker::add_implicit_fxt` -/
def addImplicit (t : Tracker) (tx : BTx) : Tracker × Option ErrKind :=
  if implicitAmount tx = 0 then (t, none)
  else
    match fxTx tx.currency tx.tradeDate tx.tradeStr (implicitAmount tx) tx.registered tx.row tx.account
            none ("from " ++ tx.security ++ " " ++ tx.side.text) with
    | .ok f => ({ t with txs := t.txs ++ [f] }, none)
    | .error e => (t, some e)

/-- `FxTracker::add_income_fx_tx` -/
def addIncome (t : Tracker) (tx : BTx) : Tracker := { t with txs := t.txs ++ [tx] }

end Acb.Qt
