/-
  The proleptic Gregorian calendar on Julian day numbers, as far as the rate loader needs it:
  January 1 of a year and the year of a day (`time::Date::year`, `Date::from_calendar_date(y, January, 1)`,
  `Date::to_julian_day`).  Validated against the `time` crate by the harness (`fx` family, tag cal=).
-/
import AcbModel.Fx.Rates
namespace Acb.Fx

/-- Julian day number of January 1 of year `y`. -/
def civilYearStart (y : Int) : Int :=
  1721426 + 365 * (y - 1) + (y - 1) / 4 - (y - 1) / 100 + (y - 1) / 400

/-- Year of a Julian day number: estimate by the mean year length, correct by at most one. -/
def civilYearOf (d : Int) : Int :=
  let y0 := (d - 1721426) * 400 / 146097 + 1
  if d < civilYearStart y0 then y0 - 1
  else if civilYearStart (y0 + 1) ≤ d then y0 + 1
  else y0

def civil : Cal := { yearOf := civilYearOf, yearStart := civilYearStart }

end Acb.Fx
