/-
  FX rates: data, calendar abstraction, `fill_in_unknown_day_rates`, the date→rate map.
  Model of src/fx/io/rate_loader.rs (lines 57-102).  Core Lean only.

  Dates are day numbers (`time::Date::to_julian_day`).  The civil calendar enters the code only
  through `Date::year()` and `Date::from_calendar_date(year, January, 1)`; the model takes both as a
  `Cal` parameter.  Theorems assume `Cal.OK` (a year is the half-open interval between two
  consecutive year starts); the driver instantiates `Cal` with the proleptic Gregorian calendar
  (`AcbModel/Fx/Civil.lean`), which the harness validates against `time::Date`.
-/
import AcbModel.Basic.Num
namespace Acb.Fx

/-- `Date::year()` and "January 1 of year y" as day numbers. -/
structure Cal where
  yearOf : Int → Int
  yearStart : Int → Int

/-- A year is exactly the days from its January 1 up to (excluding) the next January 1. -/
def Cal.OK (c : Cal) : Prop :=
  ∀ d y, c.yearOf d = y ↔ (c.yearStart y ≤ d ∧ d < c.yearStart (y + 1))

/-- `fx::DailyRate` (`foreign_to_local_rate` as an exact rational). -/
structure DailyRate where
  date : Int
  rate : Rat
  deriving DecidableEq, Repr, Inhabited

/-- `n` zero-rate placeholder rows for the days `start, start+1, …`. -/
def zerosFrom (start : Int) : Nat → List DailyRate
  | 0 => []
  | n + 1 => ⟨start, 0⟩ :: zerosFrom (start + 1) n

/-- The `for rate in rates` loop of `fill_in_unknown_day_rates`.  `dtf` is `date_to_fill`;
    returns the rows pushed and the final `date_to_fill`.  Faithful to the code: after pushing a
    rate the cursor advances by ONE day (it is not reset to `rate.date + 1`). -/
def fillLoop : Int → List DailyRate → List DailyRate × Int
  | dtf, [] => ([], dtf)
  | dtf, r :: rs =>
    let gap := (r.date - dtf).toNat            -- `while date_to_fill < rate.date`
    let rest := fillLoop (dtf + gap + 1) rs
    (zerosFrom dtf gap ++ r :: rest.1, rest.2)

/-- The trailing loop `while date_to_fill < today && date_to_fill.year() == year`;
    the first argument is the fuel `today - date_to_fill`. -/
def tailFill (c : Cal) (year : Int) : Nat → Int → List DailyRate
  | 0, _ => []
  | n + 1, dtf => if c.yearOf dtf = year then ⟨dtf, 0⟩ :: tailFill c year n (dtf + 1) else []

/-- `fill_in_unknown_day_rates(rates, year)` with `today_local() = today`. -/
def fillUnknown (c : Cal) (today : Int) (rates : List DailyRate) (year : Int) : List DailyRate :=
  let p := fillLoop (c.yearStart year) rates
  p.1 ++ tailFill c year (today - p.2).toNat p.2

/-- `make_date_to_rate_map(rows).get(d)`: rows are inserted in order into a `HashMap`, so the
    LAST row of a date wins. -/
def lookupLast : List DailyRate → Int → Option Rat
  | [], _ => none
  | x :: xs, d =>
    match lookupLast xs d with
    | some r => some r
    | none => if x.date = d then some x.rate else none

/-- function update -/
def upd {β : Type} (f : Int → β) (k : Int) (v : β) : Int → β := fun k' => if k' = k then v else f k'

end Acb.Fx
