/-
  Predicates used in the statements of C12-C14: what is assumed about the Bank of Canada data
  (well-formedness of one run's data, consistency between the data of successive runs) and what a
  trustworthy cache is.
-/
import AcbModel.Fx.Loader
namespace Acb.Fx

/-- strictly increasing dates (hence unique) -/
def Sorted (l : List DailyRate) : Prop := l.Pairwise (fun a b => a.date < b.date)

/-- What the remote data of one run look like: every year that can be downloaded is a list of
    observations sorted by date, inside the year, with non-zero rates (the JSON loader only lets
    positive values through), and with no day after the run's date. -/
def RemoteWF (e : Env) : Prop :=
  ∀ y l, e.remote y = some l →
    Sorted l ∧ ∀ x ∈ l, e.cal.yearOf x.date = y ∧ x.rate ≠ 0 ∧ x.date ≤ e.today

/-- Rows kept for year `y` say nothing false about the published data of run `e`: a non-zero rate is
    the published rate of its day; a zero placeholder marks a past day without a published rate. -/
def Truthful (e : Env) (y : Int) (rows : List DailyRate) : Prop :=
  ∀ d r, e.cal.yearOf d = y → lookupLast rows d = some r →
    (r = 0 ∧ pubOf e.cal e.remote d = none ∧ d < e.today) ∨ (r ≠ 0 ∧ pubOf e.cal e.remote d = some r)

/-- Rows of a year downloaded in this run: a day they do not mention has no rate and is not past. -/
def Complete (e : Env) (y : Int) (rows : List DailyRate) : Prop :=
  ∀ d, e.cal.yearOf d = y → lookupLast rows d = none → pubOf e.cal e.remote d = none ∧ e.today ≤ d

/-- Every cached year is truthful (and is a year that can be downloaded). -/
def CacheOK (e : Env) (cache : Store) : Prop :=
  ∀ y rows, cache y = some rows → Truthful e y rows ∧ (e.remote y).isSome = true

/-- Run `b` happens on the same day as run `a` or later, and its data extend those of `a`: the
    past (days before `a`'s date) is unchanged — the data available to `a` contained every rate
    published before `a`'s date — and whatever was published stays published. -/
def Consistent (a b : Env) : Prop :=
  a.cal = b.cal ∧ a.today ≤ b.today ∧
  (∀ d, d < a.today → pubOf b.cal b.remote d = pubOf a.cal a.remote d) ∧
  (∀ d r, pubOf a.cal a.remote d = some r → pubOf b.cal b.remote d = some r) ∧
  (∀ y, (a.remote y).isSome = true → (b.remote y).isSome = true)

/-- A history of runs on successive days over well-formed, consistent data. -/
def GoodHistory : Option Env → List Run → Prop
  | _, [] => True
  | prev, r :: rs =>
    r.env.cal.OK ∧ RemoteWF r.env ∧
    (match prev with | none => True | some p => Consistent p r.env) ∧
    GoodHistory (some r.env) rs

/-- The cached year of `d` covers `d` (and can be read). -/
def Covered (e : Env) (cache : Store) (d : Int) : Prop :=
  e.rdErr (e.cal.yearOf d) = false ∧
  ∃ rows, cache (e.cal.yearOf d) = some rows ∧ (lookupLast rows d).isSome = true

/-- Invariant of the loader state inside one run. -/
structure RunInv (e : Env) (s : St) : Prop where
  /-- a year downloaded in this run is loaded, truthful and complete -/
  fresh : ∀ y, s.fresh y = true →
    ∃ rows, s.loaded y = some rows ∧ Truthful e y rows ∧ Complete e y rows ∧ (e.remote y).isSome = true
  /-- a year loaded but not downloaded in this run is the cached year -/
  stale : ∀ y rows, s.loaded y = some rows → s.fresh y = false → s.cache y = some rows ∧ e.force = false
  /-- the cache is trustworthy, unless it is never read -/
  cache : e.force = true ∨ CacheOK e s.cache
  /-- only downloaded years are fresh, each once -/
  dl : ∀ y, y ∈ s.downloads → s.fresh y = true
  nodup : s.downloads.Nodup

end Acb.Fx
