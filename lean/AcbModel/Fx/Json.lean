/-
  Bank of Canada "valet" observations at record level.
  Model of `parse_rates_json` and `get_fx_json_url` (src/fx/io/remote_rate_loader.rs:19-28,82-221):
  which series is requested for a year, and how one observation record becomes a `DailyRate`.
  JSON text syntax itself (the `json` crate) is outside the model.
-/
import AcbModel.Fx.Rates
import AcbModel.Generated.Fx
namespace Acb.Fx

/-- The value found under a series key of an observation. -/
inductive JField
  | absent               -- key not present
  | invalid              -- not an object, no "v", not a number, or not positive
  | val (v : Rat)        -- { "v": "<decimal>" }
  deriving Repr

/-- One member of `observations`; `date = none`: not an object, "d" missing / not a string / not a date. -/
structure Obs where
  date : Option Int
  noon : JField          -- "IEXE0101": USD→CAD as published
  daily : JField         -- "FXCADUSD": CAD→USD as published
  deriving Repr

/-- One iteration of the loop over `observations.members()`: the noon key is read first and used as
    published; otherwise the daily key is inverted; malformed records are skipped. -/
def obsRate (o : Obs) : Option DailyRate :=
  match o.date with
  | none => none
  | some d =>
    match o.noon with
    | .val v => if 0 < v then some ⟨d, v⟩ else none
    | .invalid => none
    | .absent =>
      match o.daily with
      | .val v => if 0 < v then some ⟨d, 1 / v⟩ else none
      | _ => none

def parseObservations (obs : List Obs) : List DailyRate := obs.filterMap obsRate

inductive Series | noon | daily deriving DecidableEq, Repr

/-- `get_fx_json_url`: the series requested for a year. -/
def seriesForYear (y : Int) : Series := if Gen.fxDailyFromYear ≤ y then .daily else .noon

/-- The Bank of Canada server: for each series and year, the list of (day, value as published). -/
structure Boc where
  noon : Int → Option (List (Int × Rat))
  daily : Int → Option (List (Int × Rat))

/-- The response to the request for `series` in year `y`: observations carrying that series' key. -/
def Boc.respond (b : Boc) (s : Series) (y : Int) : Option (List Obs) :=
  match s with
  | .noon => (b.noon y).map (·.map fun p => { date := some p.1, noon := .val p.2, daily := .absent })
  | .daily => (b.daily y).map (·.map fun p => { date := some p.1, noon := .absent, daily := .val p.2 })

/-- `JsonRemoteRateLoader::get_remote_usd_cad_rates` against that server. -/
def jsonRemote (b : Boc) (y : Int) : Option (List DailyRate) :=
  (b.respond (seriesForYear y) y).map parseObservations

end Acb.Fx
