/-
  The CSV rate-cache file `rates-<year>.csv`: rendering (`CsvRatesCache::write_rates`: one record
  `date,rate` per row, `\n` terminated) and the lenient reader (`get_rates_from_csv`: records the csv
  reader rejects, unparsable dates and unparsable rates are skipped, the rest is kept).
  Model of src/fx/io/rates_cache.rs:92-166,196-234 on characters (the files are ASCII).
  Quoting, `\r` and non-ASCII input are outside the model: a rates file and its prefixes never
  contain them.
-/
import AcbModel.Fx.Civil
namespace Acb.Fx

/-- Split on a separator character (always at least one piece). -/
def splitChar (c : Char) : List Char → List (List Char)
  | [] => [[]]
  | x :: xs =>
    if x = c then [] :: splitChar c xs
    else
      match splitChar c xs with
      | [] => [[x]]
      | l :: ls => (x :: l) :: ls

def digitVal? (c : Char) : Option Nat :=
  if '0' ≤ c ∧ c ≤ '9' then some (c.toNat - 48) else none

/-- All characters are digits: their value (`[]` ↦ 0). -/
def parseDigits (s : List Char) : Option Nat :=
  s.foldl (fun acc c => match acc, digitVal? c with
    | some a, some v => some (10 * a + v)
    | _, _ => none) (some 0)

/-- `Decimal::from_str` on the texts a rates file or a prefix of it can contain: digits with at
    most one `.`, at least one digit (`"1."` is 1, `""` and `"."` are errors). -/
def parseDec (s : List Char) : Option Rat :=
  match splitChar '.' s with
  | [i] => if i.isEmpty then none else (parseDigits i).map (fun n => (n : Rat))
  | [i, f] =>
    if i.isEmpty && f.isEmpty then none
    else
      match parseDigits i, parseDigits f with
      | some a, some b => some ((a : Rat) + (b : Rat) / pow10 f.length)
      | _, _ => none
  | _ => none

/-- How dates are written and read (`Date::to_string`, `parse_standard_date`). -/
structure DateText where
  render : Int → List Char
  parse : List Char → Option Int

/-- The laws the theorems need, for the dates of a domain `dom`: a rendered date reads back, and
    contains no separator. -/
structure DateText.OK (dt : DateText) (dom : Int → Prop) : Prop where
  roundtrip : ∀ d, dom d → dt.parse (dt.render d) = some d
  noComma : ∀ d, dom d → ',' ∉ dt.render d
  noNewline : ∀ d, dom d → '\n' ∉ dt.render d

/-- A row as it is written: the date and the text of the rate (`Decimal::to_string`). -/
structure TextRow where
  date : Int
  rate : List Char

def renderRow (dt : DateText) (r : TextRow) : List Char := dt.render r.date ++ ',' :: r.rate ++ ['\n']

/-- `write_rates`: the bytes of a complete file. -/
def renderRows (dt : DateText) (rows : List TextRow) : List Char := rows.flatMap (renderRow dt)

/-- One record of the reader: first field a date, second field a rate. -/
def parseRecord (dt : DateText) (fields : List (List Char)) : Option DailyRate :=
  match fields with
  | f0 :: f1 :: _ =>
    match dt.parse f0, parseDec f1 with
    | some d, some r => some ⟨d, r⟩
    | _, _ => none
  | _ => none

/-- The csv reader is not `flexible`: the first record fixes the number of fields, a record with
    another number of fields is an error (skipped).  Empty lines are not records. -/
def readRecords (dt : DateText) : Option Nat → List (List (List Char)) → List DailyRate
  | _, [] => []
  | exp, r :: rest =>
    if r = [[]] then readRecords dt exp rest
    else
      match exp with
      | none => (parseRecord dt r).toList ++ readRecords dt (some r.length) rest
      | some n =>
        if r.length = n then (parseRecord dt r).toList ++ readRecords dt exp rest
        else readRecords dt exp rest

/-- `get_rates_from_csv` on the bytes of a file. -/
def parseFile (dt : DateText) (bytes : List Char) : List DailyRate :=
  readRecords dt none ((splitChar '\n' bytes).map (splitChar ','))

/-! ### The concrete date text `YYYY-MM-DD` of the driver -/

/-- Is the year of `y` a leap year (366 days between its January 1 and the next)? -/
def civilLeap (y : Int) : Bool := civilYearStart (y + 1) - civilYearStart y == 366

/-- Days of the year before month `m` (`m = 13`: the whole year). -/
def monthStart (leap : Bool) (m : Int) : Int :=
  let l : Int := if leap then 1 else 0
  if m ≤ 1 then 0 else if m = 2 then 31
  else l + (if m = 3 then 59 else if m = 4 then 90 else if m = 5 then 120 else if m = 6 then 151
            else if m = 7 then 181 else if m = 8 then 212 else if m = 9 then 243 else if m = 10 then 273
            else if m = 11 then 304 else if m = 12 then 334 else 365)

/-- The month containing day-of-year `doy` (0-based). -/
def monthOf (leap : Bool) (doy : Int) : Int :=
  if doy < monthStart leap 2 then 1 else if doy < monthStart leap 3 then 2
  else if doy < monthStart leap 4 then 3 else if doy < monthStart leap 5 then 4
  else if doy < monthStart leap 6 then 5 else if doy < monthStart leap 7 then 6
  else if doy < monthStart leap 8 then 7 else if doy < monthStart leap 9 then 8
  else if doy < monthStart leap 10 then 9 else if doy < monthStart leap 11 then 10
  else if doy < monthStart leap 12 then 11 else 12

/-- year, month, day of a Julian day number (proleptic Gregorian). -/
def civilYMD (jdn : Int) : Int × Int × Int :=
  let y := civilYearOf jdn
  let doy := jdn - civilYearStart y
  let m := monthOf (civilLeap y) doy
  (y, m, doy - monthStart (civilLeap y) m + 1)

def daysFromCivil (y m d : Int) : Int := civilYearStart y + monthStart (civilLeap y) m + d - 1

def digitChar (k : Nat) : Char := Char.ofNat (48 + k)

def pad2 (n : Nat) : List Char := [digitChar (n / 10 % 10), digitChar (n % 10)]

def pad4 (n : Nat) : List Char :=
  [digitChar (n / 1000 % 10), digitChar (n / 100 % 10), digitChar (n / 10 % 10), digitChar (n % 10)]

/-- `Date::to_string` for the years 0000-9999. -/
def civilRenderDate (jdn : Int) : List Char :=
  let (y, m, d) := civilYMD jdn
  pad4 y.toNat ++ '-' :: pad2 m.toNat ++ '-' :: pad2 d.toNat

/-- `parse_standard_date` (`[year]-[month]-[day]`: 4, 2 and 2 digits, a date that exists). -/
def civilParseDate (s : List Char) : Option Int :=
  match s with
  | [y1, y2, y3, y4, '-', m1, m2, '-', d1, d2] =>
    match parseDigits [y1, y2, y3, y4], parseDigits [m1, m2], parseDigits [d1, d2] with
    | some y, some m, some d =>
      let j := daysFromCivil y m d
      -- a date exists iff it survives the round trip
      if civilYMD j = ((y : Int), (m : Int), (d : Int)) then some j else none
    | _, _, _ => none
  | _ => none

def civilDateText : DateText := { render := civilRenderDate, parse := civilParseDate }

/-- The days of the years 0000 … 9999. -/
def CivilDom (d : Int) : Prop := civilYearStart 0 ≤ d ∧ d < civilYearStart 10000

end Acb.Fx
