/-
  The CSV rate-cache file `rates-<year>.csv`: rendering (`CsvRatesCache::write_rates`: one record
  `date,rate` per row, `\n` terminated) and the lenient reader (`get_rates_from_csv`: records the csv
  reader rejects, unparsable dates and unparsable rates are skipped, the rest is kept).
  Model of src/fx/io/rates_cache.rs:92-166,196-234 on characters (the files are ASCII).
  Quoting, `\r` and non-ASCII input are outside the model: a rates file and its prefixes never
  contain them.
-/
import AcbModel.Fx.Civil
namespace Acb.Fx

/-- Split on a separator character (always at least one piece). -/
def splitChar (c : Char) : List Char → List (List Char)
  | [] => [[]]
  | x :: xs =>
    if x = c then [] :: splitChar c xs
    else
      match splitChar c xs with
      | [] => [[x]]
      | l :: ls => (x :: l) :: ls

def digitVal? (c : Char) : Option Nat :=
  if '0' ≤ c ∧ c ≤ '9' then some (c.toNat - 48) else none

/-- All characters are digits: their value (`[]` ↦ 0). -/
def parseDigits (s : List Char) : Option Nat :=
  s.foldl (fun acc c => match acc, digitVal? c with
    | some a, some v => some (10 * a + v)
    | _, _ => none) (some 0)

/-- `Decimal::from_str` on the texts a rates file or a prefix of it can contain: digits with at
    most one `.`, at least one digit (`"1."` is 1, `""` and `"."` are errors). -/
def parseDec (s : List Char) : Option Rat :=
  match splitChar '.' s with
  | [i] => if i.isEmpty then none else (parseDigits i).map (fun n => (n : Rat))
  | [i, f] =>
    if i.isEmpty && f.isEmpty then none
    else
      match parseDigits i, parseDigits f with
      | some a, some b => some ((a : Rat) + (b : Rat) / pow10 f.length)
      | _, _ => none
  | _ => none

/-- How dates are written and read (`Date::to_string`, `parse_standard_date`). -/
structure DateText where
  render : Int → List Char
  parse : List Char → Option Int

/-- The laws the theorems need: a rendered date reads back, and contains no separator. -/
structure DateText.OK (dt : DateText) : Prop where
  roundtrip : ∀ d, dt.parse (dt.render d) = some d
  noComma : ∀ d, ',' ∉ dt.render d
  noNewline : ∀ d, '\n' ∉ dt.render d

/-- A row as it is written: the date and the text of the rate (`Decimal::to_string`). -/
structure TextRow where
  date : Int
  rate : List Char

def renderRow (dt : DateText) (r : TextRow) : List Char := dt.render r.date ++ ',' :: r.rate ++ ['\n']

/-- `write_rates`: the bytes of a complete file. -/
def renderRows (dt : DateText) (rows : List TextRow) : List Char := rows.flatMap (renderRow dt)

/-- One record of the reader: first field a date, second field a rate. -/
def parseRecord (dt : DateText) (fields : List (List Char)) : Option DailyRate :=
  match fields with
  | f0 :: f1 :: _ =>
    match dt.parse f0, parseDec f1 with
    | some d, some r => some ⟨d, r⟩
    | _, _ => none
  | _ => none

/-- The csv reader is not `flexible`: the first record fixes the number of fields, a record with
    another number of fields is an error (skipped).  Empty lines are not records. -/
def readRecords (dt : DateText) : Option Nat → List (List (List Char)) → List DailyRate
  | _, [] => []
  | exp, r :: rest =>
    if r = [[]] then readRecords dt exp rest
    else
      match exp with
      | none => (parseRecord dt r).toList ++ readRecords dt (some r.length) rest
      | some n =>
        if r.length = n then (parseRecord dt r).toList ++ readRecords dt exp rest
        else readRecords dt exp rest

/-- `get_rates_from_csv` on the bytes of a file. -/
def parseFile (dt : DateText) (bytes : List Char) : List DailyRate :=
  readRecords dt none ((splitChar '\n' bytes).map (splitChar ','))

/-! ### The concrete date text `YYYY-MM-DD` of the driver -/

/-- year, month, day of a Julian day number (proleptic Gregorian). -/
def civilYMD (jdn : Int) : Int × Int × Int :=
  let z := jdn - 2440588 + 719468
  let era := z / 146097
  let doe := z - era * 146097
  let yoe := (doe - doe / 1460 + doe / 36524 - doe / 146096) / 365
  let y := yoe + era * 400
  let doy := doe - (365 * yoe + yoe / 4 - yoe / 100)
  let mp := (5 * doy + 2) / 153
  let d := doy - (153 * mp + 2) / 5 + 1
  let m := if mp < 10 then mp + 3 else mp - 9
  (if m ≤ 2 then y + 1 else y, m, d)

def daysFromCivil (y m d : Int) : Int :=
  let y' := if m ≤ 2 then y - 1 else y
  let era := y' / 400
  let yoe := y' - era * 400
  let mp := if m > 2 then m - 3 else m + 9
  let doy := (153 * mp + 2) / 5 + d - 1
  let doe := yoe * 365 + yoe / 4 - yoe / 100 + doy
  era * 146097 + doe - 719468 + 2440588

def padNat (w n : Nat) : List Char :=
  let s := (toString n).toList
  List.replicate (w - s.length) '0' ++ s

def civilRenderDate (jdn : Int) : List Char :=
  let (y, m, d) := civilYMD jdn
  padNat 4 y.toNat ++ '-' :: padNat 2 m.toNat ++ '-' :: padNat 2 d.toNat

def civilParseDate (s : List Char) : Option Int :=
  match s with
  | [y1, y2, y3, y4, '-', m1, m2, '-', d1, d2] =>
    match parseDigits [y1, y2, y3, y4], parseDigits [m1, m2], parseDigits [d1, d2] with
    | some y, some m, some d =>
      let j := daysFromCivil y m d
      -- a valid calendar date is one that survives the round trip
      if civilYMD j = ((y : Int), (m : Int), (d : Int)) then some j else none
    | _, _, _ => none
  | _ => none

def civilDateText : DateText := { render := civilRenderDate, parse := civilParseDate }

end Acb.Fx
