/-
  The cache directory as a tiny file system, the write procedure of `CsvRatesCache::write_rates` as
  a list of file-system operations, and every state a crash can leave behind: a process kill after
  any operation or inside an append at any byte offset, and a power loss (unsynced data may be cut
  anywhere, a rename may not have reached the disk).
  Model of src/fx/io/rates_cache.rs:172-260 (repaired write procedure: temp file, flush, sync,
  rename — finding F-14) and of the procedure as it was (truncate the live file, stream the rows).
-/
import AcbModel.Fx.CacheFile
import AcbModel.Fx.Loader
namespace Acb.Fx

/-- A file: its bytes, and how many leading bytes are known to be on stable storage. -/
structure File where
  data : List Char
  durable : Nat
  deriving Repr, DecidableEq

/-- The two files of one year in the cache directory: `rates-Y.csv` and `rates-Y.csv.tmp`;
    `prevLive = some l`: a rename has replaced `l` but may not have reached the disk yet. -/
structure YearFiles where
  live : Option File
  tmp : Option File
  prevLive : Option (Option File) := none
  deriving Repr, DecidableEq

inductive FileId | live | tmp deriving DecidableEq, Repr

inductive Op
  | create (f : FileId)                 -- `File::create`: create or truncate
  | append (f : FileId) (bytes : List Char)
  | sync (f : FileId)                   -- `File::sync_all`
  | renameTmpToLive                     -- `std::fs::rename(tmp, live)`
  deriving Repr

def YearFiles.get (s : YearFiles) : FileId → Option File
  | .live => s.live
  | .tmp => s.tmp

def YearFiles.set (s : YearFiles) (f : FileId) (v : Option File) : YearFiles :=
  match f with
  | .live => { s with live := v }
  | .tmp => { s with tmp := v }

def applyOp (s : YearFiles) : Op → YearFiles
  | .create f => s.set f (some ⟨[], 0⟩)
  | .append f bytes =>
    match s.get f with
    | some x => s.set f (some { x with data := x.data ++ bytes })
    | none => s
  | .sync f =>
    match s.get f with
    | some x => s.set f (some { x with durable := x.data.length })
    | none => s
  | .renameTmpToLive =>
    match s.tmp with
    | some x => { live := some x, tmp := none, prevLive := some s.live }
    | none => s

/-- States strictly inside an operation: an append cut after any number of bytes. -/
def partials (s : YearFiles) : Op → List YearFiles
  | .append f bytes => (List.range (bytes.length + 1)).map (fun n => applyOp s (.append f (bytes.take n)))
  | _ => []

/-- Every state in which the process can be killed while executing `ops`. -/
def crashStates : YearFiles → List Op → List YearFiles
  | s, [] => [s]
  | s, op :: ops => s :: partials s op ++ crashStates (applyOp s op) ops

/-- The repaired procedure: write `rates-Y.csv.tmp`, flush, sync, rename over `rates-Y.csv`. -/
def writeProc (content : List Char) : List Op :=
  [.create .tmp, .append .tmp content, .sync .tmp, .renameTmpToLive]

/-- The procedure as it was: truncate `rates-Y.csv` and stream the rows into it. -/
def writeProcInPlace (content : List Char) : List Op :=
  [.create .live, .append .live content]

/-- Temp file and rename, but without the sync (why the sync is there). -/
def writeProcNoSync (content : List Char) : List Op :=
  [.create .tmp, .append .tmp content, .renameTmpToLive]

/-- What a later process finds in the directory. -/
structure View where
  live : Option (List Char)
  tmp : Option (List Char)
  deriving Repr, DecidableEq

/-- After a process kill: the data written so far. -/
def killView (s : YearFiles) : View := { live := s.live.map (·.data), tmp := s.tmp.map (·.data) }

/-- What may remain of a file after a power loss: at least its durable bytes, at most all of them. -/
def truncs : Option File → List (Option (List Char))
  | none => [none]
  | some f => (List.range (f.data.length - f.durable + 1)).map (fun k => some (f.data.take (f.durable + k)))

/-- After a power loss: every file cut somewhere after its durable part; a rename that has not
    reached the disk shows the directory as it was before it. -/
def lossViews (s : YearFiles) : List View :=
  let now := (truncs s.live).flatMap (fun l => (truncs s.tmp).map (fun t => ({ live := l, tmp := t } : View)))
  match s.prevLive with
  | none => now
  | some old =>
    now ++ (truncs old).flatMap (fun l => (truncs s.live).map (fun t => ({ live := l, tmp := t } : View)))

/-- The cache a loader sees: each year's `rates-Y.csv`, read leniently. -/
def storeOfFiles (dt : DateText) (files : Int → Option (List Char)) : Store :=
  fun y => (files y).map (parseFile dt)

end Acb.Fx
