/-
  Currency / exchange-rate rules of a CSV row.
  Model of `load_rate_if_needed`/`load_tx_rates` (src/portfolio/io/tx_loader.rs:11-80),
  `get_valid_exchange_rate` (src/portfolio/model/tx.rs:430-457) and
  `CurrencyAndExchangeRate::try_new` (src/portfolio/model/currency.rs:77-88).
-/
import AcbModel.Fx.Loader
namespace Acb.Fx

/-- `Currency::new`: "" and "CAD" are the default currency, "USD", anything else (upper-cased). -/
inductive Currency
  | cad
  | usd
  | other (code : String)
  deriving DecidableEq, Repr

inductive RowErr
  | fx (e : FxErr)      -- the rate look-up failed ("Exchange rate error: …")
  | notAuto             -- "Currency {} does not support automatically loaded day rates"
  | currMissing         -- exchange rate given without a currency
  | fxMissing           -- non-CAD currency without an exchange rate
  | notPositive         -- "… must be a positive value"
  | cadNot1             -- "Default currency (CAD) exchange rate was not 1"
  deriving DecidableEq, Repr

/-- `load_rate_if_needed(trade_date, curr, provided_rate, rate_loader)`. -/
def loadRateIfNeeded (e : Env) (s : St) (trade : Int) (curr : Option Currency)
    (provided : Option Rat) : Except RowErr (Option Rat) × St :=
  match provided with
  | some _ => (.ok none, s)
  | none =>
    match curr with
    | none => (.ok none, s)
    | some .cad => (.ok none, s)
    | some (.other _) => (.error .notAuto, s)
    | some .usd =>
      match getEffective e s trade with
      | (.ok r, s') => (.ok (some r.rate), s')
      | (.error er, s') => (.error (.fx er), s')

/-- `CurrencyAndExchangeRate::try_new(c, PosDecimal::try_from(r)?)`. -/
def tryNew (c : Currency) (r : Rat) : Except RowErr (Currency × Rat) :=
  if r ≤ 0 then .error .notPositive
  else if c = .cad then (if r = 1 then .ok (c, r) else .error .cadNot1)
  else .ok (c, r)

/-- `get_valid_exchange_rate(curr, fx)`. -/
def getValidExchangeRate (curr : Option Currency) (fx : Option Rat) : Except RowErr (Option (Currency × Rat)) :=
  match curr, fx with
  | none, none => .ok none
  | none, some _ => .error .currMissing
  | some c, none => if c = .cad then .ok (some (.cad, 1)) else .error .fxMissing
  | some c, some r =>
    match tryNew c r with
    | .ok p => .ok (some p)
    | .error er => .error er

/-- One amount of a row (the transaction amount or the commission): rate loading by
    `load_tx_rates` keyed on the TRADE date, then validation by `Tx::try_from`.
    Result: the currency and the rate the amount is converted with (`none`: no currency given). -/
def slotRate (e : Env) (s : St) (trade : Int) (curr : Option Currency) (provided : Option Rat) :
    Except RowErr (Option (Currency × Rat)) × St :=
  match loadRateIfNeeded e s trade curr provided with
  | (.error er, s') => (.error er, s')
  | (.ok loaded, s') =>
    let fx := match loaded with | some r => some r | none => provided
    (getValidExchangeRate curr fx, s')

/-- A buy/sell row: transaction slot, then commission slot, on the same loader.  The transaction
    amount defaults to CAD at 1 when no currency is given; the commission then follows the
    transaction currency (`separate_commission_currency = None`). -/
def rowRates (e : Env) (s : St) (trade : Int) (cur : Option Currency) (fx : Option Rat)
    (ccur : Option Currency) (cfx : Option Rat) :
    Except RowErr ((Currency × Rat) × Option (Currency × Rat)) × St :=
  -- load_tx_rates: both look-ups first …
  match loadRateIfNeeded e s trade cur fx with
  | (.error er, s1) => (.error er, s1)
  | (.ok l1, s1) =>
    match loadRateIfNeeded e s1 trade ccur cfx with
    | (.error er, s2) => (.error er, s2)
    | (.ok l2, s2) =>
      let fx' := match l1 with | some r => some r | none => fx
      let cfx' := match l2 with | some r => some r | none => cfx
      -- … then Tx::try_from validates both
      match getValidExchangeRate cur fx' with
      | .error er => (.error er, s2)
      | .ok t =>
        match getValidExchangeRate ccur cfx' with
        | .error er => (.error er, s2)
        | .ok c => (.ok (t.getD (.cad, 1), c), s2)

end Acb.Fx
