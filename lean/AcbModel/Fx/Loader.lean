/-
  `RateLoader`: per-run state + persistent cache as a state machine.
  Model of src/fx/io/rate_loader.rs (lines 104-304) and of the `RatesCache` trait as an abstract
  store `year → rows` (src/fx/io/rates_cache.rs; the CSV file layer is `AcbModel/Fx/CacheFile.lean`).
  Core Lean only.
-/
import AcbModel.Fx.Rates
import AcbModel.Generated.Fx
deriving instance DecidableEq for Except

namespace Acb.Fx

inductive FxErr
  | remote          -- the download of the year failed
  | noRateYet       -- "No USD/CAD exchange rate is available for {} yet" (date is today or later)
  | cacheIo         -- cache read error for a year already downloaded in this run
  | cacheGone       -- "Did not find rates for {} in cache after they were downloaded"
  | notFound        -- "Could not find relevant exchange rate within the 7 preceding days"
  deriving DecidableEq, Repr

/-- Everything that is fixed during one run of the program. -/
structure Env where
  cal : Cal
  today : Int
  force : Bool                                   -- `force_download`
  remote : Int → Option (List DailyRate)         -- `RemoteRateLoader::get_remote_usd_cad_rates`; none = Err
  rdErr : Int → Bool := fun _ => false           -- `RatesCache::get_usd_cad_rates(year)` returns Err
  wrErr : Int → Bool := fun _ => false           -- `RatesCache::write_rates(year, _)` returns Err (store unchanged)

abbrev Store := Int → Option (List DailyRate)

/-- State of a `RateLoader` (`year_rates`, `fresh_loaded_years`), the persistent cache behind it,
    and the log of years downloaded (for the download-count theorems). -/
structure St where
  loaded : Store
  fresh : Int → Bool
  cache : Store
  downloads : List Int

/-- `RateLoader::new` over a cache with the given content. -/
def St.init (cache : Store) : St :=
  { loaded := fun _ => none, fresh := fun _ => false, cache := cache, downloads := [] }

/-- `get_remote_usd_cad_rates`. -/
def download (e : Env) (s : St) (y : Int) : Except FxErr (List DailyRate) × St :=
  match e.remote y with
  | none => (.error .remote, s)
  | some l =>
    let rows := fillUnknown e.cal e.today l y
    (.ok rows,
     { s with fresh := upd s.fresh y true
              downloads := s.downloads ++ [y]
              cache := if e.wrErr y then s.cache else upd s.cache y (some rows) })

/-- `fetch_usd_cad_rates_for_date_year`. -/
def fetch (e : Env) (s : St) (target : Int) : Except FxErr (List DailyRate) × St :=
  let y := e.cal.yearOf target
  if e.force then download e s y
  else if e.rdErr y then
    (if s.fresh y then (.error .cacheIo, s) else download e s y)
  else
    match s.cache y with
    | some rows =>
      if s.fresh y then (.ok rows, s)
      else if (lookupLast rows target).isSome then (.ok rows, s)   -- cache invalidation check
      else download e s y
    | none => if s.fresh y then (.error .cacheGone, s) else download e s y

/-- Does `get_exact_usd_cad_rate` have to (re)load the year of `d`?
    `none`: never loaded in this run.  Loaded from the cache (not downloaded in this run) and
    lacking `d`: the cache is re-validated against `d` (repair of F-13). -/
def needLoad (s : St) (y d : Int) : Bool :=
  match s.loaded y with
  | none => true
  | some rows => !(s.fresh y) && (lookupLast rows d).isNone

/-- First half of `get_exact_usd_cad_rate`: make sure the year is in `year_rates`; returns its rows. -/
def ensureLoaded (e : Env) (s : St) (d : Int) : Except FxErr (List DailyRate) × St :=
  let y := e.cal.yearOf d
  if needLoad s y d then
    match fetch e s d with
    | (.ok rows, s') => (.ok rows, { s' with loaded := upd s'.loaded y (some rows) })
    | (.error er, s') => (.error er, s')
  else
    match s.loaded y with
    | some rows => (.ok rows, s)
    | none => (.error .cacheGone, s)     -- unreachable (needLoad is true when nothing is loaded)

/-- `get_exact_usd_cad_rate`. -/
def getExact (e : Env) (s : St) (d : Int) : Except FxErr (Option DailyRate) × St :=
  match ensureLoaded e s d with
  | (.error er, s') => (.error er, s')
  | (.ok rows, s') =>
    match lookupLast rows d with
    | some r => if r = 0 then (.ok none, s') else (.ok (some ⟨d, r⟩), s')
    | none => if e.today ≤ d then (.error .noRateYet, s') else (.ok none, s')

/-- `find_usd_cad_preceding_relevant_spot_rate`; the first argument is the remaining number of
    iterations of `for _ in 0..7`. -/
def lookBack (e : Env) : Nat → St → Int → Except FxErr DailyRate × St
  | 0, s, _ => (.error .notFound, s)
  | n + 1, s, d =>
    match getExact e s (d - Gen.fxLookbackStepDays) with
    | (.error er, s') => (.error er, s')
    | (.ok (some r), s') => (.ok r, s')
    | (.ok none, s') => lookBack e n s' (d - Gen.fxLookbackStepDays)

/-- `get_effective_usd_cad_rate`. -/
def getEffective (e : Env) (s : St) (d : Int) : Except FxErr DailyRate × St :=
  match getExact e s d with
  | (.error er, s') => (.error er, s')
  | (.ok (some r), s') => (.ok r, s')
  | (.ok none, s') => lookBack e Gen.fxLookbackDays s' d

/-! ### The specification: what an uncached look-up against the published data returns -/

/-- The rate published for day `d` according to the remote data (none: nothing published, or the
    year cannot be downloaded). -/
def pubOf (c : Cal) (remote : Int → Option (List DailyRate)) (d : Int) : Option Rat :=
  match remote (c.yearOf d) with
  | none => none
  | some l => lookupLast l d

/-- Can the year of `d` be downloaded at all? -/
def availOf (c : Cal) (remote : Int → Option (List DailyRate)) (d : Int) : Bool :=
  (remote (c.yearOf d)).isSome

/-- One day of the specification: the published rate of `d`; "nothing published" for a past day;
    an error for today or a later day without a rate, or when the data cannot be obtained. -/
def specExact (e : Env) (d : Int) : Except Unit (Option DailyRate) :=
  if availOf e.cal e.remote d then
    match pubOf e.cal e.remote d with
    | some r => .ok (some ⟨d, r⟩)
    | none => if e.today ≤ d then .error () else .ok none
  else .error ()

def specBack (e : Env) : Nat → Int → Except Unit DailyRate
  | 0, _ => .error ()
  | n + 1, d =>
    match specExact e (d - 1) with
    | .error _ => .error ()
    | .ok (some r) => .ok r
    | .ok none => specBack e n (d - 1)

/-- `specRate`: the rate of the trade date, else the most recent one of the seven preceding days. -/
def specRate (e : Env) (d : Int) : Except Unit DailyRate :=
  match specExact e d with
  | .error _ => .error ()
  | .ok (some r) => .ok r
  | .ok none => specBack e 7 d

/-- Results are compared up to the error message. -/
def forget {α : Type} : Except FxErr α → Except Unit α
  | .ok a => .ok a
  | .error _ => .error ()

/-! ### Runs and histories (C13) -/

/-- A sequence of look-ups on one loader. -/
def runLookups (e : Env) : St → List Int → List (Except FxErr DailyRate) × St
  | s, [] => ([], s)
  | s, d :: ds =>
    let r := getEffective e s d
    let rest := runLookups e r.2 ds
    (r.1 :: rest.1, rest.2)

/-- One run of the program: its own clock, force flag, remote data, and look-ups. -/
structure Run where
  env : Env
  lookups : List Int

/-- A history of runs over one persistent cache: results per run, downloads per run, final cache. -/
def runHistory : Store → List Run → List (List (Except FxErr DailyRate) × List Int) × Store
  | cache, [] => ([], cache)
  | cache, r :: rs =>
    let o := runLookups r.env (St.init cache) r.lookups
    let rest := runHistory o.2.cache rs
    ((o.1, o.2.downloads) :: rest.1, rest.2)

end Acb.Fx
