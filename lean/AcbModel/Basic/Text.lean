/-
  Text <-> number conversions used by the line protocol of the driver.
  Not part of any theorem.
-/
import AcbModel.Basic.Num
namespace Acb

def parseNat? (s : String) : Option Nat := s.toNat?

def parseInt? (s : String) : Option Int :=
  if s.startsWith "-" then (s.drop 1).toString.toNat?.map (fun n => - (n : Int))
  else s.toNat?.map (fun n => (n : Int))

/-- Decimal text (`-12.345`, `7`, `0.10`) or `n/d` to an exact rational. -/
def parseRat? (s0 : String) : Option Rat :=
  let neg := s0.startsWith "-"
  let s := if neg then (s0.drop 1).toString else s0
  let r : Option Rat :=
    match s.splitOn "/" with
    | [n, d] => do
        let n ← n.toNat?
        let d ← d.toNat?
        if d == 0 then none else some ((n : Rat) / (d : Rat))
    | [x] =>
      match x.splitOn "." with
      | [i] => i.toNat?.map (fun n => (n : Rat))
      | [i, f] => do
          let i ← (if i.isEmpty then some 0 else i.toNat?)
          let fn ← (if f.isEmpty then some 0 else f.toNat?)
          some ((i : Rat) + (fn : Rat) / pow10 f.length)
      | _ => none
    | _ => none
  r.map (fun v => if neg then -v else v)

def ratToString (x : Rat) : String :=
  if x.den == 1 then toString x.num else s!"{x.num}/{x.den}"

/-- Approximate decimal rendering (for human-readable replay files only). -/
def ratToDecimalString (x : Rat) (dp : Nat := 12) : String :=
  let neg := x < 0
  let a := if neg then -x else x
  let scaled := (a * pow10 dp).floor.toNat
  let ip := scaled / (10 ^ dp)
  let fp := scaled % (10 ^ dp)
  let fs := toString fp
  let fs := String.ofList (List.replicate (dp - fs.length) '0') ++ fs
  (if neg then "-" else "") ++ toString ip ++ "." ++ fs

end Acb
