/-
  Exact rational helpers shared by every model file.  Core Lean only (no Mathlib),
  so that the driver links as a native executable.
-/
namespace Acb

/-- `10^n` as a rational. -/
def pow10 (n : Nat) : Rat := ((10 ^ n : Nat) : Rat)

/-- absolute value on `Rat` (core has no `abs` for `Rat` without Mathlib). -/
def rabs (x : Rat) : Rat := if x < 0 then -x else x

/-- Round half away from zero to `dp` decimal places
    (`Decimal::round_dp_with_strategy(dp, MidpointAwayFromZero)`). -/
def roundHalfAway (dp : Nat) (x : Rat) : Rat :=
  let s := pow10 dp
  if 0 ≤ x then ((x * s + 1/2).floor : Rat) / s
  else -(((-x) * s + 1/2).floor : Rat) / s

/-- `util::math::round_to_cent`. -/
def roundCent (x : Rat) : Rat := roundHalfAway 2 x

/-- `x` is a whole number (`Decimal::is_integer`). -/
def isInteger (x : Rat) : Bool := x.den == 1

def rmin (a b : Rat) : Rat := if b < a then b else a

/-- `util::decimal::constrained_min` over three values (first minimum wins). -/
def min3 (a b c : Rat) : Rat := rmin (rmin a b) c

end Acb
