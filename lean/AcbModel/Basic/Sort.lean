/-
  Insertion sort by structural recursion (so that the kernel can evaluate it in `decide`),
  standing in for Rust's `sort()` on lists of distinct keys: any correct sort yields the same
  list (`isort_eq_of_perm`).  Core Lean only.
-/
namespace Acb

def insertBy {α : Type} (le : α → α → Bool) (a : α) : List α → List α
  | [] => [a]
  | b :: bs => if le a b then a :: b :: bs else b :: insertBy le a bs

def isort {α : Type} (le : α → α → Bool) (l : List α) : List α := l.foldr (insertBy le) []

theorem insertBy_perm {α : Type} (le : α → α → Bool) (a : α) (l : List α) : (insertBy le a l).Perm (a :: l) := by
  induction l with
  | nil => exact List.Perm.refl _
  | cons b bs ih =>
    unfold insertBy
    split
    · exact List.Perm.refl _
    · exact (List.Perm.cons b ih).trans (List.Perm.swap a b bs)

theorem isort_perm {α : Type} (le : α → α → Bool) (l : List α) : (isort le l).Perm l := by
  induction l with
  | nil => exact List.Perm.refl _
  | cons a as ih =>
    show (insertBy le a (isort le as)).Perm (a :: as)
    exact (insertBy_perm le a _).trans (List.Perm.cons a ih)

theorem insertBy_pairwise {α : Type} {le : α → α → Bool}
    (htrans : ∀ a b c, le a b = true → le b c = true → le a c = true)
    (htotal : ∀ a b, le a b = true ∨ le b a = true) (a : α) {l : List α}
    (h : l.Pairwise (fun x y => le x y = true)) : (insertBy le a l).Pairwise (fun x y => le x y = true) := by
  induction l with
  | nil => simp [insertBy]
  | cons b bs ih =>
    have hb := List.pairwise_cons.mp h
    unfold insertBy
    split
    · rename_i hab
      refine List.pairwise_cons.mpr ⟨?_, h⟩
      intro y hy
      rcases List.mem_cons.mp hy with e | e
      · subst e; exact hab
      · exact htrans _ _ _ hab (hb.1 y e)
    · rename_i hab
      have hba : le b a = true := by
        rcases htotal a b with h1 | h1
        · exact absurd h1 hab
        · exact h1
      refine List.pairwise_cons.mpr ⟨?_, ih hb.2⟩
      intro y hy
      have := (insertBy_perm le a bs).mem_iff.mp hy
      rcases List.mem_cons.mp this with e | e
      · subst e; exact hba
      · exact hb.1 y e

theorem isort_pairwise {α : Type} {le : α → α → Bool}
    (htrans : ∀ a b c, le a b = true → le b c = true → le a c = true)
    (htotal : ∀ a b, le a b = true ∨ le b a = true) (l : List α) :
    (isort le l).Pairwise (fun x y => le x y = true) := by
  induction l with
  | nil => simp [isort]
  | cons a as ih => exact insertBy_pairwise htrans htotal a ih

end Acb
