/-
  Civil calendar on Julian day numbers (`time::Date::to_julian_day`): year of a day, Jan 1 of a year.
  Fliegel–Van Flandern algorithm (integer division truncating toward zero).
-/
namespace Acb

/-- Gregorian year of a Julian day number. -/
def yearOfJd (jd : Int) : Int :=
  let l := jd + 68569
  let n := (4 * l).tdiv 146097
  let l := l - (146097 * n + 3).tdiv 4
  let i := (4000 * (l + 1)).tdiv 1461001
  let l := l - (1461 * i).tdiv 4 + 31
  let j := (80 * l).tdiv 2447
  let l := j.tdiv 11
  100 * (n - 49) + i + l

/-- Julian day number of a Gregorian calendar date. -/
def jdOfDate (y m d : Int) : Int :=
  let a := (m - 14).tdiv 12
  (1461 * (y + 4800 + a)).tdiv 4 + (367 * (m - 2 - 12 * a)).tdiv 12
    - (3 * ((y + 4900 + a).tdiv 100)).tdiv 4 + d - 32075

def jan1 (y : Int) : Int := jdOfDate y 1 1

end Acb
