/-
  Lemmas about `fillUnknown` / `lookupLast` (model of fill_in_unknown_day_rates and the date map).
-/
import AcbModel.Fx.Valid
namespace Acb.Fx

theorem lookupLast_append (a b : List DailyRate) (d : Int) :
    lookupLast (a ++ b) d = match lookupLast b d with | some r => some r | none => lookupLast a d := by
  induction a with
  | nil => simp [lookupLast]; split <;> simp_all
  | cons x xs ih =>
    simp only [List.cons_append, lookupLast, ih]
    cases h : lookupLast b d <;> simp

theorem lookupLast_zerosFrom (s : Int) (n : Nat) (d : Int) :
    lookupLast (zerosFrom s n) d = if s ≤ d ∧ d < s + n then some 0 else none := by
  induction n generalizing s with
  | zero => simp [zerosFrom, lookupLast]
  | succ n ih =>
    simp only [zerosFrom, lookupLast, ih]
    by_cases h1 : s + 1 ≤ d ∧ d < s + 1 + (n : Int)
    · simp [h1]; omega
    · simp only [h1]
      by_cases h2 : s = d
      · subst h2; simp; omega
      · simp [h2]; omega

theorem lookupLast_none_iff (l : List DailyRate) (d : Int) :
    lookupLast l d = none ↔ ∀ x ∈ l, x.date ≠ d := by
  induction l with
  | nil => simp [lookupLast]
  | cons x xs ih =>
    simp only [lookupLast]
    cases h : lookupLast xs d with
    | some r =>
      have : ¬ (∀ x ∈ xs, x.date ≠ d) := by rw [← ih]; simp [h]
      simp only [reduceCtorEq, false_iff]
      intro hh; exact this (fun x hx => hh x (List.mem_cons_of_mem _ hx))
    | none =>
      have := ih.mp h
      by_cases hx : x.date = d
      · simp [hx]
      · simp only [hx, if_false, true_iff]
        intro z hz
        rcases List.mem_cons.mp hz with rfl | hz
        · exact hx
        · exact this z hz

theorem lookupLast_some_mem {l : List DailyRate} {d : Int} {r : Rat} (h : lookupLast l d = some r) :
    ⟨d, r⟩ ∈ l := by
  induction l with
  | nil => simp [lookupLast] at h
  | cons x xs ih =>
    simp only [lookupLast] at h
    cases h' : lookupLast xs d with
    | some r' => simp [h'] at h; subst h; exact List.mem_cons_of_mem _ (ih h')
    | none =>
      simp [h'] at h
      obtain ⟨h1, h2⟩ := h
      cases x; simp_all


theorem fillLoop_end (dtf : Int) (rs : List DailyRate) (hs : Sorted rs) (hge : ∀ x ∈ rs, dtf ≤ x.date) :
    dtf ≤ (fillLoop dtf rs).2 ∧ (∀ x ∈ rs, x.date < (fillLoop dtf rs).2) ∧
    ((fillLoop dtf rs).2 = dtf ∨ ∃ x ∈ rs, (fillLoop dtf rs).2 = x.date + 1) := by
  induction rs generalizing dtf with
  | nil => simp [fillLoop]
  | cons r rs ih =>
    have hr : dtf ≤ r.date := hge r (List.mem_cons_self ..)
    have hs' : Sorted rs := (List.pairwise_cons.mp hs).2
    have hlt : ∀ x ∈ rs, r.date < x.date := (List.pairwise_cons.mp hs).1
    have hgap : dtf + ((r.date - dtf).toNat : Int) + 1 = r.date + 1 := by omega
    simp only [fillLoop, hgap]
    obtain ⟨h1, h2, h3⟩ := ih (r.date + 1) hs' (fun x hx => by have := hlt x hx; omega)
    refine ⟨by omega, ?_, ?_⟩
    · intro x hx
      rcases List.mem_cons.mp hx with rfl | hx
      · omega
      · exact h2 x hx
    · right
      rcases h3 with h3 | ⟨x, hx, h3⟩
      · exact ⟨r, List.mem_cons_self .., h3⟩
      · exact ⟨x, List.mem_cons_of_mem _ hx, h3⟩

/-- Look-up in the rows pushed by the main loop: a published rate if there is one, a zero
    placeholder for every other day from the start up to the last published day. -/
theorem lookupLast_fillLoop (dtf : Int) (rs : List DailyRate) (hs : Sorted rs)
    (hge : ∀ x ∈ rs, dtf ≤ x.date) (d : Int) :
    lookupLast (fillLoop dtf rs).1 d =
      match lookupLast rs d with
      | some r => some r
      | none => if dtf ≤ d ∧ d < (fillLoop dtf rs).2 then some 0 else none := by
  induction rs generalizing dtf with
  | nil =>
    simp only [fillLoop, lookupLast]
    have : ¬ (dtf ≤ d ∧ d < dtf) := by omega
    simp [this]
  | cons r rs ih =>
    have hr : dtf ≤ r.date := hge r (List.mem_cons_self ..)
    have hs' : Sorted rs := (List.pairwise_cons.mp hs).2
    have hlt : ∀ x ∈ rs, r.date < x.date := (List.pairwise_cons.mp hs).1
    have hgap : dtf + ((r.date - dtf).toNat : Int) + 1 = r.date + 1 := by omega
    have hgap2 : dtf + ((r.date - dtf).toNat : Int) = r.date := by omega
    have hge' : ∀ x ∈ rs, r.date + 1 ≤ x.date := fun x hx => by have := hlt x hx; omega
    have hend := fillLoop_end (r.date + 1) rs hs' hge'
    simp only [fillLoop, hgap, lookupLast_append, lookupLast, ih (r.date + 1) hs' hge',
      lookupLast_zerosFrom]
    cases h : lookupLast rs d with
    | some v => simp
    | none =>
      simp only
      rw [hgap2]
      have he := hend.1
      by_cases h1 : r.date + 1 ≤ d ∧ d < (fillLoop (r.date + 1) rs).2
      · have h4 : dtf ≤ d ∧ d < (fillLoop (r.date + 1) rs).2 := by omega
        have h5 : ¬ r.date = d := by omega
        simp [h1, h4, h5]
      · simp only [h1, if_false]
        by_cases h2 : r.date = d
        · have h4 : dtf ≤ d ∧ d < (fillLoop (r.date + 1) rs).2 := by omega
          simp [h2]
        · simp only [h2, if_false]
          by_cases h3 : dtf ≤ d ∧ d < r.date
          · have h4 : dtf ≤ d ∧ d < (fillLoop (r.date + 1) rs).2 := by omega
            simp [h3, h4]
          · have h4 : ¬ (dtf ≤ d ∧ d < (fillLoop (r.date + 1) rs).2) := by omega
            simp [h3, h4]

theorem lookupLast_tailFill (c : Cal) (hc : c.OK) (y : Int) (n : Nat) (dtf : Int)
    (h0 : c.yearStart y ≤ dtf) (d : Int) :
    lookupLast (tailFill c y n dtf) d =
      if dtf ≤ d ∧ d < dtf + n ∧ d < c.yearStart (y + 1) then some 0 else none := by
  induction n generalizing dtf with
  | zero =>
    have : ¬ (dtf ≤ d ∧ d < dtf + ((0 : Nat) : Int) ∧ d < c.yearStart (y + 1)) := by omega
    simp only [tailFill, lookupLast, this, if_false]
  | succ n ih =>
    simp only [tailFill]
    by_cases hy : c.yearOf dtf = y
    · have hb := (hc dtf y).mp hy
      simp only [hy, if_true, lookupLast, ih (dtf + 1) (by omega)]
      by_cases h1 : dtf + 1 ≤ d ∧ d < dtf + 1 + (n : Int) ∧ d < c.yearStart (y + 1)
      · have h2 : dtf ≤ d ∧ d < dtf + ((n + 1 : Nat) : Int) ∧ d < c.yearStart (y + 1) := by omega
        rw [if_pos h1, if_pos h2]
      · rw [if_neg h1]
        by_cases h3 : dtf = d
        · subst h3
          have h2 : dtf ≤ dtf ∧ dtf < dtf + ((n + 1 : Nat) : Int) ∧ dtf < c.yearStart (y + 1) := by omega
          rw [if_pos h2]; simp
        · have h2 : ¬ (dtf ≤ d ∧ d < dtf + ((n + 1 : Nat) : Int) ∧ d < c.yearStart (y + 1)) := by omega
          rw [if_neg h2]; simp [h3]
    · have hb : ¬ (c.yearStart y ≤ dtf ∧ dtf < c.yearStart (y + 1)) := fun h => hy ((hc dtf y).mpr h)
      have h2 : ¬ (dtf ≤ d ∧ d < dtf + ((n + 1 : Nat) : Int) ∧ d < c.yearStart (y + 1)) := by omega
      simp only [hy, if_false, lookupLast, h2]

/-- **Look-up in a freshly downloaded year.**  For a day `d` of year `y`: the published rate if the
    remote list has one; otherwise a zero placeholder if `d` is before today (or before the last
    published day); otherwise nothing. -/
theorem lookupLast_fillUnknown (c : Cal) (hc : c.OK) (today y : Int) (l : List DailyRate)
    (hs : Sorted l) (hy : ∀ x ∈ l, c.yearOf x.date = y) (d : Int) (hd : c.yearOf d = y) :
    lookupLast (fillUnknown c today l y) d =
      match lookupLast l d with
      | some r => some r
      | none => if d < today ∨ d < (fillLoop (c.yearStart y) l).2 then some 0 else none := by
  have hge : ∀ x ∈ l, c.yearStart y ≤ x.date := fun x hx => ((hc _ _).mp (hy x hx)).1
  have hend := fillLoop_end (c.yearStart y) l hs hge
  have hdb := (hc d y).mp hd
  have hle : (fillLoop (c.yearStart y) l).2 ≤ c.yearStart (y + 1) := by
    rcases hend.2.2 with h | ⟨x, hx, h⟩
    · omega
    · have := ((hc _ _).mp (hy x hx)).2; omega
  simp only [fillUnknown, lookupLast_append, lookupLast_tailFill c hc y _ _ hend.1,
    lookupLast_fillLoop _ _ hs hge]
  cases h : lookupLast l d with
  | some r =>
    have hm := lookupLast_some_mem h
    have := hend.2.1 _ hm
    have h2 : ¬ ((fillLoop (c.yearStart y) l).2 ≤ d ∧
      d < (fillLoop (c.yearStart y) l).2 + ((today - (fillLoop (c.yearStart y) l).2).toNat : Int) ∧
      d < c.yearStart (y + 1)) := by simp only at this; omega
    rw [if_neg h2]
  | none =>
    simp only
    by_cases h1 : (fillLoop (c.yearStart y) l).2 ≤ d ∧
      d < (fillLoop (c.yearStart y) l).2 + ((today - (fillLoop (c.yearStart y) l).2).toNat : Int) ∧
      d < c.yearStart (y + 1)
    · have h3 : d < today ∨ d < (fillLoop (c.yearStart y) l).2 := by omega
      rw [if_pos h1, if_pos h3]
    · rw [if_neg h1]
      by_cases h2 : c.yearStart y ≤ d ∧ d < (fillLoop (c.yearStart y) l).2
      · have h3 : d < today ∨ d < (fillLoop (c.yearStart y) l).2 := by omega
        rw [if_pos h2, if_pos h3]
      · have h3 : ¬ (d < today ∨ d < (fillLoop (c.yearStart y) l).2) := by omega
        rw [if_neg h2, if_neg h3]

/-- Same, when the remote list has no day after today: exactly the days before today are known. -/
theorem lookupLast_fillUnknown_wf (c : Cal) (hc : c.OK) (today y : Int) (l : List DailyRate)
    (hs : Sorted l) (hy : ∀ x ∈ l, c.yearOf x.date = y) (hnf : ∀ x ∈ l, x.date ≤ today)
    (d : Int) (hd : c.yearOf d = y) :
    lookupLast (fillUnknown c today l y) d =
      match lookupLast l d with
      | some r => some r
      | none => if d < today then some 0 else none := by
  rw [lookupLast_fillUnknown c hc today y l hs hy d hd]
  cases h : lookupLast l d with
  | some r => rfl
  | none =>
    simp only
    have hge : ∀ x ∈ l, c.yearStart y ≤ x.date := fun x hx => ((hc _ _).mp (hy x hx)).1
    have hend := fillLoop_end (c.yearStart y) l hs hge
    have hdb := (hc d y).mp hd
    have hne := (lookupLast_none_iff l d).mp h
    have : d < (fillLoop (c.yearStart y) l).2 → d < today := by
      intro hlt
      rcases hend.2.2 with h | ⟨x, hx, h⟩
      · omega
      · have h1 := hnf x hx
        have h2 := hne x hx
        omega
    by_cases h1 : d < today
    · rw [if_pos (Or.inl h1), if_pos h1]
    · have h2 : ¬ (d < today ∨ d < (fillLoop (c.yearStart y) l).2) := by
        intro hh; rcases hh with hh | hh
        · exact h1 hh
        · exact h1 (this hh)
      rw [if_neg h2, if_neg h1]

end Acb.Fx
