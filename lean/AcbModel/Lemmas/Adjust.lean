/-
  Money conservation (C03), part 2: the automatic SfLA rows generated for a superficial loss add
  up to exactly the denied amount, provided the buyers are non-registered and hold, at the end of
  the window, at least the shares the loss is applied to (i.e. the sale is not flagged
  "potentially over-applied").
-/
import AcbModel.Lemmas.Conserve
namespace Acb

def txAmount (x : Tx) : Rat := match x.act with | .sfla sh ps => sh * ps | _ => 0
def sumAmounts (l : List Tx) : Rat := (l.map txAmount).sum

/-- buyers of a scan all satisfy a predicate that every scanned row's affiliate satisfies -/
theorem scanFwd_buyers {t : Tracker} (Q : Aff → Prop) (lastDay : Int) :
    ∀ (future : List Tx) (s s' : Scan), (∀ x ∈ future, Q x.aff) → (∀ a ∈ s.buyers, Q a) →
      scanFwd t lastDay s future = .ok s' → ∀ a ∈ s'.buyers, Q a := by
  intro future
  induction future with
  | nil => intro s s' _ hb h; simp [scanFwd] at h; subst h; exact hb
  | cons x rest ih =>
    intro s s' hq hb h
    have hqx := hq x (by simp)
    have hqr : ∀ y ∈ rest, Q y.aff := fun y hy => hq y (by simp [hy])
    unfold scanFwd at h
    split at h
    · simp only [Except.ok.injEq] at h; subst h; exact hb
    · simp only at h
      split at h
      · apply ih _ _ hqr _ h
        intro a ha
        simp only [mem_insertAff] at ha
        rcases ha with ha | rfl
        · exact hb a ha
        · exact hqx
      · split at h
        · cases h
        · split at h
          · cases h
          · exact ih _ _ hqr (by simpa using hb) h
      · exact ih _ _ hqr (by simpa using hb) h
      · exact ih _ _ hqr hb h

theorem scanBwd_buyers {t : Tracker} (Q : Aff → Prop) (firstDay : Int) :
    ∀ (past : List Tx) (s : Scan), (∀ x ∈ past, Q x.aff) → (∀ a ∈ s.buyers, Q a) →
      ∀ a ∈ (scanBwd t firstDay s past).buyers, Q a := by
  intro past
  induction past with
  | nil => intro s _ hb; simpa [scanBwd] using hb
  | cons x rest ih =>
    intro s hq hb
    have hqx := hq x (by simp)
    have hqr : ∀ y ∈ rest, Q y.aff := fun y hy => hq y (by simp [hy])
    unfold scanBwd
    split
    · exact hb
    · simp only
      split
      · apply ih _ hqr
        intro a ha
        simp only [mem_insertAff] at ha
        rcases ha with ha | rfl
        · exact hb a ha
        · exact hqx
      · exact ih _ hqr hb
      · exact ih _ hqr hb

theorem sflInfo_buyers {t : Tracker} (Q : Aff → Prop) {seller : Aff} {settle : Int} {sold : Rat}
    {past future : List Tx} (hp : ∀ x ∈ past, Q x.aff) (hf : ∀ x ∈ future, Q x.aff) {i : SliInfo}
    (h : sflInfo t seller settle sold past future = .ok (some i)) : ∀ a ∈ i.buyers, Q a := by
  unfold sflInfo at h
  simp only at h
  split at h
  · cases h
  · split at h
    · cases h
    · split at h
      · cases h
      · rename_i s1 hs1
        have hb1 := scanFwd_buyers Q _ future _ s1 hf (by simp [initScan]) hs1
        split at h
        · cases h
        · split at h
          · simp only [Except.ok.injEq, Option.some.injEq] at h; subst h
            exact scanBwd_buyers Q _ past _ hp hb1
          · cases h

/-- sum of the numerators of the portions = buyers' total -/
theorem portionsOf_sum {active : Aff → Option Rat} {tot : Rat} :
    ∀ (l : List Aff) (r : List (Aff × Rat × Rat)), portionsOf active tot l = .ok r →
      (r.map (fun p => p.2.1)).sum = sumOver l (fun a => (active a).getD 0) ∧
      (∀ p ∈ r, p.2.2 = tot ∧ p.1 ∈ l) := by
  intro l
  induction l with
  | nil => intro r h; simp [portionsOf] at h; subst h; simp
  | cons a as ih =>
    intro r h
    unfold portionsOf at h
    split at h
    · cases h
    · rename_i v hv
      split at h
      · cases h
      · rename_i r0 hr0
        simp only [Except.ok.injEq] at h; subst h
        obtain ⟨h1, h2⟩ := ih r0 hr0
        refine ⟨by simp [h1, hv], ?_⟩
        intro p hp
        simp only [List.mem_cons] at hp
        rcases hp with rfl | hp
        · exact ⟨rfl, by simp⟩
        · exact ⟨(h2 p hp).1, by simp [(h2 p hp).2]⟩

theorem sum_insertByKey (f : Aff × Rat × Rat → Rat) (x : Aff × Rat × Rat) (l : List (Aff × Rat × Rat)) :
    ((insertByKey x l).map f).sum = f x + (l.map f).sum := by
  induction l with
  | nil => simp [insertByKey]
  | cons y ys ih =>
    unfold insertByKey
    split
    · simp
    · simp only [List.map_cons, List.sum_cons, ih]; grind

theorem sum_sortByKey (f : Aff × Rat × Rat → Rat) (l : List (Aff × Rat × Rat)) :
    ((sortByKey l).map f).sum = (l.map f).sum := by
  unfold sortByKey
  induction l with
  | nil => simp
  | cons y ys ih => simp only [List.foldr_cons, sum_insertByKey, ih, List.map_cons, List.sum_cons]

/-- The amounts of the generated SfLA rows: `(-c)·(n/d)` per non-registered buyer with a
    non-zero share. -/
theorem adjustTxs_sum {tx : Tx} {c : Rat} (hc : c < 0) :
    ∀ (l : List (Aff × Rat × Rat)) (r : List Tx), adjustTxs tx c l = .ok r →
      (∀ p ∈ l, p.1.registered = false ∧ 0 ≤ p.2.1 ∧ 0 < p.2.2) →
      sumAmounts r = (l.map (fun p => (-c) * (p.2.1 / p.2.2))).sum := by
  intro l
  induction l with
  | nil => intro r h _; simp [adjustTxs] at h; subst h; simp [sumAmounts]
  | cons p ps ih =>
    intro r h hp
    obtain ⟨af, n, d⟩ := p
    obtain ⟨hreg, hn, hd⟩ := hp (af, n, d) (by simp)
    unfold adjustTxs at h
    split at h
    · cases h
    · rename_i r0 hr0
      have ih' := ih r0 hr0 (fun q hq => hp q (by simp [hq]))
      split at h
      · simp only [Except.ok.injEq] at h; subst h
        simp only [sumAmounts, List.map_cons, List.sum_cons, txAmount] at ih' ⊢
        rw [ih']; grind
      · rename_i hno
        simp only [Except.ok.injEq] at h; subst h
        simp only [List.map_cons, List.sum_cons]
        rw [ih']
        -- the skipped term is zero
        have hz : (-c) * (n / d) = 0 := by
          have h0 : 0 ≤ n / d := div_nonneg' hn hd
          have : ¬ (0 < (-c) * (n / d)) := by
            intro hpos; exact hno ⟨by simpa using hreg, hpos⟩
          have hge : 0 ≤ (-c) * (n / d) := Rat.mul_nonneg (by grind) h0
          grind
        rw [hz]; grind

theorem sum_map_mul_div (l : List (Aff × Rat × Rat)) (k tot : Rat) (hd : ∀ p ∈ l, p.2.2 = tot) :
    (l.map (fun p => k * (p.2.1 / p.2.2))).sum = k * ((l.map (fun p => p.2.1)).sum / tot) := by
  induction l with
  | nil => simp; grind
  | cons p ps ih =>
    simp only [List.map_cons, List.sum_cons]
    rw [ih (fun q hq => hd q (by simp [hq])), hd p (by simp)]
    grind

end Acb

namespace Acb

theorem calcRatio_shape {sold : Rat} {i : SliInfo} {r : SflRatio} (h : calcRatio sold i = .ok r) :
    r.num = min3 sold i.acquired i.allEop ∧ r.over = decide (buyersTotal i < r.num) ∧
    (0 < buyersTotal i → portionsOf i.active (buyersTotal i) i.buyers = .ok r.portions) := by
  unfold calcRatio at h
  simp only at h
  split at h
  · cases h
  · split at h
    · cases h
    · rename_i portions hp
      simp only [Except.ok.injEq] at h; subst h
      refine ⟨rfl, rfl, ?_⟩
      intro htot
      simp only [htot, if_true] at hp
      exact hp

/-- **The automatic adjustments add up to the denied loss.**  With no manual superficial-loss
    entry, non-registered buyers and a sale not flagged "potentially over-applied", the SfLA rows
    generated for the sale total exactly `-info.loss`. -/
theorem deltaSflInfo_balanced {t : Tracker} (hb : ∀ a, 0 ≤ t.bal a) {tx : Tx} {sold : Rat} (hs : 0 < sold)
    {loss : Rat} {past future : List Tx}
    (hvp : ∀ x ∈ past, x.Valid) (hvf : ∀ x ∈ future, x.Valid)
    (hqp : ∀ x ∈ past, x.aff.registered = false) (hqf : ∀ x ∈ future, x.aff.registered = false)
    {info : SflInfo} {adj : List Tx}
    (h : deltaSflInfo t tx sold none loss past future = .ok (some (info, adj))) :
    info.over = true ∨ sumAmounts adj = - info.loss := by
  unfold deltaSflInfo sflRatio at h
  obtain ⟨_, hok⟩ := sflInfo_ok (t := t) hb (seller := tx.aff) (settle := tx.settle) (sold := sold) hvp hvf
  cases hsi : sflInfo t tx.aff tx.settle sold past future with
  | error f' => simp only [hsi] at h; cases h
  | ok oi =>
    cases oi with
    | none => simp only [hsi] at h; cases h
    | some i =>
      have hio := hok i hsi
      have hbuyers := sflInfo_buyers (fun a => a.registered = false) hqp hqf hsi
      obtain ⟨r, hr, hro⟩ := calcRatio_ok hs hio
      obtain ⟨hnum, hover, hport⟩ := calcRatio_shape hr
      simp only [hsi, hr] at h
      split at h
      · cases h
      · rename_i hneg
        split at h
        · cases h
        · rename_i adj0 hadj
          simp only [Except.ok.injEq, Option.some.injEq, Prod.mk.injEq] at h
          obtain ⟨h1, h2⟩ := h
          subst h1; subst h2
          simp only
          by_cases hov : r.over = true
          · exact Or.inl hov
          · right
            have hge : ¬ (buyersTotal i < r.num) := by
              rw [hover] at hov; simpa using hov
            have htot : 0 < buyersTotal i := by have := hro.numPos; grind
            have hp := hport htot
            obtain ⟨hsum, hmem⟩ := portionsOf_sum i.buyers r.portions hp
            have hc : effCent (loss * (r.num / r.den)) < 0 := by simpa using hneg
            have hall : ∀ p ∈ sortByKey r.portions, p.1.registered = false ∧ 0 ≤ p.2.1 ∧ 0 < p.2.2 := by
              intro p hp'
              have hp'' := mem_sortByKey.mp hp'
              obtain ⟨hd, hin⟩ := hmem p hp''
              exact ⟨hbuyers p.1 hin, (hro.portions p hp'').1, by rw [hd]; exact htot⟩
            rw [adjustTxs_sum hc _ _ hadj hall]
            rw [sum_map_mul_div _ _ (buyersTotal i) (fun p hp' => (hmem p (mem_sortByKey.mp hp')).1)]
            rw [sum_sortByKey (fun p => p.2.1), hsum]
            have : sumOver i.buyers (fun a => (i.active a).getD 0) = buyersTotal i := rfl
            rw [this]
            have hne : buyersTotal i ≠ 0 := by grind
            have : buyersTotal i / buyersTotal i = 1 := by grind
            rw [this]; grind

end Acb
