/-
  Split neutrality (C15), part 7: the loop before the inserted split, and the assembly.
-/
import AcbModel.Lemmas.Scale6
namespace Acb

theorem sflInfo_congr_future {t : Tracker} {seller : Aff} {settle : Int} {sold : Rat} {past fa fb : List Tx}
    (h : ∀ lastDay s, ResEqModAdj (scanFwd t lastDay s fa) (scanFwd t lastDay s fb)) :
    sflInfo t seller settle sold past fb = sflInfo t seller settle sold past fa := by
  unfold sflInfo
  simp only
  have := h (settle + Gen.sflWindowAfterDays) (initScan t seller sold)
  generalize scanFwd t (settle + Gen.sflWindowAfterDays) (initScan t seller sold) fa = A at this ⊢
  generalize scanFwd t (settle + Gen.sflWindowAfterDays) (initScan t seller sold) fb = B at this ⊢
  cases A with
  | error e =>
    cases B with
    | error e' => simp only [ResEqModAdj] at this; simp [this]
    | ok _ => simp [ResEqModAdj] at this
  | ok s1 =>
    cases B with
    | error e' => simp [ResEqModAdj] at this
    | ok s1' =>
      simp only [ResEqModAdj] at this
      have e : ({ s1' with adj := fun _ => 1 } : Scan) = { s1 with adj := fun _ => 1 } := by
        cases s1; cases s1'
        obtain ⟨h1, h2, h3, h4⟩ := this
        simp only at h1 h2 h3 h4
        simp [h1, h2, h3, h4]
      simp only [this.allEop, this.acquired, this.buyers, this.active]

theorem stepRow_congr_future {t : Tracker} {x : Tx} {past fa fb : List Tx}
    (h : ∀ seller settle sold, sflInfo t seller settle sold past fb = sflInfo t seller settle sold past fa) :
    stepRow t x past fb = stepRow t x past fa := by
  simp only [stepRow, deltaForTx, arm, armSell, deltaSflInfo, sflRatio, h]

theorem stepRow_sfla_future {t : Tracker} {x : Tx} (hx : IsSflaRow x) (past fa fb : List Tx) :
    stepRow t x past fb = stepRow t x past fa := by
  obtain ⟨sh, ps, hx⟩ := hx
  simp only [stepRow, deltaForTx, arm, hx]

theorem runInjected_future :
    ∀ (inj : List Tx), (∀ x ∈ inj, IsSflaRow x) → ∀ (t : Tracker) (past : List Tx) (acc : List Delta) (fa fb : List Tx),
      runInjected t past acc inj fb = runInjected t past acc inj fa := by
  intro inj
  induction inj with
  | nil => intro _ t past acc fa fb; simp [runInjected]
  | cons x xs ih =>
    intro h t past acc fa fb
    rw [runInjected, runInjected, stepRow_sfla_future (h x (by simp)) past (xs ++ fa) (xs ++ fb)]
    split
    · rfl
    · exact ih (fun y hy => h y (by simp [hy])) _ _ _ _ _

end Acb

namespace Acb

structure Inv1 (As : List Aff) (t : Tracker) : Prop where
  wf : ∃ bs, WfInv t bs
  sum : SumInv As t

theorem Inv1.ready {As : List Aff} {t : Tracker} (h : Inv1 As t) : Ready As t := by
  obtain ⟨bs, _, U, hw⟩ := h.wf
  exact ⟨h.sum, hw.bal_nonneg, hw.reg⟩

def RowOk (As : List Aff) (day : Int) (y : Tx) : Prop := y.Valid ∧ y.aff ∈ As ∧ y.settle ≤ day

theorem stepRow_inv1 {As : List Aff} (hn : As.Nodup) {t t' : Tracker} (h : Inv1 As t) {tx : Tx} (hv : tx.Valid)
    (ha : tx.aff ∈ As) {past future : List Tx} (hvp : ∀ x ∈ past, x.Valid) (hvf : ∀ x ∈ future, x.Valid)
    {d : Delta} {inj : List Tx} (hs : stepRow t tx past future = .ok (d, t', inj)) :
    Inv1 As t' ∧ ∀ x ∈ inj, x.Valid := by
  obtain ⟨bs, hw⟩ := h.wf
  obtain ⟨_, _, hi', hg⟩ := wfStepSpec.ok hw hv hvp hvf hs
  exact ⟨⟨⟨_, hi'⟩, h.sum.setLatest hn ha (stepRow_setLatest hs)⟩, hg⟩

theorem runInjected_q {As : List Aff} (hn : As.Nodup) (day : Int) :
    ∀ (inj : List Tx), (∀ x ∈ inj, IsSflaRow x ∧ RowOk As day x) →
    ∀ (t : Tracker) (past : List Tx) (acc : List Delta) (fa : List Tx), Inv1 As t →
      (∀ y ∈ past, RowOk As day y) → (∀ y ∈ fa, y.Valid) →
      match runInjected t past acc inj fa with
      | .inl (t2, past2, acc2) => Inv1 As t2 ∧ (∀ y ∈ past2, RowOk As day y) ∧ ∃ out, acc2 = acc ++ out
      | .inr (acc2, _) => ∃ out, acc2 = acc ++ out := by
  intro inj
  induction inj with
  | nil =>
    intro _ t past acc fa hi hp _
    simp only [runInjected]
    exact ⟨hi, hp, [], by simp⟩
  | cons x xs ih =>
    intro hinj t past acc fa hi hp hfa
    obtain ⟨hxs, hxok⟩ := hinj x (by simp)
    have hinj' : ∀ y ∈ xs, IsSflaRow y ∧ RowOk As day y := fun y hy => hinj y (by simp [hy])
    rw [runInjected]
    cases hstep : stepRow t x past (xs ++ fa) with
    | error e => simp only; exact ⟨[], by simp⟩
    | ok r =>
      obtain ⟨d, t1, injd⟩ := r
      simp only
      have hvf : ∀ y ∈ xs ++ fa, y.Valid := by
        intro y hy; simp only [List.mem_append] at hy
        rcases hy with hy | hy
        · exact (hinj' y hy).2.1
        · exact hfa y hy
      obtain ⟨hi1, _⟩ := stepRow_inv1 hn hi hxok.1 hxok.2.1 (fun y hy => (hp y hy).1) hvf hstep
      have hp1 : ∀ y ∈ x :: past, RowOk As day y := by
        intro y hy; simp only [List.mem_cons] at hy
        rcases hy with rfl | hy
        · exact hxok
        · exact hp y hy
      have := ih hinj' t1 (x :: past) (acc ++ [d]) fa hi1 hp1 hfa
      generalize runInjected t1 (x :: past) (acc ++ [d]) xs fa = R at this ⊢
      cases R with
      | inl a =>
        obtain ⟨t2, past2, acc2⟩ := a
        simp only at this ⊢
        obtain ⟨h1, h2, out, h3⟩ := this
        exact ⟨h1, h2, d :: out, by simp [h3]⟩
      | inr b =>
        obtain ⟨acc2, e⟩ := b
        simp only at this ⊢
        obtain ⟨out, h3⟩ := this
        exact ⟨d :: out, by simp [h3]⟩

/-- **Phase 1: the rows before the inserted split** produce the same deltas, trackers and failures
    in both runs. -/
theorem deltaLoop_q {As : List Aff} (hn : As.Nodup) (day : Int) (idx : Nat) (post pre : Rat)
    (hf : 0 < splitFactor post pre) (r : List Tx) (hr : ∀ x ∈ r, x.Valid ∧ x.aff ∈ As ∧ day ≤ x.settle) :
    ∀ (q : List Tx), (∀ x ∈ q, RowOk As day x) →
    ∀ (t : Tracker) (past : List Tx) (acc : List Delta), Inv1 As t → (∀ y ∈ past, RowOk As day y) →
      (∃ t2 past2 dq, Inv1 As t2 ∧ (∀ y ∈ past2, RowOk As day y) ∧
        deltaLoop t past acc (q ++ r) = deltaLoop t2 past2 (acc ++ dq) r ∧
        deltaLoop t past acc (q ++ (splitRows day idx post pre As ++ r.map (restateTx (splitFactor post pre)))) =
          deltaLoop t2 past2 (acc ++ dq) (splitRows day idx post pre As ++ r.map (restateTx (splitFactor post pre)))) ∨
      (∃ dq e, deltaLoop t past acc (q ++ r) = (acc ++ dq, some e) ∧
        deltaLoop t past acc (q ++ (splitRows day idx post pre As ++ r.map (restateTx (splitFactor post pre)))) =
          (acc ++ dq, some e)) := by
  intro q
  induction q with
  | nil =>
    intro _ t past acc hi hp
    left
    exact ⟨t, past, [], hi, hp, by simp, by simp⟩
  | cons x qs ih =>
    intro hq t past acc hi hp
    have hxok := hq x (by simp)
    have hq' : ∀ y ∈ qs, RowOk As day y := fun y hy => hq y (by simp [hy])
    have hmix : ∀ lastDay s, ResEqModAdj (scanFwd t lastDay s (qs ++ r))
        (scanFwd t lastDay s (qs ++ (splitRows day idx post pre As ++ r.map (restateTx (splitFactor post pre))))) := by
      intro lastDay s
      rw [← List.append_assoc]
      exact scanFwd_mixed lastDay day idx post pre hf As hn r (fun y hy => ⟨(hr y hy).2.1, (hr y hy).2.2⟩) qs s
    have hsame : stepRow t x past (qs ++ (splitRows day idx post pre As ++ r.map (restateTx (splitFactor post pre)))) =
        stepRow t x past (qs ++ r) :=
      stepRow_congr_future (fun seller settle sold => sflInfo_congr_future hmix)
    simp only [List.cons_append]
    rw [deltaLoop, deltaLoop, hsame]
    cases hstep : stepRow t x past (qs ++ r) with
    | error e => right; exact ⟨[], e, by simp, by simp⟩
    | ok res =>
      obtain ⟨d, t1, inj⟩ := res
      simp only
      have hvf : ∀ y ∈ qs ++ r, y.Valid := by
        intro y hy; simp only [List.mem_append] at hy
        rcases hy with hy | hy
        · exact (hq' y hy).1
        · exact (hr y hy).1
      have haf : ∀ y ∈ qs ++ r, y.aff ∈ As := by
        intro y hy; simp only [List.mem_append] at hy
        rcases hy with hy | hy
        · exact (hq' y hy).2.1
        · exact (hr y hy).2.1
      obtain ⟨hi1, hinjv⟩ := stepRow_inv1 hn hi hxok.1 hxok.2.1 (fun y hy => (hp y hy).1) hvf hstep
      have hinj : ∀ y ∈ inj, IsSflaRow y ∧ RowOk As day y := by
        intro y hy
        obtain ⟨h1, h2⟩ := stepRow_inj_props (· ∈ As) (fun z hz => (hp z hz).2.1) haf hstep y hy
        exact ⟨stepRow_inj hstep y hy, hinjv y hy, h1, by rw [h2]; exact hxok.2.2⟩
      have hp1 : ∀ y ∈ x :: past, RowOk As day y := by
        intro y hy; simp only [List.mem_cons] at hy
        rcases hy with rfl | hy
        · exact hxok
        · exact hp y hy
      rw [runInjected_future inj (fun y hy => (hinj y hy).1) t1 (x :: past) (acc ++ [d]) (qs ++ r)
        (qs ++ (splitRows day idx post pre As ++ r.map (restateTx (splitFactor post pre))))]
      have hR := runInjected_q hn day inj hinj t1 (x :: past) (acc ++ [d]) (qs ++ r) hi1 hp1 hvf
      generalize runInjected t1 (x :: past) (acc ++ [d]) inj (qs ++ r) = R at hR ⊢
      cases R with
      | inl a =>
        obtain ⟨t2, past2, acc2⟩ := a
        simp only at hR ⊢
        obtain ⟨hi2, hp2, out, hacc⟩ := hR
        subst hacc
        rcases ih hq' t2 past2 (acc ++ [d] ++ out) hi2 hp2 with ⟨t3, past3, dq, h1, h2, h3, h4⟩ | ⟨dq, e, h3, h4⟩
        · left
          refine ⟨t3, past3, d :: (out ++ dq), h1, h2, ?_, ?_⟩
          · rw [h3]; simp
          · rw [h4]; simp
        · right
          refine ⟨d :: (out ++ dq), e, ?_, ?_⟩
          · rw [h3]; simp
          · rw [h4]; simp
      | inr b =>
        obtain ⟨acc2, e⟩ := b
        simp only at hR ⊢
        obtain ⟨out, hacc⟩ := hR
        subst hacc
        right
        exact ⟨d :: out, e, by simp, by simp⟩

end Acb

namespace Acb

theorem sumOver_zero (l : List Aff) : sumOver l (fun _ => (0 : Rat)) = 0 := by
  induction l with
  | nil => simp
  | cons a as ih => simp only [sumOver_cons, ih]; grind

theorem Tracker.new_sumInv {As : List Aff} (hn : As.Nodup) {dflt : Aff} {init : Option Status} {t : Tracker}
    (hd : init ≠ none → dflt ∈ As) (h : Tracker.new dflt init = .ok t) : SumInv As t := by
  have h0 : SumInv As { m := fun _ => none, latestAll := 0, latestAff := dflt } := by
    refine ⟨fun a _ => by simp [Tracker.bal], ?_, by simp [Tracker.latestPostAll]⟩
    have : (Tracker.bal { m := fun _ => none, latestAll := 0, latestAff := dflt }) = fun _ => (0 : Rat) := by
      funext a; simp [Tracker.bal]
    rw [this, sumOver_zero]
  unfold Tracker.new at h
  cases init with
  | none => simp only [Except.ok.injEq] at h; subst h; exact h0
  | some st =>
    simp only at h
    split at h
    · exact h0.setLatest hn (hd (by simp)) h
    · cases h

theorem deltaList_eq_loop {dflt : Aff} {init : Option Status} {t : Tracker} (h : Tracker.new dflt init = .ok t)
    (txs : List Tx) : deltaList dflt init txs = deltaLoop t [] [] txs := by
  unfold deltaList
  cases txs with
  | nil => simp [deltaLoop]
  | cons x xs => simp only [h]

theorem splitRows_reverse (day : Int) (idx : Nat) (post pre : Rat) (L : List Aff) :
    (splitRows day idx post pre L).reverse = splitRows day idx post pre L.reverse := by
  unfold splitRows; rw [List.map_reverse]

theorem nodup_reverse_aff {l : List Aff} (h : l.Nodup) : l.reverse.Nodup := by
  unfold List.Nodup at *
  rw [List.pairwise_reverse]
  exact h.imp (fun h => Ne.symm h)

end Acb
