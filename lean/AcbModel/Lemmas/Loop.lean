/-
  Loop invariant of `txs_to_delta_list`: the tracker refines the per-affiliate books of `Spec`,
  and every emitted delta conforms to the average-cost rules.
-/
import AcbModel.Lemmas.Step
namespace Acb
open Spec

/-- A row is acceptable to the one-row lemmas when a sale sells a positive number of shares
    (guaranteed by `PosDecimal`; injected SfLA rows satisfy it trivially). -/
def SellPos (tx : Tx) : Prop :=
  ∀ sh px comm rate crate spec, tx.act = .sell sh px comm rate crate spec → 0 < sh

theorem SellPos_of_valid {tx : Tx} (h : tx.Valid) : SellPos tx := by
  intro sh px comm rate crate spec hact
  unfold Tx.Valid at h; rw [hact] at h; exact h.1

theorem arm_spec' {t : Tracker} {tx : Tx} {pre : Status} {past future : List Tx} {o : ArmOut}
    (hv : SellPos tx) (h : arm t tx pre past future = .ok o) :
    bookOf o.post = stepBook (bookOf pre) tx.act ∧
    o.gain = (gain0 (bookOf pre) tx.act).map (fun g => g - sflLoss o.sfl) := by
  unfold arm at h
  split at h
  · rename_i sh px comm rate crate hact
    simp only [Except.ok.injEq] at h; subst h
    rw [hact]
    have := armBuy_spec pre sh px comm rate crate
    simp [this.1, this.2, gain0]
  · rename_i sh px comm rate crate spec hact
    rw [hact]
    exact armSell_spec (hv _ _ _ _ _ _ hact) h
  · rename_i ps rate hact
    rw [hact]
    have := armRoc_spec h
    simp [this.1, this.2.1, gain0]
  · rename_i sh ps hact
    rw [hact]
    have := armSfla_spec h
    simp [this.1, this.2.1, gain0]
  · rename_i post pre' io hact
    rw [hact]
    have := armSplit_spec h
    simp [this.1, this.2.1, gain0]

/-- The tracker holds, for every affiliate, exactly the book `Spec` prescribes. -/
def TrackerRefines (t : Tracker) (bs : Books) : Prop :=
  ∀ a, bookOf ((t.m a).getD (defaultStatus a)) = bs a

theorem nextPre_book (t : Tracker) (a : Aff) :
    bookOf (t.nextPre a) = bookOf ((t.m a).getD (defaultStatus a)) := by
  unfold Tracker.nextPre
  simp only
  split <;> simp [bookOf]

theorem setLatest_refines {t t' : Tracker} {bs : Books} {tx : Tx} {v : Status}
    (hr : TrackerRefines t bs) (h : t.setLatest tx.aff v = .ok t')
    (hb : bookOf v = stepBook (bs tx.aff) tx.act) : TrackerRefines t' (stepBooks bs tx) := by
  unfold Tracker.setLatest at h
  simp only at h
  split at h
  · split at h
    · simp only [Except.ok.injEq] at h; subst h
      intro a
      unfold stepBooks upd
      by_cases ha : a = tx.aff
      · simp [ha, hb]
      · simp [ha]; exact hr a
    · cases h
  · cases h

/-- Each delta's pre/post status and gain are what the average-cost rules give, starting
    from books `bs` and stepping through the deltas' own rows. -/
def Conforms : Books → List Delta → Prop
  | _, [] => True
  | bs, d :: ds =>
    bookOf d.pre = bs d.tx.aff ∧
    bookOf d.post = stepBook (bs d.tx.aff) d.tx.act ∧
    d.gain = (gain0 (bs d.tx.aff) d.tx.act).map (fun g => g - sflLoss d.sfl) ∧
    Conforms (stepBooks bs d.tx) ds

theorem Conforms_append {bs : Books} {l1 l2 : List Delta} :
    Conforms bs (l1 ++ l2) ↔ Conforms bs l1 ∧ Conforms (after bs (l1.map (·.tx))) l2 := by
  induction l1 generalizing bs with
  | nil => simp [Conforms, after]
  | cons d ds ih =>
    simp only [List.cons_append, Conforms, List.map_cons, after, List.foldl_cons]
    rw [ih]
    simp only [after]
    constructor
    · rintro ⟨h1, h2, h3, h4, h5⟩; exact ⟨⟨h1, h2, h3, h4⟩, h5⟩
    · rintro ⟨⟨h1, h2, h3, h4⟩, h5⟩; exact ⟨h1, h2, h3, h4, h5⟩

theorem stepRow_conforms {t t' : Tracker} {bs : Books} {tx : Tx} {past future : List Tx}
    {d : Delta} {inj : List Tx} (hv : SellPos tx) (hr : TrackerRefines t bs)
    (h : stepRow t tx past future = .ok (d, t', inj)) :
    d.tx = tx ∧ Conforms bs [d] ∧ TrackerRefines t' (stepBooks bs tx) := by
  unfold stepRow at h
  split at h
  · cases h
  · rename_i d0 inj0 hd
    split at h
    · cases h
    · rename_i t0 hs
      simp only [Except.ok.injEq, Prod.mk.injEq] at h
      obtain ⟨h1, h2, h3⟩ := h
      subst h1; subst h2
      obtain ⟨htx, hpre, _, o, ho, hpost, hgain, hsfl, _⟩ := deltaForTx_shape hd
      have hspec := arm_spec' hv ho
      have hpb : bookOf (t.nextPre tx.aff) = bs tx.aff := by rw [nextPre_book]; exact hr tx.aff
      rw [hpb] at hspec
      refine ⟨htx, ?_, ?_⟩
      · simp only [Conforms, htx, hpre, hpost, hgain, hsfl, hpb, hspec.1, hspec.2, and_self]
      · apply setLatest_refines hr hs
        rw [hpost]; exact hspec.1

end Acb

namespace Acb
open Spec

def IsSfla (x : Tx) : Prop := ∃ sh ps, x.act = .sfla sh ps

theorem IsSfla.sellPos {x : Tx} (h : IsSfla x) : SellPos x := by
  obtain ⟨sh, ps, hx⟩ := h
  intro a b c d e f hact
  rw [hx] at hact; cases hact

theorem adjustTxs_sfla {tx : Tx} {c : Rat} {l : List (Aff × Rat × Rat)} {r : List Tx}
    (h : adjustTxs tx c l = .ok r) : ∀ x ∈ r, IsSfla x := by
  induction l generalizing r with
  | nil => simp [adjustTxs] at h; subst h; simp
  | cons p ps ih =>
    obtain ⟨af, n, d⟩ := p
    unfold adjustTxs at h
    split at h
    · cases h
    · rename_i r0 hr0
      split at h
      · simp only [Except.ok.injEq] at h; subst h
        intro x hx
        simp only [List.mem_cons] at hx
        rcases hx with rfl | hx
        · exact ⟨_, _, rfl⟩
        · exact ih hr0 x hx
      · simp only [Except.ok.injEq] at h; subst h
        exact ih hr0

theorem deltaSflInfo_inj {t : Tracker} {tx : Tx} {sold : Rat} {spec : Option (Rat × Bool)} {loss : Rat}
    {past future : List Tx} {info : SflInfo} {adj : List Tx}
    (h : deltaSflInfo t tx sold spec loss past future = .ok (some (info, adj))) :
    ∀ x ∈ adj, IsSfla x := by
  unfold deltaSflInfo at h
  split at h
  · cases h
  · simp only at h
    split at h
    · cases h
    · split at h
      · split at h
        · cases h
        · split at h
          · simp only [Except.ok.injEq, Option.some.injEq, Prod.mk.injEq] at h
            obtain ⟨_, h2⟩ := h; subst h2; simp
          · cases h
      · split at h
        · cases h
        · split at h
          · cases h
          · split at h
            · cases h
            · rename_i adj0 hadj
              simp only [Except.ok.injEq, Option.some.injEq, Prod.mk.injEq] at h
              obtain ⟨_, h2⟩ := h; subst h2
              exact adjustTxs_sfla hadj

theorem arm_inj {t : Tracker} {tx : Tx} {pre : Status} {past future : List Tx} {o : ArmOut}
    (h : arm t tx pre past future = .ok o) : ∀ x ∈ o.inj, IsSfla x := by
  unfold arm at h
  split at h
  · simp only [Except.ok.injEq] at h; subst h; simp [armBuy]
  · unfold armSell at h
    split at h
    · cases h
    · split at h
      · cases h
      · simp only at h
        split at h
        · split at h
          · cases h
          · simp only [Except.ok.injEq] at h; subst h; simp
        · split at h
          · split at h
            · cases h
            · simp only [Except.ok.injEq] at h; subst h; simp
            · rename_i info adj hd
              simp only [Except.ok.injEq] at h; subst h
              exact deltaSflInfo_inj hd
          · split at h
            · cases h
            · simp only [Except.ok.injEq] at h; subst h; simp
  · unfold armRoc at h
    split at h
    · split at h
      · cases h
      · simp only at h
        split at h
        · cases h
        · simp only [Except.ok.injEq] at h; subst h; simp
    · split at h <;> cases h
  · unfold armSfla at h
    split at h
    · split at h
      · cases h
      · simp only [Except.ok.injEq] at h; subst h; simp
    · split at h <;> cases h
  · unfold armSplit at h
    simp only at h
    split at h
    · cases h
    · split at h
      · cases h
      · simp only [Except.ok.injEq] at h; subst h; simp

theorem stepRow_inj {t t' : Tracker} {tx : Tx} {past future : List Tx} {d : Delta} {inj : List Tx}
    (h : stepRow t tx past future = .ok (d, t', inj)) : ∀ x ∈ inj, IsSfla x := by
  unfold stepRow at h
  split at h
  · cases h
  · rename_i d0 inj0 hd
    split at h
    · cases h
    · simp only [Except.ok.injEq, Prod.mk.injEq] at h
      obtain ⟨_, _, h3⟩ := h
      subst h3
      obtain ⟨_, _, _, o, ho, _, _, _, hinj⟩ := deltaForTx_shape hd
      rw [hinj]; exact arm_inj ho

/-- Output of the injected-row loop: accumulated deltas extended by conforming ones. -/
theorem runInjected_conforms {bs : Books} :
    ∀ (inj : List Tx) (t : Tracker) (past : List Tx) (acc : List Delta) (future : List Tx),
    (∀ x ∈ inj, SellPos x) → TrackerRefines t bs →
    (∃ out t' past', runInjected t past acc inj future = .inl (t', past', acc ++ out) ∧
        Conforms bs out ∧ TrackerRefines t' (after bs (out.map (·.tx)))) ∨
    (∃ out f, runInjected t past acc inj future = .inr (acc ++ out, f) ∧ Conforms bs out) := by
  intro inj
  induction inj generalizing bs with
  | nil =>
    intro t past acc future _ hr
    left
    exact ⟨[], t, past, by simp [runInjected], by simp [Conforms], by simpa [after] using hr⟩
  | cons x xs ih =>
    intro t past acc future hv hr
    unfold runInjected
    split
    · rename_i f hf
      right; exact ⟨[], f, by simp, by simp [Conforms]⟩
    · rename_i d t' inj' hs
      obtain ⟨htx, hc, hr'⟩ := stepRow_conforms (hv x (by simp)) hr hs
      have hv' : ∀ y ∈ xs, SellPos y := fun y hy => hv y (by simp [hy])
      rcases ih (bs := stepBooks bs x) t' (x :: past) (acc ++ [d]) future hv' hr' with
        ⟨out, t'', past', h1, h2, h3⟩ | ⟨out, f, h1, h2⟩
      · left
        refine ⟨d :: out, t'', past', by simpa using h1, ?_, ?_⟩
        · simp only [Conforms] at hc ⊢
          rw [htx] at hc ⊢; exact ⟨hc.1, hc.2.1, hc.2.2.1, h2⟩
        · simpa [after, htx] using h3
      · right
        refine ⟨d :: out, f, by simpa using h1, ?_⟩
        simp only [Conforms] at hc ⊢
        rw [htx] at hc ⊢; exact ⟨hc.1, hc.2.1, hc.2.2.1, h2⟩

theorem deltaLoop_conforms {bs : Books} :
    ∀ (future : List Tx) (t : Tracker) (past : List Tx) (acc : List Delta),
    (∀ x ∈ future, SellPos x) → TrackerRefines t bs →
    ∃ out, (deltaLoop t past acc future).1 = acc ++ out ∧ Conforms bs out := by
  intro future
  induction future generalizing bs with
  | nil => intro t past acc _ _; exact ⟨[], by simp [deltaLoop], by simp [Conforms]⟩
  | cons tx rest ih =>
    intro t past acc hv hr
    unfold deltaLoop
    split
    · exact ⟨[], by simp, by simp [Conforms]⟩
    · rename_i d t' inj hs
      obtain ⟨htx, hc, hr'⟩ := stepRow_conforms (hv tx (by simp)) hr hs
      have hinj : ∀ x ∈ inj, SellPos x := fun x hx => (stepRow_inj hs x hx).sellPos
      have hcd : Conforms bs [d] := hc
      rcases runInjected_conforms (bs := stepBooks bs tx) inj t' (tx :: past) (acc ++ [d]) rest hinj hr' with
        ⟨out, t'', past', h1, h2, h3⟩ | ⟨out, f, h1, h2⟩
      · rw [h1]
        simp only
        have hv' : ∀ y ∈ rest, SellPos y := fun y hy => hv y (by simp [hy])
        obtain ⟨out2, h4, h5⟩ := ih (bs := after (stepBooks bs tx) (out.map (·.tx))) t'' past' (acc ++ [d] ++ out) hv' h3
        refine ⟨d :: (out ++ out2), by rw [h4]; simp, ?_⟩
        simp only [Conforms] at hcd ⊢
        rw [htx] at hcd ⊢
        refine ⟨hcd.1, hcd.2.1, hcd.2.2.1, ?_⟩
        rw [Conforms_append]; exact ⟨h2, h5⟩
      · rw [h1]
        simp only
        refine ⟨d :: out, by simp, ?_⟩
        simp only [Conforms] at hcd ⊢
        rw [htx] at hcd ⊢
        exact ⟨hcd.1, hcd.2.1, hcd.2.2.1, h2⟩

end Acb
