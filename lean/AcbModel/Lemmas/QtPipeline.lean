/-
  The option pipeline of `run_with_args` (C18): what the options do to the converted rows.
-/
import AcbModel.Lemmas.QtOrder
namespace Acb.Qt

/-- filters, then the rate option; before the optional sort -/
def selected (o : Opts) (txs : List BTx) : List BTx := (txs.filter (keeps o)).map (rated o)


theorem pipeline_out {o : Opts} {c : Conv} {txs : List BTx} {errs : List (Nat × ErrKind)}
    (h : pipeline o c = .out txs errs) :
    errs = c.errors ∧
    (if o.noSort then txs = selected o c.txs else txs = sortTxs (selected o c.txs)) := by
  have key : ∀ l : List BTx,
      postFilter { o with account := none } l =
        (if o.noSort then ((l.filter (fun t =>
            (match o.security with | some f => f t.security | none => true) &&
            (if o.noFx then !endsWithFx t.security else true))).map (rated o))
         else sortTxs ((l.filter (fun t =>
            (match o.security with | some f => f t.security | none => true) &&
            (if o.noFx then !endsWithFx t.security else true))).map (rated o))) := by
    intro l
    unfold postFilter rated
    have ft : ∀ l : List BTx, l.filter (fun _ => true) = l := fun l => by
      induction l with
      | nil => rfl
      | cons a as ih => simp [List.filter, ih]
    cases o.security <;> cases o.noFx <;> cases o.usdRate <;> cases o.noSort <;>
      simp [List.filter_filter, Bool.and_comm, ft]
  have pf : ∀ l : List BTx, postFilter o l = postFilter { o with account := none } l := by
    intro l; rfl
  unfold pipeline at h
  split at h
  · rename_i f hf
    simp only [Outcome.out.injEq] at h
    obtain ⟨h1, h2⟩ := h
    refine ⟨h2.symm, ?_⟩
    rw [pf, key] at h1
    subst h1
    unfold selected keeps
    simp only [hf, List.filter_filter]
    cases o.noSort <;> simp [Bool.and_comm, Bool.and_left_comm] <;> rfl
  · rename_i hf
    split at h
    · cases h
    · simp only [Outcome.out.injEq] at h
      obtain ⟨h1, h2⟩ := h
      refine ⟨h2.symm, ?_⟩
      rw [pf, key] at h1
      subst h1
      unfold selected keeps
      simp only [hf]
      cases o.noSort <;> simp <;> rfl

theorem pipeline_perm {o : Opts} {c : Conv} {txs : List BTx} {errs : List (Nat × ErrKind)}
    (h : pipeline o c = .out txs errs) : txs.Perm (selected o c.txs) := by
  have := (pipeline_out h).2
  split at this
  · rw [this]
  · rw [this]; exact sortTxs_perm _

theorem pipeline_sorted {o : Opts} {c : Conv} {txs : List BTx} {errs : List (Nat × ErrKind)}
    (h : pipeline o c = .out txs errs) (hs : o.noSort = false) :
    txs.Pairwise (fun a b => leBTx a b = true) := by
  have := (pipeline_out h).2
  simp only [hs] at this
  rw [this]; exact sortTxs_sorted _

end Acb.Qt
