/-
  Lemmas about the header reader of `AcbModel/Broker/Sheet.lean` (C18, layout independence).
-/
import AcbModel.Broker.Questrade
namespace Acb.Qt

theorem headerIndex_none {hdr : List Cell} {name : String}
    (h : ∀ j : Nat, hdr[j]? ≠ some (Cell.str name)) : headerIndex hdr name = none := by
  induction hdr with
  | nil => rfl
  | cons c cs ih =>
    have hcs : ∀ j : Nat, cs[j]? ≠ some (Cell.str name) := fun j => by simpa using h (j + 1)
    have hc : c ≠ Cell.str name := by simpa using h 0
    simp [headerIndex, ih hcs, hc]

theorem headerIndex_none' {hdr : List Cell} {name : String}
    (h : headerIndex hdr name = none) : ∀ j : Nat, hdr[j]? ≠ some (Cell.str name) := by
  induction hdr with
  | nil => simp
  | cons c cs ih =>
    unfold headerIndex at h
    split at h
    · cases h
    · rename_i hn
      split at h
      · cases h
      · rename_i hc
        intro j
        cases j with
        | zero => simpa using hc
        | succ j' => simpa using ih hn j'

/-- Soundness for every layout: the index found is the position of a header cell that is the
    string `name`. -/
theorem headerIndex_sound {hdr : List Cell} {name : String} {i : Nat}
    (h : headerIndex hdr name = some i) : hdr[i]? = some (Cell.str name) := by
  induction hdr generalizing i with
  | nil => simp [headerIndex] at h
  | cons c cs ih =>
    unfold headerIndex at h
    split at h
    · rename_i j hj
      simp only [Option.some.injEq] at h; subst h
      simpa using ih hj
    · split at h
      · rename_i hc
        simp only [Option.some.injEq] at h; subst h
        simp [hc]
      · cases h

/-- No later column carries the same name (the last one wins, as in `HashMap::from_iter`). -/
theorem headerIndex_last {hdr : List Cell} {name : String} {i : Nat}
    (h : headerIndex hdr name = some i) : ∀ j : Nat, i < j → hdr[j]? ≠ some (Cell.str name) := by
  induction hdr generalizing i with
  | nil => simp [headerIndex] at h
  | cons c cs ih =>
    unfold headerIndex at h
    split at h
    · rename_i k hk
      simp only [Option.some.injEq] at h; subst h
      intro j hj
      cases j with
      | zero => omega
      | succ j' => simpa using ih hk j' (by omega)
    · rename_i hnone
      split at h
      · simp only [Option.some.injEq] at h; subst h
        intro j hj
        cases j with
        | zero => omega
        | succ j' => simpa using headerIndex_none' hnone j'
      · cases h

/-- Completeness: if `name` heads exactly one column, that column is found — whatever stands in
    the other header cells (blank, numeric, other names) and wherever the column is. -/
theorem headerIndex_of_unique {hdr : List Cell} {name : String} {i : Nat}
    (hi : hdr[i]? = some (Cell.str name))
    (hu : ∀ j : Nat, hdr[j]? = some (Cell.str name) → j = i) : headerIndex hdr name = some i := by
  induction hdr generalizing i with
  | nil => simp at hi
  | cons c cs ih =>
    cases i with
    | zero =>
      have hc : c = Cell.str name := by simpa using hi
      have hcs : ∀ j : Nat, cs[j]? ≠ some (Cell.str name) := by
        intro j hj
        have := hu (j + 1) (by simpa using hj)
        omega
      simp [headerIndex, headerIndex_none hcs, hc]
    | succ i' =>
      have hi' : cs[i']? = some (Cell.str name) := by simpa using hi
      have hu' : ∀ j : Nat, cs[j]? = some (Cell.str name) → j = i' := by
        intro j hj
        have := hu (j + 1) (by simpa using hj)
        omega
      simp [headerIndex, ih hi' hu']

/-- The reader returns the cell that stands under the (unique) header of that name. -/
theorem cellAt_of_unique {hdr row : List Cell} {name : String} {i : Nat} {c : Cell}
    (hi : hdr[i]? = some (Cell.str name))
    (hu : ∀ j : Nat, hdr[j]? = some (Cell.str name) → j = i)
    (hc : row[i]? = some c) : cellAt hdr row name = .ok c := by
  simp [cellAt, headerIndex_of_unique hi hu, hc]

end Acb.Qt
