/-
  Split neutrality (C15), part 1: scaling.  If every share quantity the computation sees is
  multiplied by `f > 0` and every per-share amount divided by `f`, every decision is the same and
  every result is the scaled one (shares × f, money unchanged).
-/
import AcbModel.Lemmas.ScanInv
namespace Acb

/-- restating a row for an `f`-fold split: share quantities × f, per-share amounts ÷ f -/
def restateAct (f : Rat) : Action → Action
  | .buy sh px comm rate crate => .buy (sh * f) (px / f) comm rate crate
  | .sell sh px comm rate crate spec => .sell (sh * f) (px / f) comm rate crate spec
  | .roc ps rate => .roc (ps / f) rate
  | .sfla sh ps => .sfla (sh * f) (ps / f)
  | .split post pre io => .split post pre io

def restateTx (f : Rat) (t : Tx) : Tx := { t with act := restateAct f t.act }

def scaleStatus (f : Rat) (s : Status) : Status := { shares := s.shares * f, all := s.all * f, acb := s.acb }

theorem nextPre_shares (t : Tracker) (a : Aff) : (t.nextPre a).shares = t.bal a := by
  unfold Tracker.nextPre Tracker.bal
  cases t.m a with
  | none => simp only [Option.getD_none]; split <;> simp [defaultStatus]
  | some s => simp only [Option.getD_some]; split <;> rfl

theorem nextPre_all (t : Tracker) (a : Aff) : (t.nextPre a).all = t.latestAll := by
  unfold Tracker.nextPre
  simp only
  split
  · rename_i h; exact h
  · rfl

/-- `t'` is `t` with every share figure multiplied by `f`. -/
structure TrackerScaled (f : Rat) (t t' : Tracker) : Prop where
  pre : ∀ a, t'.nextPre a = scaleStatus f (t.nextPre a)
  postAll : t'.latestPostAll = t.latestPostAll * f

theorem TrackerScaled.bal {f : Rat} {t t' : Tracker} (h : TrackerScaled f t t') (a : Aff) :
    t'.bal a = t.bal a * f := by
  rw [← nextPre_shares, ← nextPre_shares, h.pre a]; rfl

structure ScanScaled (f : Rat) (s s' : Scan) : Prop where
  adj : s'.adj = s.adj
  allEop : s'.allEop = s.allEop * f
  acquired : s'.acquired = s.acquired * f
  buyers : s'.buyers = s.buyers
  active : ∀ a, s'.active a = (s.active a).map (· * f)

def ScanResScaled (f : Rat) : Except Failure Scan → Except Failure Scan → Prop
  | .error e, .error e' => e = e'
  | .ok s, .ok s' => ScanScaled f s s'
  | _, _ => False

theorem lt_zero_scale {x f : Rat} (hf : 0 < f) : x * f < 0 ↔ x < 0 := by
  constructor
  · intro h
    by_cases hx : x < 0
    · exact hx
    · have : 0 ≤ x * f := Rat.mul_nonneg (by grind) (by grind)
      grind
  · intro h
    have : 0 < (-x) * f := Rat.mul_pos (by grind) hf
    grind

theorem scanFwd_scaled {f : Rat} (hf : 0 < f) {t t' : Tracker} (ht : TrackerScaled f t t') (lastDay : Int) :
    ∀ (future : List Tx) (s s' : Scan), ScanScaled f s s' →
      ScanResScaled f (scanFwd t lastDay s future) (scanFwd t' lastDay s' (future.map (restateTx f))) := by
  intro future
  induction future with
  | nil => intro s s' h; simpa [scanFwd, ScanResScaled] using h
  | cons x rest ih =>
    intro s s' h
    simp only [List.map_cons]
    unfold scanFwd
    have hset : (restateTx f x).settle = x.settle := rfl
    have haff : (restateTx f x).aff = x.aff := rfl
    rw [hset]
    by_cases hgt : x.settle > lastDay
    · simp only [hgt, if_true]; exact h
    · simp only [hgt, if_false, haff]
      have hadj : s'.adj x.aff = s.adj x.aff := by rw [h.adj]
      have hact := h.active x.aff
      have hbal := ht.bal x.aff
      have hold : (s'.active x.aff).getD (t'.bal x.aff) = (s.active x.aff).getD (t.bal x.aff) * f := by
        rw [hact, hbal]; cases s.active x.aff <;> simp
      cases hx : x.act with
      | buy sh px comm rate crate =>
        simp only [restateTx, hx, restateAct]
        apply ih
        refine ⟨h.adj, ?_, ?_, by simp [h.buyers], ?_⟩
        · simp only; rw [h.allEop, hadj]; grind
        · simp only; rw [h.acquired, hadj]; grind
        · intro a
          simp only [upd]
          by_cases ha : a = x.aff
          · simp only [ha, if_true, Option.map_some, Option.some.injEq]
            rw [hold, hadj]; grind
          · simp only [ha, if_false]; exact h.active a
      | sell sh px comm rate crate spec =>
        simp only [restateTx, hx, restateAct]
        have e1 : s'.allEop - sh * f * s'.adj x.aff = (s.allEop - sh * s.adj x.aff) * f := by
          rw [h.allEop, hadj]; grind
        have e2 : (s'.active x.aff).getD (t'.bal x.aff) - sh * f * s'.adj x.aff =
            ((s.active x.aff).getD (t.bal x.aff) - sh * s.adj x.aff) * f := by
          rw [hold, hadj]; grind
        rw [e1, e2]
        by_cases c1 : s.allEop - sh * s.adj x.aff < 0
        · simp [c1, (lt_zero_scale hf).mpr c1, ScanResScaled]
        · have c1' : ¬ (s.allEop - sh * s.adj x.aff) * f < 0 := fun hh => c1 ((lt_zero_scale hf).mp hh)
          simp only [c1, c1', if_false]
          by_cases c2 : (s.active x.aff).getD (t.bal x.aff) - sh * s.adj x.aff < 0
          · simp [c2, (lt_zero_scale hf).mpr c2, ScanResScaled]
          · have c2' : ¬ ((s.active x.aff).getD (t.bal x.aff) - sh * s.adj x.aff) * f < 0 :=
              fun hh => c2 ((lt_zero_scale hf).mp hh)
            simp only [c2, c2', if_false]
            apply ih
            refine ⟨h.adj, ?_, h.acquired, h.buyers, ?_⟩
            · simp only
            · intro a
              simp only [upd]
              by_cases ha : a = x.aff
              · simp only [ha, if_true, Option.map_some]
              · simp only [ha, if_false]; exact h.active a
      | split post pre io =>
        simp only [restateTx, hx, restateAct]
        apply ih
        refine ⟨?_, h.allEop, h.acquired, h.buyers, h.active⟩
        simp only; rw [h.adj]
      | roc ps rate =>
        simp only [restateTx, hx, restateAct]
        exact ih _ _ h
      | sfla sh ps =>
        simp only [restateTx, hx, restateAct]
        exact ih _ _ h

end Acb

namespace Acb

/-- relation between backward-scan states: everything in shares is scaled; the adjustments agree
    except on the affiliates of `As`, where the primed run's are `g` times larger -/
structure BwdRel (f g : Rat) (As : List Aff) (s s' : Scan) : Prop where
  adj : ∀ a, a ∈ As → s'.adj a = s.adj a * g
  acquired : s'.acquired = s.acquired * f
  buyers : s'.buyers = s.buyers
  active : ∀ a, s'.active a = (s.active a).map (· * f)

/-- one step of the backward scan -/
def bwdStep (t : Tracker) (s : Scan) (x : Tx) : Scan :=
  match x.act with
  | .buy sh _ _ _ _ =>
    { s with acquired := s.acquired + sh * s.adj x.aff, buyers := insertAff s.buyers x.aff,
             active := if (s.active x.aff).isNone then upd s.active x.aff (some (t.bal x.aff)) else s.active }
  | .split post pre _ => { s with adj := upd s.adj x.aff (s.adj x.aff * splitFactor post pre) }
  | _ => s

theorem scanBwd_cons (t : Tracker) (firstDay : Int) (s : Scan) (x : Tx) (rest : List Tx) :
    scanBwd t firstDay s (x :: rest) =
      if x.settle < firstDay then s else scanBwd t firstDay (bwdStep t s x) rest := by
  rw [scanBwd]
  split
  · rfl
  · unfold bwdStep
    simp only
    split <;> simp_all

/-- One backward step preserves the relation: the primed row is either the restated row (`g = 1`,
    `x' = restateTx f x`) or the same row (`g = f`, `x' = x`). -/
theorem bwdStep_rel {f g : Rat} {t t' : Tracker} (ht : TrackerScaled f t t') {As : List Aff} {s s' : Scan}
    (h : BwdRel f g As s s') {x x' : Tx} (hxA : x.aff ∈ As)
    (hx : (g = 1 ∧ x' = restateTx f x) ∨ (g = f ∧ x' = x)) :
    BwdRel f g As (bwdStep t s x) (bwdStep t' s' x') := by
  have haff : x'.aff = x.aff := by rcases hx with ⟨_, rfl⟩ | ⟨_, rfl⟩ <;> rfl
  have hadj : s'.adj x.aff = s.adj x.aff * g := h.adj x.aff hxA
  unfold bwdStep
  rw [haff]
  cases hact : x.act with
  | buy sh px comm rate crate =>
    have hact' : ∃ sh' px', x'.act = .buy sh' px' comm rate crate ∧ sh' * g = sh * f := by
      rcases hx with ⟨hg, rfl⟩ | ⟨hg, rfl⟩
      · exact ⟨sh * f, px / f, by simp [restateTx, hact, restateAct], by rw [hg]; grind⟩
      · exact ⟨sh, px, hact, by rw [hg]⟩
    obtain ⟨sh', px', ha', hsh⟩ := hact'
    simp only [ha']
    refine ⟨h.adj, ?_, by simp [h.buyers], ?_⟩
    · simp only; rw [h.acquired, hadj]
      have : sh' * (s.adj x.aff * g) = sh * s.adj x.aff * f := by
        have : sh' * (s.adj x.aff * g) = (sh' * g) * s.adj x.aff := by grind
        rw [this, hsh]; grind
      rw [this]; grind
    · intro a
      simp only
      have hact2 := h.active x.aff
      have hnone : (s'.active x.aff).isNone = (s.active x.aff).isNone := by rw [hact2]; cases s.active x.aff <;> simp
      rw [hnone]
      split
      · simp only [upd]
        by_cases ha : a = x.aff
        · simp only [ha, if_true, Option.map_some, Option.some.injEq]; exact ht.bal x.aff
        · simp only [ha, if_false]; exact h.active a
      · exact h.active a
  | split post pre io =>
    have ha' : x'.act = .split post pre io := by
      rcases hx with ⟨_, rfl⟩ | ⟨_, rfl⟩
      · simp [restateTx, hact, restateAct]
      · exact hact
    simp only [ha']
    refine ⟨?_, h.acquired, h.buyers, h.active⟩
    intro a ha
    simp only [upd]
    by_cases hax : a = x.aff
    · simp only [hax, if_true]; rw [hadj]; grind
    · simp only [hax, if_false]; exact h.adj a ha
  | sell sh px comm rate crate spec =>
    have ha' : ∃ sh' px', x'.act = .sell sh' px' comm rate crate spec := by
      rcases hx with ⟨_, rfl⟩ | ⟨_, rfl⟩
      · exact ⟨sh * f, px / f, by simp [restateTx, hact, restateAct]⟩
      · exact ⟨_, _, hact⟩
    obtain ⟨_, _, ha'⟩ := ha'
    simp only [ha']; exact h
  | roc ps rate =>
    have ha' : ∃ ps', x'.act = .roc ps' rate := by
      rcases hx with ⟨_, rfl⟩ | ⟨_, rfl⟩
      · exact ⟨ps / f, by simp [restateTx, hact, restateAct]⟩
      · exact ⟨_, hact⟩
    obtain ⟨_, ha'⟩ := ha'
    simp only [ha']; exact h
  | sfla sh ps =>
    have ha' : ∃ sh' ps', x'.act = .sfla sh' ps' := by
      rcases hx with ⟨_, rfl⟩ | ⟨_, rfl⟩
      · exact ⟨sh * f, ps / f, by simp [restateTx, hact, restateAct]⟩
      · exact ⟨_, _, hact⟩
    obtain ⟨_, _, ha'⟩ := ha'
    simp only [ha']; exact h

/-- a generated SfLA row is the same in both runs (share count 1, same amount) and is ignored by
    the scans -/
def IsSflaRow (x : Tx) : Prop := ∃ sh ps, x.act = .sfla sh ps

theorem bwdStep_sfla (t : Tracker) (s : Scan) {x : Tx} (h : IsSflaRow x) : bwdStep t s x = s := by
  obtain ⟨sh, ps, hx⟩ := h
  simp [bwdStep, hx]

/-- rows of the two runs since the inserted split: an input row is restated, a generated SfLA row
    is identical -/
inductive RowsRel (f : Rat) : List Tx → List Tx → Prop
  | nil : RowsRel f [] []
  | restated (x : Tx) {xs xs' : List Tx} : RowsRel f xs xs' → RowsRel f (x :: xs) (restateTx f x :: xs')
  | sfla (x : Tx) {xs xs' : List Tx} : IsSflaRow x → RowsRel f xs xs' → RowsRel f (x :: xs) (x :: xs')

/-- Backward scan over rows that were NOT restated (they precede the inserted split), the primed
    run carrying adjustments `f` times larger: scaled. -/
theorem scanBwd_unscaled {f : Rat} {t t' : Tracker} (ht : TrackerScaled f t t') (firstDay : Int) (As : List Aff) :
    ∀ (past : List Tx) (s s' : Scan), (∀ x ∈ past, x.aff ∈ As) → BwdRel f f As s s' →
      BwdRel f f As (scanBwd t firstDay s past) (scanBwd t' firstDay s' past) := by
  intro past
  induction past with
  | nil => intro s s' _ h; simpa [scanBwd] using h
  | cons x rest ih =>
    intro s s' hA h
    rw [scanBwd_cons, scanBwd_cons]
    split
    · exact h
    · exact ih _ _ (fun y hy => hA y (by simp [hy])) (bwdStep_rel ht h (hA x (by simp)) (Or.inr ⟨rfl, rfl⟩))

/-- the inserted split rows: one per affiliate of `As`, all on day `day` -/
def splitRows (day : Int) (idx : Nat) (post pre : Rat) (As : List Aff) : List Tx :=
  As.map (fun a => { trade := day, settle := day, idx := idx, aff := a, act := .split post pre false })

theorem scanBwd_cons_split {t : Tracker} {firstDay : Int} {s : Scan} {x : Tx} {rest : List Tx}
    {post pre : Rat} {io : Bool} (hx : x.act = .split post pre io) (hd : ¬ x.settle < firstDay) :
    scanBwd t firstDay s (x :: rest) =
      scanBwd t firstDay { s with adj := upd s.adj x.aff (s.adj x.aff * splitFactor post pre) } rest := by
  rw [scanBwd]
  simp only [hd, if_false, hx]

/-- Backward scan across the inserted split rows: only the adjustments of their affiliates change
    (× the split factor), once each. -/
theorem scanBwd_splitRows {t : Tracker} (firstDay day : Int) (hd : ¬ day < firstDay) (idx : Nat) (post pre : Rat) :
    ∀ (As : List Aff), As.Nodup → ∀ (rest : List Tx) (s : Scan),
      ∃ s1, scanBwd t firstDay s (splitRows day idx post pre As ++ rest) = scanBwd t firstDay s1 rest ∧
        s1.acquired = s.acquired ∧ s1.buyers = s.buyers ∧ s1.active = s.active ∧ s1.allEop = s.allEop ∧
        (∀ a, a ∈ As → s1.adj a = s.adj a * splitFactor post pre) ∧ (∀ a, a ∉ As → s1.adj a = s.adj a) := by
  intro As
  induction As with
  | nil => intro _ rest s; exact ⟨s, by simp [splitRows], rfl, rfl, rfl, rfl, by simp, by simp⟩
  | cons a as ih =>
    intro hn rest s
    have hna : a ∉ as := (List.nodup_cons.mp hn).1
    have hnas : as.Nodup := (List.nodup_cons.mp hn).2
    simp only [splitRows, List.map_cons, List.cons_append]
    rw [scanBwd_cons_split (post := post) (pre := pre) (io := false) rfl hd]
    obtain ⟨s1, h1, h2, h3, h4, h5, h6, h7⟩ := ih hnas rest { s with adj := upd s.adj a (s.adj a * splitFactor post pre) }
    refine ⟨s1, ?_, h2, h3, h4, h5, ?_, ?_⟩
    · simpa [splitRows] using h1
    · intro b hb
      simp only [List.mem_cons] at hb
      rcases hb with rfl | hb
      · rw [h7 b hna]; simp [upd]
      · rw [h6 b hb]
        have : b ≠ a := fun e => hna (e ▸ hb)
        simp [upd, this]
    · intro b hb
      simp only [List.mem_cons, not_or] at hb
      rw [h7 b hb.2]
      simp [upd, hb.1]

end Acb

namespace Acb

/-- what the rest of the computation reads off a finished backward scan -/
structure BwdFinal (f : Rat) (r r' : Scan) : Prop where
  acquired : r'.acquired = r.acquired * f
  buyers : r'.buyers = r.buyers
  active : ∀ a, r'.active a = (r.active a).map (· * f)

theorem BwdRel.final {f g : Rat} {As : List Aff} {s s' : Scan} (h : BwdRel f g As s s') : BwdFinal f s s' :=
  ⟨h.acquired, h.buyers, h.active⟩

/-- **Backward scan from a sale after the inserted split.**  The processed rows of the run with
    the split are: the restated rows since the split (`p1`), the split rows, the rows before the
    split (`p0`, untouched).  The scan yields the scaled figures of the scan over `p1 ++ p0`. -/
theorem scanBwd_mixed {f : Rat} {t t' : Tracker} (ht : TrackerScaled f t t') (firstDay day : Int) (idx : Nat)
    (post pre : Rat) (hf : f = splitFactor post pre) (As : List Aff) (hn : As.Nodup)
    (p0 : List Tx) (hp0 : ∀ x ∈ p0, x.aff ∈ As ∧ x.settle ≤ day) :
    ∀ (p1 p1' : List Tx), RowsRel f p1 p1' → ∀ (s s' : Scan), (∀ x ∈ p1, x.aff ∈ As) → BwdRel f 1 As s s' →
      BwdFinal f (scanBwd t firstDay s (p1 ++ p0))
        (scanBwd t' firstDay s' (p1' ++ splitRows day idx post pre As ++ p0)) := by
  intro p1 p1' hrel
  induction hrel with
  | nil =>
    intro s s' _ h
    simp only [List.nil_append]
    by_cases hd : day < firstDay
    · -- the scan stops at the first split row; the other run stops at the head of p0
      have hL : scanBwd t firstDay s p0 = s := by
        cases p0 with
        | nil => simp [scanBwd]
        | cons x xs =>
          have := (hp0 x (by simp)).2
          rw [scanBwd_cons]; simp; intro h'; omega
      rw [hL]
      cases As with
      | nil =>
        simp only [splitRows, List.map_nil, List.nil_append]
        cases p0 with
        | nil => simpa [scanBwd] using h.final
        | cons x xs => have := (hp0 x (by simp)).1; simp at this
      | cons a as =>
        simp only [splitRows, List.map_cons, List.cons_append]
        rw [scanBwd_cons]
        simp only [hd, if_true]
        exact h.final
    · obtain ⟨s1, h1, h2, h3, h4, _, h6, _⟩ := scanBwd_splitRows (t := t') firstDay day hd idx post pre As hn p0 s'
      rw [h1]
      have hrel : BwdRel f f As s s1 := by
        refine ⟨?_, by rw [h2]; exact h.acquired, by rw [h3]; exact h.buyers, by rw [h4]; exact h.active⟩
        intro a ha
        rw [h6 a ha, h.adj a ha, hf]; grind
      exact (scanBwd_unscaled ht firstDay As p0 s s1 (fun x hx => (hp0 x hx).1) hrel).final
  | restated x _ ih =>
    intro s s' hA h
    simp only [List.cons_append]
    rw [scanBwd_cons, scanBwd_cons]
    have hset : (restateTx f x).settle = x.settle := rfl
    rw [hset]
    split
    · exact h.final
    · exact ih _ _ (fun y hy => hA y (by simp [hy]))
        (bwdStep_rel ht h (hA x (by simp)) (Or.inl ⟨rfl, rfl⟩))
  | sfla x hx _ ih =>
    intro s s' hA h
    simp only [List.cons_append]
    rw [scanBwd_cons, scanBwd_cons]
    split
    · exact h.final
    · rw [bwdStep_sfla _ _ hx, bwdStep_sfla _ _ hx]
      exact ih _ _ (fun y hy => hA y (by simp [hy])) h

end Acb
