/-
  C10's glue, part 4: small facts used by the pipeline theorem.
-/
import AcbModel.Lemmas.SummaryGlue3
namespace Acb

theorem lastD_fold_some (a : Aff) : ∀ (acc : List Delta) (o : Option Delta) (d : Delta),
    acc.foldl (fun o d => if d.tx.aff = a then some d else o) o = some d →
      (d.tx.aff = a ∧ d ∈ acc) ∨ o = some d := by
  intro acc
  induction acc with
  | nil => intro o d h; right; simpa using h
  | cons e acc ih =>
    intro o d h
    simp only [List.foldl_cons] at h
    rcases ih _ _ h with ⟨h1, h2⟩ | h1
    · left; exact ⟨h1, by simp [h2]⟩
    · split at h1
      · simp only [Option.some.injEq] at h1; subst h1; rename_i he; left; exact ⟨he, by simp⟩
      · right; exact h1

theorem lastD_some {acc : List Delta} {a : Aff} {d : Delta} (h : lastD acc a = some d) :
    d.tx.aff = a ∧ d ∈ acc := by
  rcases lastD_fold_some a acc none d h with h | h
  · exact h
  · cases h

theorem lastD_fold_isSome (a : Aff) : ∀ (acc : List Delta) (o : Option Delta),
    (o.isSome ∨ ∃ d ∈ acc, d.tx.aff = a) →
      ∃ e, acc.foldl (fun o d => if d.tx.aff = a then some d else o) o = some e := by
  intro acc
  induction acc with
  | nil =>
    intro o h
    rcases h with h | ⟨d, hd, _⟩
    · obtain ⟨e, rfl⟩ := Option.isSome_iff_exists.mp h; exact ⟨e, rfl⟩
    · simp at hd
  | cons x acc ih =>
    intro o h
    simp only [List.foldl_cons]
    apply ih
    by_cases hx : x.tx.aff = a
    · left; simp [hx]
    · simp only [hx, if_false]
      rcases h with h | ⟨d, hd, hda⟩
      · left; exact h
      · simp only [List.mem_cons] at hd
        rcases hd with rfl | hd
        · exact absurd hda hx
        · right; exact ⟨d, hd, hda⟩

theorem lastD_isSome_of_mem {acc : List Delta} {d : Delta} (h : d ∈ acc) : ∃ e, lastD acc d.tx.aff = some e :=
  lastD_fold_isSome d.tx.aff acc none (Or.inr ⟨d, h, rfl⟩)

theorem pairwise_le_getLast {l : List Delta} (hne : l ≠ [])
    (hs : l.Pairwise (fun a b => a.tx.settle ≤ b.tx.settle)) :
    ∀ d ∈ l, d.tx.settle ≤ (l.getLast hne).tx.settle := by
  intro d hd
  obtain ⟨l', e, rfl⟩ : ∃ l' e, l = l' ++ [e] := ⟨l.dropLast, l.getLast hne, (List.dropLast_concat_getLast hne).symm⟩
  rw [List.getLast_concat]
  simp only [List.mem_append, List.mem_singleton] at hd
  rcases hd with hd | rfl
  · exact (List.pairwise_append.mp hs).2.2 d hd e (by simp)
  · exact Int.le_refl _

theorem exists_nodup (l : List Aff) : ∃ l' : List Aff, l'.Nodup ∧ ∀ a, a ∈ l' ↔ a ∈ l := by
  induction l with
  | nil => exact ⟨[], by simp, by simp⟩
  | cons a l ih =>
    obtain ⟨l', hn, hm⟩ := ih
    by_cases ha : a ∈ l'
    · refine ⟨l', hn, fun x => ?_⟩
      simp only [List.mem_cons, hm]
      constructor
      · exact Or.inr
      · rintro (rfl | h)
        · exact (hm x).mp ha
        · exact h
    · exact ⟨a :: l', List.nodup_cons.mpr ⟨ha, hn⟩, fun x => by simp [hm]⟩

theorem flatMap_congr_mem {α β : Type} {l : List α} {f g : α → List β} (h : ∀ x ∈ l, f x = g x) :
    l.flatMap f = l.flatMap g := by
  induction l with
  | nil => rfl
  | cons x l ih =>
    simp only [List.flatMap_cons]
    rw [h x (by simp), ih (fun y hy => h y (by simp [hy]))]

theorem summaryRowsOf_aff {day : Int} {a : Aff} {sh : Rat} {acb : Option Rat} :
    ∀ y ∈ summaryRowsOf day a sh acb, y.aff = a ∧ y.idx = 0 ∧ y.settle = day := by
  intro y hy
  unfold summaryRowsOf zeroRowsOf at hy
  split at hy
  · simp only [List.mem_singleton] at hy; subst hy; exact ⟨rfl, rfl, rfl⟩
  · split at hy
    · split at hy
      · simp only [List.mem_singleton] at hy; subst hy; exact ⟨rfl, rfl, rfl⟩
      · simp at hy
    · simp at hy

theorem summaryRowsOf_length (day : Int) (a : Aff) (sh : Rat) (acb : Option Rat) :
    (summaryRowsOf day a sh acb).length ≤ 1 := by
  unfold summaryRowsOf zeroRowsOf
  split
  · simp
  · split
    · split <;> simp
    · simp

end Acb
