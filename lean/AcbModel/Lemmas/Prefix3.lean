/-
  C10's engine, part 3: replaying the summary rows of an affiliate on a tracker that has no status
  for it yet gives that affiliate exactly the summarised shares and cost base.
-/
import AcbModel.Lemmas.Prefix2
namespace Acb

def pricePer (sh : Rat) (acb : Option Rat) : Rat :=
  match acb with
  | some c => c / sh
  | none => 0

def zeroRowsOf (day : Int) (a : Aff) (acb : Option Rat) : List Tx :=
  match acb with
  | some c => if 0 < c then [{ trade := day, settle := day, idx := 0, aff := a, act := .sfla 1 c }] else []
  | none => []

/-- the rows `make_simple_summary_txs` emits for an affiliate holding `sh` shares with cost base
    `acb` (`none` = registered), dated `day` -/
def summaryRowsOf (day : Int) (a : Aff) (sh : Rat) (acb : Option Rat) : List Tx :=
  if 0 < sh then
    [{ trade := day, settle := day, idx := 0, aff := a, act := .buy sh (pricePer sh acb) 0 1 none }]
  else zeroRowsOf day a acb

/-- what the S-phase needs of the tracker -/
structure FreshInv (c : Tracker) : Prop where
  allNonneg : 0 ≤ c.latestAll
  latest : c.latestPostAll = c.latestAll

theorem bal_of_none {c : Tracker} {a : Aff} (h : c.m a = none) : c.bal a = 0 := by simp [Tracker.bal, h]
theorem acbOf_of_none {c : Tracker} {a : Aff} (h : c.m a = none) : c.acbOf a = (defaultStatus a).acb := by
  simp [Tracker.acbOf, h]

/-- the conclusion shared by the cases below -/
def SummaryDone (c : Tracker) (a : Aff) (sh : Rat) (acb : Option Rat) (rows past : List Tx) (acc : List Delta)
    (r : List Tx) : Prop :=
  ∃ c2 ds, loopPrefix c past acc rows r = .inl (c2, rows.reverse ++ past, acc ++ ds) ∧
    FreshInv c2 ∧ (∀ x, c2.bal x = if x = a then sh else c.bal x) ∧
    (∀ x, c2.acbOf x = if x = a then acb else c.acbOf x) ∧
    (∀ x, x ≠ a → c2.m x = c.m x) ∧ c2.latestAll = c.latestAll + sh ∧ ds.length = rows.length

theorem summaryDone_nothing {c : Tracker} (hc : FreshInv c) {a : Aff} (hm : c.m a = none) (acb : Option Rat)
    (hd : (defaultStatus a).acb = acb) (past : List Tx) (acc : List Delta) (r : List Tx) :
    SummaryDone c a 0 acb [] past acc r := by
  refine ⟨c, [], by simp [loopPrefix], hc, ?_, ?_, fun _ _ => rfl, by grind, rfl⟩
  · intro x; by_cases hx : x = a
    · rw [hx]; simp [bal_of_none hm]
    · simp [hx]
  · intro x; by_cases hx : x = a
    · rw [hx, acbOf_of_none hm, hd]; simp
    · simp [hx]

/-- a single row whose step is known -/
theorem summaryDone_one {c : Tracker} (hc : FreshInv c) {a : Aff} (hm : c.m a = none) (row : Tx) (hrow : row.aff = a)
    (sh : Rat) (hsh : 0 ≤ sh) (acb : Option Rat) (hreg : a.registered = acb.isNone)
    (past : List Tx) (acc : List Delta) (r : List Tx)
    (harm : arm c row { shares := 0, all := c.latestAll, acb := (defaultStatus a).acb } past ([] ++ r) =
      .ok { post := { shares := sh, all := c.latestAll + sh, acb := acb } }) :
    SummaryDone c a sh acb [row] past acc r := by
  have hb0 := bal_of_none hm
  have ha0 := acbOf_of_none hm
  have hall := hc.allNonneg
  have hsan : sanityCheck { shares := 0, all := c.latestAll, acb := (defaultStatus a).acb } a = .ok () := by
    unfold sanityCheck
    have h1 : ¬ c.latestAll < 0 := by grind
    simp only [h1, if_false]
    cases hra : a.registered <;> simp [defaultStatus, hra]
  have hset : c.setLatest a { shares := sh, all := c.latestAll + sh, acb := acb } =
      .ok { m := upd c.m a (some { shares := sh, all := c.latestAll + sh, acb := acb }), latestAll := c.latestAll + sh, latestAff := a } := by
    rw [setLatest_iff]
    have h1 : a.registered = ({ shares := sh, all := c.latestAll + sh, acb := acb } : Status).acb.isNone := hreg
    have h2 : ({ shares := sh, all := c.latestAll + sh, acb := acb } : Status).all =
        ({ shares := sh, all := c.latestAll + sh, acb := acb } : Status).shares + c.latestAll - c.bal a := by
      simp only [hb0]; grind
    rw [if_pos h1, if_pos h2]
  refine ⟨{ m := upd c.m a (some { shares := sh, all := c.latestAll + sh, acb := acb }), latestAll := c.latestAll + sh, latestAff := a },
    [{ tx := row, pre := c.nextPre a, post := { shares := sh, all := c.latestAll + sh, acb := acb }, gain := none, sfl := none }],
    ?_, ?_, ?_, ?_, ?_, ?_, rfl⟩
  · simp only [loopPrefix, stepRow, deltaForTx, hrow, nextPre_eq, hb0, ha0, hsan, harm]
    rw [hset]
    simp [runInjected, loopPrefix]
  · exact ⟨by show 0 ≤ c.latestAll + sh; grind, by simp [Tracker.latestPostAll, upd]⟩
  · intro x; rw [bal_set]; by_cases hx : x = a <;> simp [hx]
    · rfl
  · intro x; rw [acbOf_set]; by_cases hx : x = a <;> simp [hx]
    · rfl
  · intro x hx; simp [upd, hx]
  · rfl

/-- One affiliate's summary rows on a tracker without a status for it. -/
theorem loopPrefix_summaryRows {c : Tracker} (hc : FreshInv c) {a : Aff} (hm : c.m a = none)
    (day : Int) (sh : Rat) (acb : Option Rat) (hsh : 0 ≤ sh) (hreg : acb.isNone = a.registered)
    (hacb : ∀ v, acb = some v → 0 ≤ v) (past : List Tx) (acc : List Delta) (r : List Tx) :
    SummaryDone c a sh acb (summaryRowsOf day a sh acb) past acc r := by
  unfold summaryRowsOf
  cases acb with
  | none =>
    have hr : a.registered = true := by simpa using hreg.symm
    by_cases hpos : 0 < sh
    · simp only [hpos, if_true]
      apply summaryDone_one hc hm _ rfl sh hsh none (by simp [hr])
      simp [arm, armBuy, defaultStatus, hr]; grind
    · have hz : sh = 0 := by grind
      simp only [hpos, if_false, zeroRowsOf, hz]
      exact summaryDone_nothing hc hm none (by simp [defaultStatus, hr]) past acc r
  | some cv =>
    have hr : a.registered = false := by simpa using hreg.symm
    have hcv := hacb cv rfl
    by_cases hpos : 0 < sh
    · simp only [hpos, if_true]
      have hne : sh ≠ 0 := by grind
      apply summaryDone_one hc hm _ rfl sh hsh (some cv) (by simp [hr])
      simp only [arm, armBuy, defaultStatus, hr, pricePer, Bool.false_eq_true, if_false]
      have e : (0 : Rat) + (cv / sh * sh * 1 + 0 * commRate 1 none) = cv := by grind
      have e0 : (0 : Rat) + sh = sh := by grind
      rw [e, e0]
    · have hz : sh = 0 := by grind
      simp only [hpos, if_false, zeroRowsOf]
      by_cases hcp : 0 < cv
      · simp only [hcp, if_true]
        have := summaryDone_one hc hm { trade := day, settle := day, idx := 0, aff := a, act := .sfla 1 cv } rfl 0 (by grind)
          (some cv) (by simp [hr]) past acc r (by
            simp only [arm, armSfla, defaultStatus, hr, Bool.false_eq_true, if_false]
            have e : (0 : Rat) + 1 * cv = cv := by grind
            have e0 : c.latestAll + 0 = c.latestAll := by grind
            rw [e, e0])
        rw [hz]; exact this
      · have hc0 : cv = 0 := by grind
        simp only [hcp, if_false, hz, hc0]
        exact summaryDone_nothing hc hm (some 0) (by simp [defaultStatus, hr]) past acc r

end Acb
