/-
  Lemmas about the text layer (digits, trimming) used by the CSV codec proofs (C11).
-/
import AcbModel.App.CsvText
namespace Acb.Csv

/-! ### digit characters -/

theorem digitVal_digitChar {n : Nat} (h : n < 10) : digitVal (digitChar n) = n := by
  have : ∀ k : Fin 10, digitVal (digitChar k.val) = k.val := by decide
  exact this ⟨n, h⟩

theorem isDigit_digitChar (n : Nat) : isDigit (digitChar n) = true := by
  unfold digitChar
  split <;> decide

theorem digitChar_ne_ws (n : Nat) : isWs (digitChar n) = false := by
  unfold digitChar
  split <;> decide

theorem digitChar_eq_zero_iff {n : Nat} (h : n < 10) : digitChar n = '0' ↔ n = 0 := by
  have : ∀ k : Fin 10, digitChar k.val = '0' ↔ k.val = 0 := by decide
  exact this ⟨n, h⟩

theorem digitVal_zero : digitVal '0' = 0 := by decide

/-! ### ofDigits -/

theorem ofDigits_nil : ofDigits [] = 0 := rfl

theorem foldl_digits_append (a : Nat) (s : Str) :
    s.foldl (fun a c => a * 10 + digitVal c) a = a * 10 ^ s.length + ofDigits s := by
  induction s generalizing a with
  | nil => simp [ofDigits]
  | cons c r ih =>
    unfold ofDigits
    simp only [List.foldl_cons, List.length_cons]
    rw [ih, ih (0 * 10 + digitVal c)]
    simp only [Nat.zero_mul, Nat.zero_add, Nat.pow_succ]
    rw [Nat.add_mul, Nat.mul_assoc, Nat.mul_comm 10, Nat.add_assoc]

theorem ofDigits_append (a b : Str) : ofDigits (a ++ b) = ofDigits a * 10 ^ b.length + ofDigits b := by
  unfold ofDigits
  rw [List.foldl_append]
  exact foldl_digits_append _ _

theorem ofDigits_singleton (c : Char) : ofDigits [c] = digitVal c := by simp [ofDigits]

theorem ofDigits_cons_zero (s : Str) : ofDigits ('0' :: s) = ofDigits s := by
  have := ofDigits_append ['0'] s
  simpa [ofDigits_singleton, digitVal_zero] using this

theorem ofDigits_replicate_zero (k : Nat) : ofDigits (List.replicate k '0') = 0 := by
  induction k with
  | zero => rfl
  | succ k ih => rw [List.replicate_succ, ofDigits_cons_zero, ih]

theorem ofDigits_dropWhile_zero (s : Str) : ofDigits (s.dropWhile (· == '0')) = ofDigits s := by
  induction s with
  | nil => rfl
  | cons c r ih =>
    rw [List.dropWhile_cons]
    split
    · rename_i h
      have : c = '0' := by simpa using h
      subst this
      rw [ih, ofDigits_cons_zero]
    · rfl

/-! ### fracDigits -/

theorem fracDigits_length (k n : Nat) : (fracDigits k n).length = k := by
  induction k generalizing n with
  | zero => rfl
  | succ k ih => simp [fracDigits, ih]

theorem fracDigits_all_digit (k n : Nat) : ∀ c ∈ fracDigits k n, isDigit c = true := by
  induction k generalizing n with
  | zero => simp [fracDigits]
  | succ k ih =>
    intro c hc
    simp only [fracDigits, List.mem_append, List.mem_singleton] at hc
    rcases hc with h | h
    · exact ih _ c h
    · subst h; exact isDigit_digitChar _

theorem ofDigits_fracDigits (k n : Nat) : ofDigits (fracDigits k n) = n % 10 ^ k := by
  induction k generalizing n with
  | zero => simp [fracDigits, ofDigits, Nat.mod_one]
  | succ k ih =>
    simp only [fracDigits]
    rw [ofDigits_append, ih, ofDigits_singleton, digitVal_digitChar (Nat.mod_lt _ (by omega))]
    simp only [List.length_singleton, Nat.pow_one]
    -- (n/10 % 10^k) * 10 + n % 10 = n % 10^(k+1)
    rw [Nat.pow_succ, Nat.mul_comm (10 ^ k) 10, Nat.mod_mul, Nat.mul_comm, Nat.add_comm]

/-- appending a zero digit: the digits of `10 * n`. -/
theorem fracDigits_succ_mul10 (k n : Nat) : fracDigits (k + 1) (n * 10) = fracDigits k n ++ ['0'] := by
  simp [fracDigits, Nat.mul_mod_left, digitChar]

theorem fracDigits_add_mul_pow (k j n : Nat) :
    fracDigits (k + j) (n * 10 ^ j) = fracDigits k n ++ List.replicate j '0' := by
  induction j with
  | zero => simp
  | succ j ih =>
    rw [← Nat.add_assoc, Nat.pow_succ, ← Nat.mul_assoc, fracDigits_succ_mul10, ih,
      List.replicate_succ', List.append_assoc]

/-- the first `q` of `s` digits are the `q` digits of the number without its last `s - q` digits. -/
theorem take_fracDigits (q j n : Nat) : (fracDigits (q + j) n).take q = fracDigits q (n / 10 ^ j) := by
  induction j generalizing n with
  | zero =>
    simp only [Nat.add_zero, Nat.pow_zero, Nat.div_one]
    exact List.take_of_length_le (by simp [fracDigits_length])
  | succ j ih =>
    rw [← Nat.add_assoc]
    simp only [fracDigits]
    rw [List.take_append_of_le_length (by simp [fracDigits_length]), ih, Nat.div_div_eq_div_mul,
      Nat.pow_succ, Nat.mul_comm]

/-! ### trailing zeros -/

theorem trimZeros_append_singleton (s : Str) (c : Char) :
    trimZeros (s ++ [c]) = if c = '0' then trimZeros s else s ++ [c] := by
  unfold trimZeros
  simp only [List.reverse_append, List.reverse_singleton, List.singleton_append, List.dropWhile_cons]
  by_cases h : c = '0'
  · simp [h]
  · simp [h]

theorem trimZeros_length_le (s : Str) : (trimZeros s).length ≤ s.length := by
  unfold trimZeros
  simp only [List.length_reverse]
  have := (List.dropWhile_sublist (fun c : Char => c == '0') (l := s.reverse)).length_le
  simpa using this

/-- If at most `q` fractional digits remain after dropping trailing zeros, the last `s - q`
    digits of the number are zero. -/
theorem mod_pow_of_trimZeros_le (j q n : Nat)
    (h : (trimZeros (fracDigits (q + j) n)).length ≤ q) : n % 10 ^ j = 0 := by
  induction j generalizing n with
  | zero => simp [Nat.mod_one]
  | succ j ih =>
    rw [← Nat.add_assoc] at h
    simp only [fracDigits] at h
    rw [trimZeros_append_singleton] at h
    by_cases h0 : n % 10 = 0
    · rw [if_pos ((digitChar_eq_zero_iff (Nat.mod_lt _ (by omega))).2 h0)] at h
      have := ih _ h
      rw [Nat.pow_succ, Nat.mul_comm, Nat.mod_mul, this, h0]
    · rw [if_neg (fun hh => h0 ((digitChar_eq_zero_iff (Nat.mod_lt _ (by omega))).1 hh))] at h
      simp [fracDigits_length] at h
      omega

/-! ### wholeDigits -/

theorem dropWhile_all {α} (p q : α → Bool) (l : List α) (h : ∀ x ∈ l, q x = true) :
    ∀ x ∈ l.dropWhile p, q x = true := by
  intro x hx
  exact h x ((List.dropWhile_sublist p).subset hx)

theorem wholeDigits_all_digit (n : Nat) : ∀ c ∈ wholeDigits n, isDigit c = true := by
  unfold wholeDigits
  simp only
  split
  · intro c hc; simp at hc; subst hc; decide
  · exact dropWhile_all _ _ _ (fracDigits_all_digit 29 n)

theorem wholeDigits_ne_nil (n : Nat) : wholeDigits n ≠ [] := by
  unfold wholeDigits
  simp only
  split
  · simp
  · rename_i h; simpa using h

theorem ofDigits_wholeDigits {n : Nat} (h : n < 10 ^ 29) : ofDigits (wholeDigits n) = n := by
  unfold wholeDigits
  simp only
  split
  · rename_i he
    have h1 := ofDigits_dropWhile_zero (fracDigits 29 n)
    rw [List.isEmpty_iff.1 he, ofDigits_fracDigits, Nat.mod_eq_of_lt h] at h1
    simp [ofDigits, digitVal_zero, ← h1]
  · rw [ofDigits_dropWhile_zero, ofDigits_fracDigits, Nat.mod_eq_of_lt h]

/-! ### trimming -/

theorem isDigit_not_ws {c : Char} (h : isDigit c = true) : isWs c = false := by
  unfold isDigit at h
  unfold isWs
  simp only [Bool.and_eq_true, decide_eq_true_eq] at h
  simp only [Bool.or_eq_false_iff, Bool.and_eq_false_iff, decide_eq_false_iff_not, beq_eq_false_iff_ne]
  omega

theorem dropWhile_eq_self_of_head {α} (p : α → Bool) (l : List α)
    (h : ∀ x, l.head? = some x → p x = false) : l.dropWhile p = l := by
  cases l with
  | nil => rfl
  | cons a r => simp [h a rfl]

/-- `trim` leaves a string alone whose first and last characters are not white space. -/
theorem trim_eq_self (s : Str) (h1 : ∀ x, s.head? = some x → isWs x = false)
    (h2 : ∀ x, s.getLast? = some x → isWs x = false) : trim s = s := by
  unfold trim trimStart trimEnd
  rw [dropWhile_eq_self_of_head isWs s h1, dropWhile_eq_self_of_head isWs s.reverse (by simpa using h2)]
  simp

theorem trim_eq_self_of_all (s : Str) (h : ∀ c ∈ s, isWs c = false) : trim s = s := by
  apply trim_eq_self
  · intro x hx; exact h x (List.mem_of_mem_head? hx)
  · intro x hx; exact h x (List.mem_of_mem_getLast? hx)

theorem trim_nil : trim [] = [] := rfl

end Acb.Csv
