/-
  Split neutrality (C15), part 5: processing the inserted split rows (phase 2).
-/
import AcbModel.Lemmas.Scale4
import AcbModel.Lemmas.WfLoop
namespace Acb

/-- every balance belongs to an affiliate of `As`, and the running total is their sum -/
structure SumInv (As : List Aff) (t : Tracker) : Prop where
  support : ∀ a, a ∉ As → t.bal a = 0
  total : t.latestAll = sumOver As t.bal
  latest : t.latestPostAll = t.latestAll

theorem SumInv.setLatest {As : List Aff} (hn : As.Nodup) {t t2 : Tracker} (h : SumInv As t) {a : Aff} (ha : a ∈ As)
    {v : Status} (hs : t.setLatest a v = .ok t2) : SumInv As t2 := by
  obtain ⟨_, hall, rfl⟩ := setLatest_ok hs
  have hb : ∀ x, (Tracker.bal { m := upd t.m a (some v), latestAll := v.all, latestAff := a } x) =
      if x = a then v.shares else t.bal x := by
    intro x; unfold Tracker.bal upd; by_cases hx : x = a <;> simp [hx]
  constructor
  · intro x hx
    have : x ≠ a := fun e => hx (e ▸ ha)
    rw [hb]; simp only [this, if_false]; exact h.support x hx
  · show v.all = _
    rw [funext hb, sumOver_upd hn ha, ← h.total, hall]; grind
  · simp [Tracker.latestPostAll, upd]

theorem stepRow_setLatest {t t' : Tracker} {tx : Tx} {past future : List Tx} {d : Delta} {inj : List Tx}
    (h : stepRow t tx past future = .ok (d, t', inj)) : t.setLatest tx.aff d.post = .ok t' := by
  unfold stepRow at h
  split at h
  · cases h
  · split at h
    · cases h
    · rename_i hs
      simp only [Except.ok.injEq, Prod.mk.injEq] at h
      obtain ⟨h1, h2, _⟩ := h
      subst h1; subst h2; exact hs

theorem TrackerWFOn.reg {U : List Aff} {t : Tracker} (h : TrackerWFOn U t) (a : Aff) :
    a.registered = (t.acbOf a).isNone := by
  unfold Tracker.acbOf
  cases hm : t.m a with
  | none => simp [defaultStatus]; cases a.registered <;> simp
  | some s => simp only [Option.getD_some]; exact (h.ok a s hm).reg.symm

def splitRow (day : Int) (idx : Nat) (post pre : Rat) (a : Aff) : Tx :=
  { trade := day, settle := day, idx := idx, aff := a, act := .split post pre false }

theorem splitRows_cons (day : Int) (idx : Nat) (post pre : Rat) (a : Aff) (L : List Aff) :
    splitRows day idx post pre (a :: L) = splitRow day idx post pre a :: splitRows day idx post pre L := rfl

/-- what a split row's delta looks like -/
structure SplitDelta (d : Delta) : Prop where
  gain : d.gain = none
  sfl : d.sfl = none
  acb : d.post.acb = d.pre.acb

/-- One inserted split row: cannot fail on a well-formed tracker, multiplies the affiliate's
    balance by the factor, injects nothing. -/
theorem stepRow_split {As : List Aff} {c : Tracker} (hs : SumInv As c) (hnn : ∀ a, 0 ≤ c.bal a)
    (hreg : ∀ a, a.registered = (c.acbOf a).isNone) {a : Aff} (ha : a ∈ As)
    (day : Int) (idx : Nat) (post pre : Rat) (hf : 0 < splitFactor post pre) (past future : List Tx) :
    ∃ c2 d, stepRow c (splitRow day idx post pre a) past future = .ok (d, c2, []) ∧
      (∀ x, c2.bal x = if x = a then c.bal a * splitFactor post pre else c.bal x) ∧
      (∀ x, c2.acbOf x = c.acbOf x) ∧ SplitDelta d := by
  have hle : c.bal a ≤ c.latestAll := by
    rw [hs.total]; exact le_sumOver (fun b _ => hnn b) ha
  have h0 := hnn a
  have hsan : sanityCheck { shares := c.bal a, all := c.latestAll, acb := c.acbOf a } a = .ok () := by
    unfold sanityCheck
    have h1 : ¬ c.latestAll < c.bal a := by grind
    have hr := hreg a
    simp only [h1, if_false]
    cases hra : a.registered <;> cases hacb : c.acbOf a <;> simp_all
  have hmul : 0 ≤ c.bal a * splitFactor post pre := Rat.mul_nonneg h0 (by grind)
  have hall : ¬ c.latestAll + (c.bal a * splitFactor post pre - c.bal a) < 0 := by grind
  let v : Status := { shares := c.bal a * splitFactor post pre,
                      all := c.latestAll + (c.bal a * splitFactor post pre - c.bal a), acb := c.acbOf a }
  have hset : c.setLatest a v = .ok { m := upd c.m a (some v), latestAll := v.all, latestAff := a } := by
    rw [setLatest_iff]
    have h1 : a.registered = v.acb.isNone := hreg a
    have h2 : v.all = v.shares + c.latestAll - c.bal a := by simp only [v]; grind
    rw [if_pos h1, if_pos h2]
  refine ⟨{ m := upd c.m a (some v), latestAll := v.all, latestAff := a },
    { tx := splitRow day idx post pre a, pre := c.nextPre a, post := v, gain := none, sfl := none }, ?_, ?_, ?_, ?_⟩
  · simp only [stepRow, deltaForTx, splitRow, nextPre_eq, hsan, arm, armSplit, hall, if_false,
      Bool.false_eq_true, false_and, and_false]
    exact by rw [hset]
  · intro x; rw [bal_set]; by_cases hx : x = a <;> simp [hx, v]
    · rfl
  · intro x
    unfold Tracker.acbOf upd
    by_cases hx : x = a
    · subst hx; simp [v, Tracker.acbOf]
    · simp [hx]
  · exact ⟨rfl, rfl, by simp [v, nextPre_eq]⟩

end Acb

namespace Acb

structure Ready (As : List Aff) (c : Tracker) : Prop where
  sum : SumInv As c
  nonneg : ∀ a, 0 ≤ c.bal a
  reg : ∀ a, a.registered = (c.acbOf a).isNone

/-- **Phase 2: the inserted split rows.**  They are processed without failure; afterwards the
    balances of their affiliates are multiplied by the factor and nothing else has changed. -/
theorem deltaLoop_splitRows {As : List Aff} (hn : As.Nodup) (day : Int) (idx : Nat) (post pre : Rat)
    (hf : 0 < splitFactor post pre) :
    ∀ (L : List Aff), L.Nodup → (∀ a ∈ L, a ∈ As) →
    ∀ (c : Tracker) (past : List Tx) (acc : List Delta) (rest : List Tx), Ready As c →
    ∃ c2 sd, deltaLoop c past acc (splitRows day idx post pre L ++ rest) =
        deltaLoop c2 ((splitRows day idx post pre L).reverse ++ past) (acc ++ sd) rest ∧
      Ready As c2 ∧ (∀ x, c2.bal x = if x ∈ L then c.bal x * splitFactor post pre else c.bal x) ∧
      (∀ x, c2.acbOf x = c.acbOf x) ∧ sd.length = L.length ∧ ∀ d ∈ sd, SplitDelta d := by
  intro L
  induction L with
  | nil =>
    intro _ _ c past acc rest hr
    exact ⟨c, [], by simp [splitRows], hr, by simp, by simp, rfl, by simp⟩
  | cons a L ih =>
    intro hnd hsub c past acc rest hr
    have haA : a ∈ As := hsub a (by simp)
    have haL : a ∉ L := (List.nodup_cons.mp hnd).1
    obtain ⟨c1, d, hstep, hbal, hacb, hsd⟩ := stepRow_split hr.sum hr.nonneg hr.reg haA day idx post pre hf past
      (splitRows day idx post pre L ++ rest)
    have hr1 : Ready As c1 := by
      refine ⟨hr.sum.setLatest hn haA (stepRow_setLatest hstep), ?_, ?_⟩
      · intro x; rw [hbal]; split
        · exact Rat.mul_nonneg (hr.nonneg a) (by grind)
        · exact hr.nonneg x
      · intro x; rw [hacb]; exact hr.reg x
    obtain ⟨c2, sd, hloop, hr2, hbal2, hacb2, hlen, hall⟩ := ih (List.nodup_cons.mp hnd).2
      (fun b hb => hsub b (by simp [hb])) c1 (splitRow day idx post pre a :: past) (acc ++ [d]) rest hr1
    refine ⟨c2, d :: sd, ?_, hr2, ?_, ?_, by simp [hlen], ?_⟩
    · rw [splitRows_cons, List.cons_append, deltaLoop, hstep]
      simp only [runInjected]
      rw [hloop]
      simp [splitRows_cons]
    · intro x
      rw [hbal2, hbal]
      by_cases hxa : x = a
      · subst hxa; simp [haL]
      · simp [hxa]
    · intro x; rw [hacb2, hacb]
    · intro d' hd'
      simp only [List.mem_cons] at hd'
      rcases hd' with rfl | hd'
      · exact hsd
      · exact hall d' hd'

/-- after the split rows of all of `As` the tracker is the scaled one -/
theorem trackerScaled_of_split {As : List Aff} {f : Rat} {c c2 : Tracker} (hc : Ready As c) (hc2 : Ready As c2)
    (hbal : ∀ x, c2.bal x = if x ∈ As then c.bal x * f else c.bal x) (hacb : ∀ x, c2.acbOf x = c.acbOf x) :
    TrackerScaled f c c2 := by
  have hb : ∀ x, c2.bal x = c.bal x * f := by
    intro x; rw [hbal]
    split
    · rfl
    · rename_i hx; rw [hc.sum.support x hx]; grind
  have hall : c2.latestAll = c.latestAll * f := by
    rw [hc2.sum.total, hc.sum.total, ← sumOver_mul_right]
    apply sumOver_congr; intro a _; exact hb a
  exact TrackerScaled.of_obs hb hall hacb (by rw [hc2.sum.latest, hc.sum.latest, hall])

end Acb
