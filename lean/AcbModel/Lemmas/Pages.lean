/-
  Lemmas about the page-ordering model (`AcbModel/Broker/Pages.lean`).
-/
import AcbModel.Broker.Pages
namespace Acb.Pages

/-! ### membership in the pruned groups -/

theorem mem_safeChunk {n p : Nat} {c : List Nat} :
    p ∈ safeChunk n c ↔ p ∈ c ∧ 1 ≤ p ∧ p ≤ n := by
  simp [safeChunk]; omega

theorem mem_flatten_filter_nonempty {p : Nat} (L : List (List Nat)) :
    p ∈ (L.filter (fun c => decide (0 < c.length))).flatten ↔ p ∈ L.flatten := by
  induction L with
  | nil => simp
  | cons c L ih =>
    by_cases hc : 0 < c.length
    · simp [List.filter_cons, hc, ih]
    · have : c = [] := by cases c <;> simp_all
      subst this; simp [List.filter_cons, ih]

theorem mem_keptChunks_flatten {n p : Nat} {hints : List (List Nat)} :
    p ∈ (keptChunks n hints).flatten ↔ p ∈ hints.flatten ∧ 1 ≤ p ∧ p ≤ n := by
  unfold keptChunks
  rw [mem_flatten_filter_nonempty]
  induction hints with
  | nil => simp
  | cons c L ih =>
    simp only [List.map_cons, List.flatten_cons, List.mem_append, ih, mem_safeChunk]
    constructor
    · rintro (h | h)
      · exact ⟨Or.inl h.1, h.2⟩
      · exact ⟨Or.inr h.1, h.2⟩
    · rintro ⟨h | h, h2⟩
      · exact Or.inl ⟨h, h2⟩
      · exact Or.inr ⟨h, h2⟩

/-! ### the `HashSet` -/

theorem mem_insertSet {s : List Nat} {p q : Nat} : q ∈ insertSet s p ↔ q = p ∨ q ∈ s := by
  unfold insertSet; split
  · constructor
    · exact Or.inr
    · rintro (h | h)
      · subst h; assumption
      · exact h
  · simp

theorem nodup_insertSet {s : List Nat} {p : Nat} (h : s.Nodup) : (insertSet s p).Nodup := by
  unfold insertSet; split
  · exact h
  · exact List.nodup_cons.mpr ⟨by assumption, h⟩

theorem foldl_insertSet_spec (l s : List Nat) (hs : s.Nodup) :
    (l.foldl insertSet s).Nodup ∧ ∀ q, q ∈ l.foldl insertSet s ↔ q ∈ l ∨ q ∈ s := by
  induction l generalizing s with
  | nil => simp [hs]
  | cons p l ih =>
    have := ih (insertSet s p) (nodup_insertSet hs)
    refine ⟨this.1, fun q => ?_⟩
    rw [List.foldl_cons, this.2, mem_insertSet]
    simp only [List.mem_cons]
    constructor
    · rintro (h | h | h)
      · exact Or.inl (Or.inr h)
      · exact Or.inl (Or.inl h)
      · exact Or.inr h
    · rintro ((h | h) | h)
      · exact Or.inr (Or.inl h)
      · exact Or.inl h
      · exact Or.inr (Or.inr h)

theorem nodup_toSet (l : List Nat) : (toSet l).Nodup := (foldl_insertSet_spec l [] List.nodup_nil).1

theorem mem_toSet {l : List Nat} {q : Nat} : q ∈ toSet l ↔ q ∈ l := by
  have := (foldl_insertSet_spec l [] List.nodup_nil).2 q
  simpa [toSet] using this

/-! ### pigeonhole for duplicate-free lists of page numbers -/

/-- A duplicate-free list of numbers from `1..n` has at most `n` elements, and exactly `n` only
    if it contains all of them. -/
theorem pigeon (n : Nat) : ∀ l : List Nat, l.Nodup → (∀ p ∈ l, 1 ≤ p ∧ p ≤ n) →
    l.length ≤ n ∧ (l.length = n → ∀ p, 1 ≤ p → p ≤ n → p ∈ l) := by
  induction n with
  | zero =>
    intro l _ hr
    have : l = [] := by
      cases l with
      | nil => rfl
      | cons a t => have := hr a (by simp); omega
    subst this; simp; intro p h1 h2; omega
  | succ n ih =>
    intro l hn hr
    have hn' : (l.erase (n + 1)).Nodup := hn.erase _
    have hr' : ∀ p ∈ l.erase (n + 1), 1 ≤ p ∧ p ≤ n := by
      intro p hp
      have hpl : p ∈ l := List.mem_of_mem_erase hp
      have hne : p ≠ n + 1 := by
        intro h; subst h
        exact (List.Nodup.not_mem_erase hn) hp
      have := hr p hpl; omega
    have ⟨h1, h2⟩ := ih _ hn' hr'
    by_cases hm : (n + 1) ∈ l
    · have hl : (l.erase (n + 1)).length = l.length - 1 := List.length_erase_of_mem hm
      have hpos : 0 < l.length := List.length_pos_of_mem hm
      refine ⟨by omega, fun hlen p hp1 hp2 => ?_⟩
      by_cases hp : p = n + 1
      · subst hp; exact hm
      · have := h2 (by omega) p hp1 (by omega)
        exact List.mem_of_mem_erase this
    · have hl : l.erase (n + 1) = l := List.erase_of_not_mem hm
      rw [hl] at h1 h2
      refine ⟨by omega, fun hlen => by omega⟩

theorem nodup_subset_length_le : ∀ (m l : List Nat), m.Nodup → (∀ p ∈ m, p ∈ l) → m.length ≤ l.length := by
  intro m
  induction m with
  | nil => intros; simp
  | cons a m ih =>
    intro l hn hs
    have ha : a ∈ l := hs a (by simp)
    have hn' := List.nodup_cons.mp hn
    have hs' : ∀ p ∈ m, p ∈ l.erase a := by
      intro p hp
      have hne : p ≠ a := by intro h; subst h; exact hn'.1 hp
      exact (List.mem_erase_of_ne hne).mpr (hs p (by simp [hp]))
    have := ih (l.erase a) hn'.2 hs'
    have hl : (l.erase a).length = l.length - 1 := List.length_erase_of_mem ha
    have hpos : 0 < l.length := List.length_pos_of_mem ha
    simp only [List.length_cons]; omega

/-- Conversely, a duplicate-free list of numbers from `1..n` that contains all of them has
    exactly `n` elements. -/
theorem pigeon_full (n : Nat) (l : List Nat) (hn : l.Nodup) (hr : ∀ p ∈ l, 1 ≤ p ∧ p ≤ n)
    (hall : ∀ p, 1 ≤ p → p ≤ n → p ∈ l) : l.length = n := by
  have h1 := (pigeon n l hn hr).1
  have hsub : ∀ p ∈ List.range' 1 n, p ∈ l := by
    intro p hp; simp [List.mem_range'_1] at hp; exact hall p hp.1 (by omega)
  have := nodup_subset_length_le (List.range' 1 n) l List.nodup_range' hsub
  simp at this; omega

/-! ### safeChunks -/

theorem found_spec (n : Nat) (hints : List (List Nat)) :
    (toSet (keptChunks n hints).flatten).Nodup ∧
    ∀ p, p ∈ toSet (keptChunks n hints).flatten ↔ p ∈ hints.flatten ∧ 1 ≤ p ∧ p ≤ n :=
  ⟨nodup_toSet _, fun p => by rw [mem_toSet, mem_keptChunks_flatten]⟩

theorem mem_safeChunks_flatten (n : Nat) (hints : List (List Nat)) (p : Nat) :
    p ∈ (safeChunks n hints).flatten ↔ 1 ≤ p ∧ p ≤ n := by
  have ⟨hnd, hmem⟩ := found_spec n hints
  have hr : ∀ q ∈ toSet (keptChunks n hints).flatten, 1 ≤ q ∧ q ≤ n := fun q hq => ((hmem q).mp hq).2
  unfold safeChunks
  simp only
  split
  · rename_i hlen
    constructor
    · intro hp; exact (mem_keptChunks_flatten.mp hp).2
    · rintro ⟨h1, h2⟩
      have := (pigeon n _ hnd hr).2 hlen p h1 h2
      exact mem_toSet.mp this
  · simp only [List.flatten_append, List.flatten_cons, List.flatten_nil, List.append_nil,
      List.mem_append, List.mem_filter, List.mem_range'_1, List.contains_eq_mem, Bool.not_eq_eq_eq_not,
      Bool.not_true, decide_eq_false_iff_not]
    constructor
    · rintro (hp | hp)
      · exact (mem_keptChunks_flatten.mp hp).2
      · omega
    · rintro ⟨h1, h2⟩
      by_cases hf : p ∈ toSet (keptChunks n hints).flatten
      · exact Or.inl (mem_toSet.mp hf)
      · exact Or.inr ⟨by omega, hf⟩

theorem keptChunks_flatten_sublist (n : Nat) (hints : List (List Nat)) :
    (keptChunks n hints).flatten.Sublist hints.flatten := by
  unfold keptChunks
  induction hints with
  | nil => simp
  | cons c L ih =>
    simp only [List.map_cons, List.flatten_cons]
    by_cases hc : 0 < (safeChunk n c).length
    · rw [List.filter_cons_of_pos (by simpa using hc)]
      simp only [List.flatten_cons]
      exact List.Sublist.append (List.filter_sublist) ih
    · rw [List.filter_cons_of_neg (by simpa using hc)]
      exact List.Sublist.trans ih (List.sublist_append_right _ _)

theorem safeChunks_flatten_nodup (n : Nat) (hints : List (List Nat)) (h : hints.flatten.Nodup) :
    (safeChunks n hints).flatten.Nodup := by
  have hk : (keptChunks n hints).flatten.Nodup := (keptChunks_flatten_sublist n hints).nodup h
  unfold safeChunks
  simp only
  split
  · exact hk
  · simp only [List.flatten_append, List.flatten_cons, List.flatten_nil, List.append_nil]
    refine List.nodup_append.mpr ⟨hk, (List.filter_sublist.nodup List.nodup_range'), ?_⟩
    intro a ha b hb hab
    subst hab
    simp only [List.mem_filter, List.contains_eq_mem, Bool.not_eq_eq_eq_not, Bool.not_true,
      decide_eq_false_iff_not] at hb
    exact hb.2 (mem_toSet.mpr ha)

theorem safeChunks_groups_nonempty (n : Nat) (hints : List (List Nat)) :
    ∀ g ∈ safeChunks n hints, g ≠ [] := by
  have ⟨hnd, hmem⟩ := found_spec n hints
  have hr : ∀ q ∈ toSet (keptChunks n hints).flatten, 1 ≤ q ∧ q ≤ n := fun q hq => ((hmem q).mp hq).2
  have hkept : ∀ g ∈ keptChunks n hints, g ≠ [] := by
    intro g hg
    unfold keptChunks at hg
    have := (List.mem_filter.mp hg).2
    intro h; subst h; simp at this
  unfold safeChunks
  simp only
  split
  · exact hkept
  · rename_i hlen
    intro g hg
    rcases List.mem_append.mp hg with hg | hg
    · exact hkept g hg
    · simp only [List.mem_singleton] at hg
      subst hg
      intro hempty
      apply hlen
      apply pigeon_full n _ hnd hr
      intro p h1 h2
      have hp : p ∈ List.range' 1 n := by simp [List.mem_range'_1]; omega
      false_or_by_contra
      rename_i hnot
      have : p ∈ (List.range' 1 n).filter (fun p => !(toSet (keptChunks n hints).flatten).contains p) := by
        simp only [List.mem_filter, List.contains_eq_mem, Bool.not_eq_eq_eq_not, Bool.not_true,
          decide_eq_false_iff_not]
        exact ⟨hp, hnot⟩
      rw [hempty] at this; simp at this

/-! ### load_pages / iterator -/

theorem length_sizeFor {T : Type} (tr : Bool) (v : List (Option T)) (p : Nat) :
    p ≤ (sizeFor tr v p).length := by
  unfold sizeFor
  split
  · simp; omega
  · split
    · simp; omega
    · omega

/-- slots below the new page's index that are kept: all of them when growing, and those below `p`
    when the truncating `resize` is used -/
theorem getElem?_sizeFor {T : Type} (tr : Bool) (v : List (Option T)) (p i : Nat) (t : Option T)
    (hi : v[i]? = some t) (hlt : tr = true → i < p) : (sizeFor tr v p)[i]? = some t := by
  have hiv : i < v.length := by
    rcases Nat.lt_or_ge i v.length with h | h
    · exact h
    · rw [List.getElem?_eq_none h] at hi; cases hi
  unfold sizeFor
  split
  · rw [List.getElem?_append_left hiv]; exact hi
  · split
    · rename_i htr
      rw [List.getElem?_take_of_lt (hlt htr)]; exact hi
    · exact hi

theorem loadPages_spec {T : Type} (tr : Bool) (doc : Nat → T) :
    ∀ (g S : List Nat) (v : List (Option T)),
      (∀ p ∈ S, 0 < p ∧ v[p - 1]? = some (some (doc p))) →
      (∀ p ∈ g, 0 < p) →
      (tr = true → ∀ p ∈ S, ∀ q ∈ g, p ≤ q) →
      (tr = true → g.Pairwise (· ≤ ·)) →
      ∃ v', loadPages tr doc v g = .ok v' ∧ ∀ p, (p ∈ S ∨ p ∈ g) → v'[p - 1]? = some (some (doc p)) := by
  intro g
  induction g with
  | nil =>
    intro S v hS _ _ _
    exact ⟨v, rfl, fun p hp => by rcases hp with hp | hp; exact (hS p hp).2; cases hp⟩
  | cons q qs ih =>
    intro S v hS hg hle hsorted
    have hq : 0 < q := hg q (by simp)
    have hq0 : q ≠ 0 := by omega
    simp only [loadPages, hq0, if_false]
    have hlen := length_sizeFor tr v q
    let v1 := (sizeFor tr v q).set (q - 1) (some (doc q))
    have hS1 : ∀ p ∈ q :: S, 0 < p ∧ v1[p - 1]? = some (some (doc p)) := by
      intro p hp
      by_cases hpq : p = q
      · subst hpq
        refine ⟨hq, ?_⟩
        show ((sizeFor tr v p).set (p - 1) (some (doc p)))[p - 1]? = _
        rw [List.getElem?_set_self (by omega)]
      · have hpS : p ∈ S := by
          rcases List.mem_cons.mp hp with h | h
          · exact absurd h hpq
          · exact h
        have ⟨hp0, hpv⟩ := hS p hpS
        refine ⟨hp0, ?_⟩
        show ((sizeFor tr v q).set (q - 1) (some (doc q)))[p - 1]? = _
        rw [List.getElem?_set_ne (by omega)]
        apply getElem?_sizeFor tr v q (p - 1) _ hpv
        intro htr
        have := hle htr p hpS q (by simp)
        omega
    have hle1 : tr = true → ∀ p ∈ q :: S, ∀ r ∈ qs, p ≤ r := by
      intro htr p hp r hr
      rcases List.mem_cons.mp hp with h | h
      · subst h
        exact (List.pairwise_cons.mp (hsorted htr)).1 r hr
      · exact hle htr p h r (by simp [hr])
    have hsorted1 : tr = true → qs.Pairwise (· ≤ ·) := fun htr => (List.pairwise_cons.mp (hsorted htr)).2
    obtain ⟨v', hv', hall⟩ := ih (q :: S) v1 hS1 (fun p hp => hg p (by simp [hp])) hle1 hsorted1
    refine ⟨v', hv', fun p hp => ?_⟩
    apply hall
    rcases hp with hp | hp
    · exact Or.inl (by simp [hp])
    · rcases List.mem_cons.mp hp with h | h
      · exact Or.inl (by simp [h])
      · exact Or.inr h

theorem yieldPages_ok {T : Type} (doc : Nat → T) (v : List (Option T)) :
    ∀ g : List Nat, (∀ p ∈ g, v[p - 1]? = some (some (doc p))) →
      yieldPages v g = (g.map (fun p => (p, doc p)), none) := by
  intro g
  induction g with
  | nil => intro _; rfl
  | cons p ps ih =>
    intro h
    have hp := h p (by simp)
    have := ih (fun q hq => h q (by simp [hq]))
    simp only [yieldPages, hp, this, List.map_cons]

/-- What a vector holds about the pages of earlier groups is irrelevant for later groups: the
    iterator over any list of non-empty groups of positive page numbers yields exactly the pages
    of the groups, in order, each with its own text.  With the truncating `resize` this needs every
    group to be in non-decreasing order. -/
theorem iterGroups_ok {T : Type} (tr : Bool) (doc : Nat → T) :
    ∀ (gs : List (List Nat)) (v : List (Option T)),
      (∀ g ∈ gs, g ≠ [] ∧ ∀ p ∈ g, 0 < p) →
      (tr = true → ∀ g ∈ gs, g.Pairwise (· ≤ ·)) →
      iterGroups tr doc v gs = (gs.flatten.map (fun p => (p, doc p)), none) := by
  intro gs
  induction gs with
  | nil => intro v _ _; rfl
  | cons g gs ih =>
    intro v hg hs
    have ⟨hne, hpos⟩ := hg g (by simp)
    obtain ⟨v', hv', hall⟩ := loadPages_spec tr doc g [] v (by simp) hpos (by simp)
      (fun htr => hs htr g (by simp))
    have hy := yieldPages_ok doc v' g (fun p hp => hall p (Or.inr hp))
    have hrest := ih v' (fun g' hg' => hg g' (by simp [hg'])) (fun htr g' hg' => hs htr g' (by simp [hg']))
    simp only [iterGroups, hv', hne, if_false, hy, hrest, List.flatten_cons, List.map_append]

end Acb.Pages
