/-
  `Costs.WF` of a concatenation of per-security row lists, from per-security facts.  Used by the
  ledger → report bridge (Props/C17b) in spirit and by C09 (`C09_deterministic_ledger`).
-/
import AcbModel.App.CostsSpec
namespace Acb.Costs

/-- what one security's ledger must guarantee about the rows it hands to the cost report -/
structure SecRowsOk (s : Nat) (rows : List Row) : Prop where
  sec : ∀ r ∈ rows, r.sec = s
  nonneg : ∀ r ∈ rows, ∀ p, (r.post = some p ∨ r.pre = some p) → 0 ≤ p
  pre : ∀ r ∈ rows, r.post.isSome = true → r.pre.isSome = true
  sorted : rows.Pairwise (fun a b => a.day ≤ b.day)

theorem WF_flatMap {α : Type} (sec : α → Nat) (rows : α → List Row) :
    ∀ (L : List α), L.Pairwise (fun a b => sec a ≠ sec b) → (∀ l ∈ L, SecRowsOk (sec l) (rows l)) →
      WF (L.flatMap rows) := by
  intro L hsec hok
  refine ⟨?_, ?_, ?_⟩
  · intro r hr p hp
    obtain ⟨l, hl, hr⟩ := List.mem_flatMap.mp hr
    exact (hok l hl).nonneg r hr p hp
  · intro r hr hp
    obtain ⟨l, hl, hr⟩ := List.mem_flatMap.mp hr
    exact (hok l hl).pre r hr hp
  · refine List.Pairwise.sublist (List.filter_sublist) ?_
    induction L with
    | nil => exact List.Pairwise.nil
    | cons l ls ih =>
      rw [List.flatMap_cons]
      refine List.pairwise_append.mpr ⟨?_, ?_, ?_⟩
      · refine (hok l (by simp)).sorted.imp ?_
        intro a b h _
        exact h
      · exact ih (List.pairwise_cons.mp hsec).2 (fun l' hl' => hok l' (by simp [hl']))
      · intro a ha b hb hab
        obtain ⟨l', hl', hb⟩ := List.mem_flatMap.mp hb
        have e1 := (hok l (by simp)).sec a ha
        have e2 := (hok l' (by simp [hl'])).sec b hb
        rw [e1, e2] at hab
        exact absurd hab ((List.pairwise_cons.mp hsec).1 l' hl')

end Acb.Costs
