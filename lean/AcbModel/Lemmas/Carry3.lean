/-
  C10, carried-over rows, part 3: a row replayed as its carried form (`carryTx`): same figures,
  same tracker update, and no generated adjustment rows.
-/
import AcbModel.Lemmas.Carry2
namespace Acb

/-- `carryTx` in terms of the two things it reads -/
def carryOf (sfl : Option SflInfo) (x : Tx) : Tx :=
  match sfl, x.act with
  | some s, .sell sh px comm rate crate spec =>
    let force := match spec with | some (_, f) => f | none => false
    { x with act := .sell sh px comm rate crate (some (s.loss, force)) }
  | _, _ => x

theorem carryTx_eq (d : Delta) : carryTx d = carryOf d.sfl d.tx := rfl

theorem carryOf_none (x : Tx) : carryOf none x = x := by
  unfold carryOf; cases x.act <;> rfl

theorem carryOf_props (sfl : Option SflInfo) (x : Tx) :
    (carryOf sfl x).aff = x.aff ∧ (carryOf sfl x).settle = x.settle ∧ (carryOf sfl x).trade = x.trade ∧
      (carryOf sfl x).idx = x.idx ∧ eraseSpec (carryOf sfl x) = eraseSpec x := by
  unfold carryOf
  cases sfl with
  | none => cases hact : x.act <;> simp
  | some s =>
    cases hact : x.act <;> simp [eraseSpec, eraseSpecAct, hact]

theorem armRoc_plain {r : Bool} {pre : Status} {ps rate : Rat} {o : ArmOut}
    (h : armRoc r pre ps rate = .ok o) : o.sfl = none ∧ o.inj = [] := by
  unfold armRoc at h
  cases hacb : pre.acb with
  | none => simp only [hacb] at h; split at h <;> cases h
  | some old =>
    simp only [hacb] at h
    split at h
    · cases h
    · split at h
      · cases h
      · simp only [Except.ok.injEq] at h; subst h; exact ⟨rfl, rfl⟩

theorem armSfla_plain {r : Bool} {pre : Status} {sh ps : Rat} {o : ArmOut}
    (h : armSfla r pre sh ps = .ok o) : o.sfl = none ∧ o.inj = [] := by
  unfold armSfla at h
  cases hacb : pre.acb with
  | none => simp only [hacb] at h; split at h <;> cases h
  | some old =>
    simp only [hacb] at h
    split at h
    · cases h
    · simp only [Except.ok.injEq] at h; subst h; exact ⟨rfl, rfl⟩

theorem armSplit_plain {pre : Status} {post pre' : Rat} {io : Bool} {o : ArmOut}
    (h : armSplit pre post pre' io = .ok o) : o.sfl = none ∧ o.inj = [] := by
  unfold armSplit at h
  simp only at h
  split at h
  · cases h
  · split at h
    · cases h
    · simp only [Except.ok.injEq] at h; subst h; exact ⟨rfl, rfl⟩

/-- **One arm, carried.**  If the arm of `x` succeeds with `o`, the arm of the carried row succeeds
    with the same post-status and gain, the same superficial-loss amount, and nothing to inject. -/
theorem arm_carry {t : Tracker} {x : Tx} {pre : Status} {past f : List Tx} {o : ArmOut}
    (h : arm t x pre past f = .ok o) :
    ∃ o', arm t (carryOf o.sfl x) pre past f = .ok o' ∧ o'.post = o.post ∧ o'.gain = o.gain ∧
      o'.sfl.map (·.loss) = o.sfl.map (·.loss) ∧ o'.inj = [] := by
  have h0 := h
  -- the cases in which the carried row is the row itself
  have same : o.sfl = none → o.inj = [] →
      ∃ o', arm t (carryOf o.sfl x) pre past f = .ok o' ∧ o'.post = o.post ∧ o'.gain = o.gain ∧
        o'.sfl.map (·.loss) = o.sfl.map (·.loss) ∧ o'.inj = [] := by
    intro hs hi
    rw [hs, carryOf_none]
    exact ⟨o, h0, rfl, rfl, by rw [hs], hi⟩
  unfold arm at h
  cases hact : x.act with
  | buy sh px comm rate crate =>
    simp only [hact, Except.ok.injEq] at h; subst h
    exact same rfl rfl
  | roc ps rate =>
    simp only [hact] at h
    exact same (armRoc_plain h).1 (armRoc_plain h).2
  | sfla sh ps =>
    simp only [hact] at h
    exact same (armSfla_plain h).1 (armSfla_plain h).2
  | split post pre' io =>
    simp only [hact] at h
    exact same (armSplit_plain h).1 (armSplit_plain h).2
  | sell sh px comm rate crate spec =>
    simp only [hact] at h
    unfold armSell at h
    split at h
    · cases h
    · rename_i h1
      split at h
      · cases h
      · rename_i h2
        simp only at h
        cases hp : perShareAcb pre with
        | none =>
          rw [hp] at h
          simp only at h
          split at h
          · cases h
          · simp only [Except.ok.injEq] at h; subst h
            exact same rfl rfl
        | some aps =>
          rw [hp] at h
          simp only at h
          by_cases hg : px * sh * rate - comm * commRate rate crate - aps * sh < 0
          · simp only [hg, if_true] at h
            cases hdsi : deltaSflInfo t x sh spec (px * sh * rate - comm * commRate rate crate - aps * sh) past f with
            | error e => rw [hdsi] at h; cases h
            | ok r =>
              rw [hdsi] at h
              cases r with
              | none =>
                simp only [Except.ok.injEq] at h; subst h
                exact same rfl rfl
              | some ia =>
                obtain ⟨info, adj⟩ := ia
                simp only [Except.ok.injEq] at h; subst h
                simp only
                cases spec with
                | some vf =>
                  obtain ⟨v, fo⟩ := vf
                  -- a declared amount: the recorded loss is that amount, nothing is injected
                  have hshape : info.loss = v ∧ adj = [] := by
                    unfold deltaSflInfo at hdsi
                    cases hr : sflRatio t x.aff x.settle sh past f with
                    | error e => rw [hr] at hdsi; cases hdsi
                    | ok msfl =>
                      rw [hr] at hdsi
                      cases msfl with
                      | none =>
                        simp only at hdsi
                        split at hdsi
                        · cases hdsi
                        · split at hdsi
                          · simp only [Except.ok.injEq, Option.some.injEq, Prod.mk.injEq] at hdsi
                            exact ⟨by rw [← hdsi.1], hdsi.2.symm⟩
                          · cases hdsi
                      | some r =>
                        simp only at hdsi
                        split at hdsi
                        · cases hdsi
                        · split at hdsi
                          · simp only [Except.ok.injEq, Option.some.injEq, Prod.mk.injEq] at hdsi
                            exact ⟨by rw [← hdsi.1], hdsi.2.symm⟩
                          · cases hdsi
                  have hx : carryOf (some info) x = x := by
                    unfold carryOf
                    simp only [hact, hshape.1]
                    cases x; simp only at hact; subst hact; rfl
                  rw [hx]
                  exact ⟨_, h0, rfl, rfl, rfl, hshape.2⟩
                | none =>
                  have hdecl := deltaSflInfo_declared hdsi
                  have hx : carryOf (some info) x =
                      { x with act := .sell sh px comm rate crate (some (info.loss, false)) } := by
                    unfold carryOf; simp only [hact]
                  rw [hx]
                  have hcongr := deltaSflInfo_congr (t := t) (t' := t) (x := x)
                    (x' := { x with act := .sell sh px comm rate crate (some (info.loss, false)) })
                    (past := past) (past' := past) (f := f) (f' := f) sh (some (info.loss, false))
                    (px * sh * rate - comm * commRate rate crate - aps * sh) ⟨rfl, rfl, rfl, rfl⟩ rfl
                  refine ⟨{ post := { shares := pre.shares - sh, all := pre.all - sh, acb := some ((pre.shares - sh) * aps) },
                            gain := some (px * sh * rate - comm * commRate rate crate - aps * sh - info.loss),
                            sfl := some { loss := info.loss,
                                          num := (info.loss / (px * sh * rate - comm * commRate rate crate - aps * sh)) * sh,
                                          den := sh, over := false },
                            inj := [] }, ?_, rfl, rfl, rfl, rfl⟩
                  unfold arm
                  simp only
                  unfold armSell
                  simp only [h1, h2, hp, hg, if_true, if_false, hcongr, hdecl]
          · simp only [hg, if_false] at h
            split at h
            · cases h
            · simp only [Except.ok.injEq] at h; subst h
              exact same rfl rfl

end Acb
