/-
  Helper lemmas for Props/C06.lean: the year maps of the gains folds, pointwise and as sums.
-/
import AcbModel.App.Gains
import AcbModel.Lemmas.Costs
import AcbModel.Lemmas.Round
namespace Acb.Gains
open Acb.Costs

/-- Σ of the year figures over the key list -/
def CG.sumYears (g : CG) : Rat := sumOver g.years (fun y => (g.byYear y).getD 0)

structure CG.WF (g : CG) : Prop where
  nodup : g.years.Nodup
  keys : ∀ y, y ∈ g.years ↔ g.byYear y ≠ none

theorem CG.WF.empty : CG.empty.WF := ⟨by simp [CG.empty], by simp [CG.empty]⟩

@[simp] theorem CG.add_total (g : CG) (y : Int) (v : Rat) : (g.add y v).total = g.total := rfl
@[simp] theorem CG.add_byYear (g : CG) (y : Int) (v : Rat) (y' : Int) :
    (g.add y v).byYear y' = if y' = y then some ((g.byYear y).getD 0 + v) else g.byYear y' := rfl
@[simp] theorem CG.add_years (g : CG) (y : Int) (v : Rat) : (g.add y v).years = addKey g.years y := rfl

theorem CG.add_wf {g : CG} (h : g.WF) (y : Int) (v : Rat) : (g.add y v).WF := by
  constructor
  · exact addKey_nodup h.nodup y
  · intro y'
    simp only [CG.add_years, mem_addKey, CG.add_byYear]
    by_cases e : y' = y
    · simp [e]
    · simp [e, h.keys y']

theorem CG.add_sumYears {g : CG} (h : g.WF) (y : Int) (v : Rat) :
    (g.add y v).sumYears = g.sumYears + v := by
  unfold CG.sumYears
  simp only [CG.add_years, CG.add_byYear]
  by_cases hk : y ∈ g.years
  · have e : addKey g.years y = g.years := by simp [addKey, hk]
    rw [e, sumOver_update h.nodup hk (f := fun y' => (g.byYear y').getD 0)
          (g := fun y' => (if y' = y then some ((g.byYear y).getD 0 + v) else g.byYear y').getD 0)
          (by intro x hx; simp [hx])]
    simp; grind
  · rw [sumOver_addKey_new hk]
    have e : sumOver g.years (fun y' => (if y' = y then some ((g.byYear y).getD 0 + v) else g.byYear y').getD 0)
        = sumOver g.years (fun y' => (g.byYear y').getD 0) := by
      apply sumOver_congr
      intro x hx
      have : x ≠ y := fun e => hk (e ▸ hx)
      simp [this]
    have hnone : g.byYear y = none := by
      cases hb : g.byYear y with
      | none => rfl
      | some x => exact absurd ((h.keys y).mpr (by simp [hb])) hk
    rw [e]; simp [hnone, Rat.zero_add]

/-! ### folding a list of (year, amount) pairs into a year map -/

def addPairs (g : CG) (ps : List (Int × Rat)) : CG := ps.foldl (fun a p => a.add p.1 p.2) g

def amountsFor (ps : List (Int × Rat)) (y : Int) : List Rat :=
  (ps.filter (fun p => decide (p.1 = y))).map (·.2)

@[simp] theorem addPairs_nil (g : CG) : addPairs g [] = g := rfl
@[simp] theorem addPairs_cons (g : CG) (p : Int × Rat) (ps : List (Int × Rat)) :
    addPairs g (p :: ps) = addPairs (g.add p.1 p.2) ps := rfl
theorem addPairs_append (g : CG) (ps qs : List (Int × Rat)) :
    addPairs g (ps ++ qs) = addPairs (addPairs g ps) qs := by
  simp [addPairs, List.foldl_append]

@[simp] theorem addPairs_total (g : CG) (ps : List (Int × Rat)) : (addPairs g ps).total = g.total := by
  induction ps generalizing g with
  | nil => rfl
  | cons p ps ih => simp [ih]

theorem addPairs_byYear (g : CG) (ps : List (Int × Rat)) (y : Int) :
    (addPairs g ps).byYear y =
      if amountsFor ps y = [] then g.byYear y else some ((g.byYear y).getD 0 + (amountsFor ps y).sum) := by
  induction ps generalizing g with
  | nil => simp [amountsFor]
  | cons p ps ih =>
    rw [addPairs_cons, ih]
    by_cases e : p.1 = y
    · have ha : amountsFor (p :: ps) y = p.2 :: amountsFor ps y := by simp [amountsFor, e]
      rw [ha]
      by_cases hn : amountsFor ps y = []
      · simp [hn, e, Rat.add_zero]
      · simp only [hn, if_false, CG.add_byYear, e, if_true, Option.getD_some, reduceCtorEq, List.sum_cons]
        congr 1; grind
    · have ha : amountsFor (p :: ps) y = amountsFor ps y := by simp [amountsFor, e]
      have e' : ¬ y = p.1 := fun h => e h.symm
      rw [ha]; simp [e']

theorem addPairs_wf {g : CG} (h : g.WF) (ps : List (Int × Rat)) : (addPairs g ps).WF := by
  induction ps generalizing g with
  | nil => exact h
  | cons p ps ih => exact ih (CG.add_wf h _ _)

theorem addPairs_mem_years (g : CG) (ps : List (Int × Rat)) (y : Int) :
    y ∈ (addPairs g ps).years ↔ y ∈ g.years ∨ ∃ p ∈ ps, p.1 = y := by
  induction ps generalizing g with
  | nil => simp
  | cons p ps ih =>
    rw [addPairs_cons, ih]
    simp only [CG.add_years, mem_addKey, List.mem_cons]
    constructor
    · rintro ((h | h) | ⟨q, hq, e⟩)
      · exact Or.inl h
      · exact Or.inr ⟨p, Or.inl rfl, h.symm⟩
      · exact Or.inr ⟨q, Or.inr hq, e⟩
    · rintro (h | ⟨q, hq | hq, e⟩)
      · exact Or.inl (Or.inl h)
      · subst hq; exact Or.inl (Or.inr e.symm)
      · exact Or.inr ⟨q, hq, e⟩

theorem addPairs_sumYears {g : CG} (h : g.WF) (ps : List (Int × Rat)) :
    (addPairs g ps).sumYears = g.sumYears + (ps.map (·.2)).sum := by
  induction ps generalizing g with
  | nil => simp; grind
  | cons p ps ih =>
    rw [addPairs_cons, ih (CG.add_wf h _ _), CG.add_sumYears h]
    simp; grind

/-- overriding the total commutes with adding pairs -/
theorem addPairs_withTotal (g : CG) (t : Rat) (ps : List (Int × Rat)) :
    addPairs { g with total := t } ps = { addPairs g ps with total := t } := by
  induction ps generalizing g with
  | nil => rfl
  | cons p ps ih =>
    simp only [addPairs_cons]
    have : ({ g with total := t } : CG).add p.1 p.2 = { g.add p.1 p.2 with total := t } := rfl
    rw [this, ih]

/-! ### one security -/

/-- the (year, gain) pairs of the rows that carry a gain -/
def gainPairs (yearOf : Int → Int) (rows : List GRow) : List (Int × Rat) :=
  rows.filterMap (fun r => r.gain.map (fun v => (yearOf r.day, v)))

theorem fold_secStep (yearOf : Int → Int) (rows : List GRow) (g : CG) :
    rows.foldl (secStep yearOf) g =
      { addPairs g (gainPairs yearOf rows) with total := g.total + ((gainPairs yearOf rows).map (·.2)).sum } := by
  induction rows generalizing g with
  | nil => simp [gainPairs, Rat.add_zero]
  | cons r rs ih =>
    simp only [List.foldl_cons]
    rw [ih]
    cases hg : r.gain with
    | none => simp [secStep, hg, gainPairs]
    | some v =>
      have hp : gainPairs yearOf (r :: rs) = (yearOf r.day, v) :: gainPairs yearOf rs := by
        simp [gainPairs, hg]
      have hs : secStep yearOf g r = { g.add (yearOf r.day) v with total := g.total + v } := by
        simp [secStep, hg]
      rw [hs, hp, addPairs_withTotal]
      simp only [addPairs_cons, List.map_cons, List.sum_cons]
      congr 1; grind

theorem secGains_eq (yearOf : Int → Int) (rows : List GRow) :
    secGains yearOf rows =
      { addPairs CG.empty (gainPairs yearOf rows) with total := ((gainPairs yearOf rows).map (·.2)).sum } := by
  unfold secGains; rw [fold_secStep]; simp [CG.empty, Rat.zero_add]

theorem secGains_wf (yearOf : Int → Int) (rows : List GRow) : (secGains yearOf rows).WF := by
  rw [secGains_eq]
  have := addPairs_wf CG.WF.empty (gainPairs yearOf rows)
  exact ⟨this.nodup, this.keys⟩

theorem secGains_total_eq_sumYears (yearOf : Int → Int) (rows : List GRow) :
    (secGains yearOf rows).total = (secGains yearOf rows).sumYears := by
  rw [secGains_eq]
  have := addPairs_sumYears CG.WF.empty (gainPairs yearOf rows)
  simp only [CG.sumYears] at this ⊢
  rw [this]; simp [CG.empty, Rat.zero_add]


/-! ### the aggregate -/

/-- the (year, figure) pairs a security contributes, in the order `ρ` its year map is walked -/
def yearPairs (ρ : List Int → List Int) (g : CG) : List (Int × Rat) :=
  (ρ g.years).map (fun y => (y, (g.byYear y).getD 0))

theorem aggStep_eq (ρ : List Int → List Int) (acc g : CG) :
    aggStep ρ acc g = { addPairs acc (yearPairs ρ g) with total := acc.total + g.total } := by
  simp [aggStep, addPairs, yearPairs, List.foldl_map]

theorem fold_aggStep (ρ : List Int → List Int) (L : List CG) (acc : CG) :
    L.foldl (aggStep ρ) acc =
      { addPairs acc (L.flatMap (yearPairs ρ)) with total := acc.total + (L.map (·.total)).sum } := by
  induction L generalizing acc with
  | nil => simp [Rat.add_zero]
  | cons g L ih =>
    simp only [List.foldl_cons, List.flatMap_cons, List.map_cons, List.sum_cons]
    rw [ih, aggStep_eq, addPairs_withTotal, addPairs_append]
    simp only
    congr 1; grind

theorem filter_eq_of_nodup {l : List Int} (hn : l.Nodup) (y : Int) :
    l.filter (fun x => decide (x = y)) = if y ∈ l then [y] else [] := by
  induction l with
  | nil => simp
  | cons a as ih =>
    have h := List.nodup_cons.mp hn
    by_cases e : a = y
    · subst e
      have : as.filter (fun x => decide (x = a)) = [] := by
        rw [List.filter_eq_nil_iff]; intro x hx; simp; intro e; exact h.1 (e ▸ hx)
      simp [this]
    · have e' : ¬ y = a := fun h => e h.symm
      simp [e, e', ih h.2]

theorem amountsFor_yearPairs {ρ : List Int → List Int} (hρ : IsOrder ρ) {g : CG} (hg : g.WF) (y : Int) :
    amountsFor (yearPairs ρ g) y = if y ∈ g.years then [(g.byYear y).getD 0] else [] := by
  have hn : (ρ g.years).Nodup := (hρ g.years).nodup_iff.mpr hg.nodup
  have hm : y ∈ ρ g.years ↔ y ∈ g.years := (hρ g.years).mem_iff
  unfold amountsFor yearPairs
  rw [List.filter_map]
  have : (fun p : Int × Rat => decide (p.1 = y)) ∘ (fun y => (y, (g.byYear y).getD 0)) = fun x => decide (x = y) := rfl
  rw [this, filter_eq_of_nodup hn]
  by_cases h : y ∈ g.years
  · simp [h, hm.mpr h]
  · have h2 : y ∉ ρ g.years := fun h' => h (hm.mp h')
    simp [h, h2]

theorem amountsFor_flatMap (L : List CG) (ρ : List Int → List Int) (y : Int) :
    amountsFor (L.flatMap (yearPairs ρ)) y = L.flatMap (fun g => amountsFor (yearPairs ρ g) y) := by
  induction L with
  | nil => simp [amountsFor]
  | cons g L ih =>
    simp only [List.flatMap_cons]
    rw [← ih]
    simp [amountsFor, List.filter_append]

theorem sum_flatMap_amounts {ρ : List Int → List Int} (hρ : IsOrder ρ) (L : List CG) (hL : ∀ g ∈ L, g.WF) (y : Int) :
    (L.flatMap (fun g => amountsFor (yearPairs ρ g) y)).sum = sumOver L (fun g => (g.byYear y).getD 0) := by
  induction L with
  | nil => simp
  | cons g L ih =>
    have hg := hL g (by simp)
    simp only [List.flatMap_cons, List.sum_append, sumOver_cons]
    rw [ih (fun x hx => hL x (by simp [hx])), amountsFor_yearPairs hρ hg]
    by_cases h : y ∈ g.years
    · simp [h, Rat.add_zero]
    · have : g.byYear y = none := by
        cases hb : g.byYear y with
        | none => rfl
        | some x => exact absurd ((hg.keys y).mpr (by simp [hb])) h
      simp [h, this]

theorem flatMap_amounts_nil {ρ : List Int → List Int} (hρ : IsOrder ρ) (L : List CG) (hL : ∀ g ∈ L, g.WF) (y : Int) :
    L.flatMap (fun g => amountsFor (yearPairs ρ g) y) = [] ↔ ¬ ∃ g ∈ L, y ∈ g.years := by
  simp only [List.flatMap_eq_nil_iff]
  constructor
  · intro h ⟨g, hg, hy⟩
    have := h g hg
    rw [amountsFor_yearPairs hρ (hL g hg)] at this
    simp [hy] at this
  · intro h g hg
    rw [amountsFor_yearPairs hρ (hL g hg)]
    have : y ∉ g.years := fun hy => h ⟨g, hg, hy⟩
    simp [this]

theorem aggGains_eq (σ : List CG → List CG) (ρ : List Int → List Int) (gs : List CG) :
    aggGains σ ρ gs =
      { addPairs CG.empty ((σ gs).flatMap (yearPairs ρ)) with total := ((σ gs).map (·.total)).sum } := by
  unfold aggGains; rw [fold_aggStep]; simp [CG.empty, Rat.zero_add]

theorem aggGains_wf (σ : List CG → List CG) (ρ : List Int → List Int) (gs : List CG) : (aggGains σ ρ gs).WF := by
  rw [aggGains_eq]
  have := addPairs_wf CG.WF.empty ((σ gs).flatMap (yearPairs ρ))
  exact ⟨this.nodup, this.keys⟩


/-! ### links to the spec side -/

theorem amountsFor_gainPairs (yearOf : Int → Int) (rows : List GRow) (y : Int) :
    amountsFor (gainPairs yearOf rows) y = gainsIn yearOf rows y := by
  induction rows with
  | nil => rfl
  | cons r rs ih =>
    cases hg : r.gain with
    | none =>
      have h1 : gainPairs yearOf (r :: rs) = gainPairs yearOf rs := by simp [gainPairs, hg]
      have h2 : gainsIn yearOf (r :: rs) y = gainsIn yearOf rs y := by simp [gainsIn, hg]
      rw [h1, h2, ih]
    | some v =>
      have h1 : gainPairs yearOf (r :: rs) = (yearOf r.day, v) :: gainPairs yearOf rs := by simp [gainPairs, hg]
      rw [h1]
      by_cases e : yearOf r.day = y
      · have h2 : gainsIn yearOf (r :: rs) y = v :: gainsIn yearOf rs y := by simp [gainsIn, hg, e]
        rw [h2, ← ih]; simp [amountsFor, e]
      · have h2 : gainsIn yearOf (r :: rs) y = gainsIn yearOf rs y := by simp [gainsIn, hg, e]
        rw [h2, ← ih]; simp [amountsFor, e]

theorem gainPairs_values (yearOf : Int → Int) (rows : List GRow) :
    (gainPairs yearOf rows).map (·.2) = allGains rows := by
  induction rows with
  | nil => rfl
  | cons r rs ih =>
    cases hg : r.gain with
    | none => simpa [gainPairs, allGains, hg] using ih
    | some v => simpa [gainPairs, allGains, hg] using ih

theorem amountsFor_ne_nil_iff (ps : List (Int × Rat)) (y : Int) :
    amountsFor ps y ≠ [] ↔ ∃ p ∈ ps, p.1 = y := by
  simp [amountsFor, List.filter_eq_nil_iff]

theorem sum_values_flatMap {ρ : List Int → List Int} (hρ : IsOrder ρ) (L : List CG) :
    ((L.flatMap (yearPairs ρ)).map (·.2)).sum = sumOver L (fun g => g.sumYears) := by
  induction L with
  | nil => simp
  | cons g L ih =>
    simp only [List.flatMap_cons, List.map_append, List.sum_append, sumOver_cons, ih]
    congr 1
    unfold yearPairs CG.sumYears
    rw [List.map_map]
    exact sumOver_perm (hρ g.years) (fun y => (g.byYear y).getD 0)

/-! ### display -/

theorem shownSigned_full (v : Rat) : shownSigned true v = v := by
  unfold shownSigned shown; split <;> simp

theorem shownSigned_cents (v : Rat) : shownSigned false v = roundCent v := by
  unfold shownSigned shown
  split
  · simp [roundCent_neg]
  · simp

/-- Every entry of `security_gains` is the gains of a security that completed. -/
theorem completed_wf (yearOf : Int → Int) (rs : List SecResult) : ∀ g ∈ completed yearOf rs, g.WF := by
  intro g hg
  simp only [completed, List.mem_map] at hg
  obtain ⟨r, _, rfl⟩ := hg
  exact secGains_wf yearOf r.rows


end Acb.Gains
