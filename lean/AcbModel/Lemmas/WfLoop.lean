/-
  The tracker invariant along the whole loop: consequences for every delta (C04) and for the
  failures that can come out (C05).
-/
import AcbModel.Lemmas.Wf
import AcbModel.Lemmas.LoopGen
import AcbModel.Lemmas.ScanInv
namespace Acb
open Spec

theorem adjustTxs_valid {tx : Tx} {c : Rat} {l : List (Aff × Rat × Rat)} {r : List Tx}
    (h : adjustTxs tx c l = .ok r) : ∀ x ∈ r, x.Valid := by
  induction l generalizing r with
  | nil => simp [adjustTxs] at h; subst h; simp
  | cons p ps ih =>
    obtain ⟨af, n, d⟩ := p
    unfold adjustTxs at h
    split at h
    · cases h
    · rename_i r0 hr0
      split at h
      · rename_i hpos
        simp only [Except.ok.injEq] at h; subst h
        intro x hx
        simp only [List.mem_cons] at hx
        rcases hx with rfl | hx
        · simp only [Tx.Valid, Action.Valid]
          exact ⟨by grind, hpos.2⟩
        · exact ih hr0 x hx
      · simp only [Except.ok.injEq] at h; subst h
        exact ih hr0

theorem deltaSflInfo_inj_valid {t : Tracker} {tx : Tx} {sold : Rat} {spec : Option (Rat × Bool)} {loss : Rat}
    {past future : List Tx} {info : SflInfo} {adj : List Tx}
    (h : deltaSflInfo t tx sold spec loss past future = .ok (some (info, adj))) :
    ∀ x ∈ adj, x.Valid := by
  unfold deltaSflInfo at h
  split at h
  · cases h
  · simp only at h
    split at h
    · cases h
    · split at h
      · split at h
        · cases h
        · split at h
          · simp only [Except.ok.injEq, Option.some.injEq, Prod.mk.injEq] at h
            obtain ⟨_, h2⟩ := h; subst h2; simp
          · cases h
      · split at h
        · cases h
        · split at h
          · cases h
          · rename_i hneg
            split at h
            · cases h
            · rename_i adj0 hadj
              simp only [Except.ok.injEq, Option.some.injEq, Prod.mk.injEq] at h
              obtain ⟨_, h2⟩ := h; subst h2
              exact adjustTxs_valid hadj

theorem arm_inj_valid {t : Tracker} {tx : Tx} {pre : Status} {past future : List Tx} {o : ArmOut}
    (h : arm t tx pre past future = .ok o) : ∀ x ∈ o.inj, x.Valid := by
  unfold arm at h
  split at h
  · simp only [Except.ok.injEq] at h; subst h; simp [armBuy]
  · unfold armSell at h
    split at h
    · cases h
    · split at h
      · cases h
      · simp only at h
        split at h
        · split at h
          · cases h
          · simp only [Except.ok.injEq] at h; subst h; simp
        · split at h
          · split at h
            · cases h
            · simp only [Except.ok.injEq] at h; subst h; simp
            · rename_i info adj hd
              simp only [Except.ok.injEq] at h; subst h
              exact deltaSflInfo_inj_valid hd
          · split at h
            · cases h
            · simp only [Except.ok.injEq] at h; subst h; simp
  · unfold armRoc at h
    split at h
    · split at h
      · cases h
      · simp only at h
        split at h
        · cases h
        · simp only [Except.ok.injEq] at h; subst h; simp
    · split at h <;> cases h
  · unfold armSfla at h
    split at h
    · split at h
      · cases h
      · simp only [Except.ok.injEq] at h; subst h; simp
    · split at h <;> cases h
  · unfold armSplit at h
    simp only at h
    split at h
    · cases h
    · split at h
      · cases h
      · simp only [Except.ok.injEq] at h; subst h; simp

/-- What the ledger guarantees about every delta it emits (C04's invariants). -/
structure DeltaOk (bs : Books) (d : Delta) : Prop where
  valid : d.tx.Valid
  pre : StatusOk d.tx.aff d.pre
  post : StatusOk d.tx.aff d.post
  allNonneg : 0 ≤ d.post.all
  total : ∃ U : List Aff, U.Nodup ∧ (∀ a, a ∉ U → (stepBooks bs d.tx a).shares = 0) ∧
    d.post.all = sumOver U (fun a => (stepBooks bs d.tx a).shares)

def WfInv (t : Tracker) (bs : Books) : Prop := TrackerRefines t bs ∧ TrackerWF t

theorem refines_bal {t : Tracker} {bs : Books} (h : TrackerRefines t bs) (a : Aff) :
    t.bal a = (bs a).shares := by
  have := h a
  unfold Tracker.bal
  cases hm : t.m a with
  | none => simp [hm, bookOf, defaultStatus] at this; simp [← this]
  | some s => simp [hm, bookOf] at this; simp [← this]


/-- Under the tracker invariant, an arm can only fail with a user-facing `Result::Err`. -/
theorem arm_err {t : Tracker} {U : List Aff} (hw : TrackerWFOn U t) {tx : Tx} {pre : Status}
    {past future : List Tx} {f : Failure} (hv : tx.Valid) (hp : StatusOk tx.aff pre)
    (hvp : ∀ x ∈ past, x.Valid) (hvf : ∀ x ∈ future, x.Valid)
    (h : arm t tx pre past future = .error f) : UserErr f := by
  unfold arm at h
  unfold Tx.Valid at hv
  split at h
  · cases h
  · rename_i sh px comm rate crate spec hact
    rw [hact] at hv
    unfold armSell at h
    split at h
    · simp only [Except.error.injEq] at h; exact ⟨_, h.symm, rfl⟩
    · split at h
      · simp only [Except.error.injEq] at h; exact ⟨_, h.symm, rfl⟩
      · simp only at h
        split at h
        · split at h
          · simp only [Except.error.injEq] at h; exact ⟨_, h.symm, rfl⟩
          · cases h
        · split at h
          · split at h
            · rename_i f' hd
              simp only [Except.error.injEq] at h; subst h
              exact deltaSflInfo_err (fun a => hw.bal_nonneg a) hv.1 hvp hvf hd
            · cases h
            · cases h
          · split at h
            · simp only [Except.error.injEq] at h; exact ⟨_, h.symm, rfl⟩
            · cases h
  · unfold armRoc at h
    have hreg := hp.reg
    split at h
    · rename_i old ho
      split at h
      · rename_i hr; simp [ho, hr] at hreg
      · simp only at h
        split at h
        · simp only [Except.error.injEq] at h; exact ⟨_, h.symm, rfl⟩
        · cases h
    · rename_i hn
      split at h
      · rename_i hr; simp [hn] at hreg; simp [hreg] at hr
      · simp only [Except.error.injEq] at h; exact ⟨_, h.symm, rfl⟩
  · unfold armSfla at h
    have hreg := hp.reg
    split at h
    · rename_i old ho
      split at h
      · rename_i hr; simp [ho, hr] at hreg
      · cases h
    · rename_i hn
      split at h
      · rename_i hr; simp [hn] at hreg; simp [hreg] at hr
      · simp only [Except.error.injEq] at h; exact ⟨_, h.symm, rfl⟩
  · unfold armSplit at h
    simp only at h
    split at h
    · simp only [Except.error.injEq] at h; exact ⟨_, h.symm, rfl⟩
    · split at h
      · simp only [Except.error.injEq] at h; exact ⟨_, h.symm, rfl⟩
      · cases h


/-- The WF step: delta conclusions, invariant preservation, validity of injected rows; and the only
    possible failures are user-facing errors. -/
theorem wfStepSpec : StepSpec WfInv DeltaOk UserErr Tx.Valid where
  ok := by
    intro t bs tx past future d t' inj hi hv hvp hvf h
    obtain ⟨hr, U, hw⟩ := hi
    unfold stepRow at h
    split at h
    · cases h
    · rename_i d0 inj0 hd
      split at h
      · cases h
      · rename_i t0 hs
        simp only [Except.ok.injEq, Prod.mk.injEq] at h
        obtain ⟨h1, h2, h3⟩ := h
        subst h1; subst h2; subst h3
        obtain ⟨htx, hpre, _, o, ho, hpost, hgain, hsfl, hinj⟩ := deltaForTx_shape hd
        obtain ⟨hpok, hpall, hpsh⟩ := hw.nextPre_ok tx.aff
        have hall0 : 0 ≤ (t.nextPre tx.aff).all := by rw [hpall]; exact hw.all_nonneg
        obtain ⟨hok, hall, hnn⟩ := arm_wf hv hpok hall0 ho
        have hall' : d0.post.all = d0.post.shares + t.latestAll - t.bal tx.aff := by
          rw [hpost, hall, hpall, hpsh]
        obtain ⟨t'', hs', hw', hla, hm⟩ := hw.setLatest (a := tx.aff) (v := d0.post) (by rw [hpost]; exact hok) hall'
        rw [hs] at hs'; simp only [Except.ok.injEq] at hs'; subst hs'
        have hspec := arm_spec' (SellPos_of_valid hv) ho
        have hpb : bookOf (t.nextPre tx.aff) = bs tx.aff := by rw [nextPre_book]; exact hr tx.aff
        rw [hpb] at hspec
        have hr' : TrackerRefines t0 (stepBooks bs tx) := by
          apply setLatest_refines hr hs
          rw [hpost]; exact hspec.1
        refine ⟨htx, ⟨by rw [htx]; exact hv, by rw [htx, hpre]; exact hpok, by rw [htx, hpost]; exact hok, by rw [hpost]; exact hnn, ?_⟩, ⟨hr', _, hw'⟩, ?_⟩
        · refine ⟨_, hw'.nodup, ?_, ?_⟩
          · intro a ha
            have : t0.m a = none := by
              by_cases hm' : t0.m a = none
              · exact hm'
              · exact absurd (hw'.support a hm') ha
            rw [htx, ← refines_bal hr' a]
            simp [Tracker.bal, this]
          · rw [← hla, hw'.total, htx]
            apply sumOver_congr
            intro a _; exact refines_bal hr' a
        · rw [hinj]; exact arm_inj_valid ho
  err := by
    intro t bs tx past future f hi hv hvp hvf h
    obtain ⟨hr, U, hw⟩ := hi
    unfold stepRow at h
    split at h
    · rename_i f' hd
      simp only [Except.error.injEq] at h; subst h
      unfold deltaForTx at hd
      simp only [sanityCheck_ok hw tx.aff] at hd
      split at hd
      · rename_i f'' ha
        simp only [Except.error.injEq] at hd; subst hd
        exact arm_err hw hv (hw.nextPre_ok tx.aff).1 hvp hvf ha
      · cases hd
    · rename_i d0 inj0 hd
      exfalso
      obtain ⟨htx, hpre, _, o, ho, hpost, hgain, hsfl, hinj⟩ := deltaForTx_shape hd
      obtain ⟨hpok, hpall, hpsh⟩ := hw.nextPre_ok tx.aff
      have hall0 : 0 ≤ (t.nextPre tx.aff).all := by rw [hpall]; exact hw.all_nonneg
      obtain ⟨hok, hall, hnn⟩ := arm_wf hv hpok hall0 ho
      have hall' : d0.post.all = d0.post.shares + t.latestAll - t.bal tx.aff := by
        rw [hpost, hall, hpall, hpsh]
      obtain ⟨t'', hs', _⟩ := hw.setLatest (a := tx.aff) (v := d0.post) (by rw [hpost]; exact hok) hall'
      rw [hs'] at h
      cases h

end Acb
