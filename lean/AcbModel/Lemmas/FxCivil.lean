/-
  The Gregorian calendar of the driver satisfies the calendar law the theorems assume.
-/
import AcbModel.Fx.Civil
import AcbModel.Fx.Valid
namespace Acb.Fx

theorem civilYearStart_mono {a b : Int} (h : a ≤ b) : civilYearStart a ≤ civilYearStart b := by
  unfold civilYearStart; omega

theorem civil_bounds (d : Int) :
    civilYearStart (civilYearOf d) ≤ d ∧ d < civilYearStart (civilYearOf d + 1) := by
  unfold civilYearOf
  simp only
  split
  · unfold civilYearStart at *; omega
  · split
    · unfold civilYearStart at *; omega
    · omega

/-- Every day lies in exactly one year, the one `civilYearOf` computes. -/
theorem civil_ok : civil.OK := by
  intro d y
  have hb := civil_bounds d
  constructor
  · intro h; subst h; exact hb
  · intro ⟨h1, h2⟩
    show civilYearOf d = y
    by_cases hlt : civilYearOf d < y
    · have := civilYearStart_mono (show civilYearOf d + 1 ≤ y by omega)
      change civilYearStart y ≤ d at h1
      omega
    · by_cases hgt : y < civilYearOf d
      · have := civilYearStart_mono (show y + 1 ≤ civilYearOf d by omega)
        change d < civilYearStart (y + 1) at h2
        omega
      · omega

end Acb.Fx
