/-
  Row- and table-level lemmas of the CSV round trip (C11): what the reader finds under each
  column of a written table, and what it makes of one written row.
-/
import AcbModel.Lemmas.CsvSplit
namespace Acb.Csv

/-- the reader's view of one cell: trimmed, blank = absent. -/
def net (s : Str) : Option Str := if (trim s).isEmpty then none else some (trim s)

theorem net_nil : net [] = none := rfl

theorem net_of_trimmed {s : Str} (h1 : trim s = s) (h2 : s ≠ []) : net s = some s := by
  unfold net
  rw [h1]
  have : s.isEmpty = false := by simpa using h2
  simp [this]

/-! ### looking a column up in a written row -/

theorem lookupCell_map (c : Col) (H : List Col) (f : Col → Str) (hnd : H.Nodup) :
    lookupCell c (H.map some) (H.map f) = if c ∈ H then net (f c) else none := by
  induction H with
  | nil => simp [lookupCell]
  | cons h r ih =>
    have hnd' := List.nodup_cons.1 hnd
    simp only [List.map_cons, lookupCell, ih hnd'.2]
    by_cases hc : c = h
    · subst hc
      simp only [hnd'.1, if_false, List.mem_cons, true_or, if_true, true_and]
      unfold net
      by_cases he : (trim (f c)).isEmpty = true
      · simp [he]
      · simp [he]
    · have hne : ¬ (some h = some c) := by intro hh; exact hc (Option.some.inj hh).symm
      by_cases hm : c ∈ r
      · simp only [hm, if_true, List.mem_cons, or_true]
        cases hn : net (f c) with
        | none => simp [hne]
        | some x => rfl
      · simp [hm, hc, hne]

theorem mapHeader_names (H : List Col) : mapHeader (H.map Col.name) = H.map some := by
  unfold mapHeader
  rw [List.map_map]
  apply List.map_congr_left
  intro c _
  exact colOfName_name c

theorem exportOrder_nodup : exportOrder.Nodup := by decide

theorem headerCols_nodup (txs : List CsvTx) : (headerCols txs).Nodup :=
  List.Nodup.sublist List.filter_sublist exportOrder_nodup

theorem mem_headerCols {txs : List CsvTx} {c : Col} :
    c ∈ headerCols txs ↔ c ∈ exportOrder ∧ (!c.optional || colInUse txs c) = true := by
  unfold headerCols
  simp [List.mem_filter]

theorem legacy_not_in_header (txs : List CsvTx) : Col.legacyDate ∉ headerCols txs := by
  intro h
  have := (mem_headerCols.1 h).1
  revert this; decide

/-- value found under column `col` in the written row of `c` -/
def rowGet (txs : List CsvTx) (c : CsvTx) (col : Col) : Option Str :=
  lookupCell col (mapHeader (toTable txs).header) ((headerCols txs).map (cellOf c))

theorem rowGet_eq (txs : List CsvTx) (c : CsvTx) (col : Col) :
    rowGet txs c col = if col ∈ headerCols txs then net (cellOf c col) else none := by
  unfold rowGet toTable
  simp only
  rw [mapHeader_names, lookupCell_map col _ _ (headerCols_nodup txs)]

/-- Every column but the affiliate one: the reader sees the trimmed cell, whether or not the
    column was written (an elided column is blank in every row). -/
theorem rowGet_plain (txs : List CsvTx) (c : CsvTx) (hc : c ∈ txs) (col : Col) (hcol : col ≠ .affiliate) :
    rowGet txs c col = net (cellOf c col) := by
  rw [rowGet_eq]
  by_cases hm : col ∈ headerCols txs
  · simp [hm]
  · simp only [hm, if_false]
    have hnot : ¬ (col ∈ exportOrder ∧ (!col.optional || colInUse txs col) = true) := fun h => hm (mem_headerCols.2 h)
    have hany : ∀ (p : CsvTx → Bool), (txs.any p) = false → p c = false := by
      intro p hp
      rw [List.any_eq_false] at hp
      simpa using hp c hc
    cases col with
    | affiliate => exact absurd rfl hcol
    | legacyDate => rfl
    | txFx =>
      have : colInUse txs .txFx = false := by
        cases h : colInUse txs .txFx with
        | false => rfl
        | true => exact absurd ⟨by decide, by simp [h]⟩ hnot
      have := hany _ this
      simp only [Option.isSome_eq_false_iff, Option.isNone_iff_eq_none] at this
      simp [cellOf, this, net_nil]
    | commCurr =>
      have : colInUse txs .commCurr = false := by
        cases h : colInUse txs .commCurr with
        | false => rfl
        | true => exact absurd ⟨by decide, by simp [h]⟩ hnot
      have := hany _ this
      simp only [Option.isSome_eq_false_iff, Option.isNone_iff_eq_none] at this
      simp [cellOf, this, net_nil]
    | commFx =>
      have : colInUse txs .commFx = false := by
        cases h : colInUse txs .commFx with
        | false => rfl
        | true => exact absurd ⟨by decide, by simp [h]⟩ hnot
      have := hany _ this
      simp only [Option.isSome_eq_false_iff, Option.isNone_iff_eq_none] at this
      simp [cellOf, this, net_nil]
    | sfl =>
      have : colInUse txs .sfl = false := by
        cases h : colInUse txs .sfl with
        | false => rfl
        | true => exact absurd ⟨by decide, by simp [h]⟩ hnot
      have := hany _ this
      simp only [Option.isSome_eq_false_iff, Option.isNone_iff_eq_none] at this
      simp [cellOf, this, net_nil]
    | split =>
      have : colInUse txs .split = false := by
        cases h : colInUse txs .split with
        | false => rfl
        | true => exact absurd ⟨by decide, by simp [h]⟩ hnot
      have := hany _ this
      simp only [Option.isSome_eq_false_iff, Option.isNone_iff_eq_none] at this
      simp [cellOf, this, net_nil]
    | security => exact absurd ⟨by decide, by rfl⟩ hnot
    | tradeDate => exact absurd ⟨by decide, by rfl⟩ hnot
    | settleDate => exact absurd ⟨by decide, by rfl⟩ hnot
    | action => exact absurd ⟨by decide, by rfl⟩ hnot
    | shares => exact absurd ⟨by decide, by rfl⟩ hnot
    | aps => exact absurd ⟨by decide, by rfl⟩ hnot
    | commission => exact absurd ⟨by decide, by rfl⟩ hnot
    | txCurr => exact absurd ⟨by decide, by rfl⟩ hnot
    | memo => exact absurd ⟨by decide, by rfl⟩ hnot

theorem rowGet_affiliate (txs : List CsvTx) (c : CsvTx) :
    rowGet txs c .affiliate = if colInUse txs .affiliate then net (cellOf c .affiliate) else none := by
  rw [rowGet_eq]
  have : Col.affiliate ∈ headerCols txs ↔ colInUse txs .affiliate = true := by
    rw [mem_headerCols]
    constructor
    · intro h; simpa [Col.optional] using h.2
    · intro h; exact ⟨by decide, by simp [h]⟩
  by_cases h : colInUse txs .affiliate = true
  · simp [h, this.2 h]
  · have h' : colInUse txs .affiliate = false := by simpa using h
    have : Col.affiliate ∉ headerCols txs := fun hh => h (this.1 hh)
    simp [h', this]

/-! ### optional cells -/

def OptRel {α} (R : α → α → Prop) : Option α → Option α → Prop
  | none, none => True
  | some a, some b => R a b
  | _, _ => False

theorem optParse_none {α} (f : Str → Except ReadErr α) : optParse none f = .ok none := rfl

theorem optField {α} (o : Option α) (render : α → Str) (parse : Str → Except ReadErr α) (R : α → α → Prop)
    (h : ∀ a, o = some a → trim (render a) = render a ∧ render a ≠ [] ∧ ∃ a', parse (render a) = .ok a' ∧ R a' a) :
    ∃ o', optParse (net ((o.map render).getD [])) parse = .ok o' ∧ OptRel R o' o := by
  cases o with
  | none => exact ⟨none, by simp [net_nil, optParse], trivial⟩
  | some a =>
    obtain ⟨h1, h2, a', h3, h4⟩ := h a rfl
    refine ⟨some a', ?_, h4⟩
    simp only [Option.map_some, Option.getD_some, net_of_trimmed h1 h2, optParse, h3]
    rfl


/-! ### what the writer puts into the fields of a valid transaction -/

def SflSame (a b : Dec × Bool) : Prop := a.1.Same b.1 ∧ a.2 = b.2
def SplitSame (a b : SplitRatio) : Prop := a.Same b ∧ a.display = b.display

def curOk (s : Str) : Prop := trim s = s ∧ s ≠ [] ∧ upper s = s

structure CsvValid (c : CsvTx) : Prop where
  shares : ∀ d, c.shares = some d → d.renderable 0 = true
  aps : ∀ d, c.aps = some d → d.renderable 2 = true
  commission : ∀ d, c.commission = some d → d.renderable 2 = true
  txFx : ∀ d, c.txFx = some d → d.renderable 0 = true
  commFx : ∀ d, c.commFx = some d → d.renderable 0 = true
  txCurr : ∀ s, c.txCurr = some s → curOk s
  commCurr : ∀ s, c.commCurr = some s → curOk s
  sfl : ∀ v, c.sfl = some v → sflValid v = true
  split : ∀ r, c.split = some r → r.valid = true

theorem CurRate.valid_iff {c : CurRate} (h : c.valid = true) :
    curOk c.cur ∧ c.rate.isPos = true ∧ c.rate.renderable 0 = true ∧ (c.cur = cad → c.rate.isOne = true) := by
  simp only [CurRate.valid, Bool.and_eq_true, beq_iff_eq, Bool.not_eq_true', Bool.or_eq_true, bne_iff_ne, ne_eq] at h
  obtain ⟨⟨⟨⟨⟨h1, h2⟩, h3⟩, h4⟩, h5⟩, h6⟩ := h
  refine ⟨⟨h1, by simpa using h2, h3⟩, h4, h5, ?_⟩
  intro hc
  rcases h6 with h | h
  · exact absurd hc h
  · exact h

theorem fxCell_renderable {c : CurRate} (h : c.valid = true) : ∀ d, c.fxCell = some d → d.renderable 0 = true := by
  intro d hd
  unfold CurRate.fxCell at hd
  split at hd
  · cases hd
  · cases hd; exact (CurRate.valid_iff h).2.2.1

theorem toCsv_valid (t : Tx) (h : t.spec.valid = true) : CsvValid t.toCsv := by
  obtain ⟨sec, td, sd, spec, memo, aff, idx⟩ := t
  simp only at h
  cases spec with
  | buy sh aps comm cur cc =>
    simp only [Specifics.valid, Bool.and_eq_true] at h
    obtain ⟨⟨⟨⟨⟨⟨⟨h1, h2⟩, h3⟩, h4⟩, h5⟩, h6⟩, h7⟩, h8⟩ := h
    constructor <;> simp only [Tx.toCsv] <;> intro x hx
    · cases hx; exact h2
    · cases hx; exact h4
    · cases hx; exact h6
    · exact fxCell_renderable h7 x hx
    · cases cc with
      | none => cases hx
      | some c => exact fxCell_renderable h8 x hx
    · cases hx; exact (CurRate.valid_iff h7).1
    · cases cc with
      | none => cases hx
      | some c => cases hx; exact (CurRate.valid_iff h8).1
    · cases hx
    · cases hx
  | sell sh aps comm cur cc sfl =>
    simp only [Specifics.valid, Bool.and_eq_true] at h
    obtain ⟨⟨⟨⟨⟨⟨⟨⟨h1, h2⟩, h3⟩, h4⟩, h5⟩, h6⟩, h7⟩, h8⟩, h9⟩ := h
    constructor <;> simp only [Tx.toCsv] <;> intro x hx
    · cases hx; exact h2
    · cases hx; exact h4
    · cases hx; exact h6
    · exact fxCell_renderable h7 x hx
    · cases cc with
      | none => cases hx
      | some c => exact fxCell_renderable h8 x hx
    · cases hx; exact (CurRate.valid_iff h7).1
    · cases cc with
      | none => cases hx
      | some c => cases hx; exact (CurRate.valid_iff h8).1
    · subst hx; exact h9
    · cases hx
  | roc aps cur =>
    simp only [Specifics.valid, Bool.and_eq_true] at h
    obtain ⟨⟨h1, h2⟩, h3⟩ := h
    constructor <;> simp only [Tx.toCsv] <;> intro x hx
    · cases hx
    · cases hx; exact h2
    · cases hx
    · exact fxCell_renderable h3 x hx
    · cases hx
    · cases hx; exact (CurRate.valid_iff h3).1
    · cases hx
    · cases hx
    · cases hx
  | sfla sh aps =>
    simp only [Specifics.valid, Bool.and_eq_true] at h
    obtain ⟨⟨⟨h1, h2⟩, h3⟩, h4⟩ := h
    constructor <;> simp only [Tx.toCsv] <;> intro x hx
    · cases hx; exact h2
    · cases hx; exact h4
    all_goals cases hx
  | split r =>
    simp only [Specifics.valid] at h
    constructor <;> simp only [Tx.toCsv] <;> intro x hx
    all_goals first | (cases hx; exact h) | cases hx


/-! ### reading one written row -/

structure RowFacts (affcol : Bool) (t : Tx) (idx : Nat) (c' : CsvTx) : Prop where
  security : c'.security = some t.security
  tradeDate : c'.tradeDate = some t.tradeDate
  settleDate : c'.settleDate = some t.settleDate
  action : c'.action = t.toCsv.action
  shares : OptRel Dec.Same c'.shares t.toCsv.shares
  aps : OptRel Dec.Same c'.aps t.toCsv.aps
  commission : OptRel Dec.Same c'.commission t.toCsv.commission
  txCurr : c'.txCurr = t.toCsv.txCurr
  txFx : OptRel Dec.Same c'.txFx t.toCsv.txFx
  commCurr : c'.commCurr = t.toCsv.commCurr
  commFx : OptRel Dec.Same c'.commFx t.toCsv.commFx
  memo : c'.memo.getD [] = trim t.memo
  affiliate : c'.affiliate = if affcol then some t.affiliate else none
  sfl : OptRel SflSame c'.sfl t.toCsv.sfl
  split : OptRel SplitSame c'.split t.toCsv.split
  readIndex : c'.readIndex = idx

theorem toStringMinPrecision_no_ws (d : Dec) (p : Nat) : ∀ c ∈ d.toStringMinPrecision p, isWs c = false :=
  display_no_ws d _

theorem toStringMinPrecision_ne_nil (d : Dec) (p : Nat) : d.toStringMinPrecision p ≠ [] :=
  display_ne_nil d _

theorem decField (o : Option Dec) (p : Nat) (hp : p ≤ 28) (h : ∀ d, o = some d → d.renderable p = true) :
    ∃ o', optParse (net ((o.map (·.toStringMinPrecision p)).getD [])) readDec = .ok o' ∧ OptRel Dec.Same o' o := by
  apply optField
  intro d hd
  refine ⟨trim_eq_self_of_all _ (toStringMinPrecision_no_ws d p), toStringMinPrecision_ne_nil d p, ?_⟩
  obtain ⟨d', h1, h2⟩ := dec_render_parse d p hp (h d hd)
  exact ⟨d', by simp [readDec, h1], h2⟩

theorem display_split_no_ws (r : SplitRatio) : ∀ c ∈ r.display, isWs c = false := by
  have key : ∀ (a b : Option Nat), ∀ c ∈ r.post.display a ++ strOf "-for-" ++ r.pre.display b, isWs c = false := by
    intro a b c hc
    simp only [List.mem_append] at hc
    have hd : ∀ (d : Dec) (q : Option Nat), ∀ c ∈ d.display q, isWs c = false := by
      intro d q
      cases q with
      | none => rw [display_none]; exact display_no_ws _ _
      | some q => exact display_no_ws _ _
    rcases hc with (h | h) | h
    · exact hd _ _ c h
    · rw [forStr] at h
      simp only [List.mem_cons, List.not_mem_nil, or_false] at h
      rcases h with h | h | h | h | h <;> (subst h; decide)
    · exact hd _ _ c h
  unfold SplitRatio.display
  split
  · split
    · exact key _ _
    · exact key _ _
  · exact key _ _

theorem display_split_ne_nil (r : SplitRatio) : r.display ≠ [] := by
  have key : ∀ (a b : Str), a ++ strOf "-for-" ++ b ≠ [] := by
    intro a b h
    rw [forStr] at h
    simp at h
  unfold SplitRatio.display
  split
  · split
    · exact key _ _
    · exact key _ _
  · exact key _ _

theorem net_getD (m : Str) : (net m).getD [] = trim m := by
  unfold net
  by_cases h : (trim m).isEmpty = true
  · simp [h, List.isEmpty_iff.1 h]
  · simp [h]

theorem currencyNew_ok {s : Str} (h : curOk s) : currencyNew s = s := by
  unfold currencyNew
  simp only [h.2.2]
  have : s.isEmpty = false := by simpa using h.2.1
  simp [this]

/-- **Row lemma.**  The reader turns the written row of a valid transaction into a `CsvTx`
    whose fields are those of the written one (decimals as values). -/
theorem read_row (txs : List Tx) (t : Tx) (ht : t ∈ txs) (hv : t.valid = true) (idx : Nat) :
    ∃ c', csvTxOfValues (rowGet (txs.map Tx.toCsv) t.toCsv) idx = .ok c' ∧
      RowFacts (colInUse (txs.map Tx.toCsv) .affiliate) t idx c' := by
  have hmem : t.toCsv ∈ txs.map Tx.toCsv := List.mem_map.2 ⟨t, ht, rfl⟩
  have hget : ∀ col, col ≠ Col.affiliate →
      rowGet (txs.map Tx.toCsv) t.toCsv col = net (cellOf t.toCsv col) :=
    fun col hcol => rowGet_plain _ _ hmem col hcol
  simp only [Tx.valid, Bool.and_eq_true, beq_iff_eq, Bool.not_eq_true'] at hv
  obtain ⟨⟨⟨⟨⟨⟨⟨hsec1, hsec2⟩, htd⟩, hsd⟩, haff1⟩, haff2⟩, haff3⟩, hspec⟩ := hv
  have hcv := toCsv_valid t hspec
  have hsec0 : t.security ≠ [] := by simpa using hsec2
  have hname0 : t.affiliate.name ≠ [] := by simpa using haff3
  -- fixed fields of the written CsvTx
  have e_sec : t.toCsv.security = some t.security := by cases t; rename_i sp _ _ _; cases sp <;> rfl
  have e_td : t.toCsv.tradeDate = some t.tradeDate := by cases t; rename_i sp _ _ _; cases sp <;> rfl
  have e_sd : t.toCsv.settleDate = some t.settleDate := by cases t; rename_i sp _ _ _; cases sp <;> rfl
  have e_memo : t.toCsv.memo = some t.memo := by cases t; rename_i sp _ _ _; cases sp <;> rfl
  have e_aff : t.toCsv.affiliate = some t.affiliate := by cases t; rename_i sp _ _ _; cases sp <;> rfl
  -- the cells
  have g_sec : rowGet (txs.map Tx.toCsv) t.toCsv .security = some t.security := by
    rw [hget _ (by decide)]; simp only [cellOf, e_sec, Option.getD_some]; exact net_of_trimmed hsec1 hsec0
  have g_memo : rowGet (txs.map Tx.toCsv) t.toCsv .memo = net t.memo := by
    rw [hget _ (by decide)]; simp only [cellOf, e_memo, Option.getD_some]
  have g_legacy : rowGet (txs.map Tx.toCsv) t.toCsv .legacyDate = none := by
    rw [hget _ (by decide)]; rfl
  have g_td : optParse (rowGet (txs.map Tx.toCsv) t.toCsv .tradeDate) readDate = .ok (some t.tradeDate) := by
    rw [hget _ (by decide)]
    simp only [cellOf, e_td, Option.map_some, Option.getD_some]
    rw [net_of_trimmed (trim_eq_self_of_all _ (date_render_no_ws _)) (date_render_ne_nil _)]
    simp [optParse, readDate, date_render_parse _ htd]; rfl
  have g_sd : optParse (rowGet (txs.map Tx.toCsv) t.toCsv .settleDate) readDate = .ok (some t.settleDate) := by
    rw [hget _ (by decide)]
    simp only [cellOf, e_sd, Option.map_some, Option.getD_some]
    rw [net_of_trimmed (trim_eq_self_of_all _ (date_render_no_ws _)) (date_render_ne_nil _)]
    simp [optParse, readDate, date_render_parse _ hsd]; rfl
  have g_act : optParse (rowGet (txs.map Tx.toCsv) t.toCsv .action) readAct = .ok t.toCsv.action := by
    rw [hget _ (by decide)]
    simp only [cellOf]
    cases h : t.toCsv.action with
    | none => simp [net_nil, optParse]
    | some a =>
      simp only [Option.map_some, Option.getD_some]
      rw [net_of_trimmed (act_render_trim a) (act_render_ne_nil a)]
      simp [optParse, readAct, act_render_parse]; rfl
  obtain ⟨o_sh, g_sh, r_sh⟩ := decField t.toCsv.shares 0 (by omega) hcv.shares
  obtain ⟨o_aps, g_aps, r_aps⟩ := decField t.toCsv.aps 2 (by omega) hcv.aps
  obtain ⟨o_comm, g_comm, r_comm⟩ := decField t.toCsv.commission 2 (by omega) hcv.commission
  obtain ⟨o_fx, g_fx, r_fx⟩ := decField t.toCsv.txFx 0 (by omega) hcv.txFx
  obtain ⟨o_cfx, g_cfx, r_cfx⟩ := decField t.toCsv.commFx 0 (by omega) hcv.commFx
  obtain ⟨o_sfl, g_sfl, r_sfl⟩ := optField t.toCsv.sfl renderSfl readSfl SflSame (by
    intro v hvv
    refine ⟨trim_eq_self_of_all _ (renderSfl_no_ws v), renderSfl_ne_nil v, ?_⟩
    obtain ⟨v', h1, h2, h3⟩ := sfl_render_parse v (hcv.sfl v hvv)
    exact ⟨v', by simp [readSfl, h1], h2, h3⟩)
  obtain ⟨o_split, g_split, r_split⟩ := optField t.toCsv.split SplitRatio.display readSplit SplitSame (by
    intro r hr
    refine ⟨trim_eq_self_of_all _ (display_split_no_ws r), display_split_ne_nil r, ?_⟩
    obtain ⟨r', h1, h2, h3⟩ := splitratio_display_parse r (hcv.split r hr)
    exact ⟨r', by simp [readSplit, h1], h2, h3⟩)
  have g_cur : (rowGet (txs.map Tx.toCsv) t.toCsv .txCurr).map currencyNew = t.toCsv.txCurr := by
    rw [hget _ (by decide)]
    simp only [cellOf]
    cases h : t.toCsv.txCurr with
    | none => rfl
    | some s =>
      have := hcv.txCurr s h
      simp only [Option.getD_some, net_of_trimmed this.1 this.2.1, Option.map_some, currencyNew_ok this]
  have g_ccur : (rowGet (txs.map Tx.toCsv) t.toCsv .commCurr).map currencyNew = t.toCsv.commCurr := by
    rw [hget _ (by decide)]
    simp only [cellOf]
    cases h : t.toCsv.commCurr with
    | none => rfl
    | some s =>
      have := hcv.commCurr s h
      simp only [Option.getD_some, net_of_trimmed this.1 this.2.1, Option.map_some, currencyNew_ok this]
  have g_aff : (rowGet (txs.map Tx.toCsv) t.toCsv .affiliate).bind
      (fun s => if (trim s).isEmpty then none else some (fromStrep s)) =
      if colInUse (txs.map Tx.toCsv) .affiliate then some t.affiliate else none := by
    rw [rowGet_affiliate]
    cases colInUse (txs.map Tx.toCsv) .affiliate with
    | false => rfl
    | true =>
      simp only [if_true, cellOf, e_aff, Option.map_some, Option.getD_some, net_of_trimmed haff2 hname0,
        Option.bind_some, haff2]
      have : t.affiliate.name.isEmpty = false := haff3
      simp [this, haff1]
  have g_sh' : optParse (rowGet (txs.map Tx.toCsv) t.toCsv .shares) readDec = .ok o_sh := by
    rw [hget _ (by decide)]; exact g_sh
  have g_aps' : optParse (rowGet (txs.map Tx.toCsv) t.toCsv .aps) readDec = .ok o_aps := by
    rw [hget _ (by decide)]; exact g_aps
  have g_comm' : optParse (rowGet (txs.map Tx.toCsv) t.toCsv .commission) readDec = .ok o_comm := by
    rw [hget _ (by decide)]; exact g_comm
  have g_fx' : optParse (rowGet (txs.map Tx.toCsv) t.toCsv .txFx) readDec = .ok o_fx := by
    rw [hget _ (by decide)]; exact g_fx
  have g_cfx' : optParse (rowGet (txs.map Tx.toCsv) t.toCsv .commFx) readDec = .ok o_cfx := by
    rw [hget _ (by decide)]; exact g_cfx
  have g_sfl' : optParse (rowGet (txs.map Tx.toCsv) t.toCsv .sfl) readSfl = .ok o_sfl := by
    rw [hget _ (by decide)]; exact g_sfl
  have g_split' : optParse (rowGet (txs.map Tx.toCsv) t.toCsv .split) readSplit = .ok o_split := by
    rw [hget _ (by decide)]; exact g_split
  refine ⟨{ security := rowGet (txs.map Tx.toCsv) t.toCsv .security,
            tradeDate := some t.tradeDate, settleDate := some t.settleDate,
            action := t.toCsv.action, shares := o_sh, aps := o_aps, commission := o_comm,
            txCurr := (rowGet (txs.map Tx.toCsv) t.toCsv .txCurr).map currencyNew, txFx := o_fx,
            commCurr := (rowGet (txs.map Tx.toCsv) t.toCsv .commCurr).map currencyNew, commFx := o_cfx,
            memo := rowGet (txs.map Tx.toCsv) t.toCsv .memo,
            affiliate := (rowGet (txs.map Tx.toCsv) t.toCsv .affiliate).bind
              (fun s => if (trim s).isEmpty then none else some (fromStrep s)),
            sfl := o_sfl, split := o_split, readIndex := idx }, ?_, ?_⟩
  · unfold csvTxOfValues csvFields
    simp only [g_td, g_sd, g_legacy, g_act, g_sh', g_aps', g_comm', g_fx', g_cfx', g_sfl', g_split',
      bind, Except.bind, pure, Except.pure, optParse_none]
    rfl
  · constructor
    · exact g_sec
    · rfl
    · simp
    · rfl
    · exact r_sh
    · exact r_aps
    · exact r_comm
    · exact g_cur
    · exact r_fx
    · exact g_ccur
    · exact r_cfx
    · simp only [g_memo]; exact net_getD _
    · exact g_aff
    · exact r_sfl
    · exact r_split
    · rfl


/-! ### from the re-read `CsvTx` to the re-read `Tx` -/

def CurRate.Same (a b : CurRate) : Prop := a.cur = b.cur ∧ a.rate.Same b.rate

def Specifics.Same : Specifics → Specifics → Prop
  | .buy s a c cur cc, .buy s' a' c' cur' cc' =>
    s.Same s' ∧ a.Same a' ∧ c.Same c' ∧ cur.Same cur' ∧ OptRel CurRate.Same cc cc'
  | .sell s a c cur cc sfl, .sell s' a' c' cur' cc' sfl' =>
    s.Same s' ∧ a.Same a' ∧ c.Same c' ∧ cur.Same cur' ∧ OptRel CurRate.Same cc cc' ∧ OptRel SflSame sfl sfl'
  | .roc a cur, .roc a' cur' => a.Same a' ∧ cur.Same cur'
  | .sfla s a, .sfla s' a' => s.Same s' ∧ a.Same a'
  | .split r, .split r' => SplitSame r r'
  | _, _ => False

structure TxSame (a b : Tx) : Prop where
  security : a.security = b.security
  tradeDate : a.tradeDate = b.tradeDate
  settleDate : a.settleDate = b.settleDate
  memo : a.memo = b.memo
  affiliate : a.affiliate = b.affiliate
  spec : a.spec.Same b.spec

theorem OptRel.some_right {α} {R : α → α → Prop} {o : Option α} {b : α} (h : OptRel R o (some b)) :
    ∃ a, o = some a ∧ R a b := by
  cases o with
  | none => exact absurd h (by simp [OptRel])
  | some a => exact ⟨a, rfl, h⟩

theorem OptRel.none_right {α} {R : α → α → Prop} {o : Option α} (h : OptRel R o none) : o = none := by
  cases o with
  | none => rfl
  | some a => exact absurd h (by simp [OptRel])

theorem one_same_of_isOne {d : Dec} (h : d.isOne = true) : Dec.one.Same d := by
  simp only [Dec.isOne, Bool.and_eq_true, Bool.not_eq_true', beq_iff_eq] at h
  refine ⟨h.1.symm, ?_⟩
  show 1 * 10 ^ d.scale = d.mant * 10 ^ 0
  rw [h.2]; simp

theorem validExchangeRate_of (cr : CurRate) (hv : cr.valid = true) (o : Option Dec)
    (h : OptRel Dec.Same o cr.fxCell) :
    ∃ cr', validExchangeRate (some cr.cur) o = .ok (some cr') ∧ cr'.Same cr := by
  obtain ⟨hcur, hpos, _, hone⟩ := CurRate.valid_iff hv
  unfold CurRate.fxCell CurRate.isDefault at h
  by_cases hc : cr.cur = cad
  · have hb : (cr.cur == cad) = true := by simp [hc]
    rw [hb] at h
    simp only [if_true] at h
    rw [h.none_right]
    refine ⟨CurRate.default, by simp [validExchangeRate, hb], ?_⟩
    exact ⟨hc.symm, one_same_of_isOne (hone hc)⟩
  · have hb : (cr.cur == cad) = false := by simp [hc]
    rw [hb] at h
    simp only [Bool.false_eq_true, if_false] at h
    obtain ⟨r', rfl, hr⟩ := h.some_right
    have : r'.isPos = true := by rw [hr.isPos_eq]; exact hpos
    exact ⟨⟨cr.cur, r'⟩, by simp [validExchangeRate, hb, this], rfl, hr⟩

theorem validExchangeRate_opt (cc : Option CurRate) (hv : ∀ c, cc = some c → c.valid = true) (o : Option Dec)
    (h : OptRel Dec.Same o (cc.bind (·.fxCell))) :
    ∃ cc', validExchangeRate (cc.map (·.cur)) o = .ok cc' ∧ OptRel CurRate.Same cc' cc := by
  cases cc with
  | none =>
    simp only [Option.bind_none] at h
    rw [h.none_right]
    exact ⟨none, rfl, trivial⟩
  | some c =>
    obtain ⟨c', h1, h2⟩ := validExchangeRate_of c (hv c rfl) o h
    exact ⟨some c', h1, h2⟩

theorem ofCsv_of_facts (affcol : Bool) (t : Tx) (idx : Nat) (c' : CsvTx) (hv : t.valid = true)
    (hf : RowFacts affcol t idx c') (haff : affcol = false → t.spec.isSplit = false) :
    ∃ t', Tx.ofCsv c' = .ok t' ∧ TxSame t' (canonTx affcol t) ∧ t'.readIndex = idx := by
  obtain ⟨f1, f2, f3, f4, f5, f6, f7, f8, f9, f10, f11, f12, f13, f14, f15, f16⟩ := hf
  simp only [Tx.valid, Bool.and_eq_true, beq_iff_eq, Bool.not_eq_true'] at hv
  obtain ⟨⟨⟨⟨⟨⟨⟨hsec1, hsec2⟩, htd⟩, hsd⟩, haff1⟩, haff2⟩, haff3⟩, hspec⟩ := hv
  obtain ⟨sec, td, sd, spec, memo, aff, ridx⟩ := t
  simp only at f1 f2 f3 f12 f13 hsec2 hspec haff
  have hfin : ∀ (sp' : Specifics), specificsOfCsv c' = .ok sp' → sp'.Same spec → sp'.isSplit = spec.isSplit →
      ∃ t', Tx.ofCsv c' = .ok t' ∧
        TxSame t' (canonTx affcol ⟨sec, td, sd, spec, memo, aff, ridx⟩) ∧ t'.readIndex = idx := by
    intro sp' hsp hsame hsplit
    unfold Tx.ofCsv
    simp only [hsp, f1, f2, f3, hsec2, Bool.false_eq_true, if_false]
    refine ⟨_, rfl, ⟨rfl, rfl, rfl, f12, ?_, hsame⟩, f16⟩
    simp only [canonTx, f13]
    cases affcol with
    | true => rfl
    | false =>
      simp only [Bool.false_eq_true, if_false, Option.getD_none, hsplit, haff rfl]
  cases spec with
  | buy sh aps comm cur cc =>
    simp only [Specifics.valid, Bool.and_eq_true] at hspec
    obtain ⟨⟨⟨⟨⟨⟨⟨h1, h2⟩, h3⟩, h4⟩, h5⟩, h6⟩, h7⟩, h8⟩ := hspec
    simp only [Tx.toCsv] at f4 f5 f6 f7 f8 f9 f10 f11
    obtain ⟨sh', e5, r5⟩ := f5.some_right
    obtain ⟨aps', e6, r6⟩ := f6.some_right
    obtain ⟨comm', e7, r7⟩ := f7.some_right
    obtain ⟨cur', e9, r9⟩ := validExchangeRate_of cur h7 _ f9
    obtain ⟨cc', e11, r11⟩ := validExchangeRate_opt cc (by
      intro c hc; subst hc; exact h8) _ f11
    apply hfin (.buy sh' aps' comm' cur' cc')
    · unfold specificsOfCsv commonAttrs
      simp only [f4, e5, e6, e7, f8, f10, e9, e11, Option.getD_some,
        r5.isPos_eq, r6.isGez_eq, r7.isGez_eq, h1, h3, h5, if_true]
    · exact ⟨r5, r6, r7, r9, r11⟩
    · rfl
  | sell sh aps comm cur cc sfl =>
    simp only [Specifics.valid, Bool.and_eq_true] at hspec
    obtain ⟨⟨⟨⟨⟨⟨⟨⟨h1, h2⟩, h3⟩, h4⟩, h5⟩, h6⟩, h7⟩, h8⟩, h9⟩ := hspec
    simp only [Tx.toCsv] at f4 f5 f6 f7 f8 f9 f10 f11 f14
    obtain ⟨sh', e5, r5⟩ := f5.some_right
    obtain ⟨aps', e6, r6⟩ := f6.some_right
    obtain ⟨comm', e7, r7⟩ := f7.some_right
    obtain ⟨cur', e9, r9⟩ := validExchangeRate_of cur h7 _ f9
    obtain ⟨cc', e11, r11⟩ := validExchangeRate_opt cc (by
      intro c hc; subst hc; exact h8) _ f11
    apply hfin (.sell sh' aps' comm' cur' cc' c'.sfl)
    · unfold specificsOfCsv commonAttrs
      simp only [f4, e5, e6, e7, f8, f10, e9, e11, Option.getD_some,
        r5.isPos_eq, r6.isGez_eq, r7.isGez_eq, h1, h3, h5, if_true]
    · exact ⟨r5, r6, r7, r9, r11, f14⟩
    · rfl
  | roc aps cur =>
    simp only [Specifics.valid, Bool.and_eq_true] at hspec
    obtain ⟨⟨h1, h2⟩, h3⟩ := hspec
    simp only [Tx.toCsv] at f4 f5 f6 f8 f9
    obtain ⟨aps', e6, r6⟩ := f6.some_right
    obtain ⟨cur', e9, r9⟩ := validExchangeRate_of cur h3 _ f9
    apply hfin (.roc aps' cur')
    · unfold specificsOfCsv
      simp only [f4, f5.none_right, e6, f8, e9, Option.getD_some, r6.isGez_eq, h1, if_true]
    · exact ⟨r6, r9⟩
    · rfl
  | sfla sh aps =>
    simp only [Specifics.valid, Bool.and_eq_true] at hspec
    obtain ⟨⟨⟨h1, h2⟩, h3⟩, h4⟩ := hspec
    simp only [Tx.toCsv] at f4 f5 f6 f8 f9
    obtain ⟨sh', e5, r5⟩ := f5.some_right
    obtain ⟨aps', e6, r6⟩ := f6.some_right
    apply hfin (.sfla sh' aps')
    · unfold specificsOfCsv
      simp only [f4, e5, e6, f8, f9.none_right, validExchangeRate, r5.isPos_eq, r6.isPos_eq, h1, h3, if_true]
    · exact ⟨r5, r6⟩
    · rfl
  | split r =>
    simp only [Tx.toCsv] at f4 f15
    obtain ⟨r', e15, r15⟩ := f15.some_right
    apply hfin (.split r')
    · unfold specificsOfCsv
      simp only [f4, e15]
    · exact r15
    · rfl

end Acb.Csv
