/-
  helper lemmas for C15_pipeline: the affiliates a split for all affiliates is expanded to, and
  how the expansion commutes with restating rows
-/
import AcbModel.Lemmas.Scale
import AcbModel.Lemmas.OpeningPipe
namespace Acb

def restateRow (f : Rat) (r : PRow) : PRow := { r with tx := restateTx f r.tx }

theorem insertAffByKey_perm (a : Aff) (l : List Aff) : (insertAffByKey a l).Perm (a :: l) := by
  induction l with
  | nil => exact List.Perm.refl _
  | cons b bs ih =>
    unfold insertAffByKey
    split
    · exact List.Perm.refl _
    · exact (List.Perm.cons b ih).trans (List.Perm.swap a b bs)

theorem sortAffs_perm (l : List Aff) : (sortAffs l).Perm l := by
  unfold sortAffs
  induction l with
  | nil => exact List.Perm.refl _
  | cons a as ih =>
    simp only [List.foldr_cons]
    exact (insertAffByKey_perm a _).trans (List.Perm.cons a ih)

theorem splitAffs_nodup (dflt : Aff) (holders : List Aff) (hh : holders.Nodup) (rows : List PRow) :
    (splitAffs dflt holders rows).Nodup := by
  unfold splitAffs
  simp only
  apply (sortAffs_perm _).nodup_iff.mpr
  split
  · simp
  · rw [List.nodup_append]
    refine ⟨nodup_eraseDups _, hh.filter _, ?_⟩
    intro x hx y hy
    simp only [List.mem_filter, Bool.not_eq_eq_eq_not, Bool.not_true] at hy
    intro e
    subst e
    have : (nonGlobalAffs rows).contains x = true := by simpa using hx
    rw [this] at hy; exact absurd hy.2 (by simp)

theorem mem_splitAffs_of_nonGlobal {dflt : Aff} {holders : List Aff} {rows : List PRow} {a : Aff}
    (h : a ∈ nonGlobalAffs rows) : a ∈ splitAffs dflt holders rows := by
  unfold splitAffs
  simp only
  rw [mem_sortAffs]
  split
  · rename_i he
    have : nonGlobalAffs rows ++ List.filter (fun h => !(nonGlobalAffs rows).contains h) holders = [] := by simpa using he
    have hm : a ∈ nonGlobalAffs rows ++ List.filter (fun h => !(nonGlobalAffs rows).contains h) holders :=
      List.mem_append.mpr (Or.inl h)
    rw [this] at hm; simp at hm
  · exact List.mem_append.mpr (Or.inl h)

theorem mem_splitAffs_of_holder {dflt : Aff} {holders : List Aff} {rows : List PRow} {a : Aff}
    (h : a ∈ holders) : a ∈ splitAffs dflt holders rows := by
  unfold splitAffs
  simp only
  rw [mem_sortAffs]
  have hm : a ∈ nonGlobalAffs rows ++ List.filter (fun h => !(nonGlobalAffs rows).contains h) holders := by
    by_cases hc : a ∈ nonGlobalAffs rows
    · exact List.mem_append.mpr (Or.inl hc)
    · refine List.mem_append.mpr (Or.inr (List.mem_filter.mpr ⟨h, ?_⟩))
      simpa using hc
  split
  · rename_i he
    have : nonGlobalAffs rows ++ List.filter (fun h => !(nonGlobalAffs rows).contains h) holders = [] := by simpa using he
    rw [this] at hm; simp at hm
  · exact hm

theorem nonGlobalAffs_insert (f : Rat) (Q R : List PRow) (G : PRow) (hG : G.glob = true) :
    nonGlobalAffs (Q ++ G :: R.map (restateRow f)) = nonGlobalAffs (Q ++ R) := by
  unfold nonGlobalAffs
  congr 1
  simp only [List.filter_append, List.filter_cons, hG, Bool.not_true, Bool.false_eq_true, if_false, List.map_append]
  congr 1
  induction R with
  | nil => rfl
  | cons r rs ih =>
    simp only [List.map_cons, List.filter_cons, restateRow]
    split <;> simp_all [restateRow, restateTx]

theorem expandSplits_restate (f : Rat) (affs : List Aff) (R : List PRow) :
    expandSplits affs (R.map (restateRow f)) = (expandSplits affs R).map (restateTx f) := by
  unfold expandSplits
  induction R with
  | nil => rfl
  | cons r rs ih =>
    simp only [List.map_cons, List.flatMap_cons, List.map_append, ih]
    congr 1
    have hg : isGlobalSplit (restateRow f r) = isGlobalSplit r := by
      unfold isGlobalSplit restateRow restateTx
      cases r.tx.act <;> rfl
    rw [hg]
    split
    · simp only [List.map_map]
      apply List.map_congr_left
      intro a _
      simp [restateRow, restateTx]
    · simp [restateRow]

theorem expandSplits_noglobal (affs : List Aff) (rows : List PRow)
    (h : (rows.filter isGlobalSplit).isEmpty = true) : expandSplits affs rows = rows.map (·.tx) := by
  unfold expandSplits
  induction rows with
  | nil => rfl
  | cons r rs ih =>
    have hr : isGlobalSplit r = false := by
      cases hg : isGlobalSplit r with
      | false => rfl
      | true => simp [List.filter_cons, hg] at h
    have hrs : (rs.filter isGlobalSplit).isEmpty = true := by simpa [List.filter_cons, hr] using h
    simp only [List.flatMap_cons, hr, Bool.false_eq_true, if_false, List.map_cons, ih hrs]
    rfl

/-- the transactions the pipeline hands to the ledger, with the expansion written uniformly -/
theorem replaceGlobalSplits_eq {dflt : Aff} {holders : List Aff} {rows : List PRow}
    (h : splitConflict [] rows = false) :
    replaceGlobalSplits dflt holders rows = some (expandSplits (splitAffs dflt holders rows) rows) := by
  unfold replaceGlobalSplits
  simp only [h, Bool.false_eq_true, if_false]
  split
  · rename_i hn; rw [expandSplits_noglobal _ _ hn]
  · rfl

end Acb
