/-
  Decimal text round trip (C11): `Decimal::from_str (to_string_min_precision d p)` is `d` again
  (as a value, with the sign bit), and the text depends on the value only.
-/
import AcbModel.App.CsvCodec
import AcbModel.Lemmas.CsvText
namespace Acb.Csv

theorem takeWhile_append_of_all {α} (p : α → Bool) (xs ys : List α) (h : ∀ x ∈ xs, p x = true) :
    (xs ++ ys).takeWhile p = xs ++ ys.takeWhile p := by
  induction xs with
  | nil => rfl
  | cons a r ih =>
    simp only [List.cons_append, List.takeWhile_cons, h a (by simp), if_true]
    rw [ih (fun x hx => h x (by simp [hx]))]

theorem dropWhile_append_of_all {α} (p : α → Bool) (xs ys : List α) (h : ∀ x ∈ xs, p x = true) :
    (xs ++ ys).dropWhile p = ys.dropWhile p := by
  induction xs with
  | nil => rfl
  | cons a r ih =>
    simp only [List.cons_append, List.dropWhile_cons, h a (by simp), if_true]
    exact ih (fun x hx => h x (by simp [hx]))

theorem all_isDigit_of_forall (s : Str) (h : ∀ c ∈ s, isDigit c = true) : s.all isDigit = true := by
  simpa [List.all_eq_true] using h

theorem stripSign_digit (w : Char) (r : Str) (hw : isDigit w = true) : stripSign (w :: r) = (false, w :: r) := by
  have hw1 : w ≠ '-' := by intro h; subst h; revert hw; decide
  have hw2 : w ≠ '+' := by intro h; subst h; revert hw; decide
  unfold stripSign
  split
  · rename_i heq; simp at heq; exact absurd heq.1 hw1
  · rename_i heq; simp at heq; exact absurd heq.1 hw2
  · rfl

theorem parseUnsigned_shape (neg : Bool) (W F : Str) (hW : W ≠ [])
    (hWd : ∀ c ∈ W, isDigit c = true) (hFd : ∀ c ∈ F, isDigit c = true) :
    parseUnsigned neg (W ++ (if F = [] then [] else '.' :: F)) = some ⟨neg, ofDigits (W ++ F), F.length⟩ := by
  unfold parseUnsigned
  rw [takeWhile_append_of_all _ _ _ hWd, dropWhile_append_of_all _ _ _ hWd]
  have hdot : isDigit '.' = false := by decide
  by_cases hF : F = []
  · subst hF
    simp [hW]
  · simp [hF, List.dropWhile_cons, List.takeWhile_cons, hdot, all_isDigit_of_forall F hFd]

/-- sign, digits, optional point and digits: what `parseDecRaw` makes of it. -/
theorem parseDecRaw_shape (neg : Bool) (W F : Str) (hW : W ≠ [])
    (hWd : ∀ c ∈ W, isDigit c = true) (hFd : ∀ c ∈ F, isDigit c = true) :
    parseDecRaw ((if neg then ['-'] else []) ++ W ++ (if F = [] then [] else '.' :: F))
      = some ⟨neg, ofDigits (W ++ F), F.length⟩ := by
  unfold parseDecRaw
  cases neg
  · obtain ⟨w, W', rfl⟩ := List.exists_cons_of_ne_nil hW
    simp only [Bool.false_eq_true, if_false, List.nil_append, List.cons_append]
    rw [stripSign_digit w _ (hWd w (by simp))]
    exact parseUnsigned_shape false (w :: W') F hW hWd hFd
  · simp only [if_true, List.cons_append, List.nil_append, List.append_assoc]
    show parseUnsigned true (W ++ _) = _
    exact parseUnsigned_shape true W F hW hWd hFd

/-! ### normal form -/

theorem normGo_mul_pow (neg : Bool) (m s k : Nat) :
    normGo neg (s + k) (m * 10 ^ k) = normGo neg s m := by
  induction k with
  | zero => simp
  | succ k ih =>
    rw [← Nat.add_assoc, Nat.pow_succ, ← Nat.mul_assoc]
    simp only [normGo, Nat.mul_mod_left, if_true, Nat.mul_div_cancel _ (by omega : 0 < 10)]
    exact ih

/-- Appending fractional zeros does not change the value. -/
theorem norm_mul_pow (neg : Bool) (m s k : Nat) :
    (Dec.mk neg (m * 10 ^ k) (s + k)).norm = (Dec.mk neg m s).norm := by
  unfold Dec.norm
  exact normGo_mul_pow neg m s k

/-! ### rendering -/

theorem Dec.trimmedPrecision_le (d : Dec) : d.trimmedPrecision ≤ d.scale := by
  unfold Dec.trimmedPrecision
  have := trimZeros_length_le (fracDigits d.scale d.mant)
  rwa [fracDigits_length] at this

theorem pow2_96_lt : pow2_96 < 10 ^ 29 := by decide

/-- The fractional digits shown at precision `q`. -/
def shownFrac (d : Dec) (q : Nat) : Str := (fracDigits d.scale d.mant ++ List.replicate q '0').take q

theorem shownFrac_length (d : Dec) (q : Nat) : (shownFrac d q).length = q := by
  simp [shownFrac, fracDigits_length]

theorem shownFrac_all_digit (d : Dec) (q : Nat) : ∀ c ∈ shownFrac d q, isDigit c = true := by
  intro c hc
  have := List.mem_of_mem_take hc
  simp only [List.mem_append, List.mem_replicate] at this
  rcases this with h | ⟨_, h⟩
  · exact fracDigits_all_digit _ _ c h
  · subst h; decide

theorem display_some (d : Dec) (q : Nat) :
    d.display (some q) = (if d.neg then ['-'] else []) ++ wholeDigits (d.mant / 10 ^ d.scale) ++
      (if shownFrac d q = [] then [] else '.' :: shownFrac d q) := by
  unfold Dec.display
  simp only [Option.getD_some]
  by_cases hq : q = 0
  · subst hq; simp [shownFrac]
  · have : shownFrac d q ≠ [] := by
      intro h; have := shownFrac_length d q; rw [h] at this; simp at this; omega
    simp [hq, this, shownFrac]

/-- What is read back from a decimal shown with `q ≥ trimmedPrecision` fractional digits. -/
theorem parseDecRaw_display (d : Dec) (q : Nat) (hm : d.mant < pow2_96) :
    parseDecRaw (d.display (some q)) =
      some ⟨d.neg, d.mant / 10 ^ d.scale * 10 ^ q + ofDigits (shownFrac d q), q⟩ := by
  rw [display_some, parseDecRaw_shape d.neg _ _ (wholeDigits_ne_nil _) (wholeDigits_all_digit _)
    (shownFrac_all_digit d q)]
  have hlt : d.mant / 10 ^ d.scale < 10 ^ 29 :=
    Nat.lt_of_le_of_lt (Nat.div_le_self _ _) (Nat.lt_trans hm pow2_96_lt)
  rw [ofDigits_append, ofDigits_wholeDigits hlt, shownFrac_length]

/-- value of the shown fraction when nothing but zeros is cut off or padded. -/
theorem shown_value_ge (d : Dec) (q : Nat) (h : d.scale ≤ q) :
    d.mant / 10 ^ d.scale * 10 ^ q + ofDigits (shownFrac d q) = d.mant * 10 ^ (q - d.scale) := by
  obtain ⟨k, rfl⟩ := Nat.exists_eq_add_of_le h
  have : shownFrac d (d.scale + k) = fracDigits d.scale d.mant ++ List.replicate k '0' := by
    unfold shownFrac
    rw [List.take_append, fracDigits_length, List.take_of_length_le (by simp [fracDigits_length])]
    simp
  rw [this, ofDigits_append, ofDigits_fracDigits, ofDigits_replicate_zero]
  simp only [List.length_replicate, Nat.add_zero, Nat.add_sub_cancel_left]
  rw [Nat.pow_add, ← Nat.mul_assoc, ← Nat.add_mul, Nat.mul_comm (d.mant / 10 ^ d.scale), Nat.div_add_mod]

theorem shown_value_lt (d : Dec) (q j : Nat) (h : d.scale = q + j) :
    d.mant / 10 ^ d.scale * 10 ^ q + ofDigits (shownFrac d q) = d.mant / 10 ^ j := by
  have : shownFrac d q = fracDigits q (d.mant / 10 ^ j) := by
    unfold shownFrac
    rw [List.take_append_of_le_length (by simp [fracDigits_length, h]), h, take_fracDigits]
  rw [this, ofDigits_fracDigits, h, Nat.pow_add, Nat.mul_comm (10 ^ q), ← Nat.div_div_eq_div_mul,
    Nat.mul_comm, Nat.div_add_mod]

/-! ### `Dec.Same` -/

theorem Dec.Same.refl (a : Dec) : a.Same a := ⟨rfl, rfl⟩
theorem Dec.Same.symm {a b : Dec} (h : a.Same b) : b.Same a := ⟨h.1.symm, h.2.symm⟩

theorem same_mul_pow (neg : Bool) (m s k : Nat) : (Dec.mk neg (m * 10 ^ k) (s + k)).Same (Dec.mk neg m s) := by
  refine ⟨rfl, ?_⟩
  show m * 10 ^ k * 10 ^ s = m * 10 ^ (s + k)
  rw [Nat.mul_assoc, ← Nat.pow_add, Nat.add_comm]

/-- Two decimals with the same sign and value differ by trailing zeros only. -/
theorem Dec.Same.cases {a b : Dec} (h : a.Same b) :
    (∃ k, b = ⟨a.neg, a.mant * 10 ^ k, a.scale + k⟩) ∨ (∃ k, a = ⟨b.neg, b.mant * 10 ^ k, b.scale + k⟩) := by
  obtain ⟨an, am, as⟩ := a
  obtain ⟨bn, bm, bs⟩ := b
  obtain ⟨h1, h2⟩ := h
  simp only at h1 h2
  subst h1
  rcases Nat.le_total as bs with hle | hle
  · left
    obtain ⟨k, rfl⟩ := Nat.exists_eq_add_of_le hle
    refine ⟨k, ?_⟩
    have h3 : am * 10 ^ k * 10 ^ as = bm * 10 ^ as := by
      rw [← h2, Nat.pow_add, Nat.mul_assoc, Nat.mul_comm (10 ^ k)]
    have : am * 10 ^ k = bm := Nat.eq_of_mul_eq_mul_right (Nat.pow_pos (by omega)) h3
    simp [this]
  · right
    obtain ⟨k, rfl⟩ := Nat.exists_eq_add_of_le hle
    refine ⟨k, ?_⟩
    have h3 : bm * 10 ^ k * 10 ^ bs = am * 10 ^ bs := by
      rw [h2, Nat.pow_add, Nat.mul_assoc, Nat.mul_comm (10 ^ k)]
    have : bm * 10 ^ k = am := Nat.eq_of_mul_eq_mul_right (Nat.pow_pos (by omega)) h3
    simp [this]

theorem Dec.Same.norm_eq {a b : Dec} (h : a.Same b) : a.norm = b.norm := by
  rcases h.cases with ⟨k, rfl⟩ | ⟨k, rfl⟩
  · exact (norm_mul_pow _ _ _ _).symm
  · exact norm_mul_pow _ _ _ _

/-! ### the text depends on sign and value only -/

theorem trimZeros_append_zeros (s : Str) (k : Nat) : trimZeros (s ++ List.replicate k '0') = trimZeros s := by
  induction k with
  | zero => simp
  | succ k ih =>
    rw [List.replicate_succ', ← List.append_assoc, trimZeros_append_singleton, if_pos rfl, ih]

theorem display_mul_pow (neg : Bool) (m s k q : Nat) :
    (Dec.mk neg (m * 10 ^ k) (s + k)).display (some q) = (Dec.mk neg m s).display (some q) := by
  unfold Dec.display
  simp only [Option.getD_some]
  have hw : m * 10 ^ k / 10 ^ (s + k) = m / 10 ^ s := by
    rw [Nat.pow_add, Nat.mul_comm (10 ^ s), ← Nat.div_div_eq_div_mul,
      Nat.mul_div_cancel _ (Nat.pow_pos (by omega))]
  rw [hw, fracDigits_add_mul_pow]
  by_cases hq : q = 0
  · simp [hq]
  · simp only [hq, if_false]
    congr 2
    rw [List.append_assoc, List.take_append, List.take_append (l₁ := fracDigits s m)]
    congr 1
    rw [List.replicate_append_replicate, List.take_replicate, List.take_replicate]
    congr 1
    simp only [fracDigits_length]
    omega

theorem toStringMinPrecision_mul_pow (neg : Bool) (m s k p : Nat) :
    (Dec.mk neg (m * 10 ^ k) (s + k)).toStringMinPrecision p = (Dec.mk neg m s).toStringMinPrecision p := by
  unfold Dec.toStringMinPrecision
  have : (Dec.mk neg (m * 10 ^ k) (s + k)).trimmedPrecision = (Dec.mk neg m s).trimmedPrecision := by
    unfold Dec.trimmedPrecision
    simp only
    rw [fracDigits_add_mul_pow, trimZeros_append_zeros]
  rw [this]
  exact display_mul_pow neg m s k _

theorem Dec.Same.toStringMinPrecision_eq {a b : Dec} (h : a.Same b) (p : Nat) :
    a.toStringMinPrecision p = b.toStringMinPrecision p := by
  rcases h.cases with ⟨k, rfl⟩ | ⟨k, rfl⟩
  · exact (toStringMinPrecision_mul_pow _ _ _ _ _).symm
  · exact toStringMinPrecision_mul_pow _ _ _ _ _

theorem Dec.Same.display_eq {a b : Dec} (h : a.Same b) (q : Nat) :
    a.display (some q) = b.display (some q) := by
  rcases h.cases with ⟨k, rfl⟩ | ⟨k, rfl⟩
  · exact (display_mul_pow _ _ _ _ _).symm
  · exact display_mul_pow _ _ _ _ _

/-- **Decimal cell round trip.**  The text written for `d` with minimum precision `p` is read
    back by `Decimal::from_str` as the same value with the same sign. -/
theorem dec_render_parse (d : Dec) (p : Nat) (hp : p ≤ 28) (h : d.renderable p = true) :
    ∃ d', parseDec (d.toStringMinPrecision p) = .ok d' ∧ d'.Same d := by
  obtain ⟨neg, mant, scale⟩ := d
  simp only [Dec.renderable, Bool.and_eq_true, decide_eq_true_eq, Bool.or_eq_true, Bool.not_eq_true',
    bne_iff_ne, ne_eq] at h
  obtain ⟨⟨hs, hr⟩, hz⟩ := h
  have hm : mant < pow2_96 :=
    Nat.lt_of_le_of_lt (Nat.le_mul_of_pos_right _ (Nat.pow_pos (by omega))) hr
  have htp : (Dec.mk neg mant scale).trimmedPrecision ≤ scale := Dec.trimmedPrecision_le _
  have hmod : ∀ j, scale = max (Dec.mk neg mant scale).trimmedPrecision p + j → mant % 10 ^ j = 0 := by
    intro j hj
    apply mod_pow_of_trimZeros_le j (max (Dec.mk neg mant scale).trimmedPrecision p)
    rw [← hj]
    exact Nat.le_max_left _ _
  unfold Dec.toStringMinPrecision parseDec
  rw [parseDecRaw_display _ _ hm]
  generalize (Dec.mk neg mant scale).trimmedPrecision = T at *
  by_cases hq : scale ≤ max T p
  · -- zero padding (or nothing)
    rw [shown_value_ge _ _ hq]
    obtain ⟨k, hk⟩ := Nat.exists_eq_add_of_le hq
    have hk' : max T p - scale = k := by omega
    simp only [hk']
    have hlt : mant * 10 ^ k < pow2_96 :=
      Nat.lt_of_le_of_lt (Nat.mul_le_mul_left _ (Nat.pow_le_pow_right (by omega) (by omega))) hr
    have hq28 : max T p ≤ 28 := by omega
    rw [if_pos ⟨hq28, hlt⟩]
    refine ⟨_, rfl, ?_⟩
    have hneg : (neg && (mant * 10 ^ k != 0)) = neg := by
      cases neg
      · rfl
      · have h0 : mant ≠ 0 := by simpa using hz
        have : mant * 10 ^ k ≠ 0 := Nat.mul_ne_zero h0 (Nat.ne_of_gt (Nat.pow_pos (by omega)))
        simp [this]
    simp only [hneg, hk]
    exact same_mul_pow neg mant scale k
  · -- trailing zeros cut off
    have hq' : max T p < scale := by omega
    obtain ⟨j, hj⟩ := Nat.exists_eq_add_of_le (Nat.le_of_lt hq')
    rw [shown_value_lt _ _ j hj]
    have hdiv : mant % 10 ^ j = 0 := hmod j hj
    have hle : mant / 10 ^ j < pow2_96 := Nat.lt_of_le_of_lt (Nat.div_le_self _ _) hm
    have hq28 : max T p ≤ 28 := by omega
    dsimp only
    rw [if_pos ⟨hq28, hle⟩]
    refine ⟨_, rfl, ?_⟩
    have hmant : mant = mant / 10 ^ j * 10 ^ j := by
      have := Nat.div_add_mod mant (10 ^ j)
      rw [hdiv, Nat.add_zero, Nat.mul_comm] at this
      exact this.symm
    have hneg : (neg && (mant / 10 ^ j != 0)) = neg := by
      cases neg
      · rfl
      · have h0 : mant ≠ 0 := by simpa using hz
        have : mant / 10 ^ j ≠ 0 := by
          intro hh; rw [hh, Nat.zero_mul] at hmant; exact h0 hmant
        simp [this]
    simp only [hneg]
    have := same_mul_pow neg (mant / 10 ^ j) (max T p) j
    rw [← hmant, ← hj] at this
    exact this.symm

end Acb.Csv
