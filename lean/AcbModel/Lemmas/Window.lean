/-
  The window scans, declaratively: on a date-sorted history the `break`s are a filter on the
  30-day window; the forward total is the end-of-window holding of all affiliates in the split
  period of the sale; shares were "acquired" iff some Buy settles inside the window.
-/
import AcbModel.Lemmas.ScanInv
import AcbModel.Ledger.Spec
namespace Acb
open Spec

/-- rows in file/settlement order -/
def SettleAsc (l : List Tx) : Prop := l.Pairwise (fun a b => a.settle ≤ b.settle)
/-- rows in reverse order (most recent first) -/
def SettleDesc (l : List Tx) : Prop := l.Pairwise (fun a b => b.settle ≤ a.settle)

/-- **Forward `break` = filter.**  On rows sorted by settlement date the forward scan sees exactly
    the rows settling on or before the last day of the window. -/
theorem scanFwd_filter {t : Tracker} (lastDay : Int) :
    ∀ (future : List Tx) (s : Scan), SettleAsc future →
      scanFwd t lastDay s future = scanFwd t lastDay s (future.filter (fun x => decide (x.settle ≤ lastDay))) := by
  intro future
  induction future with
  | nil => intro s _; simp
  | cons x rest ih =>
    intro s hs
    have hrest : SettleAsc rest := (List.pairwise_cons.mp hs).2
    have hx : ∀ y ∈ rest, x.settle ≤ y.settle := (List.pairwise_cons.mp hs).1
    by_cases hgt : x.settle > lastDay
    · have hfil : (x :: rest).filter (fun x => decide (x.settle ≤ lastDay)) = [] := by
        apply List.filter_eq_nil_iff.mpr
        intro y hy
        simp only [List.mem_cons] at hy
        rcases hy with rfl | hy
        · simp; omega
        · have := hx y hy; simp; omega
      rw [hfil]
      unfold scanFwd
      simp [hgt]
    · have hle : x.settle ≤ lastDay := by omega
      have hfil : (x :: rest).filter (fun x => decide (x.settle ≤ lastDay)) =
          x :: rest.filter (fun x => decide (x.settle ≤ lastDay)) := by
        simp [List.filter_cons, hle]
      rw [hfil]
      unfold scanFwd
      simp only [hgt, if_false]
      split
      · exact ih _ hrest
      · split
        · rfl
        · split
          · rfl
          · exact ih _ hrest
      · exact ih _ hrest
      · exact ih _ hrest

/-- **Backward `break` = filter.** -/
theorem scanBwd_filter {t : Tracker} (firstDay : Int) :
    ∀ (past : List Tx) (s : Scan), SettleDesc past →
      scanBwd t firstDay s past = scanBwd t firstDay s (past.filter (fun x => decide (firstDay ≤ x.settle))) := by
  intro past
  induction past with
  | nil => intro s _; simp
  | cons x rest ih =>
    intro s hs
    have hrest : SettleDesc rest := (List.pairwise_cons.mp hs).2
    have hx : ∀ y ∈ rest, y.settle ≤ x.settle := (List.pairwise_cons.mp hs).1
    by_cases hlt : x.settle < firstDay
    · have hfil : (x :: rest).filter (fun x => decide (firstDay ≤ x.settle)) = [] := by
        apply List.filter_eq_nil_iff.mpr
        intro y hy
        simp only [List.mem_cons] at hy
        rcases hy with rfl | hy
        · simp; omega
        · have := hx y hy; simp; omega
      rw [hfil]
      unfold scanBwd
      simp [hlt]
    · have hle : firstDay ≤ x.settle := by omega
      have hfil : (x :: rest).filter (fun x => decide (firstDay ≤ x.settle)) =
          x :: rest.filter (fun x => decide (firstDay ≤ x.settle)) := by
        simp [List.filter_cons, hle]
      rw [hfil]
      unfold scanBwd
      simp only [hlt, if_false]
      split
      · exact ih _ hrest
      · exact ih _ hrest
      · exact ih _ hrest

end Acb

namespace Acb
open Spec

/-- cumulative split factor per affiliate -/
def stepFactor (F : Aff → Rat) (x : Tx) : Aff → Rat :=
  match x.act with
  | .split post pre _ => upd F x.aff (F x.aff * splitFactor post pre)
  | _ => F

def factors (F : Aff → Rat) (p : List Tx) : Aff → Rat := p.foldl stepFactor F

/-- Invariant of the forward scan: the running total is the all-affiliate holding in the split
    period of the sale (each affiliate's balance divided by its cumulative split factor), and the
    per-affiliate adjustment is the reciprocal of that factor. -/
structure HeldInv (U : List Aff) (bs : Books) (F : Aff → Rat) (s : Scan) : Prop where
  total : s.allEop = sumOver U (fun a => (bs a).shares / F a)
  adj : ∀ a, s.adj a = 1 / F a
  pos : ∀ a, 0 < F a

theorem sumOver_point {U : List Aff} (hn : U.Nodup) {f g : Aff → Rat} {a : Aff} (ha : a ∈ U)
    (h : ∀ x, x ≠ a → g x = f x) : sumOver U g = sumOver U f - f a + g a := by
  have : g = fun x => if x = a then g a else f x := by
    funext x; by_cases hx : x = a
    · simp [hx]
    · simp [hx, h x hx]
  rw [this, sumOver_upd hn ha]; simp

theorem scanFwd_held {t : Tracker} {U : List Aff} (hn : U.Nodup) (lastDay : Int) :
    ∀ (p : List Tx) (s s' : Scan) (bs : Books) (F : Aff → Rat),
    (∀ x ∈ p, x.settle ≤ lastDay ∧ x.Valid ∧ x.aff ∈ U) → HeldInv U bs F s →
    scanFwd t lastDay s p = .ok s' → HeldInv U (after bs p) (factors F p) s' := by
  intro p
  induction p with
  | nil => intro s s' bs F _ hi h; simp [scanFwd] at h; subst h; simpa [after, factors] using hi
  | cons x rest ih =>
    intro s s' bs F hp hi h
    obtain ⟨hle, hv, hU⟩ := hp x (by simp)
    have hpr : ∀ y ∈ rest, y.settle ≤ lastDay ∧ y.Valid ∧ y.aff ∈ U := fun y hy => hp y (by simp [hy])
    have hng : ¬ x.settle > lastDay := by omega
    unfold scanFwd at h
    simp only [hng, if_false] at h
    simp only [after, factors, List.foldl_cons]
    have hFa := hi.pos x.aff
    have hFne : F x.aff ≠ 0 := by grind
    have hadj := hi.adj x.aff
    unfold Tx.Valid at hv
    split at h
    · -- buy
      rename_i sh px comm rate crate hact
      have hstep : stepFactor F x = F := by simp [stepFactor, hact]
      rw [hstep]
      apply ih _ _ _ _ hpr _ h
      refine ⟨?_, hi.adj, hi.pos⟩
      simp only
      rw [sumOver_point hn hU (f := fun a => (bs a).shares / F a)
        (g := fun a => (stepBooks bs x a).shares / F a)
        (by intro y hy; simp [stepBooks, hy])]
      simp only [stepBooks, if_true, stepBook, hact]
      rw [hi.total, hadj]; grind
    · -- sell
      rename_i sh px comm rate crate spec hact
      have hstep : stepFactor F x = F := by simp [stepFactor, hact]
      rw [hstep]
      split at h
      · cases h
      · split at h
        · cases h
        · apply ih _ _ _ _ hpr _ h
          refine ⟨?_, hi.adj, hi.pos⟩
          simp only
          rw [sumOver_point hn hU (f := fun a => (bs a).shares / F a)
            (g := fun a => (stepBooks bs x a).shares / F a)
            (by intro y hy; simp [stepBooks, hy])]
          simp only [stepBooks, if_true, stepBook, hact]
          rw [hi.total, hadj]; grind
    · -- split
      rename_i post pre io hact
      rw [hact] at hv
      have hf : 0 < splitFactor post pre := div_pos' hv.1 hv.2
      have hfne : splitFactor post pre ≠ 0 := by grind
      have hstep : stepFactor F x = upd F x.aff (F x.aff * splitFactor post pre) := by simp [stepFactor, hact]
      rw [hstep]
      apply ih _ _ _ _ hpr _ h
      refine ⟨?_, ?_, ?_⟩
      · simp only
        rw [sumOver_point hn hU (f := fun a => (bs a).shares / F a)
          (g := fun a => (stepBooks bs x a).shares / upd F x.aff (F x.aff * splitFactor post pre) a)
          (by intro y hy; simp [stepBooks, upd, hy])]
        simp only [stepBooks, upd, if_true, stepBook, hact]
        rw [hi.total]
        have : (bs x.aff).shares * (post / pre) / (F x.aff * splitFactor post pre) = (bs x.aff).shares / F x.aff := by
          unfold splitFactor at *; grind
        rw [this]; grind
      · intro a
        simp only [upd]
        by_cases ha : a = x.aff
        · simp only [ha, if_true]; rw [hadj]; grind
        · simp only [ha, if_false]; exact hi.adj a
      · intro a
        simp only [upd]
        by_cases ha : a = x.aff
        · simp only [ha, if_true]; exact Rat.mul_pos hFa hf
        · simp only [ha, if_false]; exact hi.pos a
    · -- roc / sfla: no effect on shares
      rename_i hnb hns hnsp
      have hstep : stepFactor F x = F := by
        unfold stepFactor; split
        · rename_i post pre io hact; exact absurd hact (hnsp post pre io)
        · rfl
      rw [hstep]
      apply ih _ _ _ _ hpr _ h
      refine ⟨?_, hi.adj, hi.pos⟩
      rw [hi.total]
      apply sumOver_congr
      intro a _
      unfold stepBooks
      split
      · rename_i ha; subst ha
        unfold stepBook
        split
        · rename_i sh px comm rate crate hact; exact absurd hact (hnb sh px comm rate crate)
        · rename_i sh px comm rate crate spec hact; exact absurd hact (hns sh px comm rate crate spec)
        · rfl
        · rfl
        · rename_i post pre io hact; exact absurd hact (hnsp post pre io)
      · rfl

end Acb

namespace Acb

theorem scanFwd_acquired_pos {t : Tracker} (lastDay : Int) :
    ∀ (p : List Tx) (s s' : Scan),
    (∀ x ∈ p, x.settle ≤ lastDay ∧ x.Valid) → (∀ a, 0 < s.adj a) → 0 ≤ s.acquired →
    scanFwd t lastDay s p = .ok s' →
    (0 < s'.acquired ↔ (0 < s.acquired ∨ ∃ x ∈ p, x.act.isBuy = true)) := by
  intro p
  induction p with
  | nil => intro s s' _ _ _ h; simp [scanFwd] at h; subst h; simp
  | cons x rest ih =>
    intro s s' hp hadj hacq h
    obtain ⟨hle, hv⟩ := hp x (by simp)
    have hpr : ∀ y ∈ rest, y.settle ≤ lastDay ∧ y.Valid := fun y hy => hp y (by simp [hy])
    have hng : ¬ x.settle > lastDay := by omega
    unfold scanFwd at h
    simp only [hng, if_false] at h
    unfold Tx.Valid at hv
    split at h
    · rename_i sh px comm rate crate hact
      rw [hact] at hv
      have hq : 0 < sh * s.adj x.aff := Rat.mul_pos hv.1 (hadj _)
      refine Iff.trans (ih _ _ hpr ?_ ?_ h) ?_
      · exact hadj
      · simp; grind
      · constructor
        · intro _; right; exact ⟨x, by simp, by simp [hact, Action.isBuy]⟩
        · intro _; left; simp; grind
    · rename_i sh px comm rate crate spec hact
      split at h
      · cases h
      · split at h
        · cases h
        · refine Iff.trans (ih _ _ hpr ?_ ?_ h) ?_
          · exact hadj
          · exact hacq
          · simp only [List.mem_cons, exists_eq_or_imp, hact, Action.isBuy]
            simp
    · rename_i post pre io hact
      rw [hact] at hv
      refine Iff.trans (ih _ _ hpr ?_ ?_ h) ?_
      · intro a
        simp only [upd]
        by_cases hax : a = x.aff
        · simp only [hax, if_true]
          exact div_pos' (hadj _) (div_pos' hv.1 hv.2)
        · simp only [hax, if_false]; exact hadj a
      · exact hacq
      · simp only [List.mem_cons, exists_eq_or_imp, hact, Action.isBuy]
        simp
    · rename_i hnb _ _
      refine Iff.trans (ih _ _ hpr hadj hacq h) ?_
      have : x.act.isBuy = false := by
        unfold Action.isBuy; split
        · rename_i sh px comm rate crate hact; exact absurd hact (hnb sh px comm rate crate)
        · rfl
      simp only [List.mem_cons, exists_eq_or_imp, this]
      simp

theorem scanBwd_acquired_pos {t : Tracker} (firstDay : Int) :
    ∀ (p : List Tx) (s : Scan),
    (∀ x ∈ p, firstDay ≤ x.settle ∧ x.Valid) → (∀ a, 0 < s.adj a) → 0 ≤ s.acquired →
    (0 < (scanBwd t firstDay s p).acquired ↔ (0 < s.acquired ∨ ∃ x ∈ p, x.act.isBuy = true)) := by
  intro p
  induction p with
  | nil => intro s _ _ _; simp [scanBwd]
  | cons x rest ih =>
    intro s hp hadj hacq
    obtain ⟨hle, hv⟩ := hp x (by simp)
    have hpr : ∀ y ∈ rest, firstDay ≤ y.settle ∧ y.Valid := fun y hy => hp y (by simp [hy])
    have hng : ¬ x.settle < firstDay := by omega
    unfold scanBwd
    simp only [hng, if_false]
    unfold Tx.Valid at hv
    split
    · rename_i sh px comm rate crate hact
      rw [hact] at hv
      have hq : 0 < sh * s.adj x.aff := Rat.mul_pos hv.1 (hadj _)
      refine Iff.trans (ih _ hpr ?_ ?_) ?_
      · exact hadj
      · simp; grind
      · constructor
        · intro _; right; exact ⟨x, by simp, by simp [hact, Action.isBuy]⟩
        · intro _; left; simp; grind
    · rename_i post pre io hact
      rw [hact] at hv
      refine Iff.trans (ih _ hpr ?_ ?_) ?_
      · intro a
        simp only [upd]
        by_cases hax : a = x.aff
        · simp only [hax, if_true]; exact Rat.mul_pos (hadj _) (div_pos' hv.1 hv.2)
        · simp only [hax, if_false]; exact hadj a
      · exact hacq
      · simp only [List.mem_cons, exists_eq_or_imp, hact, Action.isBuy]
        simp
    · rename_i hnb _
      refine Iff.trans (ih _ hpr hadj hacq) ?_
      have : x.act.isBuy = false := by
        unfold Action.isBuy; split
        · rename_i sh px comm rate crate hact; exact absurd hact (hnb sh px comm rate crate)
        · rfl
      simp only [List.mem_cons, exists_eq_or_imp, this]
      simp

end Acb
