/-
  Shape of the emitted rows (C18, "every emitted row is accepted by acb") and the implied rate.
-/
import AcbModel.Lemmas.QtRow
import AcbModel.Lemmas.QtPipeline
namespace Acb.Qt

theorem rabs_nonneg (x : Rat) : 0 ≤ rabs x := by unfold rabs; split <;> grind
theorem rabs_pos {x : Rat} (h : x ≠ 0) : 0 < rabs x := by unfold rabs; split <;> grind
theorem rabs_eq_zero {x : Rat} (h : rabs x = 0) : x = 0 := by unfold rabs at h; split at h <;> grind

theorem div_ne_zero' {a b : Rat} (ha : a ≠ 0) (hb : b ≠ 0) : a / b ≠ 0 := by
  intro h
  have : a / b * b = a := by grind
  rw [h] at this
  grind

theorem rabs_mul (a b : Rat) : rabs (a * b) = rabs a * rabs b := by
  by_cases ha0 : a = 0
  · subst ha0; simp [rabs]
  by_cases hb0 : b = 0
  · subst hb0; simp [rabs]
  by_cases ha : a < 0 <;> by_cases hb : b < 0
  · have h : 0 < (-a) * (-b) := Rat.mul_pos (by grind) (by grind)
    unfold rabs; simp only [ha, hb, if_true]; split <;> grind
  · have h : 0 < (-a) * b := Rat.mul_pos (by grind) (by grind)
    unfold rabs; simp only [ha, hb, if_true, if_false]; split <;> grind
  · have h : 0 < a * (-b) := Rat.mul_pos (by grind) (by grind)
    unfold rabs; simp only [ha, hb, if_true, if_false]; split <;> grind
  · have h : 0 < a * b := Rat.mul_pos (by grind) (by grind)
    unfold rabs; simp only [ha, hb, if_false]; split <;> grind

theorem rabs_div_mul {c o : Rat} (ho : o ≠ 0) : rabs (c / o) * rabs o = rabs c := by
  rw [← rabs_mul]
  have : c / o * o = c := by grind
  rw [this]

/-! ### FX rows -/

theorem fxTx_FxRow {cur : String} {d : Nat} {s : String} {amt : Rat} {reg : Bool} {row : Nat}
    {acct : Account} {rate : Option Rat} {memo : String} {t : BTx}
    (h : fxTx cur d s amt reg row acct rate memo = .ok t) (hr : ∀ r, rate = some r → 0 < r) :
    FxRow t := by
  obtain ⟨_, h1, h2, h3, h4, h5, _, _, h6, _⟩ := fxTx_ok h
  exact ⟨h1, h2, h3, h4, by rw [h5]; exact rabs_nonneg _, by rw [h6]; exact hr⟩

/-- a completed pair: the row carries the implied rate, which is positive, and
    rate × shares is the CAD leg -/
theorem Paired.rate {adj r : FxtRow} {tx : BTx} (hp : Paired adj r tx) :
    tx.rate = some (rabs ((fxtCad adj r).amount / (fxtOther adj r).amount)) ∧
    0 < rabs ((fxtCad adj r).amount / (fxtOther adj r).amount) ∧
    tx.shares = rabs (fxtOther adj r).amount ∧ tx.shares ≠ 0 ∧
    rabs ((fxtCad adj r).amount / (fxtOther adj r).amount) * tx.shares = rabs (fxtCad adj r).amount := by
  obtain ⟨_, _, _, _, _, hsh, _, _, hrate, _⟩ := fxTx_ok hp.built
  refine ⟨hrate, rabs_pos (div_ne_zero' hp.cadNe hp.usdNe), hsh, ?_, ?_⟩
  · rw [hsh]; exact fun h => hp.usdNe (rabs_eq_zero h)
  · rw [hsh]; exact rabs_div_mul hp.usdNe

theorem stepRow_fx_mem {st : St} {n : Nat} {rd : Reader} {t : BTx}
    (h : t ∈ (stepRow st n rd).fx.txs) :
    t ∈ st.fx.txs ∨ (FxRow t ∧ (t.shares ≠ 0 ∨ incomeOf n rd = some t)) := by
  unfold stepRow incomeOf at *
  cases hp : parseRow rd n with
  | error e => rw [hp] at h; simp only [St.addErr_fx] at h; exact Or.inl h
  | ok act =>
    rw [hp] at h
    cases act with
    | skip => exact Or.inl h
    | income f =>
      simp only [applyAct, addIncome, List.mem_append, List.mem_singleton] at h
      rcases h with h | h
      · exact Or.inl h
      · subst h
        right
        refine ⟨?_, Or.inr rfl⟩
        -- the dividend row is built by fx_tx without a rate
        unfold parseRow at hp
        obtain ⟨a, hA, hp⟩ := Except.bind_eq_ok'.mp hp
        simp only at hp
        split at hp
        · cases hp
        · split at hp
          · obtain ⟨tds, _, hp⟩ := Except.bind_eq_ok'.mp hp
            obtain ⟨td, _, hp⟩ := Except.bind_eq_ok'.mp hp
            obtain ⟨sds, _, hp⟩ := Except.bind_eq_ok'.mp hp
            obtain ⟨sd, _, hp⟩ := Except.bind_eq_ok'.mp hp
            obtain ⟨typ, _, hp⟩ := Except.bind_eq_ok'.mp hp
            obtain ⟨num, _, hp⟩ := Except.bind_eq_ok'.mp hp
            split at hp
            · obtain ⟨cur, _, hp⟩ := Except.bind_eq_ok'.mp hp
              obtain ⟨amt, _, hp⟩ := Except.bind_eq_ok'.mp hp
              cases hp
            · obtain ⟨sym, _, hp⟩ := Except.bind_eq_ok'.mp hp
              split at hp
              · cases hp
              · split at hp
                · obtain ⟨cur, _, hp⟩ := Except.bind_eq_ok'.mp hp
                  split at hp
                  · obtain ⟨amt, _, hp⟩ := Except.bind_eq_ok'.mp hp
                    obtain ⟨f, hf, hp⟩ := Except.map_eq_ok'.mp hp
                    simp only [RowAct.income.injEq] at hp
                    subst hp
                    exact fxTx_FxRow hf (by intro r hr; cases hr)
                  · cases hp
                · split at hp
                  · cases hp
                  · obtain ⟨price, _, hp⟩ := Except.bind_eq_ok'.mp hp
                    obtain ⟨qty, _, hp⟩ := Except.bind_eq_ok'.mp hp
                    obtain ⟨comm, _, hp⟩ := Except.bind_eq_ok'.mp hp
                    obtain ⟨cur, _, hp⟩ := Except.bind_eq_ok'.mp hp
                    cases hp
          · cases hp
    | fxt r =>
      simp only [applyAct, St.addErr_fx] at h
      -- either nothing was emitted, or the pair's row
      unfold addFxtRow at h
      split at h
      · exact Or.inl h
      · rename_i adj hadj
        simp only at h
        split at h
        · split at h
          · split at h
            · split at h
              · exact Or.inl h
              · split at h
                · exact Or.inl h
                · rename_i hz
                  split at h
                  · rename_i tx htx
                    simp only [List.mem_append, List.mem_singleton] at h
                    rcases h with h | h
                    · exact Or.inl h
                    · subst h
                      right
                      have hc : (fxtCad adj r).amount ≠ 0 := fun hc => hz (Or.inl hc)
                      have ho : (fxtOther adj r).amount ≠ 0 := fun hc => hz (Or.inr hc)
                      refine ⟨fxTx_FxRow htx ?_, Or.inl ?_⟩
                      · intro x hx
                        simp only [Option.some.injEq] at hx
                        rw [← hx]; exact rabs_pos (div_ne_zero' hc ho)
                      · rw [(fxTx_ok htx).2.2.2.2.2.1]
                        exact fun h0 => ho (rabs_eq_zero h0)
                  · exact Or.inl h
            · exact Or.inl h
          · exact Or.inl h
        · exact Or.inl h
    | trade tr =>
      simp only [applyAct] at h
      split at h
      · exact Or.inl h
      · simp only [St.addErr_fx] at h
        unfold addImplicit at h
        split at h
        · exact Or.inl h
        · rename_i hz
          split at h
          · rename_i f hf
            simp only [List.mem_append, List.mem_singleton] at h
            rcases h with h | h
            · exact Or.inl h
            · subst h
              right
              refine ⟨fxTx_FxRow hf (by intro r hr; cases hr), Or.inl ?_⟩
              rw [(fxTx_ok hf).2.2.2.2.2.1]
              exact fun h0 => hz (rabs_eq_zero h0)
          · exact Or.inl h

theorem runRows_fx_mem (rds : List Reader) {st : St} {n : Nat} {t : BTx}
    (h : t ∈ (runRows st n rds).fx.txs) :
    t ∈ st.fx.txs ∨ (FxRow t ∧ (t.shares ≠ 0 ∨ t ∈ incomesFrom n rds)) := by
  induction rds generalizing st n with
  | nil => exact Or.inl h
  | cons rd rest ih =>
    simp only [runRows] at h
    rcases ih h with h1 | ⟨hf, h2⟩
    · rcases stepRow_fx_mem h1 with h3 | ⟨hf, h4⟩
      · exact Or.inl h3
      · right
        refine ⟨hf, ?_⟩
        rcases h4 with h4 | h4
        · exact Or.inl h4
        · right; simp [incomesFrom, h4]
    · right
      refine ⟨hf, ?_⟩
      rcases h2 with h2 | h2
      · exact Or.inl h2
      · right; simp [incomesFrom, h2]

/-! ### trade rows -/

theorem tradesFrom_mem {rds : List Reader} {n : Nat} {t : BTx} (h : t ∈ tradesFrom n rds) :
    ∃ (k : Nat) (rd : Reader), rds[k]? = some rd ∧ parseRow rd (n + k) = .ok (.trade t) := by
  induction rds generalizing n with
  | nil => simp [tradesFrom] at h
  | cons rd rest ih =>
    simp only [tradesFrom, List.mem_append, Option.mem_toList] at h
    rcases h with h | h
    · refine ⟨0, rd, by simp, ?_⟩
      unfold tradeOf at h
      split at h
      · rename_i t' ht'
        simp only [Option.some.injEq] at h
        subst h
        simpa using ht'
      · simp at h
    · obtain ⟨k, rd', hk, hp⟩ := ih h
      refine ⟨k + 1, rd', by simpa using hk, ?_⟩
      have : n + (k + 1) = n + 1 + k := by omega
      rw [this]; exact hp

theorem tradesFrom_of_parse {rd : Reader} {t : BTx} (m : Nat) (l : List Reader) (j : Nat)
    (hj : l[j]? = some rd) (hp : parseRow rd (m + j) = .ok (.trade t)) : t ∈ tradesFrom m l := by
  induction l generalizing m j with
  | nil => simp at hj
  | cons x xs ih =>
    cases j with
    | zero =>
      simp only [List.getElem?_cons_zero, Option.some.injEq] at hj; subst hj
      simp only [Nat.add_zero] at hp
      simp [tradesFrom, tradeOf, hp]
    | succ j' =>
      simp only [tradesFrom, List.mem_append]
      right
      apply ih (m + 1) j' (by simpa using hj)
      have : m + 1 + j' = m + (j' + 1) := by omega
      rw [this]; exact hp

theorem aliasOf_ne_empty {sym al aka : String} (h : aliasOf sym = some (al, aka)) : al ≠ "" := by
  unfold aliasOf at h
  simp only [Gen.qtAliasFrom, Gen.qtAliasTo, Gen.qtAliasAka, List.zip_cons_cons, List.zip_nil_right] at h
  simp only [List.find?] at h
  split at h
  · simp only [Option.map_some, Option.some.injEq, Prod.mk.injEq] at h
    rw [← h.1]; decide
  · simp at h

theorem TradeFields.security_ne {rd : Reader} {n : Nat} {t : BTx} (h : TradeFields rd n t) :
    t.security ≠ "" := by
  obtain ⟨sym, _, hne, hsec⟩ := h.symbol
  rw [hsec]
  split
  · rename_i al aka hal
    exact aliasOf_ne_empty hal
  · exact hne

end Acb.Qt

namespace Acb.Qt

/-- what every converted row satisfies, whatever the export -/
def Shape (t : BTx) : Prop :=
  t.security ≠ "" ∧ 0 ≤ t.shares ∧ 0 ≤ t.commission ∧
  (∀ r, t.rate = some r → 0 < r ∧ t.currency = "USD")

theorem FxRow.shape {t : BTx} (h : FxRow t) : Shape t := by
  obtain ⟨h1, h2, _, h4, h5, h6⟩ := h
  refine ⟨by rw [h1]; decide, h5, by rw [h4]; exact Rat.le_refl, fun r hr => ⟨h6 r hr, h2⟩⟩

theorem TradeFields.shape {rd : Reader} {n : Nat} {t : BTx} (h : TradeFields rd n t) : Shape t := by
  obtain ⟨q, _, hq⟩ := h.quantity
  obtain ⟨c, _, hc⟩ := h.commission
  refine ⟨h.security_ne, by rw [hq]; exact rabs_nonneg _, by rw [hc]; exact rabs_nonneg _, ?_⟩
  intro r hr
  rw [h.noRate] at hr; cases hr

theorem convertReaders_trades (rds : List Reader) : (convertReaders rds).trades = tradesFrom 2 rds := by
  simp [convertReaders, finish, runRows_trades]

theorem convertReaders_fx_mem {rds : List Reader} {t : BTx} (h : t ∈ (convertReaders rds).fx) :
    FxRow t ∧ (t.shares ≠ 0 ∨ t ∈ incomesFrom 2 rds) := by
  have : t ∈ (runRows {} 2 rds).fx.txs := by simpa [convertReaders, finish] using h
  rcases runRows_fx_mem rds this with h | h
  · simp at h
  · exact h

theorem convertReaders_shape {rds : List Reader} {t : BTx} (h : t ∈ (convertReaders rds).txs) : Shape t := by
  simp only [Conv.txs, List.mem_append] at h
  rcases h with h | h
  · rw [convertReaders_trades] at h
    obtain ⟨k, rd, _, hp⟩ := tradesFrom_mem h
    exact (parseRow_trade hp).shape
  · exact (convertReaders_fx_mem h).1.shape

theorem applyRate_fields (r : Rat) (t : BTx) :
    (applyRate r t).security = t.security ∧ (applyRate r t).shares = t.shares ∧
    (applyRate r t).price = t.price ∧ (applyRate r t).commission = t.commission ∧
    (applyRate r t).currency = t.currency ∧ (applyRate r t).side = t.side ∧
    (applyRate r t).account = t.account ∧ (applyRate r t).tradeDate = t.tradeDate ∧
    (applyRate r t).settleDate = t.settleDate ∧ (applyRate r t).registered = t.registered := by
  unfold applyRate; split <;> simp

theorem applyRate_keeps_rate (r : Rat) (t : BTx) (x : Rat) (h : t.rate = some x) :
    (applyRate r t).rate = some x := by
  unfold applyRate
  rw [if_neg (by rw [h]; simp)]
  exact h

theorem applyRate_shape {r : Rat} (hr : 0 < r) {t : BTx} (h : Shape t) : Shape (applyRate r t) := by
  obtain ⟨h1, h2, h3, h4⟩ := h
  unfold applyRate
  split
  · rename_i hc
    refine ⟨h1, h2, h3, ?_⟩
    intro x hx
    simp only [Option.some.injEq] at hx
    exact ⟨by rw [← hx]; exact hr, hc.1⟩
  · exact ⟨h1, h2, h3, h4⟩

theorem accepts_of_shape {t : BTx} (h : Shape t) (hsh : t.shares ≠ 0) (hp : 0 ≤ t.price)
    (hc : t.currency = "CAD" ∨ t.currency = "USD") : AcbAccepts t := by
  obtain ⟨h1, h2, h3, h4⟩ := h
  refine ⟨h1, by grind, hp, h3, ?_⟩
  split
  · rename_i r hr
    obtain ⟨hpos, hcur⟩ := h4 r hr
    refine ⟨hpos, fun hcad => ?_⟩
    rw [hcur] at hcad
    exact absurd hcad (by decide)
  · exact hc

end Acb.Qt
