/-
  C10, carried-over rows, part 6 (phase B): identical rows processed from related states give
  identical deltas — `deltaLoop_far2` with the recent parts of the processed rows equal only up to
  declared amounts.
-/
import AcbModel.Lemmas.Carry5
namespace Acb

theorem runInjected_sim :
    ∀ (inj : List Tx), (∀ x ∈ inj, IsSflaRow x) →
    ∀ (t t' : Tracker), ObsEq t t' → ∀ (past past' : List Tx) (acc acc' : List Delta) (fa fa' : List Tx)
      (t3 : Tracker) (past3 : List Tx) (acc3 : List Delta),
      runInjected t past acc inj fa = .inl (t3, past3, acc3) →
      ∃ t3' out, acc3 = acc ++ out ∧ past3 = inj.reverse ++ past ∧ ObsEq t3 t3' ∧
        runInjected t' past' acc' inj fa' = .inl (t3', inj.reverse ++ past', acc' ++ out) := by
  intro inj
  induction inj with
  | nil =>
    intro _ t t' h past past' acc acc' fa fa' t3 past3 acc3 hr
    simp only [runInjected, Sum.inl.injEq, Prod.mk.injEq] at hr
    obtain ⟨rfl, rfl, rfl⟩ := hr
    exact ⟨t', [], by simp, by simp, h, by simp [runInjected]⟩
  | cons x xs ih =>
    intro hinj t t' h past past' acc acc' fa fa' t3 past3 acc3 hr
    have hx := hinj x (by simp)
    rw [runInjected] at hr
    cases hstep : stepRow t x past (xs ++ fa) with
    | error e => rw [hstep] at hr; cases hr
    | ok res =>
      obtain ⟨d, t1, injd⟩ := res
      rw [hstep] at hr
      simp only at hr
      obtain ⟨_, _, t1', hst, hobs⟩ := stepRow_sfla_any h hx past past' (xs ++ fa) (xs ++ fa') hstep
      obtain ⟨t3', out, h1, h2, h3, h4⟩ :=
        ih (fun y hy => hinj y (by simp [hy])) t1 t1' hobs (x :: past) (x :: past') (acc ++ [d]) (acc' ++ [d]) fa fa'
          t3 past3 acc3 hr
      refine ⟨t3', d :: out, by simp [h1], by simp [h2], h3, ?_⟩
      rw [runInjected, hst]
      simp only
      rw [h4]
      simp

/-- **Phase B.** -/
theorem deltaLoop_sim (P P' : List Tx) :
    ∀ (rest : List Tx) (t t' : Tracker), ObsEq t t' → ∀ (X X' : List Tx), PastSim X X' →
      SettleAsc rest →
      (deltaLoop t (X ++ P) [] rest).2 = none →
      (∀ d ∈ (deltaLoop t (X ++ P) [] rest).1, d.isLossOrSfl = true → FarFor P d.tx ∧ FarFor P' d.tx) →
      deltaLoop t' (X' ++ P') [] rest = deltaLoop t (X ++ P) [] rest := by
  intro rest
  induction rest with
  | nil => intro t t' _ X X' _ _ _ _; simp [deltaLoop]
  | cons x rest ih =>
    intro t t' h X X' hX hasc hok hfar
    rw [deltaLoop_nil_cons] at hok hfar ⊢
    rw [deltaLoop_nil_cons]
    have hascR : SettleAsc rest := (List.pairwise_cons.mp hasc).2
    cases hA : stepRow t x (X ++ P) rest with
    | error f => rw [hA] at hok; simp at hok
    | ok ra =>
      obtain ⟨d, t2, inj⟩ := ra
      rw [hA] at hok hfar
      simp only at hok hfar ⊢
      obtain ⟨hdx, hflag⟩ := stepRow_flag hA
      have hinjS : ∀ y ∈ inj, IsSflaRow y := fun y hy => stepRow_inj hA y hy
      have hdmem : ∀ (R : (Tracker × List Tx × List Delta) ⊕ (List Delta × Failure)),
          d ∈ (match R with
            | .inr (o, f) => (d :: o, some f)
            | .inl (t3, p3, o) => (d :: o ++ (deltaLoop t3 p3 [] rest).1, (deltaLoop t3 p3 [] rest).2)).1 := by
        intro R; cases R with
        | inl r => obtain ⟨a, b, c⟩ := r; simp
        | inr r => obtain ⟨a, b⟩ := r; simp
      have hfx : IsLossSale t x → FarFor P x ∧ FarFor P' x := by
        intro hl
        have := hfar d (hdmem _) (hflag hl)
        rw [hdx] at this; exact this
      have hstep := stepRow_sim h x P P' hX ⟨hascR, hascR, rfl⟩ hfx
      rw [hA] at hstep
      cases hB : stepRow t' x (X' ++ P') rest with
      | error e => rw [hB] at hstep; simp [StepResEq] at hstep
      | ok rb =>
        obtain ⟨d', t2', inj'⟩ := rb
        rw [hB] at hstep
        simp only [StepResEq] at hstep
        obtain ⟨hd, ht2, hinj⟩ := hstep
        subst hd; subst hinj
        simp only
        cases hRA : runInjected t2 (x :: (X ++ P)) [] inj' rest with
        | inr a =>
          obtain ⟨o, f⟩ := a
          rw [hRA] at hok; simp at hok
        | inl a =>
          obtain ⟨ta, pa, oa⟩ := a
          rw [hRA] at hok hfar
          obtain ⟨tb, out, h1, h2, h3, h4⟩ :=
            runInjected_sim inj' hinjS t2 t2' ht2 (x :: (X ++ P)) (x :: (X' ++ P')) [] [] rest rest ta pa oa hRA
          rw [h4]
          simp only [List.nil_append] at h1 ⊢
          subst h1
          simp only at hok hfar ⊢
          have e1 : pa = (inj'.reverse ++ x :: X) ++ P := by rw [h2]; simp
          have e2 : inj'.reverse ++ x :: (X' ++ P') = (inj'.reverse ++ x :: X') ++ P' := by simp
          rw [e2]
          have := ih ta tb h3 (inj'.reverse ++ x :: X) (inj'.reverse ++ x :: X')
            ((hX.cons rfl).prepend _) hascR
          rw [← e1] at this
          rw [this hok (fun d0 hd0 hfl => hfar d0 (by simp [hd0]) hfl)]

end Acb
