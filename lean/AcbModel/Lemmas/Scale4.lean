/-
  Split neutrality (C15), part 4: the loop after the inserted split (phase 3).
-/
import AcbModel.Lemmas.Scale3
import AcbModel.Lemmas.Adjust
namespace Acb

/-! ### the generated SfLA rows: affiliates and dates -/

theorem adjustTxs_props {tx : Tx} {c : Rat} :
    ∀ (l : List (Aff × Rat × Rat)) (r : List Tx), adjustTxs tx c l = .ok r →
      ∀ x ∈ r, x.settle = tx.settle ∧ ∃ p ∈ l, x.aff = p.1 := by
  intro l
  induction l with
  | nil => intro r h; simp [adjustTxs] at h; subst h; simp
  | cons p ps ih =>
    intro r h
    obtain ⟨af, n, d⟩ := p
    unfold adjustTxs at h
    split at h
    · cases h
    · rename_i r0 hr0
      have ih' := ih r0 hr0
      split at h
      · simp only [Except.ok.injEq] at h; subst h
        intro x hx
        simp only [List.mem_cons] at hx
        rcases hx with rfl | hx
        · exact ⟨rfl, (af, n, d), by simp, rfl⟩
        · obtain ⟨h1, p, hp, h2⟩ := ih' x hx
          exact ⟨h1, p, by simp [hp], h2⟩
      · simp only [Except.ok.injEq] at h; subst h
        intro x hx
        obtain ⟨h1, p, hp, h2⟩ := ih' x hx
        exact ⟨h1, p, by simp [hp], h2⟩

theorem deltaSflInfo_inj_props {t : Tracker} (Q : Aff → Prop) {tx : Tx} {sold : Rat} {spec : Option (Rat × Bool)}
    {loss : Rat} {past future : List Tx} (hp : ∀ y ∈ past, Q y.aff) (hfu : ∀ y ∈ future, Q y.aff)
    {info : SflInfo} {adj : List Tx}
    (h : deltaSflInfo t tx sold spec loss past future = .ok (some (info, adj))) :
    ∀ x ∈ adj, Q x.aff ∧ x.settle = tx.settle := by
  unfold deltaSflInfo sflRatio at h
  cases hsi : sflInfo t tx.aff tx.settle sold past future with
  | error e => simp only [hsi] at h; cases h
  | ok oi =>
    cases oi with
    | none =>
      simp only [hsi] at h
      cases spec with
      | none => simp at h
      | some vf =>
        obtain ⟨v, force⟩ := vf
        simp only at h
        split at h
        · cases h
        · split at h
          · simp only [Except.ok.injEq, Option.some.injEq, Prod.mk.injEq] at h
            obtain ⟨_, h2⟩ := h; subst h2; simp
          · cases h
    | some i =>
      have hbuyers := sflInfo_buyers Q hp hfu hsi
      simp only [hsi] at h
      cases hr : calcRatio sold i with
      | error e => simp only [hr] at h; cases h
      | ok r =>
        simp only [hr] at h
        cases spec with
        | some vf =>
          obtain ⟨v, force⟩ := vf
          simp only at h
          split at h
          · cases h
          · split at h
            · simp only [Except.ok.injEq, Option.some.injEq, Prod.mk.injEq] at h
              obtain ⟨_, h2⟩ := h; subst h2; simp
            · cases h
        | none =>
          simp only at h
          split at h
          · cases h
          · split at h
            · cases h
            · rename_i adj0 hadj
              simp only [Except.ok.injEq, Option.some.injEq, Prod.mk.injEq] at h
              obtain ⟨_, h2⟩ := h; subst h2
              intro x hx
              obtain ⟨h1, p, hp', h2⟩ := adjustTxs_props _ _ hadj x hx
              refine ⟨?_, h1⟩
              rw [h2]
              have hp'' := mem_sortByKey.mp hp'
              -- p is one of the portions, whose affiliates are buyers
              unfold calcRatio at hr
              simp only at hr
              split at hr
              · cases hr
              · split at hr
                · cases hr
                · rename_i portions hps
                  simp only [Except.ok.injEq] at hr; subst hr
                  simp only at hp''
                  split at hps
                  · obtain ⟨_, hmem⟩ := portionsOf_sum i.buyers portions hps
                    exact hbuyers p.1 (hmem p hp'').2
                  · simp only [Except.ok.injEq] at hps; subst hps; simp at hp''

theorem arm_inj_props {t : Tracker} (Q : Aff → Prop) {tx : Tx} {pre : Status} {past future : List Tx} {o : ArmOut}
    (hp : ∀ y ∈ past, Q y.aff) (hfu : ∀ y ∈ future, Q y.aff)
    (h : arm t tx pre past future = .ok o) : ∀ x ∈ o.inj, Q x.aff ∧ x.settle = tx.settle := by
  unfold arm at h
  split at h
  · simp only [Except.ok.injEq] at h; subst h; simp [armBuy]
  · unfold armSell at h
    split at h
    · cases h
    · split at h
      · cases h
      · simp only at h
        split at h
        · split at h
          · cases h
          · simp only [Except.ok.injEq] at h; subst h; simp
        · split at h
          · split at h
            · cases h
            · simp only [Except.ok.injEq] at h; subst h; simp
            · rename_i info adj hd
              simp only [Except.ok.injEq] at h; subst h
              exact deltaSflInfo_inj_props Q hp hfu hd
          · split at h
            · cases h
            · simp only [Except.ok.injEq] at h; subst h; simp
  · unfold armRoc at h
    split at h
    · split at h
      · cases h
      · simp only at h
        split at h
        · cases h
        · simp only [Except.ok.injEq] at h; subst h; simp
    · split at h <;> cases h
  · unfold armSfla at h
    split at h
    · split at h
      · cases h
      · simp only [Except.ok.injEq] at h; subst h; simp
    · split at h <;> cases h
  · unfold armSplit at h
    simp only at h
    split at h
    · cases h
    · split at h
      · cases h
      · simp only [Except.ok.injEq] at h; subst h; simp

theorem stepRow_inj_props {t t' : Tracker} (Q : Aff → Prop) {tx : Tx} {past future : List Tx} {d : Delta} {inj : List Tx}
    (hp : ∀ y ∈ past, Q y.aff) (hfu : ∀ y ∈ future, Q y.aff)
    (h : stepRow t tx past future = .ok (d, t', inj)) : ∀ x ∈ inj, Q x.aff ∧ x.settle = tx.settle := by
  unfold stepRow at h
  split at h
  · cases h
  · rename_i d0 inj0 hd
    split at h
    · cases h
    · simp only [Except.ok.injEq, Prod.mk.injEq] at h
      obtain ⟨_, _, h3⟩ := h
      subst h3
      unfold deltaForTx at hd
      simp only at hd
      split at hd
      · cases hd
      · split at hd
        · cases hd
        · rename_i o ho
          simp only [Except.ok.injEq, Prod.mk.injEq] at hd
          obtain ⟨_, h2⟩ := hd
          subst h2
          exact arm_inj_props Q hp hfu ho

end Acb

namespace Acb

inductive DeltasRel (f : Rat) : List Delta → List Delta → Prop
  | nil : DeltasRel f [] []
  | cons {d d' : Delta} {ds ds' : List Delta} : DeltaScaled f d d' → DeltasRel f ds ds' → DeltasRel f (d :: ds) (d' :: ds')

theorem DeltasRel.append {f : Rat} {a a' b b' : List Delta} (h1 : DeltasRel f a a') (h2 : DeltasRel f b b') :
    DeltasRel f (a ++ b) (a' ++ b') := by
  induction h1 with
  | nil => simpa using h2
  | cons hd _ ih => exact .cons hd ih

theorem DeltasRel.length {f : Rat} {a a' : List Delta} (h : DeltasRel f a a') : a'.length = a.length := by
  induction h with
  | nil => rfl
  | cons _ _ ih => simp [ih]

/-- relation between the results of `runInjected` in the two runs -/
def InjResScaled (f : Rat) (As : List Aff) (S p0 : List Tx) (acc acc' : List Delta) :
    (Tracker × List Tx × List Delta) ⊕ (List Delta × Failure) →
    (Tracker × List Tx × List Delta) ⊕ (List Delta × Failure) → Prop
  | .inl (t2, past2, acc2), .inl (t2', past2', acc2') =>
    ∃ q1 q1' out out', past2 = q1 ++ p0 ∧ past2' = q1' ++ S ++ p0 ∧ RowsRel f q1 q1' ∧
      (∀ y ∈ q1, y.aff ∈ As) ∧ TrackerScaled f t2 t2' ∧ acc2 = acc ++ out ∧ acc2' = acc' ++ out' ∧
      DeltasRel f out out'
  | .inr (acc2, e), .inr (acc2', e') =>
    e = e' ∧ ∃ out out', acc2 = acc ++ out ∧ acc2' = acc' ++ out' ∧ DeltasRel f out out'
  | _, _ => False

theorem runInjected_scaled {f : Rat} (hf : 0 < f) (As : List Aff) (S p0 : List Tx) :
    ∀ (inj : List Tx), (∀ x ∈ inj, IsSflaRow x ∧ x.aff ∈ As) →
    ∀ (t t' : Tracker), TrackerScaled f t t' → ∀ (p1 p1' : List Tx), RowsRel f p1 p1' → (∀ y ∈ p1, y.aff ∈ As) →
    ∀ (acc acc' : List Delta) (fa fb : List Tx),
      InjResScaled f As S p0 acc acc' (runInjected t (p1 ++ p0) acc inj fa)
        (runInjected t' (p1' ++ S ++ p0) acc' inj fb) := by
  intro inj
  induction inj with
  | nil =>
    intro _ t t' ht p1 p1' hrel hp1 acc acc' fa fb
    simp only [runInjected, InjResScaled]
    exact ⟨p1, p1', [], [], rfl, rfl, hrel, hp1, ht, by simp, by simp, .nil⟩
  | cons x xs ih =>
    intro hinj t t' ht p1 p1' hrel hp1 acc acc' fa fb
    obtain ⟨hxs, hxA⟩ := hinj x (by simp)
    have hinj' : ∀ y ∈ xs, IsSflaRow y ∧ y.aff ∈ As := fun y hy => hinj y (by simp [hy])
    have hstep := stepRow_of_arm hf ht x x (Or.inr ⟨hxs, rfl⟩) (p1 ++ p0) (xs ++ fa) (p1' ++ S ++ p0) (xs ++ fb)
      (arm_sfla_scaled hf x hxs _ _ _ _ _)
    rw [runInjected, runInjected]
    generalize stepRow t x (p1 ++ p0) (xs ++ fa) = A at hstep ⊢
    generalize stepRow t' x (p1' ++ S ++ p0) (xs ++ fb) = B at hstep ⊢
    cases A with
    | error e =>
      cases B with
      | error e' =>
        simp only [StepResScaled] at hstep
        simp only [InjResScaled]
        exact ⟨hstep, [], [], by simp, by simp, .nil⟩
      | ok r => obtain ⟨d', t2', inj'⟩ := r; simp [StepResScaled] at hstep
    | ok r =>
      obtain ⟨d, t2, injd⟩ := r
      cases B with
      | error e' => simp [StepResScaled] at hstep
      | ok r' =>
        obtain ⟨d', t2', injd'⟩ := r'
        simp only [StepResScaled] at hstep
        obtain ⟨hd, ht2, _⟩ := hstep
        simp only
        have hp1' : ∀ y ∈ x :: p1, y.aff ∈ As := by
          intro y hy; simp only [List.mem_cons] at hy
          rcases hy with rfl | hy
          · exact hxA
          · exact hp1 y hy
        have := ih hinj' t2 t2' ht2 (x :: p1) (x :: p1') (.sfla x hxs hrel) hp1' (acc ++ [d]) (acc' ++ [d']) fa fb
        simp only [List.cons_append] at this
        generalize runInjected t2 (x :: (p1 ++ p0)) (acc ++ [d]) xs fa = RA at this ⊢
        generalize runInjected t2' (x :: (p1' ++ S ++ p0)) (acc' ++ [d']) xs fb = RB at this ⊢
        cases RA with
        | inl a =>
          obtain ⟨ta, pa, acca⟩ := a
          cases RB with
          | inl b =>
            obtain ⟨tb, pb, accb⟩ := b
            simp only [InjResScaled] at this ⊢
            obtain ⟨q1, q1', out, out', h1, h2, h3, h4, h5, h6, h7, h8⟩ := this
            exact ⟨q1, q1', d :: out, d' :: out', h1, h2, h3, h4, h5, by simp [h6], by simp [h7], .cons hd h8⟩
          | inr b => obtain ⟨accb, e⟩ := b; simp [InjResScaled] at this
        | inr a =>
          obtain ⟨acca, e⟩ := a
          cases RB with
          | inl b => obtain ⟨tb, pb, accb⟩ := b; simp [InjResScaled] at this
          | inr b =>
            obtain ⟨accb, e'⟩ := b
            simp only [InjResScaled] at this ⊢
            obtain ⟨he, out, out', h6, h7, h8⟩ := this
            exact ⟨he, d :: out, d' :: out', by simp [h6], by simp [h7], .cons hd h8⟩

/-- **Phase 3: the loop after the inserted split.**  From trackers related by scaling, the
    remaining rows `r` and their restatement produce pairwise related deltas and the same failure. -/
theorem deltaLoop_scaled {f : Rat} (hf : 0 < f) (day : Int) (idx : Nat) (post pre' : Rat)
    (hfac : f = splitFactor post pre') (As : List Aff) (hn : As.Nodup)
    (p0 : List Tx) (hp0 : ∀ y ∈ p0, y.aff ∈ As ∧ y.settle ≤ day) :
    ∀ (r : List Tx), (∀ x ∈ r, x.aff ∈ As ∧ NoIntOnly x) →
    ∀ (t t' : Tracker), TrackerScaled f t t' → ∀ (p1 p1' : List Tx), RowsRel f p1 p1' → (∀ y ∈ p1, y.aff ∈ As) →
    ∀ (acc acc' : List Delta),
      ∃ out out', (deltaLoop t (p1 ++ p0) acc r).1 = acc ++ out ∧
        (deltaLoop t' (p1' ++ splitRows day idx post pre' As ++ p0) acc' (r.map (restateTx f))).1 = acc' ++ out' ∧
        DeltasRel f out out' ∧
        (deltaLoop t' (p1' ++ splitRows day idx post pre' As ++ p0) acc' (r.map (restateTx f))).2 =
          (deltaLoop t (p1 ++ p0) acc r).2 := by
  intro r
  induction r with
  | nil =>
    intro _ t t' _ p1 p1' _ _ acc acc'
    exact ⟨[], [], by simp [deltaLoop], by simp [deltaLoop], .nil, by simp [deltaLoop]⟩
  | cons x rest ih =>
    intro hr t t' ht p1 p1' hrel hp1 acc acc'
    obtain ⟨hxA, hxio⟩ := hr x (by simp)
    have hr' : ∀ y ∈ rest, y.aff ∈ As ∧ NoIntOnly y := fun y hy => hr y (by simp [hy])
    have hstep := stepRow_of_arm hf ht x (restateTx f x) (Or.inl rfl) (p1 ++ p0) rest
      (p1' ++ splitRows day idx post pre' As ++ p0) (rest.map (restateTx f))
      (arm_scaled hf ht x hxio _ day idx post pre' hfac As hn p0 hp0 p1 p1' hrel hp1 rest)
    have hinjA : ∀ d t2 inj, stepRow t x (p1 ++ p0) rest = .ok (d, t2, inj) → ∀ y ∈ inj, IsSflaRow y ∧ y.aff ∈ As := by
      intro d t2 inj h y hy
      refine ⟨stepRow_inj h y hy, (stepRow_inj_props (· ∈ As) ?_ ?_ h y hy).1⟩
      · intro z hz; simp only [List.mem_append] at hz
        rcases hz with hz | hz
        · exact hp1 z hz
        · exact (hp0 z hz).1
      · intro z hz; exact (hr' z hz).1
    simp only [List.map_cons]
    rw [deltaLoop, deltaLoop]
    generalize stepRow t x (p1 ++ p0) rest = A at hstep hinjA ⊢
    generalize stepRow t' (restateTx f x) (p1' ++ splitRows day idx post pre' As ++ p0) (rest.map (restateTx f)) = B at hstep ⊢
    cases A with
    | error e =>
      cases B with
      | error e' =>
        simp only [StepResScaled] at hstep
        exact ⟨[], [], by simp, by simp, .nil, by simp [hstep]⟩
      | ok r => obtain ⟨d', t2', inj'⟩ := r; simp [StepResScaled] at hstep
    | ok ra =>
      obtain ⟨d, t2, inj⟩ := ra
      cases B with
      | error e' => simp [StepResScaled] at hstep
      | ok rb =>
        obtain ⟨d', t2', inj'⟩ := rb
        simp only [StepResScaled] at hstep
        obtain ⟨hd, ht2, hinj⟩ := hstep
        simp only [hinj]
        have hp1' : ∀ y ∈ x :: p1, y.aff ∈ As := by
          intro y hy; simp only [List.mem_cons] at hy
          rcases hy with rfl | hy
          · exact hxA
          · exact hp1 y hy
        have hri := runInjected_scaled hf As (splitRows day idx post pre' As) p0 inj (hinjA d t2 inj rfl) t2 t2' ht2
          (x :: p1) (restateTx f x :: p1') (.restated x hrel) hp1' (acc ++ [d]) (acc' ++ [d']) rest (rest.map (restateTx f))
        simp only [List.cons_append] at hri
        generalize runInjected t2 (x :: (p1 ++ p0)) (acc ++ [d]) inj rest = RA at hri ⊢
        generalize runInjected t2' (restateTx f x :: (p1' ++ splitRows day idx post pre' As ++ p0)) (acc' ++ [d']) inj (rest.map (restateTx f)) = RB at hri ⊢
        cases RA with
        | inl a =>
          obtain ⟨ta, pa, acca⟩ := a
          cases RB with
          | inl b =>
            obtain ⟨tb, pb, accb⟩ := b
            simp only [InjResScaled] at hri
            obtain ⟨q1, q1', out, out', h1, h2, h3, h4, h5, h6, h7, h8⟩ := hri
            subst h1; subst h2; subst h6; subst h7
            simp only
            obtain ⟨o2, o2', g1, g2, g3, g4⟩ := ih hr' ta tb h5 q1 q1' h3 h4 (acc ++ [d] ++ out) (acc' ++ [d'] ++ out')
            refine ⟨d :: (out ++ o2), d' :: (out' ++ o2'), by rw [g1]; simp, by rw [g2]; simp, .cons hd (h8.append g3), g4⟩
          | inr b => obtain ⟨accb, e⟩ := b; simp [InjResScaled] at hri
        | inr a =>
          obtain ⟨acca, e⟩ := a
          cases RB with
          | inl b => obtain ⟨tb, pb, accb⟩ := b; simp [InjResScaled] at hri
          | inr b =>
            obtain ⟨accb, e'⟩ := b
            simp only [InjResScaled] at hri
            obtain ⟨he, out, out', h6, h7, h8⟩ := hri
            subst h6; subst h7; subst he
            exact ⟨d :: out, d' :: out', by simp, by simp, .cons hd h8, rfl⟩

end Acb
