/-
  Lemmas about the statement-FMV line machine (`AcbModel/Broker/Fmv.lean`).
-/
import AcbModel.Broker.Fmv
namespace Acb.Fmv

/-- decidable equality of results (for kernel-checked concrete examples) -/
instance decEqExcept {ε α : Type} [DecidableEq ε] [DecidableEq α] : DecidableEq (Except ε α)
  | .ok a, .ok b => if h : a = b then isTrue (by rw [h]) else isFalse (by intro h'; cases h'; exact h rfl)
  | .error a, .error b => if h : a = b then isTrue (by rw [h]) else isFalse (by intro h'; cases h'; exact h rfl)
  | .ok _, .error _ => isFalse (by intro h; cases h)
  | .error _, .ok _ => isFalse (by intro h; cases h)

/-! ### blank lines are invisible in every state -/

def nonblank (l : Line) : Bool := decide (l ≠ [])

theorem gather_filter (ls : List Line) : ∀ acc desc, gather acc desc (ls.filter nonblank) = gather acc desc ls := by
  induction ls with
  | nil => intros; rfl
  | cons l ls ih =>
    intro acc desc
    by_cases hl : l = []
    · subst hl; simp [nonblank, gather, ih]
    · have : nonblank l = true := by simp [nonblank, hl]
      rw [List.filter_cons_of_pos this]
      simp only [gather, hl, if_false]
      split
      · split
        · rfl
        · split
          · rfl
          · exact ih _ _
      · split
        · rfl
        · exact ih _ _

theorem lookFirst_filter (ls : List Line) : lookFirst (ls.filter nonblank) = lookFirst ls := by
  induction ls with
  | nil => rfl
  | cons l ls ih =>
    by_cases hl : l = []
    · subst hl; simp [nonblank, lookFirst, ih]
    · have : nonblank l = true := by simp [nonblank, hl]
      rw [List.filter_cons_of_pos this]
      simp only [lookFirst, hl, if_false]
      split
      · split
        · rfl
        · exact gather_filter _ _ _
      · split
        · rfl
        · exact ih

theorem lookHeader_filter (ls : List Line) : lookHeader (ls.filter nonblank) = lookHeader ls := by
  induction ls with
  | nil => rfl
  | cons l ls ih =>
    by_cases hl : l = []
    · subst hl; simp [nonblank, lookHeader, ih]
    · have : nonblank l = true := by simp [nonblank, hl]
      rw [List.filter_cons_of_pos this]
      simp only [lookHeader, hl, if_false]
      split
      · exact lookFirst_filter _
      · exact ih

theorem parsePage_filter (ls : List Line) : parsePage (ls.filter nonblank) = parsePage ls :=
  lookHeader_filter ls

/-! ### token-level facts the regular expressions guarantee -/

theorem firstRow_of_not_startsWithBullet {l : Line} (h : startsWithBullet l = false) : firstRow l = none := by
  unfold firstRow
  split
  · rename_i c cs rest
    simp [startsWithBullet] at h
    simp [h]
  · rfl

theorem startsWithBullet_append {l x : Line} (h : l ≠ []) : startsWithBullet (l ++ x) = startsWithBullet l := by
  cases l with
  | nil => exact absurd rfl h
  | cons t ts => cases t <;> rfl

theorem isD_ne_bullet {c : Char} (h : isD c = true) : (c == bullet) = false := by
  simp only [isD, Bool.and_eq_true, decide_eq_true_eq] at h
  have h2 : c.val ≤ '9'.val := h.2
  have : c ≠ bullet := by
    intro hc; subst hc; revert h2; decide
  simpa using this

theorem allocTok_head {a : Tok} (h : allocTok a = true) : ∃ c cs, a = c :: cs ∧ isD c = true := by
  unfold allocTok at h
  split at h
  · rename_i c d rest
    simp only [Bool.and_eq_true] at h
    exact ⟨c, d :: rest, rfl, h.1⟩
  · cases h

theorem startsWithBullet_data {a f : Tok} (h : allocTok a = true) : startsWithBullet [a, f] = false := by
  obtain ⟨c, cs, rfl, hc⟩ := allocTok_head h
  simp [startsWithBullet, isD_ne_bullet hc]

theorem totalRow_bullet_line (l : Line) : totalRow ([bullet] :: l) = none := by
  match l with
  | [] => rfl
  | [t] => simp [totalRow, totalLeadTok]
  | [b, t] =>
    simp [totalRow]
  | _ :: _ :: _ :: _ => rfl

theorem hasBullet_bullet_line (l : Line) : hasBullet ([bullet] :: l) = true := by
  simp [hasBullet]

theorem firstRow_bullet_line {l : Line} (h : l ≠ []) : firstRow ([bullet] :: l) = some l := by
  simp [firstRow, h]

theorem secData_append {d : List Tok} {a f : Tok} (hd : d ≠ []) (ha : allocTok a = true) (hf : fmvTok f = true) :
    secData (d ++ [a, f]) = some (d, a, f) := by
  unfold secData
  have : (d ++ [a, f]).reverse = f :: a :: d.reverse := by simp
  rw [this]
  cases hr : d.reverse with
  | nil => have : d = [] := by simpa using hr
           exact absurd this hd
  | cons x xs =>
    have : (x :: xs).reverse = d := by rw [← hr]; simp
    simp [ha, hf, this]

theorem finalize_error_of_secData_none {desc : List Tok} (h : secData desc = none) :
    ∃ e, finalize desc = .error e := by
  unfold finalize; rw [h]; exact ⟨_, rfl⟩

/-! ### rows -/

theorem appendLast_flatten (ls : List Line) (x : Line) : (appendLast ls x).flatten = ls.flatten ++ x := by
  induction ls with
  | nil => simp [appendLast]
  | cons l ls ih =>
    cases ls with
    | nil => simp [appendLast]
    | cons l' ls' => simp only [appendLast, List.flatten_cons, List.append_assoc] at ih ⊢; rw [ih]

theorem appendLast_prop (P : Line → Prop) (ls : List Line) (x : Line) (hne : ls ≠ [])
    (h : ∀ l ∈ ls, P l) (hx : ∀ l ∈ ls, P (l ++ x)) : ∀ l ∈ appendLast ls x, P l := by
  induction ls with
  | nil => exact absurd rfl hne
  | cons l ls ih =>
    cases ls with
    | nil =>
      intro l' hl'
      simp only [appendLast, List.mem_singleton] at hl'
      subst hl'; exact hx l (by simp)
    | cons l2 ls' =>
      intro l' hl'
      simp only [appendLast, List.mem_cons] at hl'
      rcases hl' with h1 | h1
      · subst h1; exact h l' (by simp)
      · exact ih (by simp) (fun m hm => h m (by simp [hm])) (fun m hm => hx m (by simp [hm])) l'
          (by simpa [appendLast] using h1)

theorem SecRow.head_tail_flatten (r : SecRow) :
    r.head ++ r.tail.flatten = r.descToks ++ [r.alloc, r.fmv] := by
  unfold SecRow.head SecRow.tail SecRow.descToks
  by_cases ho : r.ownLine = true
  · simp [ho]
  · by_cases hm : r.more = []
    · simp [ho, hm]
    · simp [ho, hm, appendLast_flatten]

theorem SecRow.head_ne {r : SecRow} (h : r.WF) : r.head ≠ [] := by
  unfold SecRow.head
  have := h.first_ne
  split
  · exact this
  · split
    · simp
    · exact this

theorem SecRow.descToks_ne {r : SecRow} (h : r.WF) : r.descToks ≠ [] := by
  unfold SecRow.descToks
  have := h.first_ne
  intro h'
  exact this (List.append_eq_nil_iff.mp h').1

/-- every line of the row after the first is non-blank and does not start a new row -/
theorem SecRow.tail_ok {r : SecRow} (h : r.WF) : ∀ l ∈ r.tail, l ≠ [] ∧ startsWithBullet l = false := by
  unfold SecRow.tail
  split
  · intro l hl
    rcases List.mem_append.mp hl with hl | hl
    · exact ⟨h.more_ne l hl, h.more_nb l hl⟩
    · simp only [List.mem_singleton] at hl
      subst hl
      exact ⟨by simp, startsWithBullet_data h.alloc_ok⟩
  · split
    · intro l hl; cases hl
    · rename_i hm
      apply appendLast_prop (fun l => l ≠ [] ∧ startsWithBullet l = false) r.more _ hm
      · intro l hl; exact ⟨h.more_ne l hl, h.more_nb l hl⟩
      · intro l hl
        refine ⟨by simp, ?_⟩
        rw [startsWithBullet_append (h.more_ne l hl)]
        exact h.more_nb l hl

theorem SecRow.finalize_all {r : SecRow} (h : r.WF) :
    finalize (r.descToks ++ [r.alloc, r.fmv]) = .ok r.toFmv := by
  unfold finalize
  rw [secData_append (SecRow.descToks_ne h) h.alloc_ok h.fmv_ok]
  simp [h.alloc_val, h.fmv_val, SecRow.toFmv]

/-- Continuation lines are appended to the description: lines that are not blank, do not start
    with a bullet and — if they look like the total row — arrive while the text gathered so far
    does not parse as a finished security. -/
theorem gather_continuation (acc : List Fmv) (rest : List Line) :
    ∀ (tl : List Line) (desc : List Tok),
      (∀ l ∈ tl, l ≠ [] ∧ startsWithBullet l = false) →
      (∀ pre l post, tl = pre ++ l :: post → totalRow l ≠ none → secData (desc ++ pre.flatten) = none) →
      gather acc desc (tl ++ rest) = gather acc (desc ++ tl.flatten) rest := by
  intro tl
  induction tl with
  | nil => intro desc _ _; simp
  | cons l tl ih =>
    intro desc hok hnt
    have ⟨hl, hb⟩ := hok l (by simp)
    have hfr : firstRow l = none := firstRow_of_not_startsWithBullet hb
    have hgl : gatherLine acc desc l = .ok (acc, desc ++ l) := by simp [gatherLine, hfr]
    have hrec : gather acc (desc ++ l) (tl ++ rest) = gather acc (desc ++ l ++ tl.flatten) rest := by
      apply ih (desc ++ l) (fun m hm => hok m (by simp [hm]))
      intro pre m post heq hm
      have := hnt (l :: pre) m post (by simp [heq]) hm
      simpa [List.append_assoc] using this
    simp only [List.cons_append, gather, hl, if_false, List.flatten_cons]
    cases htr : totalRow l with
    | none => simp only [hgl]; rw [hrec, List.append_assoc]
    | some t =>
      have hsd := hnt [] l tl (by simp) (by simp [htr])
      simp only [List.flatten_nil, List.append_nil] at hsd
      obtain ⟨e, he⟩ := finalize_error_of_secData_none hsd
      simp only [he, hgl]; rw [hrec, List.append_assoc]

/-- The machine in state `GatheringSecurities`, having just read the bullet line of row `r`
    (its `security_desc` is `r.head`), with the remaining rows, the total row and anything after
    still to come: it returns every row exactly once, in order, and the total. -/
theorem gather_rows (totalLead total : Tok) (tv : Rat) (post : List Line)
    (htot : totalLeadTok totalLead = true ∧ totalValTok total = true) (htv : parseLarge total = some tv) :
    ∀ (rows : List SecRow) (r : SecRow) (acc : List Fmv),
      r.WF → (∀ r' ∈ rows, r'.WF) →
      gather acc r.head (r.tail ++ (rows.map SecRow.lines).flatten ++ [[totalLead, total]] ++ post)
        = .ok (acc ++ [r.toFmv] ++ rows.map SecRow.toFmv, tv) := by
  intro rows
  induction rows with
  | nil =>
    intro r acc hr _
    have h1 := gather_continuation acc ([[totalLead, total]] ++ post) r.tail r.head (SecRow.tail_ok hr)
      hr.no_early_total
    simp only [List.map_nil, List.flatten_nil, List.append_nil, List.append_assoc] at h1 ⊢
    rw [h1, SecRow.head_tail_flatten]
    have htr : totalRow [totalLead, total] = some total := by simp [totalRow, htot.1, htot.2]
    simp [gather, htr, SecRow.finalize_all hr, parseTotal, htv]
  | cons r2 rows ih =>
    intro r acc hr hrows
    have hr2 : r2.WF := hrows r2 (by simp)
    have h1 := gather_continuation acc
      (r2.lines ++ ((rows.map SecRow.lines).flatten ++ ([[totalLead, total]] ++ post))) r.tail r.head
      (SecRow.tail_ok hr) hr.no_early_total
    simp only [List.map_cons, List.flatten_cons, List.append_assoc] at h1 ⊢
    rw [h1, SecRow.head_tail_flatten]
    -- the bullet line of the next row finishes `r`
    have hne : r.descToks ++ [r.alloc, r.fmv] ≠ [] := by simp
    have hgl : gatherLine acc (r.descToks ++ [r.alloc, r.fmv]) ([bullet] :: r2.head)
        = .ok (acc ++ [r.toFmv], r2.head) := by
      simp only [gatherLine, firstRow_bullet_line (SecRow.head_ne hr2), hne, if_false,
        SecRow.finalize_all hr]
    have hlne : ([bullet] :: r2.head) ≠ [] := by simp
    have := ih r2 (acc ++ [r.toFmv]) hr2 (fun r' hr' => hrows r' (by simp [hr']))
    simp only [List.append_assoc] at this
    simp only [SecRow.lines, List.cons_append, gather, hlne, if_false, totalRow_bullet_line, hgl]
    simpa using this

theorem lookHeader_skip (rest : List Line) :
    ∀ pre : List Line, (∀ l ∈ pre, hasAllocation l = false) → lookHeader (pre ++ rest) = lookHeader rest := by
  intro pre
  induction pre with
  | nil => intro _; rfl
  | cons l pre ih =>
    intro h
    have hl := h l (by simp)
    have := ih (fun m hm => h m (by simp [hm]))
    by_cases hb : l = []
    · subst hb; simp [lookHeader, this]
    · simp [lookHeader, hb, hl, this]

theorem lookFirst_skip (rest : List Line) :
    ∀ mid : List Line, (∀ l ∈ mid, hasBullet l = false ∧ totalRow l = none) →
      lookFirst (mid ++ rest) = lookFirst rest := by
  intro mid
  induction mid with
  | nil => intro _; rfl
  | cons l mid ih =>
    intro h
    have hl := h l (by simp)
    have := ih (fun m hm => h m (by simp [hm]))
    by_cases hb : l = []
    · subst hb; simp [lookFirst, this]
    · simp [lookFirst, hb, hl.1, hl.2, this]

theorem hasAllocation_ne_nil {l : Line} (h : hasAllocation l = true) : l ≠ [] := by
  intro hl; subst hl; simp [hasAllocation] at h

/-- the table theorem on the exact layout -/
theorem parsePage_layout (t : Table) (h : t.WF) :
    parsePage t.layout = .ok (t.rows.map SecRow.toFmv, t.totalVal) := by
  unfold parsePage Table.layout
  simp only [List.append_assoc]
  rw [lookHeader_skip _ t.pre h.pre_ok]
  have hhne := hasAllocation_ne_nil h.header_ok
  simp only [List.singleton_append, lookHeader, hhne, if_false, h.header_ok, if_true]
  rw [lookFirst_skip _ t.mid h.mid_ok]
  cases hrows : t.rows with
  | nil =>
    have htr : totalRow [t.totalLead, t.total] = some t.total := by
      simp [totalRow, h.total_ok.1, h.total_ok.2]
    have hlne : [t.totalLead, t.total] ≠ [] := by simp
    simp [lookFirst, h.total_nb, htr, parseTotal, h.total_val]
  | cons r rows =>
    have hr : r.WF := h.rows_ok r (by simp [hrows])
    have hrs : ∀ r' ∈ rows, r'.WF := fun r' hr' => h.rows_ok r' (by simp [hrows, hr'])
    have hlne : ([bullet] :: r.head) ≠ [] := by simp
    have hgl : gatherLine [] [] ([bullet] :: r.head) = .ok ([], r.head) := by
      simp [gatherLine, firstRow_bullet_line (SecRow.head_ne hr)]
    have := gather_rows t.totalLead t.total t.totalVal t.post h.total_ok h.total_val rows r [] hr hrs
    simp only [List.append_assoc, List.nil_append] at this
    simp only [List.map_cons, List.flatten_cons, SecRow.lines, List.cons_append, lookFirst, hlne, if_false,
      hasBullet_bullet_line, if_true, hgl, List.append_assoc]
    simpa using this

/-! ### decidable well-formedness (used for the non-vacuity examples and by the driver) -/

def noEarlyTotalB (desc : List Tok) : List Line → Bool
  | [] => true
  | l :: ls => ((totalRow l).isNone || (secData desc).isNone) && noEarlyTotalB (desc ++ l) ls

theorem noEarlyTotalB_spec : ∀ (tl : List Line) (desc : List Tok), noEarlyTotalB desc tl = true →
    ∀ pre l post, tl = pre ++ l :: post → totalRow l ≠ none → secData (desc ++ pre.flatten) = none := by
  intro tl
  induction tl with
  | nil => intro desc _ pre l post h; simp at h
  | cons m tl ih =>
    intro desc hb pre l post heq hl
    simp only [noEarlyTotalB, Bool.and_eq_true, Bool.or_eq_true] at hb
    cases pre with
    | nil =>
      simp only [List.nil_append, List.cons.injEq] at heq
      obtain ⟨rfl, _⟩ := heq
      rcases hb.1 with h | h
      · exact absurd (Option.isNone_iff_eq_none.mp h) hl
      · simpa using Option.isNone_iff_eq_none.mp h
    | cons p pre =>
      simp only [List.cons_append, List.cons.injEq] at heq
      obtain ⟨rfl, heq⟩ := heq
      have := ih (desc ++ m) hb.2 pre l post heq hl
      simpa [List.append_assoc] using this

def SecRow.wfb (r : SecRow) : Bool :=
  !r.first.isEmpty && r.more.all (fun l => !l.isEmpty) && r.more.all (fun l => !startsWithBullet l) &&
  allocTok r.alloc && fmvTok r.fmv && decide (parseDec r.alloc = some r.allocVal) &&
  decide (parseLarge r.fmv = some r.fmvVal) && noEarlyTotalB r.head r.tail

theorem SecRow.wf_of_wfb {r : SecRow} (h : r.wfb = true) : r.WF := by
  simp only [SecRow.wfb, Bool.and_eq_true, Bool.not_eq_eq_eq_not, Bool.not_true, List.all_eq_true,
    decide_eq_true_eq] at h
  obtain ⟨⟨⟨⟨⟨⟨⟨h1, h2⟩, h3⟩, h4⟩, h5⟩, h6⟩, h7⟩, h8⟩ := h
  exact {
    first_ne := by intro hn; rw [hn] at h1; simp at h1
    more_ne := by intro l hl hn; have := h2 l hl; rw [hn] at this; simp at this
    more_nb := h3
    alloc_ok := h4
    fmv_ok := h5
    alloc_val := h6
    fmv_val := h7
    no_early_total := noEarlyTotalB_spec _ _ h8 }

def Table.wfb (t : Table) : Bool :=
  t.pre.all (fun l => !hasAllocation l) && hasAllocation t.header &&
  t.mid.all (fun l => !hasBullet l && (totalRow l).isNone) && t.rows.all SecRow.wfb &&
  totalLeadTok t.totalLead && totalValTok t.total && !hasBullet [t.totalLead, t.total] &&
  decide (parseLarge t.total = some t.totalVal)

theorem Table.wf_of_wfb {t : Table} (h : t.wfb = true) : t.WF := by
  simp only [Table.wfb, Bool.and_eq_true, Bool.not_eq_eq_eq_not, Bool.not_true, List.all_eq_true,
    decide_eq_true_eq, Option.isNone_iff_eq_none] at h
  obtain ⟨⟨⟨⟨⟨⟨⟨h1, h2⟩, h3⟩, h4⟩, h5⟩, h6⟩, h7⟩, h8⟩ := h
  exact {
    pre_ok := h1
    header_ok := h2
    mid_ok := h3
    rows_ok := fun r hr => SecRow.wf_of_wfb (h4 r hr)
    total_ok := ⟨h5, h6⟩
    total_nb := h7
    total_val := h8 }

/-! ### parse_statement_text -/

/-- the month the loop has after reading the hits `hs` starting from `m` (no invalid date met) -/
def monthAfter : Option Int → List MonthHit → Option Int
  | m, [] => m
  | some d, _ :: hs => monthAfter (some d) hs
  | none, .date d :: hs => monthAfter (some d) hs
  | none, _ :: hs => monthAfter none hs

theorem parseStatementFrom_skip (rest : List Page) :
    ∀ (before : List Page) (m : Option Int),
      (∀ p ∈ before, p.marker = false ∧ p.month ≠ .invalid) →
      parseStatementFrom m (before ++ rest) = parseStatementFrom (monthAfter m (before.map (·.month))) rest := by
  intro before
  induction before with
  | nil => intro m _; rfl
  | cons p before ih =>
    intro m h
    have ⟨hm, hi⟩ := h p (by simp)
    have hrec := fun m' => ih m' (fun q hq => h q (by simp [hq]))
    cases m with
    | some d => simp [parseStatementFrom, updMonth, hm, hrec, monthAfter]
    | none =>
      cases hp : p.month with
      | absent => simp [parseStatementFrom, updMonth, hm, hrec, monthAfter, hp]
      | badName => simp [parseStatementFrom, updMonth, hm, hrec, monthAfter, hp]
      | invalid => exact absurd hp hi
      | date d => simp [parseStatementFrom, updMonth, hm, hrec, monthAfter, hp]

end Acb.Fmv
