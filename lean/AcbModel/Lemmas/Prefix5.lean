/-
  C10's engine, refined: the differing parts of the processed rows only have to lie before the
  windows of the later sales **at a loss** (a sale at a gain never looks at its window).  The
  condition is stated on the deltas of the original, error-free run: the rows flagged as a loss or
  a superficial loss (`Delta.isLossOrSfl`, the very test the summary's range selection applies).
-/
import AcbModel.Lemmas.Prefix4
import AcbModel.Lemmas.Opening
import AcbModel.App.Summary
namespace Acb

/-- the sale `x` is at a (not yet adjusted) loss on the tracker `t` -/
def IsLossSale (t : Tracker) (x : Tx) : Prop :=
  ∃ sh px comm rate crate spec aps, x.act = .sell sh px comm rate crate spec ∧
    perShareAcb (t.nextPre x.aff) = some aps ∧ px * sh * rate - comm * commRate rate crate - aps * sh < 0

theorem arm_far2 {t t' : Tracker} (h : ObsEq t t') (x : Tx) (X P P' future : List Tx)
    (hfar : IsLossSale t x → FarFor P x ∧ FarFor P' x) :
    arm t' x (t.nextPre x.aff) (X ++ P') future = arm t x (t.nextPre x.aff) (X ++ P) future := by
  unfold arm
  cases hact : x.act with
  | sell sh px comm rate crate spec =>
    simp only [armSell]
    split
    · rfl
    · split
      · rfl
      · cases hp : perShareAcb (t.nextPre x.aff) with
        | none => rfl
        | some aps =>
          simp only
          by_cases hg : px * sh * rate - comm * commRate rate crate - aps * sh < 0
          · obtain ⟨h1, h2⟩ := hfar ⟨sh, px, comm, rate, crate, spec, aps, hact, hp, hg⟩
            simp only [hg, if_true, deltaSflInfo, sflRatio,
              sflInfo_far h x.aff x.settle sh X P P' future (h1 sh px comm rate crate spec hact) (h2 sh px comm rate crate spec hact)]
          · simp only [hg, if_false]
  | buy sh px comm rate crate => rfl
  | roc ps rate => rfl
  | sfla sh ps => rfl
  | split post pre' io => rfl

theorem stepRow_far2 {t t' : Tracker} (h : ObsEq t t') (x : Tx) (X P P' future : List Tx)
    (hfar : IsLossSale t x → FarFor P x ∧ FarFor P' x) :
    StepResEq (stepRow t x (X ++ P) future) (stepRow t' x (X ++ P') future) := by
  simp only [stepRow, deltaForTx, h.pre x.aff, arm_far2 h x X P P' future hfar]
  cases sanityCheck (t.nextPre x.aff) x.aff with
  | error e => simp [StepResEq]
  | ok u =>
    simp only
    cases arm t x (t.nextPre x.aff) (X ++ P) future with
    | error e => simp [StepResEq]
    | ok o =>
      simp only
      have hs := setLatest_obs h x.aff o.post
      generalize t.setLatest x.aff o.post = S at hs ⊢
      generalize t'.setLatest x.aff o.post = S' at hs ⊢
      cases S with
      | error e =>
        cases S' with
        | error e' => simp only at hs; simp [StepResEq, hs]
        | ok _ => simp at hs
      | ok t2 =>
        cases S' with
        | error e' => simp at hs
        | ok t2' =>
          simp only at hs
          simpa [StepResEq] using hs

/-- a sale at a loss is flagged in its delta: it carries a superficial loss or a negative gain -/
theorem stepRow_flag {t t2 : Tracker} {x : Tx} {past future : List Tx} {d : Delta} {inj : List Tx}
    (hs : stepRow t x past future = .ok (d, t2, inj)) : d.tx = x ∧ (IsLossSale t x → d.isLossOrSfl = true) := by
  unfold stepRow deltaForTx at hs
  simp only at hs
  split at hs
  · cases hs
  · rename_i d0 inj0 hd
    split at hd
    · cases hd
    · split at hd
      · cases hd
      · rename_i o ho
        simp only [Except.ok.injEq, Prod.mk.injEq] at hd
        obtain ⟨hd0, _⟩ := hd
        split at hs
        · cases hs
        · simp only [Except.ok.injEq, Prod.mk.injEq] at hs
          obtain ⟨he, _, _⟩ := hs
          subst he; subst hd0
          refine ⟨rfl, ?_⟩
          rintro ⟨sh, px, comm, rate, crate, spec, aps, hact, hp, hg⟩
          unfold arm at ho
          simp only [hact, armSell] at ho
          split at ho
          · cases ho
          · split at ho
            · cases ho
            · simp only [hp, hg, if_true] at ho
              unfold Delta.isLossOrSfl Delta.isSfl
              simp only
              split at ho
              · cases ho
              · simp only [Except.ok.injEq] at ho; subst ho
                simp [hg]
              · rename_i info adj hdsi
                simp only [Except.ok.injEq] at ho; subst ho
                -- the superficial-loss amount is non-zero
                have hne : info.loss ≠ 0 := by
                  unfold deltaSflInfo at hdsi
                  split at hdsi
                  · cases hdsi
                  · simp only at hdsi
                    split at hdsi
                    · cases hdsi
                    · split at hdsi
                      · split at hdsi
                        · cases hdsi
                        · split at hdsi
                          · rename_i hv
                            simp only [Except.ok.injEq, Option.some.injEq, Prod.mk.injEq] at hdsi
                            obtain ⟨h1, _⟩ := hdsi
                            rw [← h1]; simp only; grind
                          · cases hdsi
                      · split at hdsi
                        · cases hdsi
                        · split at hdsi
                          · cases hdsi
                          · rename_i hneg
                            split at hdsi
                            · cases hdsi
                            · simp only [Except.ok.injEq, Option.some.injEq, Prod.mk.injEq] at hdsi
                              obtain ⟨h1, _⟩ := hdsi
                              rw [← h1]; simp only
                              intro h0
                              apply hneg
                              rw [h0]
                              exact (by grind : ¬ ((0 : Rat) < 0))
                simp [hne]

end Acb

namespace Acb

theorem deltaLoop_nil_cons (t : Tracker) (past : List Tx) (x : Tx) (rest : List Tx) :
    deltaLoop t past [] (x :: rest) =
      match stepRow t x past rest with
      | .error f => ([], some f)
      | .ok (d, t2, inj) =>
        match runInjected t2 (x :: past) [] inj rest with
        | .inr (o, f) => (d :: o, some f)
        | .inl (t3, p3, o) => (d :: o ++ (deltaLoop t3 p3 [] rest).1, (deltaLoop t3 p3 [] rest).2) := by
  rw [deltaLoop]
  cases stepRow t x past rest with
  | error f => rfl
  | ok res =>
    obtain ⟨d, t2, inj⟩ := res
    simp only
    rw [runInjected_acc inj t2 (x :: past) ([] ++ [d]) rest]
    cases runInjected t2 (x :: past) [] inj rest with
    | inr r => obtain ⟨o, f⟩ := r; simp [prependAcc]
    | inl r =>
      obtain ⟨t3, p3, o⟩ := r
      simp only [prependAcc]
      rw [deltaLoop_acc]
      simp

/-- **The engine of C10, refined.**  For an error-free run: if the differing parts of the processed
    rows lie before the window of every later row that the run flags as a loss or superficial
    loss, the two runs produce the same deltas. -/
theorem deltaLoop_far2 (P P' : List Tx) :
    ∀ (rest : List Tx) (t t' : Tracker), ObsEq t t' → ∀ (X : List Tx),
      (deltaLoop t (X ++ P) [] rest).2 = none →
      (∀ d ∈ (deltaLoop t (X ++ P) [] rest).1, d.isLossOrSfl = true → FarFor P d.tx ∧ FarFor P' d.tx) →
      deltaLoop t' (X ++ P') [] rest = deltaLoop t (X ++ P) [] rest := by
  intro rest
  induction rest with
  | nil => intro t t' _ X _ _; simp [deltaLoop]
  | cons x rest ih =>
    intro t t' h X hok hfar
    rw [deltaLoop_nil_cons] at hok hfar ⊢
    rw [deltaLoop_nil_cons]
    cases hA : stepRow t x (X ++ P) rest with
    | error f => rw [hA] at hok; simp at hok
    | ok ra =>
      obtain ⟨d, t2, inj⟩ := ra
      rw [hA] at hok hfar
      simp only at hok hfar ⊢
      obtain ⟨hdx, hflag⟩ := stepRow_flag hA
      have hinjS : ∀ y ∈ inj, IsSflaRow y := fun y hy => stepRow_inj hA y hy
      -- the first delta is `d`
      have hdmem : ∀ (R : (Tracker × List Tx × List Delta) ⊕ (List Delta × Failure)),
          d ∈ (match R with
            | .inr (o, f) => (d :: o, some f)
            | .inl (t3, p3, o) => (d :: o ++ (deltaLoop t3 p3 [] rest).1, (deltaLoop t3 p3 [] rest).2)).1 := by
        intro R; cases R with
        | inl r => obtain ⟨a, b, c⟩ := r; simp
        | inr r => obtain ⟨a, b⟩ := r; simp
      have hfx : IsLossSale t x → FarFor P x ∧ FarFor P' x := by
        intro hl
        have := hfar d (hdmem _) (hflag hl)
        rw [hdx] at this; exact this
      have hstep := stepRow_far2 h x X P P' rest hfx
      rw [hA] at hstep
      cases hB : stepRow t' x (X ++ P') rest with
      | error e => rw [hB] at hstep; simp [StepResEq] at hstep
      | ok rb =>
        obtain ⟨d', t2', inj'⟩ := rb
        rw [hB] at hstep
        simp only [StepResEq] at hstep
        obtain ⟨hd, ht2, hinj⟩ := hstep
        subst hd; subst hinj
        simp only
        have hri := runInjected_far P P' inj' hinjS t2 t2' ht2 (x :: X) [] [] rest
        simp only [List.cons_append] at hri
        cases hRA : runInjected t2 (x :: (X ++ P)) [] inj' rest with
        | inr a =>
          obtain ⟨o, f⟩ := a
          rw [hRA] at hok; simp at hok
        | inl a =>
          obtain ⟨ta, pa, oa⟩ := a
          rw [hRA] at hok hfar hri
          cases hRB : runInjected t2' (x :: (X ++ P')) [] inj' rest with
          | inr b => obtain ⟨ob, f⟩ := b; rw [hRB] at hri; simp [InjResEq] at hri
          | inl b =>
            obtain ⟨tb, pb, ob⟩ := b
            rw [hRB] at hri
            simp only [InjResEq, List.nil_append] at hri
            obtain ⟨X2, out, h1, h2, h3, h4, h5⟩ := hri
            subst h1; subst h2; subst h4; subst h5
            simp only at hok hfar ⊢
            have := ih ta tb h3 X2 hok (fun d0 hd0 hfl => hfar d0 (by simp [hd0]) hfl)
            rw [this]

end Acb
