/-
  C10's glue, part 2: the range selection on deltas that split into "settling on or before the
  summary date" and "settling after it".
-/
import AcbModel.Lemmas.SummaryGlue
import AcbModel.App.Summary
namespace Acb

theorem latestInRange_append (latest : Int) :
    ∀ (A B : List Delta) (i : Nat) (acc : Option Nat), (∀ d ∈ A, d.tx.settle ≤ latest) →
      latestInRange latest (A ++ B) i acc =
        latestInRange latest B (i + A.length) (if A = [] then acc else some (i + A.length - 1)) := by
  intro A
  induction A with
  | nil => intro B i acc _; simp
  | cons d A ih =>
    intro B i acc h
    have hd : ¬ d.tx.settle > latest := by have := h d (by simp); omega
    simp only [List.cons_append, latestInRange, hd, if_false]
    rw [ih B (i + 1) (some i) (fun e he => h e (by simp [he]))]
    have e1 : i + 1 + A.length = i + (d :: A).length := by simp; omega
    rw [e1]
    congr 1
    by_cases hA : A = []
    · subst hA; simp
    · simp only [hA, if_false, List.cons_ne_nil, List.length_cons]

theorem latestInRange_after (latest : Int) (B : List Delta) (i : Nat) (acc : Option Nat)
    (h : ∀ d ∈ B, latest < d.tx.settle) : latestInRange latest B i acc = acc := by
  cases B with
  | nil => rfl
  | cons d B =>
    have : d.tx.settle > latest := h d (by simp)
    simp [latestInRange, this]

theorem latestSummarizable_mem :
    ∀ (L : List (Nat × Delta)) (first : Int) (i : Nat), latestSummarizable first L = some i →
      ∃ d, (i, d) ∈ L := by
  intro L
  induction L with
  | nil => intro first i h; simp [latestSummarizable] at h
  | cons p rest ih =>
    intro first i h
    obtain ⟨j, d⟩ := p
    rw [latestSummarizable] at h
    split at h
    · simp only [Option.some.injEq] at h; subst h; exact ⟨d, by simp⟩
    · obtain ⟨e, he⟩ := ih _ _ h
      exact ⟨e, by simp [he]⟩

/-- the index list the backwards walk of the range selection runs over -/
def idxRev (A : List Delta) : List (Nat × Delta) := (A.zipIdx.map (fun (d, i) => (i, d))).reverse

theorem idxRev_snoc (A : List Delta) (d : Delta) :
    idxRev (A ++ [d]) = (A.length, d) :: idxRev A := by
  simp [idxRev, List.zipIdx_append]

theorem mem_idxRev {A : List Delta} {i : Nat} {d : Delta} (h : (i, d) ∈ idxRev A) : i < A.length := by
  unfold idxRev at h
  simp only [List.mem_reverse, List.mem_map, Prod.mk.injEq] at h
  obtain ⟨⟨d', j⟩, hm, rfl, rfl⟩ := h
  have := List.snd_lt_of_mem_zipIdx hm
  simpa using this

/-- **The range selection, for deltas that split at the summary date.**  `A` = the deltas settling
    on or before `latest` (not empty), `B` = those settling after it. -/
theorem summaryRange_split (latest : Int) (A B : List Delta) (hA : ∀ d ∈ A, d.tx.settle ≤ latest)
    (hB : ∀ d ∈ B, latest < d.tx.settle) (hne : A ≠ []) :
    summaryRange latest (A ++ B) =
      match firstConflict (A.getLast hne).tx.settle B with
      | none => some { lastInRange := A.length - 1, lastSummarizable := some (A.length - 1) }
      | some first =>
        some { lastInRange := A.length - 1, lastSummarizable := latestSummarizable first (idxRev A) } := by
  unfold summaryRange
  rw [latestInRange_append latest A B 0 none hA, latestInRange_after latest B _ _ hB]
  simp only [hne, if_false, Nat.zero_add]
  have hpos : 0 < A.length := List.length_pos_iff.mpr hne
  have e1 : A.length - 1 + 1 = A.length := by omega
  have hget : (A ++ B)[A.length - 1]? = some (A.getLast hne) := by
    rw [List.getElem?_append_left (by omega), List.getLast_eq_getElem]
    exact List.getElem?_eq_getElem (by omega)
  simp only [hget, Option.map_some, Option.getD_some, e1, List.drop_left, List.take_left, idxRev]
  rfl

/-- the selection reports "everything up to the summary date is summarisable" exactly when no later
    loss sale conflicts -/
theorem summaryRange_full (latest : Int) (A B : List Delta) (hA : ∀ d ∈ A, d.tx.settle ≤ latest)
    (hB : ∀ d ∈ B, latest < d.tx.settle) (hne : A ≠ []) {li : Nat}
    (h : summaryRange latest (A ++ B) = some { lastInRange := li, lastSummarizable := some li }) :
    li = A.length - 1 ∧ firstConflict (A.getLast hne).tx.settle B = none := by
  rw [summaryRange_split latest A B hA hB hne] at h
  cases hc : firstConflict (A.getLast hne).tx.settle B with
  | none =>
    simp only [hc, Option.some.injEq, SummaryRange.mk.injEq] at h
    exact ⟨h.1.symm, rfl⟩
  | some first =>
    exfalso
    simp only [hc, Option.some.injEq, SummaryRange.mk.injEq] at h
    obtain ⟨h1, h2⟩ := h
    subst h1
    -- the walk starts at the last delta, whose date is not before the period start
    have hfirst : first ≤ (A.getLast hne).tx.settle := by
      clear h2
      induction B with
      | nil => simp [firstConflict] at hc
      | cons b B ih =>
        rw [firstConflict] at hc
        split at hc
        · simp only at hc
          split at hc
          · simp only [Option.some.injEq] at hc; omega
          · cases hc
        · exact ih (fun d hd => hB d (by simp [hd])) hc
    obtain ⟨A', dl, rfl⟩ : ∃ A' dl, A = A' ++ [dl] := ⟨A.dropLast, A.getLast hne, (List.dropLast_concat_getLast hne).symm⟩
    rw [List.getLast_concat] at hfirst
    rw [idxRev_snoc, latestSummarizable] at h2
    have : ¬ dl.tx.settle < first := by omega
    simp only [this, if_false] at h2
    obtain ⟨d, hd⟩ := latestSummarizable_mem _ _ _ h2
    have := mem_idxRev hd
    simp at this

end Acb
