/-
  Lemmas for C07 (row order): sortedness and membership of the model's sort, uniqueness of a
  list sorted on a strict key, the declarative form of the processing order.
-/
import AcbModel.App.Order
namespace Acb.Order

variable {α : Type}

/-! ### the key is a strict order -/

theorem keyLt_irrefl (a : Keyed α) : ¬ keyLt a a := by
  unfold keyLt; omega

theorem keyLt_trans {a b c : Keyed α} (h1 : keyLt a b) (h2 : keyLt b c) : keyLt a c := by
  unfold keyLt at *; omega

theorem keyLt_asymm {a b : Keyed α} (h1 : keyLt a b) (h2 : keyLt b a) : False := by
  unfold keyLt at *; omega

theorem keyLt_total {a b : Keyed α} (h : a.idx ≠ b.idx) (hn : ¬ keyLt a b) : keyLt b a := by
  unfold keyLt at *; omega

/-! ### uniqueness: a list strictly sorted on the key is determined by its members -/

theorem sorted_unique {β} (lt : β → β → Prop) (irrefl : ∀ a, ¬ lt a a) (asymm : ∀ a b, lt a b → lt b a → False)
    (l1 l2 : List β) (h1 : l1.Pairwise lt) (h2 : l2.Pairwise lt) (hm : ∀ x, x ∈ l1 ↔ x ∈ l2) : l1 = l2 := by
  induction l1 generalizing l2 with
  | nil =>
    cases l2 with
    | nil => rfl
    | cons b t => exact absurd ((hm b).2 (by simp)) (by simp)
  | cons a t1 ih =>
    cases l2 with
    | nil => exact absurd ((hm a).1 (by simp)) (by simp)
    | cons b t2 =>
      rw [List.pairwise_cons] at h1 h2
      have hab : a = b := by
        have ha : a ∈ b :: t2 := (hm a).1 (by simp)
        have hb : b ∈ a :: t1 := (hm b).2 (by simp)
        simp only [List.mem_cons] at ha hb
        rcases ha with ha | ha
        · exact ha
        · rcases hb with hb | hb
          · exact hb.symm
          · exact absurd (h1.1 b hb) (fun h => asymm _ _ h (h2.1 a ha))
      subst hab
      congr 1
      apply ih t2 h1.2 h2.2
      intro x
      constructor
      · intro hx
        have : x ∈ a :: t2 := (hm x).1 (by simp [hx])
        simp only [List.mem_cons] at this
        rcases this with h | h
        · subst h; exact absurd (h1.1 x hx) (irrefl x)
        · exact h
      · intro hx
        have : x ∈ a :: t1 := (hm x).2 (by simp [hx])
        simp only [List.mem_cons] at this
        rcases this with h | h
        · subst h; exact absurd (h2.1 x hx) (irrefl x)
        · exact h

/-- **Why Rust's sorting algorithm does not matter.**  Any two lists with the same members that
    are sorted on `(settlement date, read index)` are equal. -/
theorem keyed_sorted_unique (l1 l2 : List (Keyed α)) (h1 : l1.Pairwise keyLt) (h2 : l2.Pairwise keyLt)
    (hm : ∀ x, x ∈ l1 ↔ x ∈ l2) : l1 = l2 :=
  sorted_unique keyLt keyLt_irrefl (fun _ _ => keyLt_asymm) l1 l2 h1 h2 hm

/-! ### the model's sort -/

theorem mem_insertKeyed (a x : Keyed α) (l : List (Keyed α)) : x ∈ insertKeyed a l ↔ x = a ∨ x ∈ l := by
  induction l with
  | nil => simp [insertKeyed]
  | cons b r ih =>
    simp only [insertKeyed]
    split
    · simp
    · simp only [List.mem_cons, ih]
      constructor
      · rintro (h | h | h)
        · exact Or.inr (Or.inl h)
        · exact Or.inl h
        · exact Or.inr (Or.inr h)
      · rintro (h | h | h)
        · exact Or.inr (Or.inl h)
        · exact Or.inl h
        · exact Or.inr (Or.inr h)

theorem mem_sortKeyed (x : Keyed α) (l : List (Keyed α)) : x ∈ sortKeyed l ↔ x ∈ l := by
  induction l with
  | nil => simp [sortKeyed]
  | cons a r ih => simp [sortKeyed, mem_insertKeyed, ih]

theorem sorted_insertKeyed (a : Keyed α) (l : List (Keyed α)) (hs : l.Pairwise keyLt)
    (hd : ∀ b ∈ l, a.idx ≠ b.idx) : (insertKeyed a l).Pairwise keyLt := by
  induction l with
  | nil => simp [insertKeyed]
  | cons b r ih =>
    rw [List.pairwise_cons] at hs
    simp only [insertKeyed]
    split
    · rename_i hab
      rw [List.pairwise_cons, List.pairwise_cons]
      refine ⟨?_, hs⟩
      intro x hx
      simp only [List.mem_cons] at hx
      rcases hx with h | h
      · subst h; exact hab
      · exact keyLt_trans hab (hs.1 x h)
    · rename_i hab
      have hba : keyLt b a := keyLt_total (hd b (by simp)) hab
      rw [List.pairwise_cons]
      refine ⟨?_, ih hs.2 (fun x hx => hd x (by simp [hx]))⟩
      intro x hx
      rw [mem_insertKeyed] at hx
      rcases hx with h | h
      · subst h; exact hba
      · exact hs.1 x h

theorem sorted_sortKeyed (l : List (Keyed α)) (hd : l.Pairwise (fun a b => a.idx ≠ b.idx)) :
    (sortKeyed l).Pairwise keyLt := by
  induction l with
  | nil => simp [sortKeyed]
  | cons a r ih =>
    rw [List.pairwise_cons] at hd
    simp only [sortKeyed]
    apply sorted_insertKeyed a _ (ih hd.2)
    intro b hb
    exact hd.1 b ((mem_sortKeyed b r).1 hb)

/-! ### numbering -/

theorem reindex_idx_ge (rows : List (InRow α)) (i : Nat) : ∀ k ∈ reindex rows i, i ≤ k.idx := by
  induction rows generalizing i with
  | nil => simp [reindex]
  | cons r rs ih =>
    intro k hk
    simp only [reindex, List.mem_cons] at hk
    rcases hk with h | h
    · subst h; exact Nat.le_refl _
    · have := ih (i + 1) k h; omega

theorem reindex_increasing (rows : List (InRow α)) (i : Nat) :
    (reindex rows i).Pairwise (fun a b => a.idx < b.idx) := by
  induction rows generalizing i with
  | nil => simp [reindex]
  | cons r rs ih =>
    simp only [reindex, List.pairwise_cons]
    refine ⟨?_, ih (i + 1)⟩
    intro k hk
    have := reindex_idx_ge rs (i + 1) k hk
    show i < k.idx
    omega

theorem reindex_filter_strip (rows : List (InRow α)) (i : Nat) (p : InRow α → Bool) :
    ((reindex rows i).filter (fun k => p (strip k))).map strip = rows.filter p := by
  induction rows generalizing i with
  | nil => rfl
  | cons r rs ih =>
    simp only [reindex, List.filter_cons]
    have : strip (⟨r.settle, i, r.sec, r.val⟩ : Keyed α) = r := rfl
    rw [this]
    split
    · simp only [List.map_cons, this, ih]
    · exact ih (i + 1)

theorem mem_reindex_strip (rows : List (InRow α)) (i : Nat) (k : Keyed α) (h : k ∈ reindex rows i) :
    strip k ∈ rows := by
  induction rows generalizing i with
  | nil => simp [reindex] at h
  | cons r rs ih =>
    simp only [reindex, List.mem_cons] at h
    rcases h with h | h
    · subst h; simp [strip]
    · exact List.mem_cons_of_mem _ (ih (i + 1) h)

/-! ### dates -/

theorem mem_insertDate (d x : Int) (l : List Int) : x ∈ insertDate d l ↔ x = d ∨ x ∈ l := by
  induction l with
  | nil => simp [insertDate]
  | cons e r ih =>
    simp only [insertDate]
    split
    · simp
    · split
      · rename_i h; subst h; simp
      · simp only [List.mem_cons, ih]
        constructor
        · rintro (h | h | h)
          · exact Or.inr (Or.inl h)
          · exact Or.inl h
          · exact Or.inr (Or.inr h)
        · rintro (h | h | h)
          · exact Or.inr (Or.inl h)
          · exact Or.inl h
          · exact Or.inr (Or.inr h)

theorem sorted_insertDate (d : Int) (l : List Int) (hs : l.Pairwise (· < ·)) :
    (insertDate d l).Pairwise (· < ·) := by
  induction l with
  | nil => simp [insertDate]
  | cons e r ih =>
    rw [List.pairwise_cons] at hs
    simp only [insertDate]
    split
    · rename_i hde
      rw [List.pairwise_cons, List.pairwise_cons]
      refine ⟨?_, hs⟩
      intro x hx
      simp only [List.mem_cons] at hx
      rcases hx with h | h
      · subst h; exact hde
      · have := hs.1 x h; omega
    · split
      · rw [List.pairwise_cons]; exact hs
      · rename_i h1 h2
        rw [List.pairwise_cons]
        refine ⟨?_, ih hs.2⟩
        intro x hx
        rw [mem_insertDate] at hx
        rcases hx with h | h
        · subst h; omega
        · exact hs.1 x h

theorem mem_dates (rows : List (InRow α)) (d : Int) : d ∈ dates rows ↔ ∃ r ∈ rows, r.settle = d := by
  induction rows with
  | nil => simp [dates]
  | cons r rs ih =>
    simp only [dates, mem_insertDate, ih, List.mem_cons]
    constructor
    · rintro (h | ⟨x, hx, hd⟩)
      · exact ⟨r, Or.inl rfl, h.symm⟩
      · exact ⟨x, Or.inr hx, hd⟩
    · rintro ⟨x, hx | hx, hd⟩
      · subst hx; exact Or.inl hd.symm
      · exact Or.inr ⟨x, hx, hd⟩

theorem sorted_dates (rows : List (InRow α)) : (dates rows).Pairwise (· < ·) := by
  induction rows with
  | nil => simp [dates]
  | cons r rs ih => exact sorted_insertDate _ _ ih

/-! ### the declarative form -/

theorem pairwise_flatMap {β γ} (R : γ → γ → Prop) (f : β → List γ) (l : List β)
    (h1 : ∀ b ∈ l, (f b).Pairwise R)
    (h2 : l.Pairwise (fun b1 b2 => ∀ x ∈ f b1, ∀ y ∈ f b2, R x y)) : (l.flatMap f).Pairwise R := by
  induction l with
  | nil => simp
  | cons b r ih =>
    rw [List.pairwise_cons] at h2
    simp only [List.flatMap_cons, List.pairwise_append]
    refine ⟨h1 b (by simp), ih (fun x hx => h1 x (by simp [hx])) h2.2, ?_⟩
    intro x hx y hy
    simp only [List.mem_flatMap] at hy
    obtain ⟨b2, hb2, hy⟩ := hy
    exact h2.1 b2 hb2 x hx y hy

/-- **Processing order, declaratively.**  The rows of a security reach the ledger grouped by
    settlement date in ascending order, and within one date in the order of the concatenated
    input. -/
theorem process_eq_canonical (rows : List (InRow α)) (s : String) : process rows s = canonical rows s := by
  unfold process canonical perSecurity
  -- keyed version of the right-hand side
  have hB : (dates rows).flatMap (fun d => cls rows s d) =
      ((dates rows).flatMap (fun d => (reindex rows 0).filter (fun k => k.sec == s && k.settle == d))).map strip := by
    rw [List.map_flatMap]
    congr 1
    funext d
    exact (reindex_filter_strip rows 0 (fun r => r.sec == s && r.settle == d)).symm
  rw [hB]
  congr 1
  apply keyed_sorted_unique
  · exact (sorted_sortKeyed _ ((reindex_increasing rows 0).imp (fun h => Nat.ne_of_lt h))).sublist List.filter_sublist
  · apply pairwise_flatMap
    · intro d _
      apply ((reindex_increasing rows 0).sublist List.filter_sublist).imp_of_mem
      intro a b ha hb hab
      simp only [List.mem_filter, Bool.and_eq_true, beq_iff_eq] at ha hb
      right
      exact ⟨by rw [ha.2.2, hb.2.2], hab⟩
    · apply (sorted_dates rows).imp
      intro d1 d2 hd x hx y hy
      simp only [List.mem_filter, Bool.and_eq_true, beq_iff_eq] at hx hy
      left
      rw [hx.2.2, hy.2.2]; exact hd
  · intro x
    simp only [List.mem_filter, mem_sortKeyed, List.mem_flatMap, Bool.and_eq_true, beq_iff_eq]
    constructor
    · rintro ⟨hx, hs⟩
      refine ⟨x.settle, ?_, hx, hs, rfl⟩
      rw [mem_dates]
      exact ⟨strip x, mem_reindex_strip rows 0 x hx, rfl⟩
    · rintro ⟨d, _, hx, hs, _⟩
      exact ⟨hx, hs⟩

/-! ### admissible re-orderings -/

theorem Admissible.mem_iff {rows' rows : List (InRow α)} (h : Admissible rows' rows) (r : InRow α) :
    r ∈ rows' ↔ r ∈ rows := by
  have key : ∀ (l : List (InRow α)), r ∈ l ↔ r ∈ cls l r.sec r.settle := by
    intro l; simp [cls, List.mem_filter]
  rw [key rows', key rows, h]

theorem Admissible.dates_eq {rows' rows : List (InRow α)} (h : Admissible rows' rows) : dates rows' = dates rows := by
  apply sorted_unique (· < ·) (fun a => Int.lt_irrefl a) (fun a b h1 h2 => by omega) _ _
    (sorted_dates rows') (sorted_dates rows)
  intro d
  rw [mem_dates, mem_dates]
  constructor
  · rintro ⟨r, hr, hd⟩; exact ⟨r, (h.mem_iff r).1 hr, hd⟩
  · rintro ⟨r, hr, hd⟩; exact ⟨r, (h.mem_iff r).2 hr, hd⟩

/-- swapping two neighbouring rows of different securities or settlement dates is admissible -/
theorem admissible_swap (l1 l2 : List (InRow α)) (a b : InRow α) (h : a.sec ≠ b.sec ∨ a.settle ≠ b.settle) :
    Admissible (l1 ++ b :: a :: l2) (l1 ++ a :: b :: l2) := by
  intro s d
  unfold cls
  simp only [List.filter_append, List.filter_cons]
  congr 1
  by_cases ha : (a.sec == s && a.settle == d) = true
  · by_cases hb : (b.sec == s && b.settle == d) = true
    · exfalso
      simp only [Bool.and_eq_true, beq_iff_eq] at ha hb
      rcases h with h | h
      · exact h (ha.1.trans hb.1.symm)
      · exact h (ha.2.trans hb.2.symm)
    · simp [ha, hb]
  · by_cases hb : (b.sec == s && b.settle == d) = true
    · simp [ha, hb]
    · simp [ha, hb]

theorem Admissible.refl (rows : List (InRow α)) : Admissible rows rows := fun _ _ => rfl
theorem Admissible.trans {a b c : List (InRow α)} (h1 : Admissible a b) (h2 : Admissible b c) : Admissible a c :=
  fun s d => (h1 s d).trans (h2 s d)
theorem Admissible.symm {a b : List (InRow α)} (h : Admissible a b) : Admissible b a := fun s d => (h s d).symm

end Acb.Order
