/-
  Well-formedness invariant of the status tracker: balances and cost bases are non-negative,
  registered ⇔ no cost base, and the all-affiliate balance is the sum of the latest balances.
-/
import AcbModel.Lemmas.Sum
import AcbModel.Lemmas.Loop
namespace Acb

structure StatusOk (a : Aff) (s : Status) : Prop where
  reg : s.acb.isNone = a.registered
  sh : 0 ≤ s.shares
  acb : ∀ c, s.acb = some c → 0 ≤ c

/-- `U` lists (at least) the affiliates that have a status. -/
structure TrackerWFOn (U : List Aff) (t : Tracker) : Prop where
  nodup : U.Nodup
  support : ∀ a, t.m a ≠ none → a ∈ U
  ok : ∀ a s, t.m a = some s → StatusOk a s
  total : t.latestAll = sumOver U t.bal
  latest : t.latestPostAll = t.latestAll

def TrackerWF (t : Tracker) : Prop := ∃ U, TrackerWFOn U t

theorem defaultStatus_ok (a : Aff) : StatusOk a (defaultStatus a) := by
  constructor
  · unfold defaultStatus; cases a.registered <;> simp
  · simp [defaultStatus]
  · intro c h; unfold defaultStatus at h; split at h <;> simp_all

theorem TrackerWFOn.bal_nonneg {U : List Aff} {t : Tracker} (h : TrackerWFOn U t) (a : Aff) : 0 ≤ t.bal a := by
  unfold Tracker.bal
  split
  · rename_i s hs; exact (h.ok a s hs).sh
  · simp

theorem TrackerWFOn.all_nonneg {U : List Aff} {t : Tracker} (h : TrackerWFOn U t) : 0 ≤ t.latestAll := by
  rw [h.total]; exact sumOver_nonneg (fun a _ => h.bal_nonneg a)

theorem TrackerWFOn.bal_le_all {U : List Aff} {t : Tracker} (h : TrackerWFOn U t) (a : Aff) :
    t.bal a ≤ t.latestAll := by
  by_cases hm : t.m a = none
  · have : t.bal a = 0 := by simp [Tracker.bal, hm]
    rw [this]; exact h.all_nonneg
  · rw [h.total]
    exact le_sumOver (fun b _ => h.bal_nonneg b) (h.support a hm)

/-- The pre-status handed to `delta_for_tx` is well formed and carries the current total. -/
theorem TrackerWFOn.nextPre_ok {U : List Aff} {t : Tracker} (h : TrackerWFOn U t) (a : Aff) :
    StatusOk a (t.nextPre a) ∧ (t.nextPre a).all = t.latestAll ∧ (t.nextPre a).shares = t.bal a := by
  unfold Tracker.nextPre Tracker.bal
  cases hm : t.m a with
  | none =>
    simp only [Option.getD_none]
    have hd := defaultStatus_ok a
    split
    · rename_i he; exact ⟨hd, he, by simp [defaultStatus]⟩
    · exact ⟨⟨hd.reg, hd.sh, hd.acb⟩, rfl, by simp [defaultStatus]⟩
  | some s =>
    simp only [Option.getD_some]
    have hs := h.ok a s hm
    split
    · rename_i he; exact ⟨hs, he, rfl⟩
    · exact ⟨⟨hs.reg, hs.sh, hs.acb⟩, rfl, rfl⟩

theorem sanityCheck_ok {U : List Aff} {t : Tracker} (h : TrackerWFOn U t) (a : Aff) :
    sanityCheck (t.nextPre a) a = .ok () := by
  obtain ⟨hok, hall, hsh⟩ := h.nextPre_ok a
  unfold sanityCheck
  have h1 : ¬ (t.nextPre a).all < (t.nextPre a).shares := by
    rw [hall, hsh]; have := h.bal_le_all a; grind
  have hreg := hok.reg
  cases hr : a.registered <;> cases hacb : (t.nextPre a).acb <;> simp_all

/-- `set_latest_post_status` keeps the invariant when handed a well-formed status whose total is
    derived from the previous total; in particular its two assertions cannot fire. -/
theorem TrackerWFOn.setLatest {U : List Aff} {t : Tracker} (h : TrackerWFOn U t) {a : Aff} {v : Status}
    (hv : StatusOk a v) (hall : v.all = v.shares + t.latestAll - t.bal a) :
    ∃ t', t.setLatest a v = .ok t' ∧ TrackerWFOn (if a ∈ U then U else a :: U) t' ∧
      t'.latestAll = v.all ∧ t'.m = upd t.m a (some v) := by
  unfold Tracker.setLatest
  have hreg : a.registered = v.acb.isNone := hv.reg.symm
  simp only [hreg, if_true, hall]
  refine ⟨_, rfl, ?_, rfl, rfl⟩
  have hbal' : ∀ x, (Tracker.bal { m := upd t.m a (some v), latestAll := v.shares + t.latestAll - t.bal a, latestAff := a } x)
      = if x = a then v.shares else t.bal x := by
    intro x; unfold Tracker.bal upd; by_cases hx : x = a <;> simp [hx]
  constructor
  · split
    · exact h.nodup
    · rename_i hn; exact List.nodup_cons.mpr ⟨hn, h.nodup⟩
  · intro x hx
    by_cases hxa : x = a
    · subst hxa; split <;> simp_all
    · have : t.m x ≠ none := by simpa [upd, hxa] using hx
      have := h.support x this
      split <;> simp [this]
  · intro x s hs
    by_cases hxa : x = a
    · subst hxa; simp [upd] at hs; subst hs; exact hv
    · simp [upd, hxa] at hs; exact h.ok x s hs
  · show v.shares + t.latestAll - t.bal a = _
    have hfun : (Tracker.bal { m := upd t.m a (some v), latestAll := v.shares + t.latestAll - t.bal a, latestAff := a })
        = fun x => if x = a then v.shares else t.bal x := funext hbal'
    rw [hfun]
    split
    · rename_i hin
      rw [sumOver_upd h.nodup hin, ← h.total]; grind
    · rename_i hn
      have hz : t.bal a = 0 := by
        have : t.m a = none := by
          by_cases hm : t.m a = none
          · exact hm
          · exact absurd (h.support a hm) hn
        simp [Tracker.bal, this]
      simp only [sumOver_cons, if_true]
      have : sumOver U (fun x => if x = a then v.shares else t.bal x) = sumOver U t.bal := by
        apply sumOver_congr
        intro b hb
        have : b ≠ a := fun e => hn (e ▸ hb)
        simp [this]
      rw [this, ← h.total, hz]; grind
  · simp [Tracker.latestPostAll, upd, hall]

end Acb

namespace Acb

theorem div_nonneg' {a b : Rat} (ha : 0 ≤ a) (hb : 0 < b) : 0 ≤ a / b := by
  have : a / b = a * b⁻¹ := Rat.div_def a b
  rw [this]
  have hb' : 0 ≤ b⁻¹ := by
    have := Rat.inv_pos.mpr hb; grind
  exact Rat.mul_nonneg ha hb'

theorem div_pos' {a b : Rat} (ha : 0 < a) (hb : 0 < b) : 0 < a / b := by
  have : a / b = a * b⁻¹ := Rat.div_def a b
  rw [this]
  exact Rat.mul_pos ha (Rat.inv_pos.mpr hb)

/-- Every arm yields a well-formed post-status whose all-affiliate balance is derived from the
    previous one by the affiliate's balance change. -/
theorem arm_wf {t : Tracker} {tx : Tx} {pre : Status} {past future : List Tx} {o : ArmOut}
    (hv : tx.Valid) (hp : StatusOk tx.aff pre) (hall : 0 ≤ pre.all)
    (h : arm t tx pre past future = .ok o) :
    StatusOk tx.aff o.post ∧ o.post.all = o.post.shares + pre.all - pre.shares ∧ 0 ≤ o.post.all := by
  unfold arm at h
  unfold Tx.Valid at hv
  split at h
  · -- buy
    rename_i sh px comm rate crate hact
    rw [hact] at hv
    obtain ⟨h1, h2, h3, h4, h5⟩ := hv
    simp only [Except.ok.injEq] at h; subst h
    have hcr : 0 ≤ commRate rate crate := by
      unfold commRate; cases crate with
      | none => simp; grind
      | some c => simp [optPos] at h5 ⊢; grind
    refine ⟨⟨?_, ?_, ?_⟩, ?_, ?_⟩
    · have := hp.reg; unfold armBuy; cases hpa : pre.acb <;> simp_all
    · have := hp.sh; simp [armBuy]; grind
    · intro c hc
      unfold armBuy at hc
      cases hpa : pre.acb with
      | none => simp [hpa] at hc
      | some old =>
        simp [hpa] at hc
        have h0 := hp.acb old hpa
        have e1 : 0 ≤ px * sh := Rat.mul_nonneg h2 (by grind)
        have e2 : 0 ≤ px * sh * rate := Rat.mul_nonneg e1 (by grind)
        have e3 : 0 ≤ comm * commRate rate crate := Rat.mul_nonneg h3 hcr
        grind
    · simp [armBuy]; grind
    · simp [armBuy]; grind
  · -- sell
    rename_i sh px comm rate crate spec hact
    rw [hact] at hv
    have hsh : 0 < sh := hv.1
    unfold armSell at h
    split at h
    · cases h
    · rename_i hA
      split at h
      · cases h
      · rename_i hB
        simp only at h
        have hpost : ∀ acb', (∀ c, acb' = some c → 0 ≤ c) → acb'.isNone = tx.aff.registered →
            StatusOk tx.aff { shares := pre.shares - sh, all := pre.all - sh, acb := acb' } ∧
            (pre.all - sh = (pre.shares - sh) + pre.all - pre.shares) ∧ 0 ≤ pre.all - sh := by
          intro acb' h1 h2
          exact ⟨⟨h2, by grind, h1⟩, by grind, by grind⟩
        split at h
        · rename_i hps
          have hn := perShareAcb_none hps
          split at h
          · cases h
          · simp only [Except.ok.injEq] at h; subst h
            exact hpost pre.acb hp.acb hp.reg
        · rename_i aps hps
          obtain ⟨a, ha, haps⟩ := perShareAcb_some hps
          have hS : 0 < pre.shares := by grind
          simp only [hS, if_true] at haps
          have ha0 := hp.acb a ha
          have haps0 : 0 ≤ aps := by rw [haps]; exact div_nonneg' ha0 hS
          have hnew : 0 ≤ (pre.shares - sh) * aps := Rat.mul_nonneg (by grind) haps0
          have hreg : (some ((pre.shares - sh) * aps) : Option Rat).isNone = tx.aff.registered := by
            have := hp.reg; simp [ha] at this; simp [this]
          have key := hpost (some ((pre.shares - sh) * aps)) (by intro c hc; simp at hc; subst hc; exact hnew) hreg
          split at h
          · split at h
            · cases h
            · simp only [Except.ok.injEq] at h; subst h; exact key
            · simp only [Except.ok.injEq] at h; subst h; exact key
          · split at h
            · cases h
            · simp only [Except.ok.injEq] at h; subst h; exact key
  · -- roc
    rename_i ps rate hact
    unfold armRoc at h
    split at h
    · rename_i old ho
      split at h
      · cases h
      · simp only at h
        split at h
        · cases h
        · rename_i hlt
          simp only [Except.ok.injEq] at h; subst h
          refine ⟨⟨?_, hp.sh, ?_⟩, by simp; grind, by simpa using hall⟩
          · have := hp.reg; simp [ho] at this; simp [this]
          · intro c hc; simp at hc; subst hc; grind
    · split at h <;> cases h
  · -- sfla
    rename_i sh ps hact
    rw [hact] at hv
    unfold armSfla at h
    split at h
    · rename_i old ho
      split at h
      · cases h
      · simp only [Except.ok.injEq] at h; subst h
        refine ⟨⟨?_, hp.sh, ?_⟩, by simp; grind, by simpa using hall⟩
        · have := hp.reg; simp [ho] at this; simp [this]
        · intro c hc; simp at hc; subst hc
          have := hp.acb old ho
          have hv1 : 0 < sh := hv.1
          have hv2 : 0 < ps := hv.2
          have : 0 ≤ sh * ps := Rat.mul_nonneg (by grind) (by grind)
          grind
    · split at h <;> cases h
  · -- split
    rename_i post pre' io hact
    rw [hact] at hv
    unfold armSplit at h
    simp only at h
    split at h
    · cases h
    · rename_i hA
      split at h
      · cases h
      · simp only [Except.ok.injEq] at h; subst h
        have hf : 0 ≤ splitFactor post pre' := by
          have hv1 : 0 < post := hv.1
          unfold splitFactor; exact div_nonneg' (by grind) hv.2
        refine ⟨⟨hp.reg, Rat.mul_nonneg hp.sh hf, hp.acb⟩, by simp; grind, by simp; grind⟩

end Acb
