/-
  Helper lemmas for Props/C17.lean: the two loops of `calc_max_day_cost_per_sec` and the yearly
  maximum, by invariants over the processed prefix.
-/
import AcbModel.App.CostsSpec
namespace Acb.Costs

/-! ### sums over key lists -/

def sumOver {κ : Type} (l : List κ) (f : κ → Rat) : Rat := (l.map f).sum

@[simp] theorem sumOver_nil {κ : Type} (f : κ → Rat) : sumOver [] f = 0 := rfl
@[simp] theorem sumOver_cons {κ : Type} (x : κ) (l : List κ) (f : κ → Rat) :
    sumOver (x :: l) f = f x + sumOver l f := by simp [sumOver]
theorem sumOver_append {κ : Type} (l₁ l₂ : List κ) (f : κ → Rat) :
    sumOver (l₁ ++ l₂) f = sumOver l₁ f + sumOver l₂ f := by
  induction l₁ with
  | nil => simp; grind
  | cons x xs ih => simp [ih]; grind

theorem sumOver_congr {κ : Type} {l : List κ} {f g : κ → Rat} (h : ∀ x ∈ l, g x = f x) :
    sumOver l g = sumOver l f := by
  induction l with
  | nil => simp
  | cons x xs ih =>
    simp only [sumOver_cons]
    rw [ih (fun y hy => h y (by simp [hy])), h x (by simp)]

theorem sumOver_update {κ : Type} {l : List κ} (hn : l.Nodup) {s : κ} (hs : s ∈ l) {f g : κ → Rat}
    (hg : ∀ x, x ≠ s → g x = f x) : sumOver l g = sumOver l f - f s + g s := by
  induction l with
  | nil => simp at hs
  | cons x xs ih =>
    simp only [sumOver_cons]
    have hn' := List.nodup_cons.mp hn
    by_cases hx : x = s
    · subst hx
      have : sumOver xs g = sumOver xs f :=
        sumOver_congr (fun y hy => hg y (fun e => hn'.1 (e ▸ hy)))
      rw [this]; grind
    · have hs' : s ∈ xs := by
        rcases List.mem_cons.mp hs with h | h
        · exact absurd h.symm hx
        · exact h
      rw [ih hn'.2 hs', hg x hx]; grind

theorem sumOver_perm {κ : Type} {l₁ l₂ : List κ} (h : l₁.Perm l₂) (f : κ → Rat) :
    sumOver l₁ f = sumOver l₂ f := by
  induction h with
  | nil => rfl
  | cons x _ ih => simp [ih]
  | swap x y l => simp only [sumOver_cons]; grind
  | trans _ _ ih1 ih2 => rw [ih1, ih2]

/-! ### `observe` -/

@[simp] theorem observe_cost (t : DayTable) (d : Int) (s : Nat) (c : Rat) (d' : Int) (s' : Nat) :
    (observe t d s c).cost d' s' =
      if d' = d ∧ s' = s then some (max ((t.cost d s).getD 0) c) else t.cost d' s' := rfl

@[simp] theorem observe_total (t : DayTable) (d : Int) (s : Nat) (c : Rat) (d' : Int) :
    (observe t d s c).total d' =
      if d' = d then t.total d - (t.cost d s).getD 0 + max ((t.cost d s).getD 0) c else t.total d' := rfl

/-! ### closed forms over a prefix of the rows -/

/-- running maximum exactly as `observe_new_cost` computes it (starting from `unwrap_or(0)`) -/
def maxL (l : List Rat) : Option Rat := l.foldl (fun m p => some (max (m.getD 0) p)) none

@[simp] theorem maxL_nil : maxL [] = none := rfl
theorem maxL_snoc (l : List Rat) (p : Rat) : maxL (l ++ [p]) = some (max ((maxL l).getD 0) p) := by
  simp [maxL, List.foldl_append]

theorem counted_snoc (P : List Row) (r : Row) :
    counted (P ++ [r]) = if r.counted then counted P ++ [r] else counted P := by
  simp [counted, List.filter_append, List.filter_cons]
  split <;> simp

theorem ofSec_snoc (P : List Row) (r : Row) (s : Nat) :
    ofSec (P ++ [r]) s = if r.counted ∧ r.sec = s then ofSec P s ++ [r] else ofSec P s := by
  simp only [ofSec, counted_snoc]
  by_cases h : r.counted = true <;> by_cases h2 : r.sec = s <;> simp [h, h2, List.filter_append]

theorem today_snoc (P : List Row) (r : Row) (s : Nat) (d : Int) :
    today (P ++ [r]) s d =
      if r.counted ∧ r.sec = s ∧ r.day = d then today P s d ++ [r.post.getD 0] else today P s d := by
  simp only [today, ofSec_snoc]
  by_cases h : r.counted = true <;> by_cases h2 : r.sec = s <;> by_cases h3 : r.day = d <;>
    simp [h, h2, h3, List.filter_append]

theorem notesOf_snoc (P : List Row) (r : Row) :
    notesOf (P ++ [r]) = notesOf P ++ (noteOf r).toList := by
  simp only [notesOf, List.filterMap_append, List.filterMap_cons, List.filterMap_nil]
  cases noteOf r <;> simp


/-! ### first loop -/

structure Inv1 (P : List Row) (st : St) : Prop where
  days_nodup : st.days.Nodup
  days_mem : ∀ d, d ∈ st.days ↔ ∃ r ∈ counted P, r.day = d
  secs_nodup : st.secs.Nodup
  secs_mem : ∀ s, s ∈ st.secs ↔ ∃ r ∈ counted P, r.sec = s
  cost : ∀ d s, st.tab.cost d s = maxL (today P s d)
  total : ∀ d, st.tab.total d = sumOver st.secs (fun s => (st.tab.cost d s).getD 0)
  zero : ∀ s, st.zero s = (ofSec P s).head?.map (fun r => (r.day, r.pre.getD 0))
  closing : ∀ d s, st.closing d s = (today P s d).getLast?
  notes : st.notes = notesOf P

theorem Inv1.init : Inv1 [] St.init := by
  constructor <;> simp [St.init, counted, today, ofSec, notesOf, DayTable.empty]

theorem addKey_nodup {α : Type} [DecidableEq α] {l : List α} (h : l.Nodup) (k : α) : (addKey l k).Nodup := by
  unfold addKey; split
  · exact h
  · rename_i hk
    rw [List.nodup_append]
    refine ⟨h, by simp, ?_⟩
    intro a ha b hb
    simp at hb; subst hb
    intro e; exact hk (e ▸ ha)

theorem mem_addKey {α : Type} [DecidableEq α] (l : List α) (k x : α) : x ∈ addKey l k ↔ x ∈ l ∨ x = k := by
  unfold addKey; split
  · rename_i hk
    constructor
    · exact Or.inl
    · rintro (h | h)
      · exact h
      · exact h ▸ hk
  · simp

theorem today_nil_of_sec_not_mem {P : List Row} {s : Nat} (h : ¬ ∃ r ∈ counted P, r.sec = s) (d : Int) :
    today P s d = [] := by
  simp only [today, ofSec, List.map_eq_nil_iff, List.filter_eq_nil_iff]
  intro r hr
  simp only [List.mem_filter] at hr
  exact absurd ⟨r, hr.1, by simpa using hr.2⟩ h

theorem sumOver_addKey_new {κ : Type} [DecidableEq κ] {l : List κ} {k : κ} (hk : k ∉ l) (f : κ → Rat) :
    sumOver (addKey l k) f = sumOver l f + f k := by
  unfold addKey; simp [hk, sumOver_append]; grind

theorem stepCounted_inv {P : List Row} {st st' : St} {r : Row} {acb : Rat}
    (hpost : r.post = some acb) (hd : r.dflt = true)
    (inv : Inv1 P st) (h : stepCounted st r acb = .ok st') : Inv1 (P ++ [r]) st' := by
  have hc : r.counted = true := by simp [Row.counted, hpost, hd]
  -- the common part of the new state
  have key : ∃ z, st' = { st with
      secs := addKey st.secs r.sec, days := addKey st.days r.day,
      tab := observe st.tab r.day r.sec acb,
      closing := fun d s => if d = r.day ∧ s = r.sec then some acb else st.closing d s,
      zero := z } ∧
      ∀ s, z s = (ofSec (P ++ [r]) s).head?.map (fun r => (r.day, r.pre.getD 0)) := by
    unfold stepCounted at h
    simp only at h
    split at h
    · rename_i hz
      split at h
      · cases h
      · rename_i p hp
        simp only [Except.ok.injEq] at h
        refine ⟨_, h.symm, ?_⟩
        intro s
        rw [ofSec_snoc]
        by_cases hs : s = r.sec
        · subst hs
          have := inv.zero r.sec
          rw [hz] at this
          have hnil : ofSec P r.sec = [] := by
            cases hh : ofSec P r.sec with
            | nil => rfl
            | cons a l => rw [hh] at this; simp at this
          simp [hc, hnil, hp]
        · have : ¬ (r.sec = s) := fun e => hs e.symm
          simp [hs, this, inv.zero s]
    · rename_i z hz
      split at h
      · simp only [Except.ok.injEq] at h
        refine ⟨_, h.symm, ?_⟩
        intro s
        rw [ofSec_snoc]
        by_cases hs : r.sec = s
        · subst hs
          have := inv.zero r.sec
          rw [hz] at this
          cases hh : ofSec P r.sec with
          | nil => rw [hh] at this; simp at this
          | cons a l => simp [hc, inv.zero, hh]
        · simp [hs, inv.zero s]
      · cases h
  obtain ⟨z, rfl, hz⟩ := key
  have hsec_old : r.sec ∉ st.secs → ∀ d, (st.tab.cost d r.sec).getD 0 = 0 := by
    intro hk d
    rw [inv.cost, today_nil_of_sec_not_mem (by rw [← inv.secs_mem]; exact hk)]; rfl
  constructor
  · exact addKey_nodup inv.days_nodup _
  · intro d
    simp only [mem_addKey, inv.days_mem, counted_snoc, hc, if_true, List.mem_append, List.mem_singleton]
    constructor
    · rintro (⟨x, hx, e⟩ | e)
      · exact ⟨x, Or.inl hx, e⟩
      · exact ⟨r, Or.inr rfl, e.symm⟩
    · rintro ⟨x, hx | hx, e⟩
      · exact Or.inl ⟨x, hx, e⟩
      · subst hx; exact Or.inr e.symm
  · exact addKey_nodup inv.secs_nodup _
  · intro s
    simp only [mem_addKey, inv.secs_mem, counted_snoc, hc, if_true, List.mem_append, List.mem_singleton]
    constructor
    · rintro (⟨x, hx, e⟩ | e)
      · exact ⟨x, Or.inl hx, e⟩
      · exact ⟨r, Or.inr rfl, e.symm⟩
    · rintro ⟨x, hx | hx, e⟩
      · exact Or.inl ⟨x, hx, e⟩
      · subst hx; exact Or.inr e.symm
  · intro d s
    simp only [observe_cost, today_snoc, hc, true_and]
    by_cases h1 : d = r.day <;> by_cases h2 : s = r.sec
    · subst h1; subst h2; simp [maxL_snoc, inv.cost, hpost]
    · have : ¬ r.sec = s := fun e => h2 e.symm
      simp [h1, h2, this, inv.cost]
    · have : ¬ r.day = d := fun e => h1 e.symm
      simp [h1, h2, this, inv.cost]
    · have : ¬ r.day = d := fun e => h1 e.symm
      simp [h1, h2, this, inv.cost]
  · intro d
    simp only [observe_total]
    by_cases h1 : d = r.day
    · subst h1
      simp only [if_true, observe_cost, true_and]
      by_cases hk : r.sec ∈ st.secs
      · have e : addKey st.secs r.sec = st.secs := by simp [addKey, hk]
        rw [e, sumOver_update inv.secs_nodup hk (f := fun s => (st.tab.cost r.day s).getD 0)
              (g := fun s => (if s = r.sec then some (max ((st.tab.cost r.day r.sec).getD 0) acb) else st.tab.cost r.day s).getD 0)
              (by intro x hx; simp [hx])]
        rw [inv.total]; simp
      · rw [sumOver_addKey_new hk]
        have e : sumOver st.secs (fun s => (if s = r.sec then some (max ((st.tab.cost r.day r.sec).getD 0) acb) else st.tab.cost r.day s).getD 0)
            = sumOver st.secs (fun s => (st.tab.cost r.day s).getD 0) := by
          apply sumOver_congr
          intro x hx
          have : x ≠ r.sec := fun e => hk (e ▸ hx)
          simp [this]
        rw [e, inv.total, hsec_old hk]; simp; grind
    · simp only [h1, if_false, observe_cost, false_and]
      by_cases hk : r.sec ∈ st.secs
      · have e : addKey st.secs r.sec = st.secs := by simp [addKey, hk]
        rw [e, inv.total]
      · rw [sumOver_addKey_new hk, hsec_old hk, inv.total]; grind
  · exact hz
  · intro d s
    simp only [today_snoc, hc, true_and]
    by_cases h1 : d = r.day <;> by_cases h2 : s = r.sec
    · subst h1; subst h2; simp [hpost]
    · have : ¬ r.sec = s := fun e => h2 e.symm
      simp [h1, h2, this, inv.closing]
    · have : ¬ r.day = d := fun e => h1 e.symm
      simp [h1, h2, this, inv.closing]
    · have : ¬ r.day = d := fun e => h1 e.symm
      simp [h1, h2, this, inv.closing]
  · have : noteOf r = none := by simp [noteOf, hpost, hd]
    simp [notesOf_snoc, this, inv.notes]


theorem Inv1.of_uncounted {P : List Row} {st : St} {r : Row} (hc : r.counted = false) {n : Note}
    (hn : noteOf r = some n) (inv : Inv1 P st) :
    Inv1 (P ++ [r]) { st with notes := st.notes ++ [n] } := by
  have e1 : counted (P ++ [r]) = counted P := by simp [counted_snoc, hc]
  have e2 : ∀ s, ofSec (P ++ [r]) s = ofSec P s := by intro s; simp [ofSec_snoc, hc]
  have e3 : ∀ s d, today (P ++ [r]) s d = today P s d := by intro s d; simp [today_snoc, hc]
  constructor
  · exact inv.days_nodup
  · intro d; rw [e1]; exact inv.days_mem d
  · exact inv.secs_nodup
  · intro s; rw [e1]; exact inv.secs_mem s
  · intro d s; rw [e3]; exact inv.cost d s
  · exact inv.total
  · intro s; rw [e2]; exact inv.zero s
  · intro d s; rw [e3]; exact inv.closing d s
  · simp [notesOf_snoc, hn, inv.notes]

theorem step_inv {P : List Row} {st st' : St} {r : Row} (inv : Inv1 P st) (h : step st r = .ok st') :
    Inv1 (P ++ [r]) st' := by
  unfold step at h
  split at h
  · rename_i hp
    simp only [Except.ok.injEq] at h; subst h
    exact inv.of_uncounted (by simp [Row.counted, hp]) (by simp [noteOf, hp])
  · rename_i acb hp
    split at h
    · rename_i hd
      exact stepCounted_inv hp hd inv h
    · rename_i hd
      simp only [Except.ok.injEq] at h; subst h
      exact inv.of_uncounted (by simp [Row.counted, hp, hd]) (by simp [noteOf, hp, hd])

theorem loop1_inv {P : List Row} {st st' : St} (rows : List Row) (inv : Inv1 P st)
    (h : loop1 rows st = .ok st') : Inv1 (P ++ rows) st' := by
  induction rows generalizing P st with
  | nil => simp only [loop1, Except.ok.injEq] at h; subst h; simpa using inv
  | cons r rs ih =>
    simp only [loop1] at h
    split at h
    · rename_i st1 h1
      have := ih (step_inv inv h1) h
      simpa using this
    · cases h

/-- Under `WF` no panic site of the first loop is reached. -/
theorem loop1_ok {P : List Row} {st : St} (rows : List Row) (hwf : WF (P ++ rows)) (inv : Inv1 P st) :
    ∃ st', loop1 rows st = .ok st' := by
  induction rows generalizing P st with
  | nil => exact ⟨st, rfl⟩
  | cons r rs ih =>
    have hstep : ∃ st1, step st r = .ok st1 := by
      unfold step
      split
      · exact ⟨_, rfl⟩
      · rename_i acb hp
        split
        · rename_i hd
          have hc : r.counted = true := by simp [Row.counted, hp, hd]
          unfold stepCounted
          simp only
          split
          · split
            · rename_i hpre
              have := hwf.pre r (by simp) (by simp [hp])
              simp [hpre] at this
            · exact ⟨_, rfl⟩
          · rename_i z hz
            split
            · exact ⟨_, rfl⟩
            · rename_i hlt
              exfalso; apply hlt
              have hzz := inv.zero r.sec
              rw [hz] at hzz
              cases hh : ofSec P r.sec with
              | nil => rw [hh] at hzz; simp at hzz
              | cons a l =>
                rw [hh] at hzz
                simp at hzz
                have hs := hwf.sortedSec r.sec
                have e : ofSec (P ++ r :: rs) r.sec = ofSec P r.sec ++ ofSec (r :: rs) r.sec := by
                  simp [ofSec, counted, List.filter_append]
                have e2 : ofSec (r :: rs) r.sec = r :: ofSec rs r.sec := by
                  simp [ofSec, counted, hc]
                rw [e, hh, e2] at hs
                have := (List.pairwise_cons.mp hs).1 r (by simp)
                rw [hzz] ; exact this
        · exact ⟨_, rfl⟩
    obtain ⟨st1, h1⟩ := hstep
    have hwf' : WF ((P ++ [r]) ++ rs) := by simpa using hwf
    obtain ⟨st', h'⟩ := ih hwf' (step_inv inv h1)
    exact ⟨st', by simp [loop1, h1, h']⟩


/-! ### sorting -/

theorem sortDays_perm (l : List Int) : (sortDays l).Perm l := isort_perm _ _

theorem sortDays_sorted (l : List Int) : (sortDays l).Pairwise (fun a b => a ≤ b) := by
  have := isort_pairwise (le := fun (a b : Int) => decide (a ≤ b))
    (by intro a b c; simp; omega) (by intro a b; simp; omega) l
  simpa [sortDays] using this

theorem sortDays_strict {l : List Int} (h : l.Nodup) : (sortDays l).Pairwise (fun a b => a < b) := by
  have h1 := sortDays_sorted l
  have h2 : (sortDays l).Nodup := (sortDays_perm l).nodup_iff.mpr h
  have := List.Pairwise.and h1 h2
  exact this.imp (fun ⟨a, b⟩ => by omega)

/-- two arrangements of the same distinct days sort to the same list -/
theorem sortDays_congr {l₁ l₂ : List Int} (h : l₁.Perm l₂) : sortDays l₁ = sortDays l₂ := by
  apply List.Perm.eq_of_pairwise (le := fun a b => a ≤ b)
  · intro a b _ _ h1 h2; omega
  · exact sortDays_sorted _
  · exact sortDays_sorted _
  · exact (sortDays_perm l₁).trans (h.trans (sortDays_perm l₂).symm)

theorem sortNats_perm (l : List Nat) : (sortNats l).Perm l := isort_perm _ _

theorem sortNats_congr {l₁ l₂ : List Nat} (h : l₁.Perm l₂) : sortNats l₁ = sortNats l₂ := by
  have srt : ∀ l, (sortNats l).Pairwise (fun a b => a ≤ b) := by
    intro l
    have := isort_pairwise (le := fun (a b : Nat) => decide (a ≤ b))
      (by intro a b c; simp; omega) (by intro a b; simp; omega) l
    simpa [sortNats] using this
  apply List.Perm.eq_of_pairwise (le := fun a b => a ≤ b)
  · intro a b _ _ h1 h2; omega
  · exact srt _
  · exact srt _
  · exact (sortNats_perm l₁).trans (h.trans (sortNats_perm l₂).symm)

/-! ### chronological lists -/

theorem filter_or_day_sorted {L : List Row} (hs : L.Pairwise (fun a b => a.day ≤ b.day)) (p : Row → Bool)
    (d : Int) (hp : ∀ r, p r = true → r.day < d) :
    L.filter (fun r => p r || decide (r.day = d)) = L.filter p ++ L.filter (fun r => decide (r.day = d)) := by
  induction L with
  | nil => simp
  | cons x xs ih =>
    have hx := List.pairwise_cons.mp hs
    have ih := ih hx.2
    by_cases h1 : p x = true
    · have : ¬ x.day = d := by have := hp x h1; omega
      simp [h1, this, ih]
    · by_cases h2 : x.day = d
      · have hnil : xs.filter p = [] := by
          rw [List.filter_eq_nil_iff]
          intro r hr hpr
          have := hx.1 r hr
          have := hp r hpr
          omega
        simp only [Bool.not_eq_true] at h1
        simp [h1, h2, ih, hnil]
      · simp only [Bool.not_eq_true] at h1
        simp [h1, h2, ih]

theorem foldl_max_spec (l : List Rat) (a : Rat) :
    ∃ v, l.foldl (fun (m : Option Rat) p => some (max (m.getD 0) p)) (some a) = some v ∧
      a ≤ v ∧ (∀ p ∈ l, p ≤ v) ∧ (v = a ∨ v ∈ l) := by
  induction l generalizing a with
  | nil => exact ⟨a, rfl, by grind, by simp, Or.inl rfl⟩
  | cons x xs ih =>
    obtain ⟨v, hv, h1, h2, h3⟩ := ih (max a x)
    refine ⟨v, by simpa using hv, by grind, ?_, ?_⟩
    · intro p hp
      rcases List.mem_cons.mp hp with e | e
      · subst e; grind
      · exact h2 p e
    · rcases h3 with e | e
      · by_cases hax : a ≤ x
        · right; have : max a x = x := by grind
          simp [e, this]
        · left; have : max a x = a := by grind
          rw [e, this]
      · right; simp [e]

theorem maxL_spec {l : List Rat} (hne : l ≠ []) (hpos : ∀ p ∈ l, 0 ≤ p) :
    ∃ v, maxL l = some v ∧ v ∈ l ∧ ∀ p ∈ l, p ≤ v := by
  cases l with
  | nil => exact absurd rfl hne
  | cons x xs =>
    have hx : 0 ≤ x := hpos x (by simp)
    have e : max (0 : Rat) x = x := by grind
    obtain ⟨v, hv, h1, h2, h3⟩ := foldl_max_spec xs x
    refine ⟨v, by simpa [maxL, e] using hv, ?_, ?_⟩
    · rcases h3 with h | h
      · simp [h]
      · simp [h]
    · intro p hp
      rcases List.mem_cons.mp hp with h | h
      · subst h; exact h1
      · exact h2 p h


/-! ### second loop -/

def TotalInv (secs : List Nat) (t : DayTable) : Prop :=
  ∀ d, t.total d = sumOver secs (fun s => (t.cost d s).getD 0)

theorem observe_totalInv {secs : List Nat} (hn : secs.Nodup) {s : Nat} (hs : s ∈ secs) {t : DayTable}
    (h : TotalInv secs t) (d : Int) (c : Rat) : TotalInv secs (observe t d s c) := by
  intro d'
  simp only [observe_total, observe_cost]
  by_cases h1 : d' = d
  · subst h1
    simp only [if_true, true_and]
    rw [sumOver_update hn hs (f := fun x => (t.cost d' x).getD 0)
          (g := fun x => (if x = s then some (max ((t.cost d' s).getD 0) c) else t.cost d' x).getD 0)
          (by intro x hx; simp [hx])]
    rw [h d']; simp
  · simp only [h1, if_false, false_and]; exact h d'

theorem fillSec_totalInv {secs : List Nat} (hn : secs.Nodup) {s : Nat} (hs : s ∈ secs) (st : St) (d : Int)
    {f : Fill} (h : TotalInv secs f.tab) : TotalInv secs (fillSec st d f s).tab := by
  unfold fillSec; split
  · exact h
  · exact observe_totalInv hn hs h _ _

theorem fold_fillSec_totalInv {secs : List Nat} (hn : secs.Nodup) (st : St) (d : Int) (L : List Nat)
    (hL : ∀ s ∈ L, s ∈ secs) {f : Fill} (h : TotalInv secs f.tab) :
    TotalInv secs (L.foldl (fillSec st d) f).tab := by
  induction L generalizing f with
  | nil => exact h
  | cons x xs ih =>
    simp only [List.foldl_cons]
    exact ih (fun s hs => hL s (by simp [hs])) (fillSec_totalInv hn (hL x (by simp)) st d h)

/-- The effect of walking any duplicate-free list of securities on day `d`: every security is
    handled from the values the walk started with (no security reads what another one wrote). -/
theorem fold_fillSec (st : St) (d : Int) (L : List Nat) (hn : L.Nodup) (f : Fill) :
    (∀ d' s', (L.foldl (fillSec st d) f).tab.cost d' s' =
        if d' = d ∧ s' ∈ L ∧ st.closing d s' = none
        then some (max ((f.tab.cost d s').getD 0) (carriedCost st f s')) else f.tab.cost d' s') ∧
    (∀ s', (L.foldl (fillSec st d) f).last s' =
        if s' ∈ L then (match st.closing d s' with | some c => some c | none => f.last s') else f.last s') := by
  induction L generalizing f with
  | nil => simp
  | cons x xs ih =>
    have hx := List.nodup_cons.mp hn
    obtain ⟨ih1, ih2⟩ := ih hx.2 (fillSec st d f x)
    simp only [List.foldl_cons]
    have hlast : ∀ s', s' ≠ x → (fillSec st d f x).last s' = f.last s' := by
      intro s' hs; unfold fillSec; split <;> simp [hs]
    have hcarr : ∀ s', s' ≠ x → carriedCost st (fillSec st d f x) s' = carriedCost st f s' := by
      intro s' hs; unfold carriedCost; rw [hlast s' hs]
    have hcost : ∀ d' s', (fillSec st d f x).tab.cost d' s' =
        if d' = d ∧ s' = x ∧ st.closing d x = none
        then some (max ((f.tab.cost d x).getD 0) (carriedCost st f x)) else f.tab.cost d' s' := by
      intro d' s'; unfold fillSec; split
      · rename_i c hc; simp [hc]
      · rename_i hc; simp only [observe_cost, hc, and_true]
    constructor
    · intro d' s'
      rw [ih1 d' s']
      by_cases hd : d' = d
      · subst hd
        by_cases hs : s' = x
        · subst hs
          have : s' ∉ xs := hx.1
          simp only [this, false_and, and_false, if_false, hcost, true_and, List.mem_cons, true_or]
        · have hne : s' ≠ x := hs
          simp only [true_and, List.mem_cons, hs, false_or, hcost, false_and, if_false, hcarr s' hne]
      · simp [hd, hcost]
    · intro s'
      rw [ih2 s']
      by_cases hs : s' = x
      · subst hs
        have : s' ∉ xs := hx.1
        simp only [this, if_false, List.mem_cons, true_or, if_true]
        unfold fillSec; split
        · rename_i c hc; simp [hc]
        · rename_i hc; simp [hc]
      · simp only [List.mem_cons, hs, false_or, hlast s' hs]


structure Inv2 (rows : List Row) (st : St) (K : List Int) (f : Fill) : Prop where
  done : ∀ d ∈ K, ∀ s ∈ st.secs, ∃ v, f.tab.cost d s = some v ∧ Figure rows s d v
  rest : ∀ d, d ∉ K → ∀ s, f.tab.cost d s = st.tab.cost d s
  total : TotalInv st.secs f.tab
  last : ∀ s ∈ st.secs, f.last s =
    (((ofSec rows s).filter (fun r => decide (r.day ∈ K))).getLast?).map (fun r => r.post.getD 0)

theorem mem_rows_of_mem_ofSec {rows : List Row} {s : Nat} {r : Row} (h : r ∈ ofSec rows s) :
    r ∈ rows ∧ r.counted = true ∧ r.sec = s := by
  simp only [ofSec, counted, List.mem_filter] at h
  exact ⟨h.1.1, h.1.2, by simpa using h.2⟩

theorem post_nonneg_of_counted {rows : List Row} (hwf : WF rows) {r : Row} (hr : r ∈ rows)
    (hc : r.counted = true) : 0 ≤ r.post.getD 0 := by
  cases hp : r.post with
  | none => simp [Row.counted, hp] at hc
  | some p => simpa using hwf.nonneg r hr p (Or.inl hp)

theorem pre_nonneg {rows : List Row} (hwf : WF rows) {r : Row} (hr : r ∈ rows) : 0 ≤ r.pre.getD 0 := by
  cases hp : r.pre with
  | none => simp
  | some p => simpa using hwf.nonneg r hr p (Or.inr hp)

theorem fillDay_inv {rows : List Row} {st : St} {σ : List Nat → List Nat} {K : List Int} {d : Int} {f : Fill}
    (hwf : WF rows) (inv : Inv1 rows st) (hσ : IsOrder σ)
    (hK : ∀ k ∈ K, k < d) (hdK : d ∉ K)
    (hlt : ∀ r ∈ counted rows, r.day < d ↔ r.day ∈ K)
    (i2 : Inv2 rows st K f) : Inv2 rows st (K ++ [d]) (fillDay st σ f d) := by
  have hperm := hσ st.secs
  have hn : (σ st.secs).Nodup := hperm.nodup_iff.mpr inv.secs_nodup
  have hmem : ∀ s, s ∈ σ st.secs ↔ s ∈ st.secs := fun s => hperm.mem_iff
  obtain ⟨hc, hl⟩ := fold_fillSec st d (σ st.secs) hn f
  have hclosing : ∀ s, st.closing d s =
      (((ofSec rows s).filter (fun r => decide (r.day = d))).getLast?).map (fun r => r.post.getD 0) := by
    intro s; rw [inv.closing, today, List.getLast?_map]
  constructor
  · intro d' hd' s hs
    rcases List.mem_append.mp hd' with hk | hk
    · have hne : d' ≠ d := fun e => hdK (e ▸ hk)
      have := hc d' s
      simp only [hne, false_and, if_false] at this
      unfold fillDay; rw [this]; exact i2.done d' hk s hs
    · simp only [List.mem_singleton] at hk; subst hk
      have hcs := hc d' s
      simp only [true_and, (hmem s).mpr hs] at hcs
      unfold fillDay
      have hrest : f.tab.cost d' s = maxL (today rows s d') := by rw [i2.rest d' hdK s, inv.cost]
      cases hcl : st.closing d' s with
      | some c =>
        simp only [hcl, reduceCtorEq, if_false] at hcs
        have hne : today rows s d' ≠ [] := by
          intro e; rw [inv.closing, e] at hcl; simp at hcl
        have hpos : ∀ p ∈ today rows s d', 0 ≤ p := by
          intro p hp
          simp only [today, List.mem_map, List.mem_filter] at hp
          obtain ⟨r, ⟨hr, _⟩, rfl⟩ := hp
          obtain ⟨h1, h2, _⟩ := mem_rows_of_mem_ofSec hr
          exact post_nonneg_of_counted hwf h1 h2
        obtain ⟨v, hv, h1, h2⟩ := maxL_spec hne hpos
        exact ⟨v, by rw [hcs, hrest, hv], Or.inl ⟨hne, h1, h2⟩⟩
      | none =>
        simp only [hcl, if_true] at hcs
        have hnil : today rows s d' = [] := by
          rw [inv.closing] at hcl; exact List.getLast?_eq_none_iff.mp hcl
        have h0 : (f.tab.cost d' s).getD 0 = 0 := by rw [hrest, hnil]; rfl
        -- the carried value is the spec's carry, and it is not negative
        have hfe : (ofSec rows s).filter (fun r => decide (r.day < d')) =
            (ofSec rows s).filter (fun r => decide (r.day ∈ K)) := by
          apply List.filter_congr
          intro r hr
          have hrc : r ∈ counted rows := by
            simp only [ofSec, List.mem_filter] at hr; exact hr.1
          have := hlt r hrc
          by_cases h : r.day < d'
          · simp [h, this.mp h]
          · have : ¬ r.day ∈ K := fun hk => h (this.mpr hk)
            simp [h, this]
        have hcarry : carriedCost st f s = carry rows s d' ∧ 0 ≤ carry rows s d' := by
          unfold carriedCost carry
          rw [i2.last s hs, hfe]
          cases hg : ((ofSec rows s).filter (fun r => decide (r.day ∈ K))).getLast? with
          | some r =>
            simp only [Option.map_some]
            have hr := List.mem_of_getLast? hg
            simp only [List.mem_filter] at hr
            obtain ⟨h1, h2, _⟩ := mem_rows_of_mem_ofSec hr.1
            exact ⟨by simp, post_nonneg_of_counted hwf h1 h2⟩
          | none =>
            simp only [Option.map_none]
            rw [inv.zero s]
            unfold opening
            cases hh : (ofSec rows s).head? with
            | none => simp
            | some r =>
              have hr := List.mem_of_mem_head? (by rw [hh]; simp : r ∈ (ofSec rows s).head?)
              obtain ⟨h1, _, _⟩ := mem_rows_of_mem_ofSec hr
              exact ⟨by simp, pre_nonneg hwf h1⟩
        refine ⟨carry rows s d', ?_, Or.inr ⟨hnil, rfl⟩⟩
        rw [hcs, h0, hcarry.1]
        have := hcarry.2
        congr 1; grind
  · intro d' hd' s
    have hne : d' ≠ d := fun e => hd' (by simp [e])
    have hk : d' ∉ K := fun e => hd' (by simp [e])
    have := hc d' s
    simp only [hne, false_and, if_false] at this
    unfold fillDay; rw [this]; exact i2.rest d' hk s
  · unfold fillDay
    exact fold_fillSec_totalInv inv.secs_nodup st d _ (fun s hs => (hmem s).mp hs) i2.total
  · intro s hs
    have := hl s
    simp only [(hmem s).mpr hs, if_true] at this
    unfold fillDay; rw [this]
    have hpe : (ofSec rows s).filter (fun r => decide (r.day ∈ K ++ [d])) =
        (ofSec rows s).filter (fun r => decide (r.day ∈ K) || decide (r.day = d)) := by
      apply List.filter_congr; intro r _; simp
    rw [hpe, filter_or_day_sorted (hwf.sortedSec s) (fun r => decide (r.day ∈ K)) d
          (by intro r hr; exact hK _ (by simpa using hr)),
        List.getLast?_append, hclosing s, i2.last s hs]
    cases ((ofSec rows s).filter (fun r => decide (r.day = d))).getLast? <;> simp


theorem fold_fillDay_inv {rows : List Row} {st : St} {σ : List Nat → List Nat}
    (hwf : WF rows) (inv : Inv1 rows st) (hσ : IsOrder σ) (K R : List Int)
    (hD : (K ++ R).Pairwise (fun a b => a < b)) (hall : ∀ d, d ∈ st.days → d ∈ K ++ R)
    (f : Fill) (i2 : Inv2 rows st K f) : Inv2 rows st (K ++ R) (R.foldl (fillDay st σ) f) := by
  induction R generalizing K f with
  | nil => simpa using i2
  | cons d R' ih =>
    have hp := List.pairwise_append.mp hD
    have hK : ∀ k ∈ K, k < d := fun k hk => hp.2.2 k hk d (by simp)
    have hdK : d ∉ K := fun h => by have := hK d h; omega
    have hR' : ∀ b ∈ R', d < b := (List.pairwise_cons.mp hp.2.1).1
    have hlt : ∀ r ∈ counted rows, r.day < d ↔ r.day ∈ K := by
      intro r hr
      have hin := hall r.day ((inv.days_mem r.day).mpr ⟨r, hr, rfl⟩)
      constructor
      · intro hlt
        rcases List.mem_append.mp hin with h | h
        · exact h
        · rcases List.mem_cons.mp h with h | h
          · omega
          · have := hR' _ h; omega
      · exact hK _
    have step := fillDay_inv hwf inv hσ hK hdK hlt i2
    have e : K ++ d :: R' = (K ++ [d]) ++ R' := by simp
    simp only [List.foldl_cons]
    rw [e]
    exact ih (K ++ [d]) (by rw [← e]; exact hD) (by rw [← e]; exact hall) _ step

theorem Inv2.start {rows : List Row} {st : St} (inv : Inv1 rows st) :
    Inv2 rows st [] { tab := st.tab, last := fun _ => none } := by
  constructor
  · intro d hd; simp at hd
  · intro d _ s; rfl
  · exact inv.total
  · intro s _
    have : (ofSec rows s).filter (fun r => decide (r.day ∈ ([] : List Int))) = [] := by
      rw [List.filter_eq_nil_iff]; intro r _; simp
    rw [this]; rfl

theorem loop2_inv {rows : List Row} {st : St} {σ : List Nat → List Nat} {τ : List Int → List Int}
    (hwf : WF rows) (inv : Inv1 rows st) (hσ : IsOrder σ) (hτ : IsOrder τ) :
    Inv2 rows st (sortDays (τ st.days)) (loop2 st σ τ) := by
  have hn : (τ st.days).Nodup := (hτ st.days).nodup_iff.mpr inv.days_nodup
  have := fold_fillDay_inv hwf inv hσ [] (sortDays (τ st.days))
    (by simpa using sortDays_strict hn)
    (by intro d hd; simpa using ((sortDays_perm _).trans (hτ st.days)).mem_iff.mpr hd)
    _ (Inv2.start inv)
  simpa [loop2] using this

/-! ### yearly maximum -/

structure YearInv (yearOf : Int → Int) (total : Int → Rat) (K : List Int) (m : YMap) : Prop where
  none : ∀ y, m.get y = none → ∀ d ∈ K, yearOf d ≠ y
  some : ∀ y b, m.get y = some b → b ∈ K ∧ yearOf b = y ∧
    ∀ d ∈ K, yearOf d = y → total d ≤ total b ∧ (total d = total b → b ≤ d)

theorem yearStep_inv {yearOf : Int → Int} {total : Int → Rat} {K : List Int} {m : YMap} {d : Int}
    (hK : ∀ k ∈ K, k < d) (h : YearInv yearOf total K m) :
    YearInv yearOf total (K ++ [d]) (yearStep yearOf total m d) := by
  unfold yearStep
  split
  · rename_i old hold
    obtain ⟨ho1, ho2, ho3⟩ := h.some _ _ hold
    split
    · rename_i hlt
      constructor
      · intro y hy
        by_cases e : y = yearOf d
        · simp [e] at hy
        · simp only [e, if_false] at hy
          intro d' hd'
          rcases List.mem_append.mp hd' with hk | hk
          · exact h.none y hy d' hk
          · simp only [List.mem_singleton] at hk; subst hk; exact fun e' => e e'.symm
      · intro y b hb
        by_cases e : y = yearOf d
        · simp only [e, if_true, Option.some.injEq] at hb; subst hb; subst e
          refine ⟨by simp, rfl, ?_⟩
          intro d' hd' hy
          rcases List.mem_append.mp hd' with hk | hk
          · have := (ho3 d' hk hy).1
            constructor
            · grind
            · intro e'; exfalso; grind
          · simp only [List.mem_singleton] at hk; subst hk
            exact ⟨by grind, fun _ => by omega⟩
        · simp only [e, if_false] at hb
          obtain ⟨h1, h2, h3⟩ := h.some y b hb
          refine ⟨by simp [h1], h2, ?_⟩
          intro d' hd' hy
          rcases List.mem_append.mp hd' with hk | hk
          · exact h3 d' hk hy
          · simp only [List.mem_singleton] at hk; subst hk; exact absurd hy.symm e
    · rename_i hnlt
      constructor
      · intro y hy d' hd'
        rcases List.mem_append.mp hd' with hk | hk
        · exact h.none y hy d' hk
        · simp only [List.mem_singleton] at hk; subst hk
          intro e; rw [← e, hold] at hy; cases hy
      · intro y b hb
        obtain ⟨h1, h2, h3⟩ := h.some y b hb
        refine ⟨by simp [h1], h2, ?_⟩
        intro d' hd' hy
        rcases List.mem_append.mp hd' with hk | hk
        · exact h3 d' hk hy
        · simp only [List.mem_singleton] at hk; subst hk
          have e : b = old := by rw [← hy, hold] at hb; exact (Option.some.inj hb).symm
          subst e
          have := hK b h1
          exact ⟨by grind, fun _ => by omega⟩
  · rename_i hnone
    constructor
    · intro y hy
      by_cases e : y = yearOf d
      · simp [e] at hy
      · simp only [e, if_false] at hy
        intro d' hd'
        rcases List.mem_append.mp hd' with hk | hk
        · exact h.none y hy d' hk
        · simp only [List.mem_singleton] at hk; subst hk; exact fun e' => e e'.symm
    · intro y b hb
      by_cases e : y = yearOf d
      · simp only [e, if_true, Option.some.injEq] at hb; subst hb; subst e
        refine ⟨by simp, rfl, ?_⟩
        intro d' hd' hy
        rcases List.mem_append.mp hd' with hk | hk
        · exact absurd hy (h.none _ hnone d' hk)
        · simp only [List.mem_singleton] at hk; subst hk
          exact ⟨by grind, fun _ => by omega⟩
      · simp only [e, if_false] at hb
        obtain ⟨h1, h2, h3⟩ := h.some y b hb
        refine ⟨by simp [h1], h2, ?_⟩
        intro d' hd' hy
        rcases List.mem_append.mp hd' with hk | hk
        · exact h3 d' hk hy
        · simp only [List.mem_singleton] at hk; subst hk; exact absurd hy.symm e

theorem fold_yearStep_inv {yearOf : Int → Int} {total : Int → Rat} (K R : List Int)
    (hD : (K ++ R).Pairwise (fun a b => a < b)) (m : YMap) (h : YearInv yearOf total K m) :
    YearInv yearOf total (K ++ R) (R.foldl (yearStep yearOf total) m) := by
  induction R generalizing K m with
  | nil => simpa using h
  | cons d R' ih =>
    have hp := List.pairwise_append.mp hD
    have hK : ∀ k ∈ K, k < d := fun k hk => hp.2.2 k hk d (by simp)
    have e : K ++ d :: R' = (K ++ [d]) ++ R' := by simp
    simp only [List.foldl_cons]
    rw [e]
    exact ih (K ++ [d]) (by rw [← e]; exact hD) _ (yearStep_inv hK h)

theorem yearly_inv (yearOf : Int → Int) (total : Int → Rat) {days : List Int} (hn : days.Nodup)
    {τ : List Int → List Int} (hτ : IsOrder τ) :
    YearInv yearOf total (sortDays (τ days)) { get := yearly yearOf total days τ } := by
  have hn' : (τ days).Nodup := (hτ days).nodup_iff.mpr hn
  have := fold_yearStep_inv (yearOf := yearOf) (total := total) [] (sortDays (τ days))
    (by simpa using sortDays_strict hn') { get := fun _ => none }
    ⟨by intro y _ d hd; simp at hd, by intro y b hb; cases hb⟩
  simpa [yearly] using this

/-! ### assembled facts about a completed run -/

theorem secWalk_isOrder {σ : List Nat → List Nat} (h : IsOrder σ) : IsOrder (secWalk σ) :=
  fun l => (sortNats_perm (σ l)).trans (h l)


/-- Facts about a completed run, assembled once. -/
theorem run_facts {yearOf : Int → Int} {rows : List Row} {σ : List Nat → List Nat} {τ : List Int → List Int}
    (hwf : WF rows) (hσ : IsOrder σ) (hτ : IsOrder τ) {c : Result}
    (h : calcTotalCosts yearOf rows σ τ = .ok c) :
    ∃ st, Inv1 rows st ∧ Inv2 rows st (sortDays (τ st.days)) (loop2 st (secWalk σ) τ) ∧
      c = { secs := st.secs, days := sortDays (τ st.days), tab := (loop2 st (secWalk σ) τ).tab,
            yearly := yearly yearOf (loop2 st (secWalk σ) τ).tab.total st.days τ, notes := st.notes } := by
  unfold calcTotalCosts at h
  split at h
  · cases h
  · rename_i st hst
    have inv : Inv1 rows st := by simpa using loop1_inv (P := []) rows Inv1.init hst
    simp only [Except.ok.injEq] at h
    exact ⟨st, inv, loop2_inv hwf inv (secWalk_isOrder hσ) hτ, h.symm⟩

theorem mem_dedup {α : Type} [DecidableEq α] (l : List α) (x : α) : x ∈ dedup l ↔ x ∈ l := by
  induction l with
  | nil => simp [dedup]
  | cons a as ih =>
    unfold dedup
    split
    · rename_i ha
      rw [ih]; constructor
      · exact fun h => by simp [h]
      · intro h; rcases List.mem_cons.mp h with e | e
        · exact e ▸ ha
        · exact e
    · simp [ih]


/-- `Figure` determines the figure, and `figure` computes it. -/
theorem Figure_unique {rows : List Row} {s : Nat} {d : Int} {v w : Rat}
    (hv : Figure rows s d v) (hw : Figure rows s d w) : v = w := by
  rcases hv with ⟨_, h1, h2⟩ | ⟨hn, h1⟩ <;> rcases hw with ⟨hne, h3, h4⟩ | ⟨hn', h3⟩
  · have := h2 w h3; have := h4 v h1; grind
  · exact absurd hn' ‹_›
  · exact absurd hn hne
  · rw [h1, h3]

theorem figure_spec (rows : List Row) (s : Nat) (d : Int) : Figure rows s d (figure rows s d) := by
  unfold figure Figure
  cases ht : today rows s d with
  | nil => exact Or.inr ⟨rfl, rfl⟩
  | cons p ps =>
    left
    refine ⟨by simp, ?_⟩
    have key : ∀ (l : List Rat) (a : Rat), (l.foldl max a = a ∨ l.foldl max a ∈ l) ∧ a ≤ l.foldl max a ∧
        ∀ x ∈ l, x ≤ l.foldl max a := by
      intro l
      induction l with
      | nil => intro a; simp
      | cons x xs ih =>
        intro a
        obtain ⟨h1, h2, h3⟩ := ih (max a x)
        simp only [List.foldl_cons]
        refine ⟨?_, by grind, ?_⟩
        · rcases h1 with e | e
          · by_cases hax : a ≤ x
            · right; rw [e]; have : max a x = x := by grind
              simp [this]
            · left; rw [e]; grind
          · right; simp [e]
        · intro y hy
          rcases List.mem_cons.mp hy with e | e
          · subst e; grind
          · exact h3 y e
    obtain ⟨h1, h2, h3⟩ := key ps p
    constructor
    · rcases h1 with e | e
      · simp [e]
      · simp [e]
    · intro x hx
      rcases List.mem_cons.mp hx with e | e
      · subst e; exact h2
      · exact h3 x e

end Acb.Costs
