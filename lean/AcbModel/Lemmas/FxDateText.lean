/-
  The `YYYY-MM-DD` date text of the rates file satisfies the laws the C14 theorems need.
-/
import AcbModel.Fx.CacheFile
import AcbModel.Lemmas.FxCivil
namespace Acb.Fx

theorem digitVal_digitChar : ∀ k, k < 10 → digitVal? (digitChar k) = some k := by decide

theorem digitChar_ne_sep : ∀ k, k < 10 → digitChar k ≠ ',' ∧ digitChar k ≠ '\n' ∧ digitChar k ≠ '-' := by
  decide

theorem parseDigits_pad2 (n : Nat) (h : n < 100) : parseDigits (pad2 n) = some n := by
  have a := digitVal_digitChar (n / 10 % 10) (by omega)
  have b := digitVal_digitChar (n % 10) (by omega)
  simp only [parseDigits, pad2, List.foldl_cons, List.foldl_nil, a, b, Option.some.injEq]
  omega

theorem parseDigits_pad4 (n : Nat) (h : n < 10000) : parseDigits (pad4 n) = some n := by
  have a := digitVal_digitChar (n / 1000 % 10) (by omega)
  have b := digitVal_digitChar (n / 100 % 10) (by omega)
  have c := digitVal_digitChar (n / 10 % 10) (by omega)
  have d := digitVal_digitChar (n % 10) (by omega)
  simp only [parseDigits, pad4, List.foldl_cons, List.foldl_nil, a, b, c, d, Option.some.injEq]
  omega

theorem year_length (y : Int) :
    civilYearStart (y + 1) - civilYearStart y = 365 ∨ civilYearStart (y + 1) - civilYearStart y = 366 := by
  unfold civilYearStart; omega

theorem monthStart_values (leap : Bool) :
    monthStart leap 1 = 0 ∧ monthStart leap 13 = 365 + (if leap then 1 else 0) := by
  cases leap <;> decide

/-- a month has at most 31 days -/
theorem month_length (leap : Bool) (m : Int) (h1 : 1 ≤ m) (h2 : m ≤ 12) :
    monthStart leap (m + 1) - monthStart leap m ≤ 31 := by
  have : m = 1 ∨ m = 2 ∨ m = 3 ∨ m = 4 ∨ m = 5 ∨ m = 6 ∨ m = 7 ∨ m = 8 ∨ m = 9 ∨ m = 10 ∨ m = 11 ∨ m = 12 := by
    omega
  rcases this with rfl | rfl | rfl | rfl | rfl | rfl | rfl | rfl | rfl | rfl | rfl | rfl <;>
    cases leap <;> decide

/-- the month found for a day of the year contains it -/
theorem monthOf_spec (leap : Bool) (doy : Int) (h0 : 0 ≤ doy) (h1 : doy < 365 + (if leap then 1 else 0)) :
    1 ≤ monthOf leap doy ∧ monthOf leap doy ≤ 12 ∧
    monthStart leap (monthOf leap doy) ≤ doy ∧ doy < monthStart leap (monthOf leap doy + 1) := by
  obtain ⟨v1, v13⟩ := monthStart_values leap
  unfold monthOf
  split
  · exact ⟨by decide, by decide, by omega, by simpa using ‹doy < monthStart leap 2›⟩
  split
  · exact ⟨by decide, by decide, by omega, by simpa using ‹doy < monthStart leap 3›⟩
  split
  · exact ⟨by decide, by decide, by omega, by simpa using ‹doy < monthStart leap 4›⟩
  split
  · exact ⟨by decide, by decide, by omega, by simpa using ‹doy < monthStart leap 5›⟩
  split
  · exact ⟨by decide, by decide, by omega, by simpa using ‹doy < monthStart leap 6›⟩
  split
  · exact ⟨by decide, by decide, by omega, by simpa using ‹doy < monthStart leap 7›⟩
  split
  · exact ⟨by decide, by decide, by omega, by simpa using ‹doy < monthStart leap 8›⟩
  split
  · exact ⟨by decide, by decide, by omega, by simpa using ‹doy < monthStart leap 9›⟩
  split
  · exact ⟨by decide, by decide, by omega, by simpa using ‹doy < monthStart leap 10›⟩
  split
  · exact ⟨by decide, by decide, by omega, by simpa using ‹doy < monthStart leap 11›⟩
  split
  · exact ⟨by decide, by decide, by omega, by simpa using ‹doy < monthStart leap 12›⟩
  · refine ⟨by decide, by decide, by omega, ?_⟩
    show doy < monthStart leap 13
    omega

/-- month and day of a day of the year are in range -/
theorem month_day_range (leap : Bool) (doy : Int) (h0 : 0 ≤ doy) (h1 : doy < 365 + (if leap then 1 else 0)) :
    1 ≤ monthOf leap doy ∧ monthOf leap doy ≤ 12 ∧
    1 ≤ doy - monthStart leap (monthOf leap doy) + 1 ∧ doy - monthStart leap (monthOf leap doy) + 1 ≤ 31 := by
  obtain ⟨a, b, c, d⟩ := monthOf_spec leap doy h0 h1
  have := month_length leap _ a b
  exact ⟨a, b, by omega, by omega⟩

theorem ymd_facts (j : Int) (hd : CivilDom j) :
    daysFromCivil (civilYMD j).1 (civilYMD j).2.1 (civilYMD j).2.2 = j ∧
    0 ≤ (civilYMD j).1 ∧ (civilYMD j).1 < 10000 ∧
    1 ≤ (civilYMD j).2.1 ∧ (civilYMD j).2.1 ≤ 12 ∧ 1 ≤ (civilYMD j).2.2 ∧ (civilYMD j).2.2 ≤ 31 := by
  have hb := civil_bounds j
  have hl := year_length (civilYearOf j)
  have hy : 0 ≤ civilYearOf j ∧ civilYearOf j < 10000 := by
    obtain ⟨h1, h2⟩ := hd
    constructor
    · by_cases h : civilYearOf j < 0
      · have := civilYearStart_mono (show civilYearOf j + 1 ≤ 0 by omega); omega
      · omega
    · by_cases h : 10000 ≤ civilYearOf j
      · have := civilYearStart_mono h; omega
      · omega
  have hr := month_day_range (civilLeap (civilYearOf j)) (j - civilYearStart (civilYearOf j)) (by omega) (by
    unfold civilLeap
    rcases hl with hl | hl
    · have : ¬ (civilYearStart (civilYearOf j + 1) - civilYearStart (civilYearOf j) = 366) := by omega
      simp [this]; omega
    · simp [hl]; omega)
  simp only [civilYMD, daysFromCivil]
  refine ⟨by omega, hy.1, hy.2, hr.1, hr.2.1, hr.2.2.1, hr.2.2.2⟩

/-- **The date text of the rates file reads back**, for every day of the years 0000-9999. -/
theorem civilDateText_ok : civilDateText.OK CivilDom := by
  have shape : ∀ j, civilRenderDate j =
      pad4 (civilYMD j).1.toNat ++ '-' :: pad2 (civilYMD j).2.1.toNat ++ '-' :: pad2 (civilYMD j).2.2.toNat := by
    intro j; rfl
  refine ⟨?_, ?_, ?_⟩
  · intro j hd
    obtain ⟨h1, h2, h3, h4, h5, h6, h7⟩ := ymd_facts j hd
    show civilParseDate (civilRenderDate j) = some j
    rw [shape]
    have py := parseDigits_pad4 (civilYMD j).1.toNat (by omega)
    have pm := parseDigits_pad2 (civilYMD j).2.1.toNat (by omega)
    have pd := parseDigits_pad2 (civilYMD j).2.2.toNat (by omega)
    have ey : ((civilYMD j).1.toNat : Int) = (civilYMD j).1 := by omega
    have em : ((civilYMD j).2.1.toNat : Int) = (civilYMD j).2.1 := by omega
    have ed : ((civilYMD j).2.2.toNat : Int) = (civilYMD j).2.2 := by omega
    simp only [pad4, pad2, List.cons_append, List.nil_append, civilParseDate] at py pm pd ⊢
    simp only [py, pm, pd, ey, em, ed, h1, if_true]
  · intro j hd
    obtain ⟨_, h2, h3, h4, h5, h6, h7⟩ := ymd_facts j hd
    show ',' ∉ civilRenderDate j
    rw [shape]
    simp only [pad4, pad2, List.cons_append, List.nil_append, List.mem_cons, List.not_mem_nil, or_false, not_or]
    have := fun k hk => (digitChar_ne_sep k hk).1
    refine ⟨?_, ?_, ?_, ?_, by decide, ?_, ?_, by decide, ?_, ?_⟩ <;>
      exact fun h => this _ (by omega) h.symm
  · intro j hd
    show '\n' ∉ civilRenderDate j
    rw [shape]
    simp only [pad4, pad2, List.cons_append, List.nil_append, List.mem_cons, List.not_mem_nil, or_false, not_or]
    have := fun k hk => (digitChar_ne_sep k hk).2.1
    refine ⟨?_, ?_, ?_, ?_, by decide, ?_, ?_, by decide, ?_, ?_⟩ <;>
      exact fun h => this _ (by omega) h.symm

end Acb.Fx
