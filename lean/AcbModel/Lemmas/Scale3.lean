/-
  Split neutrality (C15), part 3: the arms of `delta_for_tx`, one loop iteration and the tracker
  update under scaling.
-/
import AcbModel.Lemmas.Scale2
namespace Acb

def sflOptScaled (f : Rat) : Option SflInfo → Option SflInfo → Prop
  | none, none => True
  | some a, some b => sflInfoScaled f a b
  | _, _ => False

structure ArmScaled (f : Rat) (o o' : ArmOut) : Prop where
  post : o'.post = scaleStatus f o.post
  gain : o'.gain = o.gain
  sfl : sflOptScaled f o.sfl o'.sfl
  inj : o'.inj = o.inj

def ArmResScaled (f : Rat) : Except Failure ArmOut → Except Failure ArmOut → Prop
  | .error e, .error e' => e = e'
  | .ok o, .ok o' => ArmScaled f o o'
  | _, _ => False

/-- later splits must allow fractional results (C15's hypothesis) -/
def NoIntOnly (tx : Tx) : Prop := ∀ post pre io, tx.act = .split post pre io → io = false

theorem perShareAcb_scaled {f : Rat} (hf : 0 < f) (pre : Status) :
    perShareAcb (scaleStatus f pre) = (perShareAcb pre).map (· / f) := by
  unfold perShareAcb scaleStatus
  cases pre.acb with
  | none => simp
  | some a =>
    simp only [Option.map_some, Option.some.injEq]
    have : (0 < pre.shares * f) ↔ (0 < pre.shares) := pos_scale hf
    by_cases hs : 0 < pre.shares
    · simp only [hs, this.mpr hs, if_true]; grind
    · have : ¬ 0 < pre.shares * f := fun h => hs (this.mp h)
      simp [hs, this]; grind

theorem armSell_scaled {f : Rat} (hf : 0 < f) {t t' : Tracker} (ht : TrackerScaled f t t')
    (tx : Tx) (pre : Status) (sh px comm rate : Rat) (crate : Option Rat) (spec : Option (Rat × Bool))
    (day : Int) (idx : Nat) (post pre' : Rat)
    (hfac : f = splitFactor post pre') (As : List Aff) (hn : As.Nodup)
    (p0 : List Tx) (hp0 : ∀ x ∈ p0, x.aff ∈ As ∧ x.settle ≤ day)
    (p1 p1' : List Tx) (hrel : RowsRel f p1 p1') (hp1 : ∀ x ∈ p1, x.aff ∈ As) (future : List Tx) :
    ArmResScaled f (armSell t tx pre sh px comm rate crate spec (p1 ++ p0) future)
      (armSell t' (restateTx f tx) (scaleStatus f pre) (sh * f) (px / f) comm rate crate spec
        (p1' ++ splitRows day idx post pre' As ++ p0) (future.map (restateTx f))) := by
  have hfne : f ≠ 0 := by grind
  unfold armSell
  have e1 : (scaleStatus f pre).shares - sh * f = (pre.shares - sh) * f := by simp [scaleStatus]; grind
  have e2 : (scaleStatus f pre).all - sh * f = (pre.all - sh) * f := by simp [scaleStatus]; grind
  rw [e1, e2]
  by_cases c1 : pre.shares - sh < 0
  · simp [c1, (lt_zero_scale hf).mpr c1, ArmResScaled]
  · have c1' : ¬ (pre.shares - sh) * f < 0 := fun h => c1 ((lt_zero_scale hf).mp h)
    simp only [c1, c1', if_false]
    by_cases c2 : pre.all - sh < 0
    · simp [c2, (lt_zero_scale hf).mpr c2, ArmResScaled]
    · have c2' : ¬ (pre.all - sh) * f < 0 := fun h => c2 ((lt_zero_scale hf).mp h)
      simp only [c2, c2', if_false]
      rw [perShareAcb_scaled hf]
      cases hp : perShareAcb pre with
      | none =>
        simp only [Option.map_none, ArmResScaled]
        exact ⟨by simp [scaleStatus], rfl, by simp [sflOptScaled], rfl⟩
      | some aps =>
        simp only [Option.map_some]
        have epay : px / f * (sh * f) * rate = px * sh * rate := by grind
        have ecost : aps / f * (sh * f) = aps * sh := by grind
        have eacb : (pre.shares - sh) * f * (aps / f) = (pre.shares - sh) * aps := by grind
        rw [epay, ecost, eacb]
        by_cases hg : px * sh * rate - comm * commRate rate crate - aps * sh < 0
        · simp only [hg, if_true]
          have hd := deltaSflInfo_scaled hf ht tx sh spec (px * sh * rate - comm * commRate rate crate - aps * sh)
            day idx post pre' hfac As hn p0 hp0 p1 p1' hrel hp1 future
          generalize deltaSflInfo t tx sh spec (px * sh * rate - comm * commRate rate crate - aps * sh) (p1 ++ p0) future = A at hd ⊢
          generalize deltaSflInfo t' (restateTx f tx) (sh * f) spec (px * sh * rate - comm * commRate rate crate - aps * sh)
            (p1' ++ splitRows day idx post pre' As ++ p0) (future.map (restateTx f)) = B at hd ⊢
          cases A with
          | error e =>
            cases B with
            | error e' => simpa [ArmResScaled, DsiResScaled] using hd
            | ok o => cases o <;> simp [DsiResScaled] at hd
          | ok o =>
            cases B with
            | error e' => cases o <;> simp [DsiResScaled] at hd
            | ok o' =>
              cases o with
              | none =>
                cases o' with
                | some _ => simp [DsiResScaled] at hd
                | none =>
                  simp only [ArmResScaled]
                  exact ⟨by simp [scaleStatus], rfl, by simp [sflOptScaled], rfl⟩
              | some p =>
                cases o' with
                | none => simp [DsiResScaled] at hd
                | some p' =>
                  obtain ⟨i, adj⟩ := p
                  obtain ⟨i', adj'⟩ := p'
                  obtain ⟨hi, hadj⟩ : sflInfoScaled f i i' ∧ adj' = adj := hd
                  simp only [ArmResScaled]
                  exact ⟨by simp [scaleStatus], by rw [hi.1], by simpa [sflOptScaled] using hi, hadj⟩
        · simp only [hg, if_false]
          cases spec with
          | some _ => simp [ArmResScaled]
          | none =>
            simp only [Option.isSome_none, Bool.false_eq_true, if_false, ArmResScaled]
            exact ⟨by simp [scaleStatus], rfl, by simp [sflOptScaled], rfl⟩

end Acb
