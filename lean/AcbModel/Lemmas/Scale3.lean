/-
  Split neutrality (C15), part 3: the arms of `delta_for_tx`, one loop iteration and the tracker
  update under scaling.
-/
import AcbModel.Lemmas.Scale2
namespace Acb

def sflOptScaled (f : Rat) : Option SflInfo → Option SflInfo → Prop
  | none, none => True
  | some a, some b => sflInfoScaled f a b
  | _, _ => False

structure ArmScaled (f : Rat) (o o' : ArmOut) : Prop where
  post : o'.post = scaleStatus f o.post
  gain : o'.gain = o.gain
  sfl : sflOptScaled f o.sfl o'.sfl
  inj : o'.inj = o.inj

def ArmResScaled (f : Rat) : Except Failure ArmOut → Except Failure ArmOut → Prop
  | .error e, .error e' => e = e'
  | .ok o, .ok o' => ArmScaled f o o'
  | _, _ => False

/-- later splits must allow fractional results (C15's hypothesis) -/
def NoIntOnly (tx : Tx) : Prop := ∀ post pre io, tx.act = .split post pre io → io = false

theorem perShareAcb_scaled {f : Rat} (hf : 0 < f) (pre : Status) :
    perShareAcb (scaleStatus f pre) = (perShareAcb pre).map (· / f) := by
  unfold perShareAcb scaleStatus
  cases pre.acb with
  | none => simp
  | some a =>
    simp only [Option.map_some, Option.some.injEq]
    have : (0 < pre.shares * f) ↔ (0 < pre.shares) := pos_scale hf
    by_cases hs : 0 < pre.shares
    · simp only [hs, this.mpr hs, if_true]; grind
    · have : ¬ 0 < pre.shares * f := fun h => hs (this.mp h)
      simp [hs, this]; grind

theorem armSell_scaled {f : Rat} (hf : 0 < f) {t t' : Tracker} (ht : TrackerScaled f t t')
    (tx : Tx) (pre : Status) (sh px comm rate : Rat) (crate : Option Rat) (spec : Option (Rat × Bool))
    (day : Int) (idx : Nat) (post pre' : Rat)
    (hfac : f = splitFactor post pre') (As : List Aff) (hn : As.Nodup)
    (p0 : List Tx) (hp0 : ∀ x ∈ p0, x.aff ∈ As ∧ x.settle ≤ day)
    (p1 p1' : List Tx) (hrel : RowsRel f p1 p1') (hp1 : ∀ x ∈ p1, x.aff ∈ As) (future : List Tx) :
    ArmResScaled f (armSell t tx pre sh px comm rate crate spec (p1 ++ p0) future)
      (armSell t' (restateTx f tx) (scaleStatus f pre) (sh * f) (px / f) comm rate crate spec
        (p1' ++ splitRows day idx post pre' As ++ p0) (future.map (restateTx f))) := by
  have hfne : f ≠ 0 := by grind
  unfold armSell
  have e1 : (scaleStatus f pre).shares - sh * f = (pre.shares - sh) * f := by simp [scaleStatus]; grind
  have e2 : (scaleStatus f pre).all - sh * f = (pre.all - sh) * f := by simp [scaleStatus]; grind
  rw [e1, e2]
  by_cases c1 : pre.shares - sh < 0
  · simp [c1, (lt_zero_scale hf).mpr c1, ArmResScaled]
  · have c1' : ¬ (pre.shares - sh) * f < 0 := fun h => c1 ((lt_zero_scale hf).mp h)
    simp only [c1, c1', if_false]
    by_cases c2 : pre.all - sh < 0
    · simp [c2, (lt_zero_scale hf).mpr c2, ArmResScaled]
    · have c2' : ¬ (pre.all - sh) * f < 0 := fun h => c2 ((lt_zero_scale hf).mp h)
      simp only [c2, c2', if_false]
      rw [perShareAcb_scaled hf]
      cases hp : perShareAcb pre with
      | none =>
        simp only [Option.map_none]
        cases hsp : spec.isSome
        · simp only [Bool.false_eq_true, if_false, ArmResScaled]
          exact ⟨by simp [scaleStatus], rfl, by simp [sflOptScaled], rfl⟩
        · simp [ArmResScaled]
      | some aps =>
        simp only [Option.map_some]
        have epay : px / f * (sh * f) * rate = px * sh * rate := by grind
        have ecost : aps / f * (sh * f) = aps * sh := by grind
        have eacb : (pre.shares - sh) * f * (aps / f) = (pre.shares - sh) * aps := by grind
        rw [epay, ecost, eacb]
        by_cases hg : px * sh * rate - comm * commRate rate crate - aps * sh < 0
        · simp only [hg, if_true]
          have hd := deltaSflInfo_scaled hf ht tx sh spec (px * sh * rate - comm * commRate rate crate - aps * sh)
            day idx post pre' hfac As hn p0 hp0 p1 p1' hrel hp1 future
          generalize deltaSflInfo t tx sh spec (px * sh * rate - comm * commRate rate crate - aps * sh) (p1 ++ p0) future = A at hd ⊢
          generalize deltaSflInfo t' (restateTx f tx) (sh * f) spec (px * sh * rate - comm * commRate rate crate - aps * sh)
            (p1' ++ splitRows day idx post pre' As ++ p0) (future.map (restateTx f)) = B at hd ⊢
          cases A with
          | error e =>
            cases B with
            | error e' => simpa [ArmResScaled, DsiResScaled] using hd
            | ok o => cases o <;> simp [DsiResScaled] at hd
          | ok o =>
            cases B with
            | error e' => cases o <;> simp [DsiResScaled] at hd
            | ok o' =>
              cases o with
              | none =>
                cases o' with
                | some _ => simp [DsiResScaled] at hd
                | none =>
                  simp only [ArmResScaled]
                  exact ⟨by simp [scaleStatus], rfl, by simp [sflOptScaled], rfl⟩
              | some p =>
                cases o' with
                | none => simp [DsiResScaled] at hd
                | some p' =>
                  obtain ⟨i, adj⟩ := p
                  obtain ⟨i', adj'⟩ := p'
                  obtain ⟨hi, hadj⟩ : sflInfoScaled f i i' ∧ adj' = adj := hd
                  simp only [ArmResScaled]
                  exact ⟨by simp [scaleStatus], by rw [hi.1], by simpa [sflOptScaled] using hi, hadj⟩
        · simp only [hg, if_false]
          cases spec with
          | some _ => simp [ArmResScaled]
          | none =>
            simp only [Option.isSome_none, Bool.false_eq_true, if_false, ArmResScaled]
            exact ⟨by simp [scaleStatus], rfl, by simp [sflOptScaled], rfl⟩

end Acb

namespace Acb

/-! ### the tracker through its observables -/

def Tracker.acbOf (t : Tracker) (a : Aff) : Option Rat := ((t.m a).getD (defaultStatus a)).acb

theorem nextPre_eq (t : Tracker) (a : Aff) :
    t.nextPre a = { shares := t.bal a, all := t.latestAll, acb := t.acbOf a } := by
  unfold Tracker.nextPre Tracker.bal Tracker.acbOf
  cases h : t.m a with
  | none =>
    simp only [Option.getD_none]
    split
    · rename_i he; simp_all [defaultStatus]
    · simp [defaultStatus]
  | some s =>
    simp only [Option.getD_some]
    split
    · rename_i he; cases s; simp_all
    · rfl

theorem TrackerScaled.of_obs {f : Rat} {t t' : Tracker} (hb : ∀ a, t'.bal a = t.bal a * f)
    (hall : t'.latestAll = t.latestAll * f) (hacb : ∀ a, t'.acbOf a = t.acbOf a)
    (hpost : t'.latestPostAll = t.latestPostAll * f) : TrackerScaled f t t' :=
  ⟨fun a => by rw [nextPre_eq, nextPre_eq, hb, hall, hacb]; rfl, hpost⟩

theorem TrackerScaled.all {f : Rat} {t t' : Tracker} (h : TrackerScaled f t t') (a : Aff) :
    t'.latestAll = t.latestAll * f := by
  rw [← nextPre_all t' a, ← nextPre_all t a, h.pre a]; rfl

theorem TrackerScaled.acbOf {f : Rat} {t t' : Tracker} (h : TrackerScaled f t t') (a : Aff) :
    t'.acbOf a = t.acbOf a := by
  have := h.pre a
  rw [nextPre_eq, nextPre_eq] at this
  simp only [scaleStatus] at this
  exact (Status.mk.injEq .. ▸ this).2.2

theorem setLatest_ok {t : Tracker} {a : Aff} {v : Status} {t2 : Tracker} (h : t.setLatest a v = .ok t2) :
    a.registered = v.acb.isNone ∧ v.all = v.shares + t.latestAll - t.bal a ∧
      t2 = { m := upd t.m a (some v), latestAll := v.all, latestAff := a } := by
  unfold Tracker.setLatest at h
  simp only at h
  split at h
  · rename_i h1
    split at h
    · rename_i h2
      simp only [Except.ok.injEq] at h
      exact ⟨h1, h2, h.symm⟩
    · cases h
  · cases h

theorem setLatest_iff (t : Tracker) (a : Aff) (v : Status) :
    t.setLatest a v =
      if a.registered = v.acb.isNone then
        if v.all = v.shares + t.latestAll - t.bal a then
          .ok { m := upd t.m a (some v), latestAll := v.all, latestAff := a }
        else .error (.panic .trackerAllAssert)
      else .error (.panic .trackerAcbAssert) := rfl

theorem bal_set (m : Aff → Option Status) (a : Aff) (v : Status) (l : Rat) (b x : Aff) :
    (Tracker.bal { m := upd m a (some v), latestAll := l, latestAff := b } x) =
      if x = a then v.shares else Tracker.bal { m := m, latestAll := l, latestAff := b } x := by
  unfold Tracker.bal upd; by_cases hx : x = a <;> simp [hx]

theorem acbOf_set (m : Aff → Option Status) (a : Aff) (v : Status) (l : Rat) (b x : Aff) :
    (Tracker.acbOf { m := upd m a (some v), latestAll := l, latestAff := b } x) =
      if x = a then v.acb else Tracker.acbOf { m := m, latestAll := l, latestAff := b } x := by
  unfold Tracker.acbOf upd; by_cases hx : x = a <;> simp [hx]

theorem setLatest_scaled {f : Rat} (hf : 0 < f) {t t' : Tracker} (ht : TrackerScaled f t t') (a : Aff) (v : Status) :
    match t.setLatest a v, t'.setLatest a (scaleStatus f v) with
    | .ok t2, .ok t2' => TrackerScaled f t2 t2'
    | .error e, .error e' => e = e'
    | _, _ => False := by
  rw [setLatest_iff, setLatest_iff]
  have hfne : f ≠ 0 := by grind
  have e1 : (scaleStatus f v).acb = v.acb := rfl
  rw [e1]
  by_cases h1 : a.registered = v.acb.isNone
  · simp only [h1, if_true]
    have hc : ((scaleStatus f v).all = (scaleStatus f v).shares + t'.latestAll - t'.bal a) ↔
        (v.all = v.shares + t.latestAll - t.bal a) := by
      rw [ht.all a, ht.bal a]; simp only [scaleStatus]
      constructor
      · intro h
        have : (v.all - (v.shares + t.latestAll - t.bal a)) * f = 0 := by grind
        rcases Rat.mul_eq_zero.mp this with h | h
        · grind
        · exact absurd h hfne
      · intro h; rw [h]; grind
    by_cases h2 : v.all = v.shares + t.latestAll - t.bal a
    · rw [if_pos h2, if_pos (hc.mpr h2)]
      apply TrackerScaled.of_obs
      · intro x
        have := ht.bal x
        unfold Tracker.bal at this ⊢
        unfold upd
        by_cases hx : x = a
        · simp [hx, scaleStatus]
        · simpa [hx] using this
      · rfl
      · intro x
        have := ht.acbOf x
        unfold Tracker.acbOf at this ⊢
        unfold upd
        by_cases hx : x = a
        · simp [hx, scaleStatus]
        · simpa [hx] using this
      · simp [Tracker.latestPostAll, upd, scaleStatus]
    · have : ¬ ((scaleStatus f v).all = (scaleStatus f v).shares + t'.latestAll - t'.bal a) := fun h => h2 (hc.mp h)
      rw [if_neg h2, if_neg this]
  · simp only [h1, if_false]

end Acb

namespace Acb

/-! ### the other arms -/

/-- the row of the run with the split that corresponds to row `x`: the restated input row, or the
    very same generated SfLA row -/
def RowRel (f : Rat) (x x' : Tx) : Prop := x' = restateTx f x ∨ (IsSflaRow x ∧ x' = x)

theorem RowRel.aff {f : Rat} {x x' : Tx} (h : RowRel f x x') : x'.aff = x.aff := by
  rcases h with rfl | ⟨_, rfl⟩ <;> rfl

theorem sanityCheck_scaled {f : Rat} (hf : 0 < f) (pre : Status) (a : Aff) :
    sanityCheck (scaleStatus f pre) a = sanityCheck pre a := by
  unfold sanityCheck
  have : ((scaleStatus f pre).all < (scaleStatus f pre).shares) ↔ (pre.all < pre.shares) := by
    simp only [scaleStatus]
    constructor
    · intro h
      have : (pre.all - pre.shares) * f < 0 := by grind
      have := (lt_zero_scale hf).mp this; grind
    · intro h
      have : (pre.all - pre.shares) * f < 0 := (lt_zero_scale hf).mpr (by grind)
      grind
  have e : (scaleStatus f pre).acb = pre.acb := rfl
  rw [e]
  by_cases h : pre.all < pre.shares
  · simp [h, this.mpr h]
  · have : ¬ (scaleStatus f pre).all < (scaleStatus f pre).shares := fun h' => h (this.mp h')
    simp [h, this]

theorem armBuy_scaled {f : Rat} (hf : 0 < f) (pre : Status) (sh px comm rate : Rat) (crate : Option Rat) :
    ArmScaled f (armBuy pre sh px comm rate crate) (armBuy (scaleStatus f pre) (sh * f) (px / f) comm rate crate) := by
  have hfne : f ≠ 0 := by grind
  have e : px / f * (sh * f) * rate = px * sh * rate := by grind
  refine ⟨?_, rfl, by simp [armBuy, sflOptScaled], rfl⟩
  unfold armBuy scaleStatus
  simp only [e]
  congr 1 <;> grind

theorem armRoc_scaled {f : Rat} (hf : 0 < f) (reg : Bool) (pre : Status) (ps rate : Rat) :
    ArmResScaled f (armRoc reg pre ps rate) (armRoc reg (scaleStatus f pre) (ps / f) rate) := by
  have hfne : f ≠ 0 := by grind
  unfold armRoc
  have e : (scaleStatus f pre).acb = pre.acb := rfl
  have e2 : ps / f * (scaleStatus f pre).shares * rate = ps * pre.shares * rate := by
    simp only [scaleStatus]; grind
  rw [e, e2]
  cases pre.acb with
  | none => cases reg <;> simp [ArmResScaled]
  | some old =>
    cases reg
    · simp only [Bool.false_eq_true, if_false]
      by_cases h : old - ps * pre.shares * rate < 0
      · simp [h, ArmResScaled]
      · simp only [h, if_false, ArmResScaled]
        exact ⟨by simp [scaleStatus], rfl, by simp [sflOptScaled], rfl⟩
    · simp [ArmResScaled]

/-- an SfLA row, restated (`sh·f` shares at `ps/f`) or identical: the amount is the same -/
theorem armSfla_scaled {f : Rat} (hf : 0 < f) (reg : Bool) (pre : Status) (sh ps sh' ps' : Rat)
    (hamt : sh' * ps' = sh * ps) :
    ArmResScaled f (armSfla reg pre sh ps) (armSfla reg (scaleStatus f pre) sh' ps') := by
  unfold armSfla
  have e : (scaleStatus f pre).acb = pre.acb := rfl
  rw [e, hamt]
  cases pre.acb with
  | none => cases reg <;> simp [ArmResScaled]
  | some old =>
    cases reg
    · simp only [Bool.false_eq_true, if_false, ArmResScaled]
      exact ⟨by simp [scaleStatus], rfl, by simp [sflOptScaled], rfl⟩
    · simp [ArmResScaled]

theorem armSplit_scaled {f : Rat} (hf : 0 < f) (pre : Status) (post pre' : Rat) :
    ArmResScaled f (armSplit pre post pre' false) (armSplit (scaleStatus f pre) post pre' false) := by
  unfold armSplit
  simp only [Bool.false_eq_true, false_and, and_false, if_false]
  have e : (scaleStatus f pre).all + ((scaleStatus f pre).shares * splitFactor post pre' - (scaleStatus f pre).shares) =
      (pre.all + (pre.shares * splitFactor post pre' - pre.shares)) * f := by simp only [scaleStatus]; grind
  rw [e]
  by_cases h : pre.all + (pre.shares * splitFactor post pre' - pre.shares) < 0
  · simp [h, (lt_zero_scale hf).mpr h, ArmResScaled]
  · have : ¬ (pre.all + (pre.shares * splitFactor post pre' - pre.shares)) * f < 0 := fun h' => h ((lt_zero_scale hf).mp h')
    simp only [h, this, if_false, ArmResScaled]
    exact ⟨by simp only [scaleStatus, e]; congr 1; grind, rfl, by simp [sflOptScaled], rfl⟩

end Acb

namespace Acb

/-! ### one loop iteration -/

structure DeltaScaled (f : Rat) (d d' : Delta) : Prop where
  tx : RowRel f d.tx d'.tx
  pre : d'.pre = scaleStatus f d.pre
  post : d'.post = scaleStatus f d.post
  gain : d'.gain = d.gain
  sfl : sflOptScaled f d.sfl d'.sfl

def StepResScaled (f : Rat) :
    Except Failure (Delta × Tracker × List Tx) → Except Failure (Delta × Tracker × List Tx) → Prop
  | .error e, .error e' => e = e'
  | .ok (d, t2, inj), .ok (d', t2', inj') => DeltaScaled f d d' ∧ TrackerScaled f t2 t2' ∧ inj' = inj
  | _, _ => False

theorem arm_scaled {f : Rat} (hf : 0 < f) {t t' : Tracker} (ht : TrackerScaled f t t')
    (x : Tx) (hio : NoIntOnly x) (pre : Status)
    (day : Int) (idx : Nat) (post pre' : Rat)
    (hfac : f = splitFactor post pre') (As : List Aff) (hn : As.Nodup)
    (p0 : List Tx) (hp0 : ∀ y ∈ p0, y.aff ∈ As ∧ y.settle ≤ day)
    (p1 p1' : List Tx) (hrel : RowsRel f p1 p1') (hp1 : ∀ y ∈ p1, y.aff ∈ As) (future : List Tx) :
    ArmResScaled f (arm t x pre (p1 ++ p0) future)
      (arm t' (restateTx f x) (scaleStatus f pre) (p1' ++ splitRows day idx post pre' As ++ p0)
        (future.map (restateTx f))) := by
  unfold arm
  cases hx : x.act with
  | buy sh px comm rate crate =>
    simp only [restateTx, restateAct, hx, ArmResScaled]
    exact armBuy_scaled hf pre sh px comm rate crate
  | sell sh px comm rate crate spec =>
    simp only [restateTx, restateAct, hx]
    have := armSell_scaled hf ht x pre sh px comm rate crate spec day idx post pre' hfac As hn p0 hp0 p1 p1' hrel hp1 future
    simpa [restateTx, restateAct, hx] using this
  | roc ps rate =>
    simp only [restateTx, restateAct, hx]
    exact armRoc_scaled hf x.aff.registered pre ps rate
  | sfla sh ps =>
    simp only [restateTx, restateAct, hx]
    exact armSfla_scaled hf x.aff.registered pre sh ps (sh * f) (ps / f) (by grind)
  | split po pr io =>
    simp only [restateTx, restateAct, hx]
    have := hio po pr io hx
    subst this
    exact armSplit_scaled hf pre po pr

theorem arm_sfla_scaled {f : Rat} (hf : 0 < f) {t t' : Tracker} (x : Tx) (hs : IsSflaRow x) (pre : Status)
    (pa fa pb fb : List Tx) :
    ArmResScaled f (arm t x pre pa fa) (arm t' x (scaleStatus f pre) pb fb) := by
  obtain ⟨sh, ps, hx⟩ := hs
  unfold arm
  simp only [hx]
  exact armSfla_scaled hf x.aff.registered pre sh ps sh ps rfl

/-- shared tail of the two step lemmas -/
theorem stepRow_of_arm {f : Rat} (hf : 0 < f) {t t' : Tracker} (ht : TrackerScaled f t t')
    (x x' : Tx) (hr : RowRel f x x') (pa fa pb fb : List Tx)
    (harm : ArmResScaled f (arm t x (t.nextPre x.aff) pa fa) (arm t' x' (scaleStatus f (t.nextPre x.aff)) pb fb)) :
    StepResScaled f (stepRow t x pa fa) (stepRow t' x' pb fb) := by
  simp only [stepRow, deltaForTx, hr.aff, ht.pre x.aff, sanityCheck_scaled hf]
  cases hsc : sanityCheck (t.nextPre x.aff) x.aff with
  | error e => simp [StepResScaled]
  | ok u =>
    simp only
    generalize arm t x (t.nextPre x.aff) pa fa = A at harm ⊢
    generalize arm t' x' (scaleStatus f (t.nextPre x.aff)) pb fb = B at harm ⊢
    cases A with
    | error e =>
      cases B with
      | error e' => simp only [ArmResScaled] at harm; simp [StepResScaled, harm]
      | ok o' => simp [ArmResScaled] at harm
    | ok o =>
      cases B with
      | error e' => simp [ArmResScaled] at harm
      | ok o' =>
        simp only [ArmResScaled] at harm
        simp only
        have hs := setLatest_scaled hf ht x.aff o.post
        rw [harm.post]
        generalize t.setLatest x.aff o.post = S at hs ⊢
        generalize t'.setLatest x.aff (scaleStatus f o.post) = S' at hs ⊢
        cases S with
        | error e =>
          cases S' with
          | error e' => simp only at hs; simp [StepResScaled, hs]
          | ok _ => simp at hs
        | ok t2 =>
          cases S' with
          | error e' => simp at hs
          | ok t2' =>
            simp only at hs
            simp only [StepResScaled]
            exact ⟨⟨hr, rfl, rfl, harm.gain, harm.sfl⟩, hs, harm.inj⟩

end Acb
