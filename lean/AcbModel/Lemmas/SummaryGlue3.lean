/-
  C10's glue, part 3: the per-affiliate "last summarisable delta" table of `make_summary_txs`, the
  sort of the summary rows, and the reordering lemma that lets a sorted list of per-affiliate rows
  be read as the summary of the tracker for some order of the affiliates.
-/
import AcbModel.Lemmas.SummaryGlue2
import AcbModel.Lemmas.Prefix4
namespace Acb

/-! ### the table of last deltas -/

def pairStep (acc : List (Aff × Nat)) (p : Delta × Nat) : List (Aff × Nat) :=
  (p.1.tx.aff, p.2) :: acc.filter (fun q => q.1 != p.1.tx.aff)

/-- what the table holds after the deltas `P` -/
structure PairsInv (acc : List (Aff × Nat)) (P : List Delta) : Prop where
  nodup : (acc.map (·.1)).Nodup
  sound : ∀ a i, (a, i) ∈ acc → ∃ d, P[i]? = some d ∧ lastD P a = some d
  complete : ∀ a d, lastD P a = some d → a ∈ acc.map (·.1)

theorem PairsInv.step {acc : List (Aff × Nat)} {P : List Delta} (h : PairsInv acc P) (d : Delta) :
    PairsInv (pairStep acc (d, P.length)) (P ++ [d]) := by
  unfold pairStep
  simp only
  refine ⟨?_, ?_, ?_⟩
  · simp only [List.map_cons, List.nodup_cons]
    constructor
    · intro hm
      obtain ⟨q, hq, hq1⟩ := List.mem_map.mp hm
      simp only [List.mem_filter, bne_iff_ne, ne_eq] at hq
      exact hq.2 hq1
    · exact (h.nodup.sublist ((List.filter_sublist).map _))
  · intro a i hm
    simp only [List.mem_cons, Prod.mk.injEq, List.mem_filter, bne_iff_ne, ne_eq] at hm
    rcases hm with ⟨rfl, rfl⟩ | ⟨hm, hne⟩
    · exact ⟨d, by simp, by rw [lastD_snoc]; simp⟩
    · obtain ⟨e, he1, he2⟩ := h.sound a i hm
      have hi : i < P.length := by
        have := (List.getElem?_eq_some_iff.mp he1).1; exact this
      refine ⟨e, ?_, ?_⟩
      · rw [List.getElem?_append_left hi]; exact he1
      · rw [lastD_snoc]
        have : ¬ d.tx.aff = a := fun e' => hne e'.symm
        simp [this, he2]
  · intro a e he
    rw [lastD_snoc] at he
    simp only [List.map_cons, List.mem_cons]
    by_cases hda : d.tx.aff = a
    · left; exact hda.symm
    · right
      simp only [hda, if_false] at he
      obtain ⟨q, hq, hq1⟩ := List.mem_map.mp (h.complete a e he)
      refine List.mem_map.mpr ⟨q, ?_, hq1⟩
      simp only [List.mem_filter, bne_iff_ne, ne_eq]
      exact ⟨hq, fun e' => hda (by rw [← e', hq1])⟩

theorem pairs_foldl :
    ∀ (l P : List Delta) (acc : List (Aff × Nat)), PairsInv acc P →
      PairsInv ((l.zipIdx P.length).foldl pairStep acc) (P ++ l) := by
  intro l
  induction l with
  | nil => intro P acc h; simpa using h
  | cons d l ih =>
    intro P acc h
    simp only [List.zipIdx_cons, List.foldl_cons]
    have := ih (P ++ [d]) _ (h.step d)
    simpa using this

theorem insertPair_perm (x : Aff × Nat) : ∀ (l : List (Aff × Nat)), (insertPair x l).Perm (x :: l) := by
  intro l
  induction l with
  | nil => simp [insertPair]
  | cons y ys ih =>
    rw [insertPair]
    split
    · exact List.Perm.refl _
    · exact ((List.Perm.cons y ih).trans (List.Perm.swap x y ys))

theorem sortPairs_perm : ∀ (l : List (Aff × Nat)), (l.foldr insertPair []).Perm l := by
  intro l
  induction l with
  | nil => simp
  | cons x xs ih =>
    simp only [List.foldr_cons]
    exact (insertPair_perm x _).trans (List.Perm.cons x ih)

theorem lastD_nil (a : Aff) : lastD [] a = none := rfl

/-- **`lastIdxPerAff`** over the first `A.length` deltas: the affiliates that have a delta, once
    each, each with the index of its last delta. -/
theorem lastIdxPerAff_spec (A B : List Delta) (hne : A ≠ []) :
    PairsInv (lastIdxPerAff (A ++ B) (A.length - 1)) A := by
  have hpos : 0 < A.length := List.length_pos_iff.mpr hne
  have e1 : A.length - 1 + 1 = A.length := by omega
  unfold lastIdxPerAff
  simp only [e1, List.take_left]
  have h0 : PairsInv [] ([] : List Delta) := ⟨by simp, by simp, by simp [lastD_nil]⟩
  have h := pairs_foldl A [] [] h0
  simp only [List.length_nil, List.nil_append] at h
  have hperm := sortPairs_perm (List.foldl pairStep [] A.zipIdx)
  have hfold : (List.foldl (fun acc (x : Delta × Nat) =>
      (x.1.tx.aff, x.2) :: List.filter (fun p => p.1 != x.1.tx.aff) acc) [] A.zipIdx) =
      List.foldl pairStep [] A.zipIdx := rfl
  refine ⟨?_, ?_, ?_⟩
  · exact (List.Perm.nodup_iff (hperm.map _)).mpr h.nodup
  · intro a i hm
    exact h.sound a i (hperm.mem_iff.mp hm)
  · intro a d hd
    exact (hperm.map _).mem_iff.mpr (h.complete a d hd)

/-! ### sorting the summary rows -/

theorem insertTx_perm (x : Tx) : ∀ (l : List Tx), (insertTx x l).Perm (x :: l) := by
  intro l
  induction l with
  | nil => simp [insertTx]
  | cons y ys ih =>
    rw [insertTx]
    split
    · exact List.Perm.refl _
    · exact ((List.Perm.cons y ih).trans (List.Perm.swap x y ys))

theorem sortTx_perm : ∀ (l : List Tx), (l.foldr insertTx []).Perm l := by
  intro l
  induction l with
  | nil => simp
  | cons x xs ih =>
    simp only [List.foldr_cons]
    exact (insertTx_perm x _).trans (List.Perm.cons x ih)

/-- the sort of `make_summary_txs` (number the rows, sort, forget the numbers) permutes rows whose
    index is 0 -/
theorem sortedSummary_perm (R : List Tx) (h0 : ∀ t ∈ R, t.idx = 0) :
    (((R.zipIdx.map (fun (t, i) => { t with idx := i })).foldr insertTx []).map
      (fun t => { t with idx := 0 })).Perm R := by
  refine ((sortTx_perm _).map _).trans ?_
  rw [List.map_map]
  have : ∀ (l : List Tx) (k : Nat), (∀ t ∈ l, t.idx = 0) →
      List.map ((fun (t : Tx) => { t with idx := 0 }) ∘ fun (x : Tx × Nat) => { x.1 with idx := x.2 }) (l.zipIdx k) = l := by
    intro l
    induction l with
    | nil => intro k _; rfl
    | cons t l ih =>
      intro k h
      simp only [List.zipIdx_cons, List.map_cons, Function.comp]
      rw [show List.map ((fun (t : Tx) => { t with idx := 0 }) ∘ fun (x : Tx × Nat) => { x.1 with idx := x.2 }) (l.zipIdx (k + 1)) = l
        from ih (k + 1) (fun t ht => h t (by simp [ht]))]
      have ht := h t (by simp)
      congr 1
      cases t; simp only at ht; subst ht; rfl
  rw [this R 0 h0]

/-! ### reordering -/

/-- If `S` is a permutation of the rows `As.flatMap f`, every affiliate contributing at most one row,
    of its own, then `S` is `As'.flatMap f` for a reordering `As'` of `As`. -/
theorem flatMap_reorder (f : Aff → List Tx) (hown : ∀ a, ∀ y ∈ f a, y.aff = a)
    (hone : ∀ a, (f a).length ≤ 1) (As : List Aff) (hn : As.Nodup) (S : List Tx)
    (hp : S.Perm (As.flatMap f)) :
    ∃ As' : List Aff, As'.Nodup ∧ (∀ a, a ∈ As' ↔ a ∈ As) ∧ As'.flatMap f = S := by
  have hrow : ∀ y ∈ S, y.aff ∈ As ∧ f y.aff = [y] := by
    intro y hy
    have := hp.mem_iff.mp hy
    obtain ⟨a, ha, hya⟩ := List.mem_flatMap.mp this
    have e := hown a y hya
    subst e
    refine ⟨ha, ?_⟩
    have hl := hone y.aff
    match hfa : f y.aff, hya, hl with
    | [z], hz, _ => simp only [hfa, List.mem_singleton] at hya; rw [hya]
    | [], hz, _ => simp [hfa] at hya
    | _ :: _ :: _, _, hl' => simp [hfa] at hl
  -- affiliates of `S` are distinct
  have hnodupS : (S.map (·.aff)).Nodup := by
    have h1 : ((As.flatMap f).map (·.aff)).Nodup := by
      clear hp hrow
      induction As with
      | nil => simp
      | cons a As ih =>
        obtain ⟨ha, hn'⟩ := List.nodup_cons.mp hn
        simp only [List.flatMap_cons, List.map_append]
        refine List.nodup_append.mpr ⟨?_, ih hn', ?_⟩
        · have hl := hone a
          match hfa : f a, hl with
          | [], _ => simp
          | [z], _ => simp
          | _ :: _ :: _, hl' => simp [hfa] at hl
        · intro x hx y hy
          obtain ⟨u, hu, rfl⟩ := List.mem_map.mp hx
          obtain ⟨v, hv, rfl⟩ := List.mem_map.mp hy
          rw [hown a u hu]
          obtain ⟨b, hb, hvb⟩ := List.mem_flatMap.mp hv
          rw [hown b v hvb]
          intro e; subst e; exact ha hb
    exact (List.Perm.nodup_iff (hp.map _)).mpr h1
  refine ⟨S.map (·.aff) ++ As.filter (fun a => (f a).isEmpty), ?_, ?_, ?_⟩
  · refine List.nodup_append.mpr ⟨hnodupS, hn.sublist List.filter_sublist, ?_⟩
    intro x hx y hy e
    subst e
    obtain ⟨u, hu, rfl⟩ := List.mem_map.mp hx
    simp only [List.mem_filter] at hy
    have := (hrow u hu).2
    simp [this] at hy
  · intro a
    simp only [List.mem_append, List.mem_map, List.mem_filter]
    constructor
    · rintro (⟨u, hu, rfl⟩ | ⟨h, _⟩)
      · exact (hrow u hu).1
      · exact h
    · intro ha
      by_cases he : (f a).isEmpty
      · right; exact ⟨ha, he⟩
      · left
        have hl := hone a
        match hfa : f a, hl with
        | [], _ => simp [hfa] at he
        | [z], _ =>
          have hz : z ∈ As.flatMap f := List.mem_flatMap.mpr ⟨a, ha, by simp [hfa]⟩
          exact ⟨z, hp.mem_iff.mpr hz, hown a z (by simp [hfa])⟩
        | _ :: _ :: _, hl' => simp [hfa] at hl
  · rw [List.flatMap_append]
    have h2 : (As.filter (fun a => (f a).isEmpty)).flatMap f = [] := by
      rw [List.flatMap_eq_nil_iff]
      intro a ha
      simp only [List.mem_filter, List.isEmpty_iff] at ha
      exact ha.2
    rw [h2, List.append_nil]
    clear hnodupS hp
    induction S with
    | nil => rfl
    | cons y S ih =>
      simp only [List.map_cons, List.flatMap_cons]
      rw [(hrow y (by simp)).2, ih (fun z hz => hrow z (by simp [hz]))]
      rfl

end Acb
