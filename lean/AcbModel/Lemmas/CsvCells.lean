/-
  Cell-level round-trip lemmas of the CSV codec (C11): dates, actions, column names,
  superficial-loss cells, split ratios.
-/
import AcbModel.Lemmas.CsvDec
namespace Acb.Csv

/-! ### `Dec.Same` is respected by every test the reader applies -/

theorem pow10_ne_zero (k : Nat) : 10 ^ k ≠ 0 := Nat.ne_of_gt (Nat.pow_pos (by omega))

theorem mul_pow_eq_zero (m k : Nat) : m * 10 ^ k = 0 ↔ m = 0 := by
  constructor
  · intro h; rcases Nat.mul_eq_zero.1 h with h | h
    · exact h
    · exact absurd h (pow10_ne_zero k)
  · intro h; simp [h]

theorem bne_mul_pow (m k : Nat) : (m * 10 ^ k != 0) = (m != 0) := by
  rw [Bool.eq_iff_iff]; simp only [bne_iff_ne, ne_eq, mul_pow_eq_zero]

theorem beq_mul_pow (m k : Nat) : (m * 10 ^ k == 0) = (m == 0) := by
  rw [Bool.eq_iff_iff]; simp only [beq_iff_eq, mul_pow_eq_zero]

theorem isPos_mul_pow (neg : Bool) (m s k : Nat) :
    (Dec.mk neg (m * 10 ^ k) (s + k)).isPos = (Dec.mk neg m s).isPos := by
  simp only [Dec.isPos, bne_mul_pow]

theorem isGez_mul_pow (neg : Bool) (m s k : Nat) :
    (Dec.mk neg (m * 10 ^ k) (s + k)).isGez = (Dec.mk neg m s).isGez := by
  simp only [Dec.isGez, beq_mul_pow]

theorem isLez_mul_pow (neg : Bool) (m s k : Nat) :
    (Dec.mk neg (m * 10 ^ k) (s + k)).isLez = (Dec.mk neg m s).isLez := by
  simp only [Dec.isLez, beq_mul_pow]

theorem isOne_mul_pow (neg : Bool) (m s k : Nat) :
    (Dec.mk neg (m * 10 ^ k) (s + k)).isOne = (Dec.mk neg m s).isOne := by
  simp only [Dec.isOne]
  congr 1
  rw [Bool.eq_iff_iff, Nat.pow_add]
  simp only [beq_iff_eq]
  constructor
  · intro h; exact Nat.eq_of_mul_eq_mul_right (Nat.pow_pos (by omega)) h
  · intro h; rw [h]

theorem isInteger_mul_pow (neg : Bool) (m s k : Nat) :
    (Dec.mk neg (m * 10 ^ k) (s + k)).isInteger = (Dec.mk neg m s).isInteger := by
  simp only [Dec.isInteger]
  rw [Nat.pow_add, Nat.mul_mod_mul_right, beq_mul_pow]

theorem Dec.Same.isPos_eq {a b : Dec} (h : a.Same b) : a.isPos = b.isPos := by
  rcases h.cases with ⟨k, rfl⟩ | ⟨k, rfl⟩
  · exact (isPos_mul_pow _ _ _ _).symm
  · exact isPos_mul_pow _ _ _ _
theorem Dec.Same.isGez_eq {a b : Dec} (h : a.Same b) : a.isGez = b.isGez := by
  rcases h.cases with ⟨k, rfl⟩ | ⟨k, rfl⟩
  · exact (isGez_mul_pow _ _ _ _).symm
  · exact isGez_mul_pow _ _ _ _
theorem Dec.Same.isLez_eq {a b : Dec} (h : a.Same b) : a.isLez = b.isLez := by
  rcases h.cases with ⟨k, rfl⟩ | ⟨k, rfl⟩
  · exact (isLez_mul_pow _ _ _ _).symm
  · exact isLez_mul_pow _ _ _ _
theorem Dec.Same.isOne_eq {a b : Dec} (h : a.Same b) : a.isOne = b.isOne := by
  rcases h.cases with ⟨k, rfl⟩ | ⟨k, rfl⟩
  · exact (isOne_mul_pow _ _ _ _).symm
  · exact isOne_mul_pow _ _ _ _
theorem Dec.Same.isInteger_eq {a b : Dec} (h : a.Same b) : a.isInteger = b.isInteger := by
  rcases h.cases with ⟨k, rfl⟩ | ⟨k, rfl⟩
  · exact (isInteger_mul_pow _ _ _ _).symm
  · exact isInteger_mul_pow _ _ _ _

theorem absLt_mul_pow_left (neg : Bool) (m s k : Nat) (b : Dec) :
    (Dec.mk neg (m * 10 ^ k) (s + k)).absLt b = (Dec.mk neg m s).absLt b := by
  simp only [Dec.absLt]
  have h1 : m * 10 ^ k * 10 ^ b.scale = m * 10 ^ b.scale * 10 ^ k := by
    rw [Nat.mul_assoc, Nat.mul_comm (10 ^ k), ← Nat.mul_assoc]
  have h2 : b.mant * 10 ^ (s + k) = b.mant * 10 ^ s * 10 ^ k := by rw [Nat.pow_add, Nat.mul_assoc]
  rw [h1, h2]
  exact decide_eq_decide.2 (Nat.mul_lt_mul_right (Nat.pow_pos (by omega)))

theorem absLt_mul_pow_right (neg : Bool) (m s k : Nat) (a : Dec) :
    a.absLt (Dec.mk neg (m * 10 ^ k) (s + k)) = a.absLt (Dec.mk neg m s) := by
  simp only [Dec.absLt]
  have h1 : m * 10 ^ k * 10 ^ a.scale = m * 10 ^ a.scale * 10 ^ k := by
    rw [Nat.mul_assoc, Nat.mul_comm (10 ^ k), ← Nat.mul_assoc]
  have h2 : a.mant * 10 ^ (s + k) = a.mant * 10 ^ s * 10 ^ k := by rw [Nat.pow_add, Nat.mul_assoc]
  rw [h1, h2]
  exact decide_eq_decide.2 (Nat.mul_lt_mul_right (Nat.pow_pos (by omega)))

theorem Dec.Same.absLt_eq {a a' b b' : Dec} (ha : a'.Same a) (hb : b'.Same b) : a'.absLt b' = a.absLt b := by
  have h1 : a'.absLt b' = a.absLt b' := by
    rcases ha.cases with ⟨k, rfl⟩ | ⟨k, rfl⟩
    · exact (absLt_mul_pow_left _ _ _ _ _).symm
    · exact absLt_mul_pow_left _ _ _ _ _
  have h2 : a.absLt b' = a.absLt b := by
    rcases hb.cases with ⟨k, rfl⟩ | ⟨k, rfl⟩
    · exact (absLt_mul_pow_right _ _ _ _ _).symm
    · exact absLt_mul_pow_right _ _ _ _ _
  rw [h1, h2]

/-! ### dates, actions, column names -/

theorem fracDigits4 (n : Nat) : fracDigits 4 n =
    [digitChar (n / 10 / 10 / 10 % 10), digitChar (n / 10 / 10 % 10), digitChar (n / 10 % 10), digitChar (n % 10)] := by
  simp [fracDigits]

theorem fracDigits2 (n : Nat) : fracDigits 2 n = [digitChar (n / 10 % 10), digitChar (n % 10)] := by
  simp [fracDigits]

/-- **Date cell round trip.** -/
theorem date_render_parse (t : Date) (h : t.valid = true) : parseDate t.render = some t := by
  obtain ⟨y, m, d⟩ := t
  have hv := h
  simp only [Date.valid, Bool.and_eq_true, decide_eq_true_eq] at hv
  have hy : ofDigits (fracDigits 4 y) = y := by
    rw [ofDigits_fracDigits]; exact Nat.mod_eq_of_lt (by omega)
  have hdim : daysInMonth y m ≤ 31 := by unfold daysInMonth; split <;> (try split) <;> omega
  have hm : ofDigits (fracDigits 2 m) = m := by
    rw [ofDigits_fracDigits]; exact Nat.mod_eq_of_lt (by omega)
  have hd : ofDigits (fracDigits 2 d) = d := by
    rw [ofDigits_fracDigits]; exact Nat.mod_eq_of_lt (by omega)
  rw [fracDigits4] at hy
  rw [fracDigits2] at hm hd
  unfold Date.render parseDate
  rw [fracDigits4, fracDigits2, fracDigits2]
  simp only [List.cons_append, List.nil_append, isDigit_digitChar, Bool.and_self, if_true, hy, hm, hd, h]

theorem date_render_no_ws (t : Date) : ∀ c ∈ t.render, isWs c = false := by
  have key : ∀ (A B C : Str), (∀ c ∈ A, isWs c = false) → (∀ c ∈ B, isWs c = false) →
      (∀ c ∈ C, isWs c = false) → ∀ c ∈ A ++ '-' :: B ++ '-' :: C, isWs c = false := by
    intro A B C hA hB hC c hc
    simp only [List.mem_append, List.mem_cons] at hc
    rcases hc with (h | h | h) | h | h
    · exact hA c h
    · subst h; decide
    · exact hB c h
    · subst h; decide
    · exact hC c h
  exact key _ _ _ (fun c h => isDigit_not_ws (fracDigits_all_digit _ _ c h))
    (fun c h => isDigit_not_ws (fracDigits_all_digit _ _ c h))
    (fun c h => isDigit_not_ws (fracDigits_all_digit _ _ c h))

theorem date_render_ne_nil (t : Date) : t.render ≠ [] := by
  unfold Date.render; rw [fracDigits4]; simp

/-- **Action cell round trip.** -/
theorem act_render_parse (a : Act) : parseAct a.render = some a := by
  cases a <;> decide

theorem act_render_trim (a : Act) : trim a.render = a.render := by
  cases a <;> decide

theorem act_render_ne_nil (a : Act) : a.render ≠ [] := by
  cases a <;> decide

/-- a written header cell is recognised as its own column. -/
theorem colOfName_name (c : Col) : colOfName (trim (lower c.name)) = some c := by
  cases c <;> decide

/-! ### shape of rendered decimals -/

theorem display_none (d : Dec) : d.display none = d.display (some d.scale) := by
  simp [Dec.display]

theorem display_no_ws (d : Dec) (q : Nat) : ∀ c ∈ d.display (some q), isWs c = false := by
  intro c hc
  rw [display_some] at hc
  simp only [List.mem_append] at hc
  rcases hc with (h | h) | h
  · split at h
    · simp at h; subst h; decide
    · simp at h
  · exact isDigit_not_ws (wholeDigits_all_digit _ c h)
  · split at h
    · simp at h
    · simp only [List.mem_cons] at h
      rcases h with h | h
      · subst h; decide
      · exact isDigit_not_ws (shownFrac_all_digit d q c h)

theorem display_ne_nil (d : Dec) (q : Nat) : d.display (some q) ≠ [] := by
  rw [display_some]
  intro h
  simp only [List.append_eq_nil_iff] at h
  exact wholeDigits_ne_nil _ h.1.2

theorem getLast?_digits {s : Str} (hne : s ≠ []) (h : ∀ c ∈ s, isDigit c = true) :
    ∃ c, s.getLast? = some c ∧ isDigit c = true := by
  refine ⟨s.getLast hne, List.getLast?_eq_some_getLast hne, h _ (List.getLast_mem hne)⟩

theorem display_getLast (d : Dec) (q : Nat) :
    ∃ c, (d.display (some q)).getLast? = some c ∧ isDigit c = true := by
  rw [display_some]
  by_cases hF : shownFrac d q = []
  · simp only [hF, if_true, List.append_nil]
    obtain ⟨c, h1, h2⟩ := getLast?_digits (wholeDigits_ne_nil (d.mant / 10 ^ d.scale)) (wholeDigits_all_digit _)
    exact ⟨c, by rw [List.getLast?_append, h1]; rfl, h2⟩
  · simp only [hF, if_false]
    obtain ⟨c, h1, h2⟩ := getLast?_digits hF (shownFrac_all_digit d q)
    refine ⟨c, ?_, h2⟩
    rw [List.getLast?_append, List.getLast?_cons_cons_or_singleton hF h1]
    rfl
where
  List.getLast?_cons_cons_or_singleton {α} {a : α} {l : List α} (_ : l ≠ []) {c : α}
      (h : l.getLast? = some c) : (a :: l).getLast? = some c := by
    cases l with
    | nil => simp at h
    | cons b r => rw [List.getLast?_cons_cons]; exact h

theorem display_pos_chars (d : Dec) (q : Nat) (hn : d.neg = false) :
    ∀ c ∈ d.display (some q), isDigitOrDot c = true := by
  intro c hc
  rw [display_some, hn] at hc
  simp only [Bool.false_eq_true, if_false, List.nil_append, List.mem_append] at hc
  unfold isDigitOrDot
  rcases hc with h | h
  · simp [wholeDigits_all_digit _ c h]
  · split at h
    · simp at h
    · simp only [List.mem_cons] at h
      rcases h with h | h
      · subst h; decide
      · simp [shownFrac_all_digit d q c h]

/-- reading back a decimal that was displayed with all of its digits gives the same
    representation. -/
theorem parseDec_display_full (d : Dec) (hn : d.neg = false) (hs : d.scale ≤ 28) (hm : d.mant < pow2_96) :
    parseDec (d.display (some d.scale)) = .ok d := by
  unfold parseDec
  rw [parseDecRaw_display _ _ hm, shown_value_ge _ _ (Nat.le_refl _)]
  simp only [Nat.sub_self, Nat.pow_zero, Nat.mul_one, hs, hm, and_self, if_true, hn, Bool.false_and]
  obtain ⟨n, m, s⟩ := d
  simp at hn
  simp [hn]

/-! ### superficial-loss cell -/

/-- **SFL cell round trip** (value, sign and the `!` force marker). -/
theorem sfl_render_parse (v : Dec × Bool) (h : sflValid v = true) :
    ∃ v', parseSfl (renderSfl v) = .ok v' ∧ v'.1.Same v.1 ∧ v'.2 = v.2 := by
  obtain ⟨d, f⟩ := v
  simp only [sflValid, Bool.and_eq_true] at h
  obtain ⟨hl, hr⟩ := h
  obtain ⟨d', hp, hs⟩ := dec_render_parse d 2 (by omega) hr
  have hlez : d'.isLez = true := by rw [hs.isLez_eq]; exact hl
  obtain ⟨c, hc1, hc2⟩ := display_getLast d (max d.trimmedPrecision 2)
  have hcne : c ≠ '!' := by intro hh; subst hh; revert hc2; decide
  unfold parseSfl renderSfl
  cases f
  · simp only [Bool.false_eq_true, if_false, List.append_nil]
    have : ((d.toStringMinPrecision 2).getLast? == some '!') = false := by
      unfold Dec.toStringMinPrecision
      rw [hc1]; simp [hcne]
    simp only [this, Bool.false_eq_true, if_false, hp, hlez, if_true]
    exact ⟨_, rfl, hs, rfl⟩
  · simp only [if_true]
    have h1 : ((d.toStringMinPrecision 2 ++ ['!']).getLast? == some '!') = true := by simp
    simp only [h1, if_true, List.dropLast_concat, hp, hlez]
    exact ⟨_, rfl, hs, rfl⟩

theorem renderSfl_no_ws (v : Dec × Bool) : ∀ c ∈ renderSfl v, isWs c = false := by
  intro c hc
  unfold renderSfl Dec.toStringMinPrecision at hc
  simp only [List.mem_append] at hc
  rcases hc with h | h
  · exact display_no_ws _ _ c h
  · split at h
    · simp at h; subst h; decide
    · simp at h

theorem renderSfl_ne_nil (v : Dec × Bool) : renderSfl v ≠ [] := by
  unfold renderSfl Dec.toStringMinPrecision
  intro h
  simp only [List.append_eq_nil_iff] at h
  exact display_ne_nil _ _ h.1

end Acb.Csv
