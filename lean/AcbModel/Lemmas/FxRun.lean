/-
  The run invariant of the rate loader and the step lemmas behind C12 and C13.
-/
import AcbModel.Lemmas.FxFill
namespace Acb.Fx

theorem pubOf_eq {e : Env} {y d : Int} {l : List DailyRate} (hd : e.cal.yearOf d = y)
    (hl : e.remote y = some l) : pubOf e.cal e.remote d = lookupLast l d := by
  simp [pubOf, hd, hl]

/-- A freshly downloaded and filled year is truthful and complete. -/
theorem fill_truthful_complete (e : Env) (hc : e.cal.OK) (hwf : RemoteWF e) (y : Int)
    (l : List DailyRate) (hl : e.remote y = some l) :
    Truthful e y (fillUnknown e.cal e.today l y) ∧ Complete e y (fillUnknown e.cal e.today l y) := by
  obtain ⟨hs, hx⟩ := hwf y l hl
  have hlk := lookupLast_fillUnknown_wf e.cal hc e.today y l hs (fun x h => (hx x h).1)
    (fun x h => (hx x h).2.2)
  constructor
  · intro d r hd hr
    rw [hlk d hd] at hr
    rw [pubOf_eq hd hl]
    cases h : lookupLast l d with
    | some r' =>
      simp only [h, Option.some.injEq] at hr
      subst hr
      right
      exact ⟨(hx _ (lookupLast_some_mem h)).2.1, rfl⟩
    | none =>
      simp only [h] at hr
      by_cases h1 : d < e.today
      · simp only [h1, if_true, Option.some.injEq] at hr
        left; exact ⟨hr.symm, rfl, h1⟩
      · simp [h1] at hr
  · intro d hd hr
    rw [hlk d hd] at hr
    rw [pubOf_eq hd hl]
    cases h : lookupLast l d with
    | some r' => simp [h] at hr
    | none =>
      simp only [h] at hr
      by_cases h1 : d < e.today
      · simp [h1] at hr
      · exact ⟨rfl, by omega⟩

/-- What `ensureLoaded` guarantees about the rows it hands to `getExact`. -/
def LoadedOK (e : Env) (d : Int) (rows : List DailyRate) : Prop :=
  Truthful e (e.cal.yearOf d) rows ∧
  (lookupLast rows d = none → pubOf e.cal e.remote d = none ∧ e.today ≤ d) ∧
  (e.remote (e.cal.yearOf d)).isSome = true

/-- `fetch` on a year that was not downloaded in this run either accepts the cached year because it
    covers the target date (no state change), or downloads. -/
theorem fetch_cases (e : Env) (s : St) (d : Int) (hfr : s.fresh (e.cal.yearOf d) = false) :
    fetch e s d = download e s (e.cal.yearOf d) ∨
    (e.force = false ∧ e.rdErr (e.cal.yearOf d) = false ∧
      ∃ rows, s.cache (e.cal.yearOf d) = some rows ∧ (lookupLast rows d).isSome = true ∧
        fetch e s d = (.ok rows, s)) := by
  unfold fetch
  simp only [hfr]
  by_cases hf : e.force = true
  · simp [hf]
  · simp only [hf]
    by_cases hr : e.rdErr (e.cal.yearOf d) = true
    · simp [hr]
    · simp only [hr]
      cases hcache : s.cache (e.cal.yearOf d) with
      | none => simp
      | some rows =>
        by_cases hl : (lookupLast rows d).isSome = true
        · right
          simp [hl]
        · simp [hl]

/-- The state after a successful (re)load of year `y` with `rows`. -/
def setLoaded (s : St) (y : Int) (rows : List DailyRate) : St :=
  { s with loaded := upd s.loaded y (some rows) }

theorem ensureLoaded_eq_load (e : Env) (s : St) (d : Int)
    (hn : needLoad s (e.cal.yearOf d) d = true) :
    ensureLoaded e s d =
      match fetch e s d with
      | (.ok rows, s') => (.ok rows, setLoaded s' (e.cal.yearOf d) rows)
      | (.error er, s') => (.error er, s') := by
  simp only [ensureLoaded, hn, if_true, setLoaded]
  cases fetch e s d with
  | mk res s' => cases res <;> rfl

/-- Loading the cached year (accepted because it covers `d`) keeps the invariant. -/
theorem inv_setLoaded_cached (e : Env) (s : St) (hinv : RunInv e s) (y : Int) (rows : List DailyRate)
    (hfr : s.fresh y = false) (hf : e.force = false) (hc : s.cache y = some rows) :
    RunInv e (setLoaded s y rows) := by
  refine ⟨?_, ?_, hinv.cache, hinv.dl, hinv.nodup⟩
  · intro y' hy'
    have hne : y' ≠ y := by intro h; subst h; simp [setLoaded, hfr] at hy'
    obtain ⟨r, h1, h2⟩ := hinv.fresh y' hy'
    exact ⟨r, by simp [setLoaded, upd, hne, h1], h2⟩
  · intro y' r hl hfr'
    by_cases hne : y' = y
    · subst hne
      simp only [setLoaded, upd, if_true, Option.some.injEq] at hl
      subst hl
      exact ⟨hc, hf⟩
    · simp only [setLoaded, upd, hne, if_false] at hl
      exact hinv.stale y' r hl hfr'

/-- Downloading year `y` (not yet downloaded in this run) and loading it keeps the invariant. -/
theorem inv_download (e : Env) (hc : e.cal.OK) (hwf : RemoteWF e) (s : St) (hinv : RunInv e s)
    (y : Int) (hfr : s.fresh y = false) :
    match download e s y with
    | (.ok rows, s') => RunInv e (setLoaded s' y rows) ∧ Truthful e y rows ∧ Complete e y rows ∧
        (e.remote y).isSome = true ∧ s'.downloads = s.downloads ++ [y]
    | (.error _, s') => s' = s ∧ e.remote y = none := by
  unfold download
  cases hl : e.remote y with
  | none => simp
  | some l =>
    simp only
    obtain ⟨ht, hcm⟩ := fill_truthful_complete e hc hwf y l hl
    refine ⟨?_, ht, hcm, ?_⟩
    rotate_left
    · simp
    refine ⟨?_, ?_, ?_, ?_, ?_⟩
    · intro y' hy'
      by_cases hne : y' = y
      · subst hne
        exact ⟨_, by simp [setLoaded, upd], ht, hcm, by simp [hl]⟩
      · simp only [setLoaded, upd, hne, if_false] at hy'
        obtain ⟨r, h1, h2⟩ := hinv.fresh y' hy'
        exact ⟨r, by simp [setLoaded, upd, hne, h1], h2⟩
    · intro y' r hld hfr'
      by_cases hne : y' = y
      · subst hne; simp [setLoaded, upd] at hfr'
      · simp only [setLoaded, upd, hne, if_false] at hld hfr'
        obtain ⟨h1, h2⟩ := hinv.stale y' r hld hfr'
        refine ⟨?_, h2⟩
        simp only [setLoaded]
        split
        · exact h1
        · simp [upd, hne, h1]
    · rcases hinv.cache with h | h
      · exact Or.inl h
      · right
        intro y' r hcr
        simp only [setLoaded] at hcr
        split at hcr
        · exact h y' r hcr
        · by_cases hne : y' = y
          · subst hne
            simp only [upd, if_true, Option.some.injEq] at hcr
            subst hcr
            exact ⟨ht, by simp [hl]⟩
          · simp only [upd, hne, if_false] at hcr
            exact h y' r hcr
    · intro y' hy'
      simp only [setLoaded, List.mem_append, List.mem_singleton] at hy'
      rcases hy' with h | h
      · have := hinv.dl y' h
        by_cases hne : y' = y
        · subst hne; simp [setLoaded, upd]
        · simp [setLoaded, upd, hne, this]
      · subst h; simp [setLoaded, upd]
    · simp only [setLoaded]
      refine List.nodup_append.mpr ⟨hinv.nodup, by simp, ?_⟩
      intro a ha b hb
      simp only [List.mem_singleton] at hb
      subst hb
      intro hab; subst hab
      have := hinv.dl a ha
      rw [hfr] at this; cases this

/-- A year that needs loading has not been downloaded in this run. -/
theorem needLoad_not_fresh {e : Env} {s : St} (hinv : RunInv e s) {y d : Int}
    (hn : needLoad s y d = true) : s.fresh y = false := by
  cases hf : s.fresh y with
  | false => rfl
  | true =>
    obtain ⟨rows, h1, _⟩ := hinv.fresh y hf
    simp [needLoad, h1, hf] at hn

/-- `ensureLoaded`: invariant kept; the rows handed out are trustworthy for `d`; an error means
    the year cannot be downloaded (and nothing changed).  Downloads: none or exactly the year of `d`. -/
theorem ensureLoaded_spec (e : Env) (hc : e.cal.OK) (hwf : RemoteWF e) (s : St) (hinv : RunInv e s)
    (d : Int) :
    match ensureLoaded e s d with
    | (.ok rows, s') => RunInv e s' ∧ LoadedOK e d rows ∧
        (s'.downloads = s.downloads ∧ s'.cache = s.cache ∨ s'.downloads = s.downloads ++ [e.cal.yearOf d])
    | (.error _, s') => s' = s ∧ e.remote (e.cal.yearOf d) = none := by
  by_cases hn : needLoad s (e.cal.yearOf d) d = true
  · have hfr := needLoad_not_fresh hinv hn
    rw [ensureLoaded_eq_load e s d hn]
    rcases fetch_cases e s d hfr with h | ⟨hf, _, rows, hcr, hcov, h⟩
    · rw [h]
      have hd := inv_download e hc hwf s hinv (e.cal.yearOf d) hfr
      cases hdl : download e s (e.cal.yearOf d) with
      | mk res s' =>
        rw [hdl] at hd
        cases res with
        | error er => simpa using hd
        | ok rows =>
          simp only at hd ⊢
          obtain ⟨h1, h2, h3, h4, h5⟩ := hd
          exact ⟨h1, ⟨h2, fun hnone => h3 d rfl hnone, h4⟩, Or.inr (by simpa [setLoaded] using h5)⟩
    · rw [h]
      simp only
      refine ⟨inv_setLoaded_cached e s hinv _ rows hfr hf hcr, ?_, Or.inl ⟨rfl, rfl⟩⟩
      rcases hinv.cache with hh | hh
      · rw [hf] at hh; cases hh
      · obtain ⟨h1, h2⟩ := hh _ rows hcr
        refine ⟨h1, ?_, h2⟩
        intro hnone; rw [hnone] at hcov; cases hcov
  · have hn' : needLoad s (e.cal.yearOf d) d = false := by simpa using hn
    unfold ensureLoaded
    simp only [hn', Bool.false_eq_true, if_false]
    cases hl : s.loaded (e.cal.yearOf d) with
    | none => simp [needLoad, hl] at hn'
    | some rows =>
      simp only
      refine ⟨hinv, ?_, by simp⟩
      cases hf : s.fresh (e.cal.yearOf d) with
      | true =>
        obtain ⟨rows', h1, h2, h3, h4⟩ := hinv.fresh _ hf
        rw [hl] at h1; cases h1
        exact ⟨h2, fun hnone => h3 d rfl hnone, h4⟩
      | false =>
        obtain ⟨h1, h2⟩ := hinv.stale _ rows hl hf
        simp only [needLoad, hl, hf, Bool.not_false, Bool.true_and] at hn'
        rcases hinv.cache with hh | hh
        · rw [h2] at hh; cases hh
        · obtain ⟨h3, h4⟩ := hh _ rows h1
          refine ⟨h3, ?_, h4⟩
          intro hnone; rw [hnone] at hn'; cases hn'

/-- **One exact look-up** agrees with the specification and keeps the invariant. -/
theorem getExact_spec (e : Env) (hc : e.cal.OK) (hwf : RemoteWF e) (s : St) (hinv : RunInv e s)
    (d : Int) :
    RunInv e (getExact e s d).2 ∧ forget (getExact e s d).1 = specExact e d ∧
    ((getExact e s d).2.downloads = s.downloads ∧ (getExact e s d).2.cache = s.cache ∨
      (getExact e s d).2.downloads = s.downloads ++ [e.cal.yearOf d]) := by
  have h := ensureLoaded_spec e hc hwf s hinv d
  unfold getExact
  cases hel : ensureLoaded e s d with
  | mk res s' =>
    rw [hel] at h
    cases res with
    | error er =>
      obtain ⟨h1, h2⟩ := h
      subst h1
      simp only
      refine ⟨hinv, ?_, by simp⟩
      simp [forget, specExact, availOf, h2]
    | ok rows =>
      obtain ⟨h1, ⟨ht, hn, ha⟩, h3⟩ := h
      simp only
      cases hl : lookupLast rows d with
      | none =>
        obtain ⟨hp, htd⟩ := hn hl
        simp only [htd, if_true]
        refine ⟨h1, ?_, h3⟩
        simp [forget, specExact, availOf, ha, hp, htd]
      | some r =>
        simp only
        rcases ht d r rfl hl with ⟨hr, hp, hlt⟩ | ⟨hr, hp⟩
        · simp only [hr, if_true]
          refine ⟨h1, ?_, h3⟩
          have : ¬ e.today ≤ d := by omega
          simp [forget, specExact, availOf, ha, hp, this]
        · simp only [hr, if_false]
          refine ⟨h1, ?_, h3⟩
          simp [forget, specExact, availOf, ha, hp]

theorem step_is_one : Gen.fxLookbackStepDays = 1 := rfl

/-- Years downloaded between two states all belong to the days `d - k`, `lo ≤ k ≤ hi`. -/
def DlWithin (e : Env) (s s' : St) (d : Int) (lo hi : Nat) : Prop :=
  ∀ y, y ∈ s'.downloads → y ∈ s.downloads ∨ ∃ k : Nat, lo ≤ k ∧ k ≤ hi ∧ y = e.cal.yearOf (d - k)

theorem lookBack_spec (e : Env) (hc : e.cal.OK) (hwf : RemoteWF e) (n : Nat) (s : St)
    (hinv : RunInv e s) (d : Int) :
    RunInv e (lookBack e n s d).2 ∧ forget (lookBack e n s d).1 = specBack e n d ∧
    DlWithin e s (lookBack e n s d).2 d 1 n := by
  induction n generalizing s d with
  | zero => exact ⟨hinv, rfl, fun y hy => Or.inl hy⟩
  | succ n ih =>
    obtain ⟨h1, h2, h3⟩ := getExact_spec e hc hwf s hinv (d - 1)
    have hdl : DlWithin e s (getExact e s (d - 1)).2 d 1 (n + 1) := by
      intro y hy
      rcases h3 with ⟨h3, _⟩ | h3
      · rw [h3] at hy; exact Or.inl hy
      · rw [h3] at hy
        rcases List.mem_append.mp hy with hy | hy
        · exact Or.inl hy
        · right; refine ⟨1, by omega, by omega, ?_⟩
          simpa using hy
    simp only [lookBack, specBack, step_is_one]
    cases hg : getExact e s (d - 1) with
    | mk res s' =>
      rw [hg] at h1 h2 hdl
      simp only at h1 h2 hdl
      rw [← h2]
      cases res with
      | error er => exact ⟨h1, rfl, hdl⟩
      | ok o =>
        cases o with
        | some r => exact ⟨h1, rfl, hdl⟩
        | none =>
          simp only [forget]
          obtain ⟨i1, i2, i3⟩ := ih s' h1 (d - 1)
          refine ⟨i1, i2, ?_⟩
          intro y hy
          rcases i3 y hy with hy | ⟨k, hk1, hk2, hk⟩
          · rcases hdl y hy with hy | ⟨k, hk1, hk2, hk⟩
            · exact Or.inl hy
            · exact Or.inr ⟨k, hk1, hk2, hk⟩
          · right; refine ⟨k + 1, by omega, by omega, ?_⟩
            rw [hk]; congr 1; omega

theorem lookback_is_7 : Gen.fxLookbackDays = 7 := rfl

/-- **One effective look-up** agrees with `specRate` and keeps the invariant. -/
theorem getEffective_spec (e : Env) (hc : e.cal.OK) (hwf : RemoteWF e) (s : St)
    (hinv : RunInv e s) (d : Int) :
    RunInv e (getEffective e s d).2 ∧ forget (getEffective e s d).1 = specRate e d ∧
    DlWithin e s (getEffective e s d).2 d 0 7 := by
  obtain ⟨h1, h2, h3⟩ := getExact_spec e hc hwf s hinv d
  have hdl : DlWithin e s (getExact e s d).2 d 0 7 := by
    intro y hy
    rcases h3 with ⟨h3, _⟩ | h3
    · rw [h3] at hy; exact Or.inl hy
    · rw [h3] at hy
      rcases List.mem_append.mp hy with hy | hy
      · exact Or.inl hy
      · right; refine ⟨0, by omega, by omega, ?_⟩
        simpa using hy
  simp only [getEffective, specRate, lookback_is_7]
  cases hg : getExact e s d with
  | mk res s' =>
    rw [hg] at h1 h2 hdl
    simp only at h1 h2 hdl
    rw [← h2]
    cases res with
    | error er => exact ⟨h1, rfl, hdl⟩
    | ok o =>
      cases o with
      | some r => exact ⟨h1, rfl, hdl⟩
      | none =>
        simp only [forget]
        obtain ⟨i1, i2, i3⟩ := lookBack_spec e hc hwf 7 s' h1 d
        refine ⟨i1, i2, ?_⟩
        intro y hy
        rcases i3 y hy with hy | ⟨k, hk1, hk2, hk⟩
        · exact hdl y hy
        · exact Or.inr ⟨k, by omega, hk2, hk⟩

/-- The invariant holds for a new loader over a trustworthy cache, or over any cache when every
    first load is forced to download. -/
theorem inv_init (e : Env) (cache : Store) (h : e.force = true ∨ CacheOK e cache) :
    RunInv e (St.init cache) :=
  ⟨by intro y hy; simp [St.init] at hy, by intro y r hl; simp [St.init] at hl, h,
   by intro y hy; simp [St.init] at hy, by simp [St.init]⟩

theorem runLookups_spec (e : Env) (hc : e.cal.OK) (hwf : RemoteWF e) (s : St) (hinv : RunInv e s)
    (ds : List Int) :
    RunInv e (runLookups e s ds).2 ∧ (runLookups e s ds).1.map forget = ds.map (specRate e) := by
  induction ds generalizing s with
  | nil => exact ⟨hinv, rfl⟩
  | cons d ds ih =>
    obtain ⟨h1, h2, _⟩ := getEffective_spec e hc hwf s hinv d
    obtain ⟨i1, i2⟩ := ih (getEffective e s d).2 h1
    simp only [runLookups, List.map_cons, h2, i2]
    exact ⟨i1, trivial⟩

end Acb.Fx
