/-
  C10, carried-over rows, part 1: the window scans do not read the `superficial loss` cell of a
  sale and skip cost-base adjustment rows.  Hence two histories that agree after erasing the
  declared amounts (and, for the rows still to come, after dropping the adjustment rows) give the
  same superficial-loss information.
-/
import AcbModel.Lemmas.Prefix5
import AcbModel.Lemmas.Window
namespace Acb

/-- forget the declared superficial loss of a sale -/
def eraseSpecAct : Action → Action
  | .sell sh px comm rate crate _ => .sell sh px comm rate crate none
  | a => a

def eraseSpec (x : Tx) : Tx := { x with act := eraseSpecAct x.act }

@[simp] theorem eraseSpec_settle (x : Tx) : (eraseSpec x).settle = x.settle := rfl
@[simp] theorem eraseSpec_aff (x : Tx) : (eraseSpec x).aff = x.aff := rfl

def isSflaB (x : Tx) : Bool := match x.act with | .sfla _ _ => true | _ => false

theorem isSflaB_iff (x : Tx) : isSflaB x = true ↔ IsSflaRow x := by
  unfold isSflaB IsSflaRow
  cases x.act <;> simp

/-- what the forward scan reads of the rows to come: adjustment rows dropped, declared amounts
    erased -/
def core (f : List Tx) : List Tx := (f.filter (fun x => !isSflaB x)).map eraseSpec

theorem core_cons (x : Tx) (f : List Tx) :
    core (x :: f) = if isSflaB x then core f else eraseSpec x :: core f := by
  unfold core
  by_cases h : isSflaB x <;> simp [List.filter_cons, h]

theorem core_filter (p : Int → Bool) (f : List Tx) :
    core (f.filter (fun x => p x.settle)) = (core f).filter (fun x => p x.settle) := by
  induction f with
  | nil => rfl
  | cons x f ih =>
    rw [core_cons, List.filter_cons]
    by_cases hp : p x.settle
    · simp only [hp, if_true]
      rw [core_cons]
      by_cases hs : isSflaB x
      · simp only [hs, if_true]; exact ih
      · simp only [hs, Bool.false_eq_true, if_false, List.filter_cons, eraseSpec_settle, hp, if_true, ih]
    · simp only [hp, Bool.false_eq_true, if_false]
      by_cases hs : isSflaB x
      · simp only [hs, if_true]; exact ih
      · simp only [hs, Bool.false_eq_true, if_false, List.filter_cons, eraseSpec_settle, hp, ih]

/-- without a `break` in reach, the forward scan over `f` is the scan over `core f` -/
theorem scanFwd_core_nobreak {t : Tracker} (lastDay : Int) :
    ∀ (f : List Tx) (s : Scan), (∀ x ∈ f, x.settle ≤ lastDay) →
      scanFwd t lastDay s f = scanFwd t lastDay s (core f) := by
  intro f
  induction f with
  | nil => intro s _; rfl
  | cons x rest ih =>
    intro s h
    have hx : ¬ x.settle > lastDay := by have := h x (by simp); omega
    have hr : ∀ y ∈ rest, y.settle ≤ lastDay := fun y hy => h y (by simp [hy])
    rw [core_cons, scanFwd]
    simp only [hx, if_false]
    cases hact : x.act with
    | buy sh px comm rate crate =>
      have hs : isSflaB x = false := by simp [isSflaB, hact]
      simp only [hs, Bool.false_eq_true, if_false]
      rw [scanFwd]
      simp only [eraseSpec_settle, hx, if_false, eraseSpec, hact, eraseSpecAct, ih _ hr]
    | sell sh px comm rate crate spec =>
      have hs : isSflaB x = false := by simp [isSflaB, hact]
      simp only [hs, Bool.false_eq_true, if_false]
      rw [scanFwd]
      simp only [eraseSpec_settle, hx, if_false, eraseSpec, hact, eraseSpecAct, ih _ hr]
    | roc ps rate =>
      have hs : isSflaB x = false := by simp [isSflaB, hact]
      simp only [hs, Bool.false_eq_true, if_false]
      rw [scanFwd]
      simp only [eraseSpec_settle, hx, if_false, eraseSpec, hact, eraseSpecAct, ih _ hr]
    | sfla sh ps =>
      have hs : isSflaB x = true := by simp [isSflaB, hact]
      simp only [hs, if_true]
      exact ih _ hr
    | split post pre' io =>
      have hs : isSflaB x = false := by simp [isSflaB, hact]
      simp only [hs, Bool.false_eq_true, if_false]
      rw [scanFwd]
      simp only [eraseSpec_settle, hx, if_false, eraseSpec, hact, eraseSpecAct, ih _ hr]

theorem core_sorted {f : List Tx} (h : SettleAsc f) : SettleAsc (core f) := by
  unfold core SettleAsc at *
  rw [List.pairwise_map]
  exact (h.sublist List.filter_sublist).imp (fun hab => by simpa using hab)

/-- **Forward scan.**  On date-sorted rows the scan depends on the rows to come only through
    `core`. -/
theorem scanFwd_core {t : Tracker} (lastDay : Int) (f1 f2 : List Tx) (h1 : SettleAsc f1)
    (h2 : SettleAsc f2) (hc : core f1 = core f2) (s : Scan) :
    scanFwd t lastDay s f1 = scanFwd t lastDay s f2 := by
  have key : ∀ f, SettleAsc f → scanFwd t lastDay s f =
      scanFwd t lastDay s ((core f).filter (fun x => decide (x.settle ≤ lastDay))) := by
    intro f hf
    rw [scanFwd_filter lastDay f s hf,
      scanFwd_core_nobreak lastDay _ s (fun x hx => by simpa using (List.mem_filter.mp hx).2),
      core_filter (fun d => decide (d ≤ lastDay))]
  rw [key f1 h1, key f2 h2, hc]

/-- **Backward scan.**  It reads neither the declared amounts … -/
theorem scanBwd_erase {t : Tracker} (firstDay : Int) :
    ∀ (X : List Tx) (s : Scan), scanBwd t firstDay s X = scanBwd t firstDay s (X.map eraseSpec) := by
  intro X
  induction X with
  | nil => intro s; rfl
  | cons x rest ih =>
    intro s
    simp only [List.map_cons]
    rw [scanBwd, scanBwd]
    simp only [eraseSpec_settle]
    by_cases hlt : x.settle < firstDay
    · simp only [hlt, if_true]
    · simp only [hlt, if_false]
      cases hact : x.act <;> simp only [eraseSpec, hact, eraseSpecAct, ih]

/-- … nor anything of a part `P` lying before the window. -/
theorem scanBwd_sim {t : Tracker} (firstDay : Int) (X X' P P' : List Tx)
    (hX : X.map eraseSpec = X'.map eraseSpec) (hP : FarList P firstDay) (hP' : FarList P' firstDay)
    (s : Scan) : scanBwd t firstDay s (X' ++ P') = scanBwd t firstDay s (X ++ P) := by
  rw [scanBwd_far firstDay P' hP', scanBwd_far firstDay P hP, scanBwd_erase firstDay X,
    scanBwd_erase firstDay X', hX]

/-- **The superficial-loss information** is the same in two runs whose trackers agree on the
    observables, whose processed rows agree up to declared amounts outside a part lying before
    the window, and whose rows to come (date-sorted) agree up to declared amounts and adjustment
    rows. -/
theorem sflInfo_sim {t t' : Tracker} (h : ObsEq t t') (seller : Aff) (settle : Int) (sold : Rat)
    (X X' P P' f f' : List Tx) (hX : X.map eraseSpec = X'.map eraseSpec)
    (hP : FarList P (settle - Gen.sflWindowBeforeDays))
    (hP' : FarList P' (settle - Gen.sflWindowBeforeDays))
    (hf : SettleAsc f) (hf' : SettleAsc f') (hc : core f = core f') :
    sflInfo t' seller settle sold (X' ++ P') f' = sflInfo t seller settle sold (X ++ P) f := by
  unfold sflInfo initScan
  simp only [h.postAll, h.bal, scanFwd_bal h.bal, scanBwd_bal h.bal,
    scanBwd_sim _ X X' P P' hX hP hP', scanFwd_core _ f' f hf' hf hc.symm]

end Acb
