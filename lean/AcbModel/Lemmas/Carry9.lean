/-
  C10, part 9: from the state after the summary rows to the end — the carried rows (phase C) and
  the later rows (phase B) composed.
-/
import AcbModel.Lemmas.Carry8
namespace Acb

theorem carryTx_settle (d : Delta) : (carryTx d).settle = d.tx.settle := by
  rw [carryTx_eq]; exact (carryOf_props d.sfl d.tx).2.1

/-- **The tail of the replay.**  `S` = the summary rows, replayed from nothing to the tracker `tS`
    (processed rows `P'`, deltas `dS`), which has the observables of the original run's tracker
    `t1` (processed rows `P`, deltas `A1`) at the cut.  The original run continues with the rows
    `q2` (deltas `A2`) and `later` (deltas `ext`) without failure; the flagged deltas among `A2`
    and `ext` have their windows start after `P` and `P'`.  Then the replay continues with the
    carried forms of `A2` and with `later` without failure: figures of `A2` row by row, exactly
    `ext` afterwards. -/
theorem carried_tail (dflt : Aff) (S q2 later : List Tx) (t1 tS : Tracker) (P P' : List Tx)
    (A1 A2 ext dS : List Delta) (tP : Tracker) (pastP : List Tx)
    (hA : loopPrefix { m := fun _ => none, latestAll := 0, latestAff := dflt } [] [] S
      (A2.map carryTx ++ later) = .inl (tS, P', dS))
    (hobs : ObsEq t1 tS)
    (hC : loopPrefix t1 P A1 q2 later = .inl (tP, pastP, A1 ++ A2))
    (hB : deltaLoop tP pastP (A1 ++ A2) later = (A1 ++ A2 ++ ext, none))
    (hasc : SettleAsc (q2 ++ later)) (hasc' : SettleAsc (A2.map carryTx ++ later))
    (hfar : ∀ d ∈ A2 ++ ext, d.isLossOrSfl = true → FarFor P d.tx ∧ FarFor P' d.tx) :
    ∃ dC, deltaList dflt none (S ++ A2.map carryTx ++ later) = (dS ++ dC ++ ext, none) ∧ DeltasCarry A2 dC := by
  obtain ⟨t2', X2, X2', dC, hl, hp, hobs2, hX2, hdc⟩ :=
    carry_sim P P' q2 later t1 tS [] [] A1 dS later tP pastP (A1 ++ A2) hobs ⟨rfl⟩ (by simpa using hC) A2 rfl
      hasc hasc' rfl (fun d hd hfl => hfar d (by simp [hd]) hfl)
  refine ⟨dC, ?_, hdc⟩
  simp only [List.nil_append] at hl
  -- the original run over `later`, from the empty accumulator
  have hBl : deltaLoop tP pastP [] later = (ext, none) := by
    rw [deltaLoop_acc] at hB
    simp only [Prod.mk.injEq] at hB
    obtain ⟨h1, h2⟩ := hB
    have : (deltaLoop tP pastP [] later).1 = ext := List.append_cancel_left h1
    exact Prod.ext this h2
  rw [hp] at hBl
  have hascL : SettleAsc later := (List.pairwise_append.mp hasc).2.1
  have hsim := deltaLoop_sim P P' later tP t2' hobs2 X2 X2' hX2 hascL (by rw [hBl])
    (by rw [hBl]; intro d hd hfl; exact hfar d (by simp [hd]) hfl)
  have hnew : Tracker.new dflt none = .ok { m := fun _ => none, latestAll := 0, latestAff := dflt } := rfl
  rw [deltaList_eq_loop hnew, List.append_assoc, deltaLoop_prefix, hA]
  simp only
  rw [deltaLoop_prefix, hl]
  simp only
  rw [deltaLoop_acc, hsim, hBl]

/-- the processed rows after a stretch of the loop: the transactions of the new deltas, most recent
    first, on top of the earlier ones -/
theorem loopPrefix_past :
    ∀ (q r : List Tx) (t : Tracker) (past : List Tx) (acc : List Delta) (t2 : Tracker) (past2 : List Tx)
      (acc2 : List Delta), loopPrefix t past acc q r = .inl (t2, past2, acc2) →
      ∃ ext, acc2 = acc ++ ext ∧ past2 = (ext.map (·.tx)).reverse ++ past := by
  intro q
  induction q with
  | nil =>
    intro r t past acc t2 past2 acc2 h
    simp only [loopPrefix, Sum.inl.injEq, Prod.mk.injEq] at h
    obtain ⟨_, rfl, rfl⟩ := h
    exact ⟨[], by simp, by simp⟩
  | cons x qs ih =>
    intro r t past acc t2 past2 acc2 h
    rw [loopPrefix] at h
    cases hstep : stepRow t x past (qs ++ r) with
    | error e => rw [hstep] at h; cases h
    | ok res =>
      obtain ⟨d, t1, inj⟩ := res
      rw [hstep] at h
      simp only at h
      cases hR : runInjected t1 (x :: past) (acc ++ [d]) inj (qs ++ r) with
      | inr e => rw [hR] at h; cases h
      | inl s =>
        obtain ⟨ta, pa, acca⟩ := s
        rw [hR] at h
        simp only at h
        have hinjS : ∀ y ∈ inj, IsSflaRow y := fun y hy => stepRow_inj hstep y hy
        obtain ⟨_, out, ho1, ho2, ho3, _, _⟩ :=
          explicit_sfla inj hinjS t1 t1 (ObsEq.refl _) (x :: past) [] (acc ++ [d]) [] (qs ++ r) [] ta pa acca hR
        obtain ⟨ext, he1, he2⟩ := ih r ta pa acca t2 past2 acc2 h
        refine ⟨d :: (out ++ ext), by simp [he1, ho1], ?_⟩
        have hcar : out.map (·.tx) = inj := by
          obtain ⟨outinj, hq1, hq2⟩ := runInjected_txs _ _ _ _ _ _ _ _ hR
          have : out = outinj := by
            have : acc ++ [d] ++ out = acc ++ [d] ++ outinj := by rw [← ho1, hq1]
            exact List.append_cancel_left this
          rw [this]; exact hq2
        rw [he2, ho2]
        simp [stepRow_tx hstep, hcar]

end Acb
