/-
  C16 at the level of the application pipeline: split validation, global-split expansion and the
  affiliates a global split is expanded to are the same whether the default affiliate's opening
  position is given with `--symbol-base` or as an opening purchase row at the head of the security's
  rows.
-/
import AcbModel.App.Pipeline
import AcbModel.Lemmas.Order
namespace Acb

theorem nodup_eraseDups_aux : ∀ (n : Nat) (l : List Aff), l.length ≤ n → l.eraseDups.Nodup := by
  intro n
  induction n with
  | zero =>
    intro l hl
    have : l = [] := List.length_eq_zero_iff.mp (by omega)
    subst this; simp
  | succ n ih =>
    intro l hl
    cases l with
    | nil => simp
    | cons a as =>
      rw [List.eraseDups_cons]
      refine List.nodup_cons.mpr ⟨?_, ?_⟩
      · intro hmem
        have := List.mem_eraseDups.mp hmem
        simp at this
      · apply ih
        have := List.length_filter_le (fun b => !b == a) as
        simp only [List.length_cons] at hl
        omega

theorem nodup_eraseDups (l : List Aff) : l.eraseDups.Nodup := nodup_eraseDups_aux l.length l (Nat.le_refl _)

/-- `sortAffs` is the generic insertion sort on the key -/
def affLe (a b : Aff) : Bool := a.key ≤ b.key

theorem mem_insertAffByKey {a x : Aff} {l : List Aff} : x ∈ insertAffByKey a l ↔ x = a ∨ x ∈ l := by
  induction l with
  | nil => simp [insertAffByKey]
  | cons b bs ih =>
    unfold insertAffByKey
    split
    · simp
    · simp only [List.mem_cons, ih]
      constructor
      · rintro (h | h | h)
        · exact Or.inr (Or.inl h)
        · exact Or.inl h
        · exact Or.inr (Or.inr h)
      · rintro (h | h | h)
        · exact Or.inr (Or.inl h)
        · exact Or.inl h
        · exact Or.inr (Or.inr h)

theorem mem_sortAffs {x : Aff} {l : List Aff} : x ∈ sortAffs l ↔ x ∈ l := by
  unfold sortAffs
  induction l with
  | nil => simp
  | cons a as ih => simp only [List.foldr_cons, mem_insertAffByKey, ih, List.mem_cons]

/-- sorted strictly by key, given distinct keys -/
theorem insertAffByKey_sorted {a : Aff} {l : List Aff} (h : l.Pairwise (fun x y => x.key < y.key))
    (ha : ∀ x ∈ l, x.key ≠ a.key) : (insertAffByKey a l).Pairwise (fun x y => x.key < y.key) := by
  induction l with
  | nil => simp [insertAffByKey]
  | cons b bs ih =>
    have hb := List.pairwise_cons.mp h
    have hab : b.key ≠ a.key := ha b (by simp)
    unfold insertAffByKey
    split
    · rename_i hle
      refine List.pairwise_cons.mpr ⟨?_, h⟩
      intro y hy
      rcases List.mem_cons.mp hy with e | e
      · subst e; omega
      · have := hb.1 y e; omega
    · rename_i hle
      refine List.pairwise_cons.mpr ⟨?_, ih hb.2 (fun x hx => ha x (by simp [hx]))⟩
      intro y hy
      rcases mem_insertAffByKey.mp hy with e | e
      · subst e; omega
      · exact hb.1 y e

theorem sortAffs_sorted {l : List Aff} (hn : l.Nodup) (hk : ∀ x ∈ l, ∀ y ∈ l, x.key = y.key → x = y) :
    (sortAffs l).Pairwise (fun x y => x.key < y.key) := by
  unfold sortAffs
  induction l with
  | nil => simp
  | cons a as ih =>
    simp only [List.foldr_cons]
    have hna := List.nodup_cons.mp hn
    apply insertAffByKey_sorted (ih hna.2 (fun x hx y hy => hk x (by simp [hx]) y (by simp [hy])))
    intro x hx he
    have hx' : x ∈ as := mem_sortAffs.mp hx
    have := hk x (by simp [hx']) a (by simp) he
    exact hna.1 (this ▸ hx')

/-- two duplicate-free lists with the same members and distinct keys sort to the same list -/
theorem sortAffs_congr {l1 l2 : List Aff} (h1 : l1.Nodup) (h2 : l2.Nodup) (hm : ∀ x, x ∈ l1 ↔ x ∈ l2)
    (hk : ∀ x ∈ l1, ∀ y ∈ l1, x.key = y.key → x = y) : sortAffs l1 = sortAffs l2 := by
  have hk2 : ∀ x ∈ l2, ∀ y ∈ l2, x.key = y.key → x = y :=
    fun x hx y hy => hk x ((hm x).mpr hx) y ((hm y).mpr hy)
  apply Acb.Order.sorted_unique (fun (x y : Aff) => x.key < y.key) (fun a => by omega) (fun a b h h' => by omega)
    _ _ (sortAffs_sorted h1 hk) (sortAffs_sorted h2 hk2)
  intro x; rw [mem_sortAffs, mem_sortAffs]; exact hm x

end Acb

namespace Acb

/-- a row that is not a split, appended at the far end of the rows already seen, changes neither
    the backward look for a nearby affiliate-specific split … -/
theorem surroundBack_append {b : PRow} (hb : b.tx.act.isSplit = false) (target : Int) :
    ∀ (X : List PRow), surroundBack target (X ++ [b]) = surroundBack target X := by
  intro X
  induction X with
  | nil => simp [surroundBack, isNonGlobalSplit, hb]
  | cons x xs ih =>
    simp only [List.cons_append, surroundBack, ih]

/-- … nor therefore the split validation -/
theorem splitConflict_append {b : PRow} (hb : b.tx.act.isSplit = false) :
    ∀ (rest X : List PRow), splitConflict (X ++ [b]) rest = splitConflict X rest := by
  intro rest
  induction rest with
  | nil => intro X; simp [splitConflict]
  | cons r rest ih =>
    intro X
    rw [splitConflict, splitConflict, surroundBack_append hb]
    split
    · rfl
    · have := ih (r :: X)
      simpa using this

theorem splitConflict_cons {b : PRow} (hb : b.tx.act.isSplit = false) (R : List PRow) :
    splitConflict [] (b :: R) = splitConflict [] R := by
  rw [splitConflict]
  have : isGlobalSplit b = false := by simp [isGlobalSplit, hb]
  simp only [this, Bool.false_and, Bool.false_eq_true, if_false]
  exact splitConflict_append hb R []

theorem expandSplits_cons {b : PRow} (hb : b.tx.act.isSplit = false) (affs : List Aff) (R : List PRow) :
    expandSplits affs (b :: R) = b.tx :: expandSplits affs R := by
  have : isGlobalSplit b = false := by simp [isGlobalSplit, hb]
  simp [expandSplits, this]

theorem expandSplits_ne_nil {affs : List Aff} (ha : affs ≠ []) {R : List PRow} (hR : R ≠ []) :
    expandSplits affs R ≠ [] := by
  cases R with
  | nil => exact absurd rfl hR
  | cons r rs =>
    unfold expandSplits
    simp only [List.flatMap_cons]
    split
    · cases affs with
      | nil => exact absurd rfl ha
      | cons a as => simp
    · simp

theorem sortAffs_ne_nil {l : List Aff} (h : l ≠ []) : sortAffs l ≠ [] := by
  cases l with
  | nil => exact absurd rfl h
  | cons a as =>
    intro he
    have : a ∈ sortAffs (a :: as) := mem_sortAffs.mpr (by simp)
    rw [he] at this; simp at this

/-- **The affiliates a split for all affiliates is expanded to** are the same in both forms: with the
    opening position the default affiliate is added as a holder; with the opening purchase it has a
    row of its own. -/
theorem splitAffs_opening (dflt : Aff) {b : PRow} (hbg : b.glob = false) (hba : b.tx.aff = dflt) (R : List PRow)
    (hk : ∀ x ∈ dflt :: nonGlobalAffs R, ∀ y ∈ dflt :: nonGlobalAffs R, x.key = y.key → x = y) :
    splitAffs dflt [] (b :: R) = splitAffs dflt [dflt] R := by
  unfold splitAffs
  simp only [List.filter_nil, List.append_nil]
  have hmemL : ∀ x, x ∈ nonGlobalAffs (b :: R) ↔ x = dflt ∨ x ∈ nonGlobalAffs R := by
    intro x
    unfold nonGlobalAffs
    simp only [List.mem_eraseDups, List.filter_cons, hbg, Bool.not_false, if_true, List.map_cons, List.mem_cons, hba]
  have hmemR : ∀ x, x ∈ nonGlobalAffs R ++ List.filter (fun h => !(nonGlobalAffs R).contains h) [dflt] ↔
      x = dflt ∨ x ∈ nonGlobalAffs R := by
    intro x
    by_cases hc : (nonGlobalAffs R).contains dflt = true
    · have hin : dflt ∈ nonGlobalAffs R := by simpa using hc
      simp only [List.filter_cons, hc, Bool.not_true, Bool.false_eq_true, if_false, List.filter_nil, List.append_nil]
      constructor
      · intro h; exact Or.inr h
      · rintro (h | h)
        · rw [h]; exact hin
        · exact h
    · have hc' : (nonGlobalAffs R).contains dflt = false := by simpa using hc
      simp only [List.filter_cons, hc', Bool.not_false, if_true, List.filter_nil, List.mem_append, List.mem_singleton]
      constructor
      · rintro (h | h)
        · exact Or.inr h
        · exact Or.inl h
      · rintro (h | h)
        · exact Or.inr h
        · exact Or.inl h
  have hneL : nonGlobalAffs (b :: R) ≠ [] := by
    intro he
    have := (hmemL dflt).mpr (Or.inl rfl)
    rw [he] at this; simp at this
  have hneR : nonGlobalAffs R ++ List.filter (fun h => !(nonGlobalAffs R).contains h) [dflt] ≠ [] := by
    intro he
    have := (hmemR dflt).mpr (Or.inl rfl)
    rw [he] at this; simp at this
  have eL : (nonGlobalAffs (b :: R)).isEmpty = false := by
    cases h : nonGlobalAffs (b :: R) with
    | nil => exact absurd h hneL
    | cons _ _ => rfl
  have eR : (nonGlobalAffs R ++ List.filter (fun h => !(nonGlobalAffs R).contains h) [dflt]).isEmpty = false := by
    cases h : nonGlobalAffs R ++ List.filter (fun h => !(nonGlobalAffs R).contains h) [dflt] with
    | nil => exact absurd h hneR
    | cons _ _ => rfl
  simp only [eL, eR, Bool.false_eq_true, if_false]
  apply sortAffs_congr
  · exact nodup_eraseDups _
  · -- nonGlobalAffs R ++ (dflt if missing) is duplicate-free
    by_cases hc : (nonGlobalAffs R).contains dflt = true
    · simp only [List.filter_cons, hc, Bool.not_true, Bool.false_eq_true, if_false, List.filter_nil, List.append_nil]
      exact nodup_eraseDups _
    · have hc' : (nonGlobalAffs R).contains dflt = false := by simpa using hc
      have hnin : dflt ∉ nonGlobalAffs R := by
        intro h; have : (nonGlobalAffs R).contains dflt = true := by simpa using h
        rw [this] at hc'; cases hc'
      simp only [List.filter_cons, hc', Bool.not_false, if_true, List.filter_nil]
      rw [List.nodup_append]
      refine ⟨nodup_eraseDups _, by simp, ?_⟩
      intro x hx y hy
      simp only [List.mem_singleton] at hy
      rw [hy]; intro e; exact hnin (e ▸ hx)
  · intro x; rw [hmemL, hmemR]
  · intro x hx y hy
    exact hk x (by rw [List.mem_cons]; exact (hmemL x).mp hx) y (by rw [List.mem_cons]; exact (hmemL y).mp hy)

end Acb
