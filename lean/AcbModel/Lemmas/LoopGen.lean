/-
  A generic induction principle for `deltaLoop`: a tracker/books invariant `I` maintained by every
  row, a per-delta conclusion `P`, a predicate `Q` on failures, and a predicate `Good` on rows that
  the injected rows inherit.
-/
import AcbModel.Lemmas.Loop
namespace Acb
open Spec

def ListP (P : Books → Delta → Prop) : Books → List Delta → Prop
  | _, [] => True
  | bs, d :: ds => P bs d ∧ ListP P (stepBooks bs d.tx) ds

theorem ListP_append {P : Books → Delta → Prop} {bs : Books} {l1 l2 : List Delta} :
    ListP P bs (l1 ++ l2) ↔ ListP P bs l1 ∧ ListP P (after bs (l1.map (·.tx))) l2 := by
  induction l1 generalizing bs with
  | nil => simp [ListP, after]
  | cons d ds ih =>
    simp only [List.cons_append, ListP, List.map_cons, after, List.foldl_cons]
    rw [ih]; simp only [after]
    constructor
    · rintro ⟨h1, h2, h3⟩; exact ⟨⟨h1, h2⟩, h3⟩
    · rintro ⟨⟨h1, h2⟩, h3⟩; exact ⟨h1, h2, h3⟩

theorem ListP_mem {P : Books → Delta → Prop} {bs : Books} {ds : List Delta} (h : ListP P bs ds) :
    ∀ d ∈ ds, ∃ bs', P bs' d := by
  induction ds generalizing bs with
  | nil => simp
  | cons x xs ih =>
    intro d hd
    simp only [List.mem_cons] at hd
    rcases hd with rfl | hd
    · exact ⟨bs, h.1⟩
    · exact ih h.2 d hd

structure StepSpec (I : Tracker → Books → Prop) (P : Books → Delta → Prop)
    (Q : Failure → Prop) (Good : Tx → Prop) : Prop where
  ok : ∀ {t bs tx past future d t' inj}, I t bs → Good tx →
    (∀ x ∈ past, Good x) → (∀ x ∈ future, Good x) →
    stepRow t tx past future = .ok (d, t', inj) →
    d.tx = tx ∧ P bs d ∧ I t' (stepBooks bs tx) ∧ ∀ x ∈ inj, Good x
  err : ∀ {t bs tx past future f}, I t bs → Good tx →
    (∀ x ∈ past, Good x) → (∀ x ∈ future, Good x) →
    stepRow t tx past future = .error f → Q f

variable {I : Tracker → Books → Prop} {P : Books → Delta → Prop} {Q : Failure → Prop} {Good : Tx → Prop}

theorem runInjected_gen (S : StepSpec I P Q Good) {bs : Books} :
    ∀ (inj : List Tx) (t : Tracker) (past : List Tx) (acc : List Delta) (future : List Tx),
    (∀ x ∈ inj, Good x) → (∀ x ∈ past, Good x) → (∀ x ∈ future, Good x) → I t bs →
    (∃ out t' past', runInjected t past acc inj future = .inl (t', past', acc ++ out) ∧
        ListP P bs out ∧ I t' (after bs (out.map (·.tx))) ∧ (∀ x ∈ past', Good x)) ∨
    (∃ out f, runInjected t past acc inj future = .inr (acc ++ out, f) ∧ ListP P bs out ∧ Q f) := by
  intro inj
  induction inj generalizing bs with
  | nil =>
    intro t past acc future _ hgp _ hi
    left
    exact ⟨[], t, past, by simp [runInjected], by simp [ListP], by simpa [after] using hi, hgp⟩
  | cons x xs ih =>
    intro t past acc future hg hgp hgf hi
    have hgx : Good x := hg x (by simp)
    have hg' : ∀ y ∈ xs, Good y := fun y hy => hg y (by simp [hy])
    have hgf' : ∀ y ∈ xs ++ future, Good y := by
      intro y hy; simp only [List.mem_append] at hy
      rcases hy with hy | hy
      · exact hg' y hy
      · exact hgf y hy
    unfold runInjected
    split
    · rename_i f hf
      right; exact ⟨[], f, by simp, by simp [ListP], S.err hi hgx hgp hgf' hf⟩
    · rename_i d t' inj' hs
      obtain ⟨htx, hp, hi', _⟩ := S.ok hi hgx hgp hgf' hs
      have hgp' : ∀ y ∈ x :: past, Good y := by
        intro y hy; simp only [List.mem_cons] at hy
        rcases hy with rfl | hy
        · exact hgx
        · exact hgp y hy
      rcases ih (bs := stepBooks bs x) t' (x :: past) (acc ++ [d]) future hg' hgp' hgf hi' with
        ⟨out, t'', past', h1, h2, h3, h4⟩ | ⟨out, f, h1, h2, h3⟩
      · left
        refine ⟨d :: out, t'', past', by simpa using h1, ?_, ?_, h4⟩
        · simp only [ListP]; rw [htx]; exact ⟨hp, h2⟩
        · simpa [after, htx] using h3
      · right
        refine ⟨d :: out, f, by simpa using h1, ?_, h3⟩
        simp only [ListP]; rw [htx]; exact ⟨hp, h2⟩

theorem deltaLoop_gen (S : StepSpec I P Q Good) {bs : Books} :
    ∀ (future : List Tx) (t : Tracker) (past : List Tx) (acc : List Delta),
    (∀ x ∈ future, Good x) → (∀ x ∈ past, Good x) → I t bs →
    ∃ out, (deltaLoop t past acc future).1 = acc ++ out ∧ ListP P bs out ∧
      ∀ f, (deltaLoop t past acc future).2 = some f → Q f := by
  intro future
  induction future generalizing bs with
  | nil => intro t past acc _ _ _; exact ⟨[], by simp [deltaLoop], by simp [ListP], by simp [deltaLoop]⟩
  | cons tx rest ih =>
    intro t past acc hg hgp hi
    have hgx : Good tx := hg tx (by simp)
    have hg' : ∀ y ∈ rest, Good y := fun y hy => hg y (by simp [hy])
    unfold deltaLoop
    split
    · rename_i f hf
      refine ⟨[], by simp, by simp [ListP], ?_⟩
      intro f' hf'; simp at hf'; subst hf'
      exact S.err hi hgx hgp hg' hf
    · rename_i d t' inj hs
      obtain ⟨htx, hp, hi', hginj⟩ := S.ok hi hgx hgp hg' hs
      have hgp' : ∀ y ∈ tx :: past, Good y := by
        intro y hy; simp only [List.mem_cons] at hy
        rcases hy with rfl | hy
        · exact hgx
        · exact hgp y hy
      rcases runInjected_gen S (bs := stepBooks bs tx) inj t' (tx :: past) (acc ++ [d]) rest hginj hgp' hg' hi' with
        ⟨out, t'', past', h1, h2, h3, h3'⟩ | ⟨out, f, h1, h2, h3⟩
      · rw [h1]
        simp only
        obtain ⟨out2, h4, h5, h6⟩ := ih (bs := after (stepBooks bs tx) (out.map (·.tx))) t'' past' (acc ++ [d] ++ out) hg' h3' h3
        refine ⟨d :: (out ++ out2), by rw [h4]; simp, ?_, h6⟩
        simp only [ListP]; rw [htx]
        refine ⟨hp, ?_⟩
        rw [ListP_append]; exact ⟨h2, h5⟩
      · rw [h1]
        simp only
        refine ⟨d :: out, by simp, ?_, ?_⟩
        · simp only [ListP]; rw [htx]; exact ⟨hp, h2⟩
        · intro f' hf'; simp at hf'; subst hf'; exact h3

end Acb
