/-
  helper lemmas for C08_aggregate_additive
-/
import AcbModel.Lemmas.Gains
namespace Acb.Gains

theorem completed_append (yearOf : Int → Int) (rs rs' : List SecResult) :
    completed yearOf (rs ++ rs') = completed yearOf rs ++ completed yearOf rs' := by
  simp [completed, List.filter_append]

theorem sumOver_append' {α : Type} (l l' : List α) (f : α → Rat) :
    Acb.Costs.sumOver (l ++ l') f = Acb.Costs.sumOver l f + Acb.Costs.sumOver l' f := by
  induction l with
  | nil => simp [Acb.Costs.sumOver]; grind
  | cons a as ih => simp only [List.cons_append, Acb.Costs.sumOver_cons, ih]; grind

end Acb.Gains
