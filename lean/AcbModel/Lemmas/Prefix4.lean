/-
  C10's engine, part 4: the whole simple-mode summary replayed on the empty tracker gives a tracker
  that agrees, on every observable, with the tracker the summarised rows had produced.
-/
import AcbModel.Lemmas.Prefix3
namespace Acb

theorem loopPrefix_append :
    ∀ (q1 q2 r : List Tx) (t : Tracker) (past : List Tx) (acc : List Delta),
      loopPrefix t past acc (q1 ++ q2) r =
        match loopPrefix t past acc q1 (q2 ++ r) with
        | .inl (t2, past2, acc2) => loopPrefix t2 past2 acc2 q2 r
        | .inr e => .inr e := by
  intro q1
  induction q1 with
  | nil => intro q2 r t past acc; simp [loopPrefix]
  | cons x q ih =>
    intro q2 r t past acc
    simp only [List.cons_append]
    rw [loopPrefix, loopPrefix, List.append_assoc]
    cases stepRow t x past (q ++ (q2 ++ r)) with
    | error f => rfl
    | ok res =>
      obtain ⟨d, t', inj⟩ := res
      simp only
      cases runInjected t' (x :: past) (acc ++ [d]) inj (q ++ (q2 ++ r)) with
      | inr e => rfl
      | inl s =>
        obtain ⟨t'', past', acc'⟩ := s
        simp only
        exact ih q2 r t'' past' acc'

/-- the simple-mode summary of a tracker state: per affiliate of `As`, the rows for its shares and
    cost base, dated `day a` -/
def summaryOfTracker (tP : Tracker) (day : Aff → Int) (As : List Aff) : List Tx :=
  As.flatMap (fun a => summaryRowsOf (day a) a (tP.bal a) (tP.acbOf a))

/-- what `summaryOfTracker` needs of the summarised tracker: per affiliate a well-formed status -/
structure StatusesOk (tP : Tracker) : Prop where
  nonneg : ∀ a, 0 ≤ tP.bal a
  reg : ∀ a, (tP.acbOf a).isNone = a.registered
  acb : ∀ a v, tP.acbOf a = some v → 0 ≤ v

theorem loopPrefix_summary (tP : Tracker) (hP : StatusesOk tP) (day : Aff → Int) :
    ∀ (L : List Aff), L.Nodup → ∀ (c : Tracker) (past : List Tx) (acc : List Delta) (r : List Tx),
      FreshInv c → (∀ a ∈ L, c.m a = none) →
      ∃ c2 ds, loopPrefix c past acc (summaryOfTracker tP day L) r =
          .inl (c2, (summaryOfTracker tP day L).reverse ++ past, acc ++ ds) ∧
        FreshInv c2 ∧ (∀ x, c2.bal x = if x ∈ L then tP.bal x else c.bal x) ∧
        (∀ x, c2.acbOf x = if x ∈ L then tP.acbOf x else c.acbOf x) ∧
        (∀ x, x ∉ L → c2.m x = c.m x) ∧ c2.latestAll = c.latestAll + sumOver L tP.bal ∧
        ds.length = (summaryOfTracker tP day L).length := by
  intro L
  induction L with
  | nil =>
    intro _ c past acc r hc _
    exact ⟨c, [], by simp [summaryOfTracker, loopPrefix], hc, by simp, by simp, fun _ _ => rfl, by simp; grind, rfl⟩
  | cons a L ih =>
    intro hnd c past acc r hc hfresh
    have haL : a ∉ L := (List.nodup_cons.mp hnd).1
    have hrows : summaryOfTracker tP day (a :: L) =
        summaryRowsOf (day a) a (tP.bal a) (tP.acbOf a) ++ summaryOfTracker tP day L := by
      simp [summaryOfTracker]
    obtain ⟨c1, ds1, h1, hc1, hb1, ha1, hm1, hl1, hlen1⟩ :=
      loopPrefix_summaryRows hc (hfresh a (by simp)) (day a) (tP.bal a) (tP.acbOf a) (hP.nonneg a) (hP.reg a)
        (hP.acb a) past acc (summaryOfTracker tP day L ++ r)
    have hfresh1 : ∀ b ∈ L, c1.m b = none := by
      intro b hb
      have : b ≠ a := fun e => haL (e ▸ hb)
      rw [hm1 b this]; exact hfresh b (by simp [hb])
    obtain ⟨c2, ds2, h2, hc2, hb2, ha2, hm2, hl2, hlen2⟩ :=
      ih (List.nodup_cons.mp hnd).2 c1 (((summaryRowsOf (day a) a (tP.bal a) (tP.acbOf a)).reverse) ++ past) (acc ++ ds1) r hc1 hfresh1
    refine ⟨c2, ds1 ++ ds2, ?_, hc2, ?_, ?_, ?_, ?_, ?_⟩
    · rw [hrows, loopPrefix_append, h1]
      simp only
      rw [h2]
      simp [List.reverse_append, List.append_assoc]
    · intro x
      rw [hb2, hb1]
      by_cases hxL : x ∈ L
      · simp [hxL]
      · by_cases hxa : x = a
        · rw [hxa]; simp [haL]
        · simp [hxL, hxa]
    · intro x
      rw [ha2, ha1]
      by_cases hxL : x ∈ L
      · simp [hxL]
      · by_cases hxa : x = a
        · rw [hxa]; simp [haL]
        · simp [hxL, hxa]
    · intro x hx
      simp only [List.mem_cons, not_or] at hx
      rw [hm2 x hx.2, hm1 x hx.1]
    · rw [hl2, hl1]; simp only [sumOver_cons]; grind
    · rw [hrows]; simp [hlen1, hlen2]

/-- **The replayed summary reproduces the tracker.** -/
theorem summary_obsEq {As : List Aff} (hn : As.Nodup) {tP : Tracker} (hsum : SumInv As tP) (hsupp : Supp As tP)
    (hP : StatusesOk tP) (day : Aff → Int) (dflt : Aff) (r : List Tx) :
    ∃ tS dS, loopPrefix { m := fun _ => none, latestAll := 0, latestAff := dflt } [] [] (summaryOfTracker tP day As) r =
        .inl (tS, (summaryOfTracker tP day As).reverse, dS) ∧ ObsEq tP tS ∧
      dS.length = (summaryOfTracker tP day As).length := by
  have hc0 : FreshInv { m := fun _ => none, latestAll := 0, latestAff := dflt } :=
    ⟨by simp, by simp [Tracker.latestPostAll]⟩
  obtain ⟨c2, ds, h, hc2, hb, ha, hm, hl, hlen⟩ :=
    loopPrefix_summary tP hP day As hn { m := fun _ => none, latestAll := 0, latestAff := dflt } [] [] r hc0 (by simp)
  refine ⟨c2, ds, by simpa using h, ?_, hlen⟩
  have hbal : ∀ x, c2.bal x = tP.bal x := by
    intro x; rw [hb]
    by_cases hx : x ∈ As
    · simp [hx]
    · simp only [hx, if_false]; rw [hsum.support x hx]; simp [Tracker.bal]
  have hacb : ∀ x, c2.acbOf x = tP.acbOf x := by
    intro x; rw [ha]
    by_cases hx : x ∈ As
    · simp [hx]
    · simp only [hx, if_false]
      simp [Tracker.acbOf, hsupp x hx]
  have hall : c2.latestAll = tP.latestAll := by rw [hl, hsum.total]; simp; grind
  constructor
  · intro x; rw [nextPre_eq, nextPre_eq, hbal, hacb, hall]
  · rw [hc2.latest, hsum.latest, hall]

end Acb
