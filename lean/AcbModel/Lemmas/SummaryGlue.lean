/-
  C10's glue, part 1: what the deltas of a run look like — each row's delta (followed by the deltas
  of the adjustment rows it generated, all carrying its settlement date), in row order — and that
  the tracker's status of an affiliate is the `post` of that affiliate's last delta.
-/
import AcbModel.Lemmas.Prefix5
import AcbModel.Lemmas.Blocks
namespace Acb

/-- the last delta (so far) of affiliate `a` -/
def lastD (acc : List Delta) (a : Aff) : Option Delta :=
  acc.foldl (fun o d => if d.tx.aff = a then some d else o) none

theorem lastD_snoc (acc : List Delta) (d : Delta) (a : Aff) :
    lastD (acc ++ [d]) a = if d.tx.aff = a then some d else lastD acc a := by
  simp [lastD, List.foldl_append]

/-- the tracker holds, per affiliate, the `post` of its last delta -/
def TrackInv (t : Tracker) (acc : List Delta) : Prop := ∀ a, t.m a = (lastD acc a).map (·.post)

theorem stepRow_tx {t t' : Tracker} {tx : Tx} {past future : List Tx} {d : Delta} {inj : List Tx}
    (h : stepRow t tx past future = .ok (d, t', inj)) : d.tx = tx := by
  unfold stepRow at h
  split at h
  · cases h
  · rename_i d0 i0 hd
    split at h
    · cases h
    · simp only [Except.ok.injEq, Prod.mk.injEq] at h
      obtain ⟨e1, _, _⟩ := h
      subst e1
      exact (deltaForTx_shape hd).1

theorem stepRow_track {t t' : Tracker} {tx : Tx} {past future : List Tx} {d : Delta} {inj : List Tx}
    {acc : List Delta} (hi : TrackInv t acc) (h : stepRow t tx past future = .ok (d, t', inj)) :
    TrackInv t' (acc ++ [d]) := by
  have htx := stepRow_tx h
  obtain ⟨_, _, rfl⟩ := setLatest_ok (stepRow_setLatest h)
  intro a
  rw [lastD_snoc, htx]
  by_cases e : tx.aff = a
  · subst e; simp [upd]
  · have : a ≠ tx.aff := fun e' => e e'.symm
    simp [upd, e, this, hi a]

/-- the deltas appended by a block: all carry the date `day` -/
def AllDated (day : Int) (ext : List Delta) : Prop := ∀ d ∈ ext, d.tx.settle = day

theorem runInjected_glue :
    ∀ (inj : List Tx) (t : Tracker) (past : List Tx) (acc : List Delta) (fa : List Tx),
      TrackInv t acc →
      match runInjected t past acc inj fa with
      | .inl (t2, _, acc2) => TrackInv t2 acc2 ∧ ∃ ext, acc2 = acc ++ ext ∧ ext.map (·.tx) = inj
      | .inr _ => True := by
  intro inj
  induction inj with
  | nil => intro t past acc fa hi; simp only [runInjected]; exact ⟨hi, [], by simp, rfl⟩
  | cons x xs ih =>
    intro t past acc fa hi
    rw [runInjected]
    cases hstep : stepRow t x past (xs ++ fa) with
    | error e => simp
    | ok r =>
      obtain ⟨d, t1, injd⟩ := r
      simp only
      have h1 := ih t1 (x :: past) (acc ++ [d]) fa (stepRow_track hi hstep)
      generalize runInjected t1 (x :: past) (acc ++ [d]) xs fa = R at h1 ⊢
      cases R with
      | inr e => simp
      | inl s =>
        obtain ⟨t2, past2, acc2⟩ := s
        simp only at h1 ⊢
        obtain ⟨hT, ext, he, hm⟩ := h1
        exact ⟨hT, d :: ext, by simp [he], by simp [stepRow_tx hstep, hm]⟩

/-- what a stretch of the loop appends: for every row a delta of that row; every delta carries the
    date of one of the rows; and the dates come in the order of the rows -/
structure ExtOf (q : List Tx) (ext : List Delta) : Prop where
  dated : ∀ d ∈ ext, d.tx.settle ∈ q.map (·.settle)
  own : ∀ x ∈ q, ∃ d ∈ ext, d.tx = x
  sorted : q.Pairwise (fun a b => a.settle ≤ b.settle) →
    ext.Pairwise (fun a b => a.tx.settle ≤ b.tx.settle)

theorem ExtOf.nil : ExtOf [] [] := ⟨by simp, by simp, by simp⟩

theorem ExtOf.cons {x : Tx} {q : List Tx} {d : Delta} {outinj ext : List Delta} (hd : d.tx = x)
    (hinj : ∀ e ∈ outinj, e.tx.settle = x.settle) (h : ExtOf q ext) :
    ExtOf (x :: q) (d :: (outinj ++ ext)) := by
  refine ⟨?_, ?_, ?_⟩
  · intro e he
    simp only [List.mem_cons, List.mem_append] at he
    simp only [List.map_cons, List.mem_cons]
    rcases he with rfl | he | he
    · left; rw [hd]
    · left; exact hinj e he
    · right; exact h.dated e he
  · intro y hy
    simp only [List.mem_cons] at hy
    rcases hy with rfl | hy
    · exact ⟨d, by simp, hd⟩
    · obtain ⟨e, he, hey⟩ := h.own y hy
      exact ⟨e, by simp [he], hey⟩
  · intro hs
    obtain ⟨hx, hq⟩ := List.pairwise_cons.mp hs
    have hge : ∀ e ∈ ext, x.settle ≤ e.tx.settle := by
      intro e he
      obtain ⟨y, hy, hye⟩ := List.mem_map.mp (h.dated e he)
      rw [← hye]; exact hx y hy
    refine List.pairwise_cons.mpr ⟨?_, List.pairwise_append.mpr ⟨?_, h.sorted hq, ?_⟩⟩
    · intro e he
      simp only [List.mem_append] at he
      rw [hd]
      rcases he with he | he
      · rw [hinj e he]; exact Int.le_refl _
      · exact hge e he
    · refine List.pairwise_iff_forall_sublist.mpr ?_
      intro a b hab
      have ha := hinj a (hab.subset (by simp))
      have hb := hinj b (hab.subset (by simp))
      rw [ha, hb]; exact Int.le_refl _
    · intro a ha b hb
      rw [hinj a ha]; exact hge b hb

theorem loopPrefix_glue :
    ∀ (q r : List Tx) (t : Tracker) (past : List Tx) (acc : List Delta), TrackInv t acc →
      match loopPrefix t past acc q r with
      | .inl (t2, _, acc2) => TrackInv t2 acc2 ∧ ∃ ext, acc2 = acc ++ ext ∧ ExtOf q ext
      | .inr _ => True := by
  intro q
  induction q with
  | nil => intro r t past acc hi; simp only [loopPrefix]; exact ⟨hi, [], by simp, ExtOf.nil⟩
  | cons x qs ih =>
    intro r t past acc hi
    rw [loopPrefix]
    cases hstep : stepRow t x past (qs ++ r) with
    | error e => simp
    | ok res =>
      obtain ⟨d, t1, inj⟩ := res
      simp only
      have hR := runInjected_glue inj t1 (x :: past) (acc ++ [d]) (qs ++ r) (stepRow_track hi hstep)
      generalize runInjected t1 (x :: past) (acc ++ [d]) inj (qs ++ r) = R at hR ⊢
      cases R with
      | inr e => simp
      | inl s =>
        obtain ⟨t2, past2, acc2⟩ := s
        simp only at hR ⊢
        obtain ⟨hT, outinj, he, hm⟩ := hR
        have h2 := ih r t2 past2 acc2 hT
        generalize loopPrefix t2 past2 acc2 qs r = L at h2 ⊢
        cases L with
        | inr e => simp
        | inl s2 =>
          obtain ⟨t3, past3, acc3⟩ := s2
          simp only at h2 ⊢
          obtain ⟨hT3, ext, he3, hx3⟩ := h2
          refine ⟨hT3, d :: (outinj ++ ext), by simp [he3, he], ?_⟩
          refine ExtOf.cons (stepRow_tx hstep) ?_ hx3
          intro e he'
          have : e.tx ∈ inj := by rw [← hm]; exact List.mem_map_of_mem he'
          exact (stepRow_inj_props (fun _ => True) (fun _ _ => trivial) (fun _ _ => trivial) hstep _ this).2

end Acb
