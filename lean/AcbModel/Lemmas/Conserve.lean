/-
  Money conservation (C03), part 1: a bookkeeping identity that holds for every list of deltas
  conforming to the average-cost rules — the quantity
      Ψ = gains − proceeds + costs − returns of capital − (cost base held − opening cost base)
  changes, row by row, by exactly the "imbalance" of the row: a sale adds the loss it denies,
  a cost-base adjustment (SfLA) row subtracts its amount, every other row leaves Ψ alone.
-/
import AcbModel.Lemmas.WfLoop
namespace Acb
open Spec

/-- total cost base held by the affiliates of `U` -/
def totalAcb (U : List Aff) (bs : Books) : Rat := sumOver U (fun a => ((bs a).acb).getD 0)

structure Flows where
  gains : Rat := 0
  proceeds : Rat := 0
  costs : Rat := 0
  roc : Rat := 0

/-- Cash flows of one row, read off the INPUT row (and the shares held, for a return of capital);
    the gain is the one the ledger reports. -/
def flowStep (bs : Books) (f : Flows) (d : Delta) : Flows :=
  let f := { f with gains := f.gains + d.gain.getD 0 }
  match d.tx.act with
  | .buy sh px comm rate crate => { f with costs := f.costs + (px * sh * rate + comm * commRate rate crate) }
  | .sell sh px comm rate crate _ => { f with proceeds := f.proceeds + (px * sh * rate - comm * commRate rate crate) }
  | .roc ps rate => { f with roc := f.roc + ps * (bs d.tx.aff).shares * rate }
  | _ => f

def flows : Books → Flows → List Delta → Flows
  | _, f, [] => f
  | bs, f, d :: ds => flows (stepBooks bs d.tx) (flowStep bs f d) ds

/-- imbalance contributed by one row -/
def imbalance (d : Delta) : Rat :=
  match d.tx.act with
  | .sell .. => - sflLoss d.sfl
  | .sfla sh ps => - (sh * ps)
  | _ => 0

def imbalances (ds : List Delta) : Rat := (ds.map imbalance).sum

def psi (U : List Aff) (bs0 bs : Books) (f : Flows) : Rat :=
  f.gains - f.proceeds + f.costs - f.roc - (totalAcb U bs - totalAcb U bs0)

theorem totalAcb_step {U : List Aff} (hn : U.Nodup) {bs : Books} {tx : Tx} (ha : tx.aff ∈ U) :
    totalAcb U (stepBooks bs tx) =
      totalAcb U bs - ((bs tx.aff).acb).getD 0 + ((stepBook (bs tx.aff) tx.act).acb).getD 0 := by
  unfold totalAcb
  have : (fun a => ((stepBooks bs tx a).acb).getD 0) =
      (fun a => if a = tx.aff then ((stepBook (bs tx.aff) tx.act).acb).getD 0 else ((bs a).acb).getD 0) := by
    funext a; unfold stepBooks; split <;> rfl
  rw [this, sumOver_upd hn ha]

/-- One conforming row of a non-registered affiliate changes Ψ by the row's imbalance. -/
theorem psi_step {U : List Aff} (hn : U.Nodup) {bs0 bs : Books} {f : Flows} {d : Delta}
    (ha : d.tx.aff ∈ U) (hacb : ∃ c, (bs d.tx.aff).acb = some c)
    (hsell : ∀ sh px comm rate crate spec, d.tx.act = .sell sh px comm rate crate spec → (bs d.tx.aff).shares ≠ 0)
    (hgain : d.gain = (gain0 (bs d.tx.aff) d.tx.act).map (fun g => g - sflLoss d.sfl)) :
    psi U bs0 (stepBooks bs d.tx) (flowStep bs f d) = psi U bs0 bs f + imbalance d := by
  obtain ⟨c, hc⟩ := hacb
  unfold psi
  rw [totalAcb_step hn ha]
  unfold flowStep imbalance
  cases hact : d.tx.act with
  | buy sh px comm rate crate =>
    simp only [hact, gain0, Option.map_none] at hgain
    simp [hgain, stepBook, hc]; grind
  | sell sh px comm rate crate spec =>
    simp only [hact, gain0, hc, Option.map_some] at hgain
    have hS := hsell _ _ _ _ _ _ hact
    simp [hgain, stepBook, hc]; grind
  | roc ps rate =>
    simp only [hact, gain0, Option.map_none] at hgain
    simp [hgain, stepBook, hc]; grind
  | sfla sh ps =>
    simp only [hact, gain0, Option.map_none] at hgain
    simp [hgain, stepBook, hc]; grind
  | split post pre io =>
    simp only [hact, gain0, Option.map_none] at hgain
    simp [hgain, stepBook, hc]; grind

end Acb

namespace Acb
open Spec

/-- every affiliate of `U` has a cost base (none is registered) -/
def AcbSome (U : List Aff) (bs : Books) : Prop := ∀ a ∈ U, ∃ c, (bs a).acb = some c

theorem AcbSome.step {U : List Aff} {bs : Books} (h : AcbSome U bs) (tx : Tx) : AcbSome U (stepBooks bs tx) := by
  intro a ha
  unfold stepBooks
  split
  · obtain ⟨c, hc⟩ := h tx.aff (by rename_i e; exact e ▸ ha)
    unfold stepBook
    split <;> simp [hc]
  · exact h a ha

/-- A sale row that the ledger accepted sold out of a positive balance. -/
def SellFromPositive (bs : Books) (d : Delta) : Prop :=
  ∀ sh px comm rate crate spec, d.tx.act = .sell sh px comm rate crate spec → (bs d.tx.aff).shares ≠ 0

/-- **Ledger identity.**  Along any conforming list of deltas of non-registered affiliates, Ψ moves
    by the sum of the rows' imbalances. -/
theorem psi_flows {U : List Aff} (hn : U.Nodup) {bs0 : Books} :
    ∀ (ds : List Delta) (bs : Books) (f : Flows),
    Conforms bs ds → ListP (fun b d => SellFromPositive b d) bs ds →
    (∀ d ∈ ds, d.tx.aff ∈ U) → AcbSome U bs →
    psi U bs0 (after bs (ds.map (·.tx))) (flows bs f ds) = psi U bs0 bs f + imbalances ds := by
  intro ds
  induction ds with
  | nil => intro bs f _ _ _ _; simp [after, flows, imbalances]; grind
  | cons d ds ih =>
    intro bs f hc hp hU hs
    simp only [List.map_cons, after, List.foldl_cons, flows, imbalances, List.sum_cons]
    have ha : d.tx.aff ∈ U := hU d (by simp)
    have := ih (stepBooks bs d.tx) (flowStep bs f d) hc.2.2.2 hp.2 (fun x hx => hU x (by simp [hx])) (hs.step d.tx)
    simp only [after, imbalances] at this
    rw [this, psi_step hn ha (hs _ ha) hp.1 hc.2.2.1]
    grind

end Acb
