/-
  Money conservation (C03), part 3: the delta list of an error-free run is a sequence of blocks
  (one input row followed by the SfLA rows generated for it), each of which is balanced unless the
  sale is flagged "potentially over-applied".
-/
import AcbModel.Lemmas.Adjust
namespace Acb
open Spec

/-- no user-supplied superficial-loss entry: no `superficial loss` cell on a sale, no SfLA row -/
def NoManual (tx : Tx) : Prop :=
  match tx.act with
  | .sell _ _ _ _ _ (some _) => False
  | .sfla .. => False
  | _ => True

/-- The rows C03 quantifies over. -/
def C3Row (tx : Tx) : Prop := tx.Valid ∧ tx.aff.registered = false ∧ NoManual tx

def overFlag (d : Delta) : Bool := match d.sfl with | some i => i.over | none => false

inductive Blocks : List Delta → Prop
  | nil : Blocks []
  | block (d : Delta) (inj rest : List Delta) :
      ¬ IsSfla d.tx → (∀ x ∈ inj, IsSfla x.tx) →
      (overFlag d = true ∨ imbalance d + imbalances inj = 0) →
      Blocks rest → Blocks (d :: (inj ++ rest))

theorem imbalances_of_txs (ds : List Delta) (h : ∀ d ∈ ds, IsSfla d.tx) :
    imbalances ds = - sumAmounts (ds.map (·.tx)) := by
  induction ds with
  | nil => simp [imbalances, sumAmounts]
  | cons d ds ih =>
    have ih' := ih (fun x hx => h x (by simp [hx]))
    obtain ⟨sh, ps, hd⟩ := h d (by simp)
    simp only [imbalances, sumAmounts, List.map_cons, List.sum_cons] at ih' ⊢
    rw [ih']
    simp only [imbalance, txAmount, hd]
    grind

theorem runInjected_txs :
    ∀ (inj : List Tx) (t : Tracker) (past : List Tx) (acc : List Delta) (future : List Tx)
      (t' : Tracker) (past' : List Tx) (acc' : List Delta),
    runInjected t past acc inj future = .inl (t', past', acc') →
    ∃ out, acc' = acc ++ out ∧ out.map (·.tx) = inj := by
  intro inj
  induction inj with
  | nil =>
    intro t past acc future t' past' acc' h
    simp only [runInjected, Sum.inl.injEq, Prod.mk.injEq] at h
    exact ⟨[], by simp [h.2.2], rfl⟩
  | cons x xs ih =>
    intro t past acc future t' past' acc' h
    unfold runInjected at h
    split at h
    · cases h
    · rename_i d t1 inj1 hs
      obtain ⟨out, h1, h2⟩ := ih _ _ _ _ _ _ _ h
      have htx : d.tx = x := by
        unfold stepRow at hs
        split at hs
        · cases hs
        · rename_i d0 i0 hd
          split at hs
          · cases hs
          · simp only [Except.ok.injEq, Prod.mk.injEq] at hs
            obtain ⟨e1, _, _⟩ := hs
            subst e1
            exact (deltaForTx_shape hd).1
      exact ⟨d :: out, by simp [h1], by simp [htx, h2]⟩

/-- One arm, seen as the head of a block. -/
theorem arm_block {t : Tracker} (hb : ∀ a, 0 ≤ t.bal a) {tx : Tx} {pre : Status} {past future : List Tx}
    {o : ArmOut} (hc : C3Row tx)
    (hvp : ∀ x ∈ past, x.Valid) (hvf : ∀ x ∈ future, x.Valid)
    (hqp : ∀ x ∈ past, x.aff.registered = false) (hqf : ∀ x ∈ future, x.aff.registered = false)
    (h : arm t tx pre past future = .ok o) :
    (match o.sfl with | some i => i.over | none => false) = true ∨
    (match tx.act with | .sell .. => - sflLoss o.sfl | .sfla sh ps => -(sh * ps) | _ => 0) - sumAmounts o.inj = 0 := by
  obtain ⟨hv, _, hnm⟩ := hc
  unfold arm at h
  unfold Tx.Valid at hv
  unfold NoManual at hnm
  split at h
  · rename_i hact
    simp only [Except.ok.injEq] at h; subst h
    right; simp [hact, armBuy, sumAmounts]; try grind
  · rename_i sh px comm rate crate spec hact
    rw [hact] at hv hnm
    have hspec : spec = none := by
      cases spec with
      | none => rfl
      | some _ => simp at hnm
    subst hspec
    unfold armSell at h
    split at h
    · cases h
    · split at h
      · cases h
      · simp only at h
        split at h
        · split at h
          · cases h
          · simp only [Except.ok.injEq] at h; subst h
            right; simp [hact, sflLoss, sumAmounts]; try grind
        · split at h
          · split at h
            · cases h
            · simp only [Except.ok.injEq] at h; subst h
              right; simp [hact, sflLoss, sumAmounts]; try grind
            · rename_i info adj hd
              simp only [Except.ok.injEq] at h; subst h
              rcases deltaSflInfo_balanced hb hv.1 hvp hvf hqp hqf hd with hov | hsum
              · left; simpa using hov
              · right; simp only [hact, sflLoss, hsum]; grind
          · split at h
            · cases h
            · simp only [Except.ok.injEq] at h; subst h
              right; simp [hact, sflLoss, sumAmounts]; try grind
  · rename_i ps rate hact
    unfold armRoc at h
    split at h
    · split at h
      · cases h
      · simp only at h
        split at h
        · cases h
        · simp only [Except.ok.injEq] at h; subst h
          right; simp [hact, sumAmounts]; try grind
    · split at h <;> cases h
  · rename_i sh ps hact
    rw [hact] at hnm; simp at hnm
  · rename_i post pre' io hact
    unfold armSplit at h
    simp only at h
    split at h
    · cases h
    · split at h
      · cases h
      · simp only [Except.ok.injEq] at h; subst h
        right; simp [hact, sumAmounts]; try grind

end Acb

namespace Acb
open Spec

theorem adjustTxs_nonreg {tx : Tx} {c : Rat} {l : List (Aff × Rat × Rat)} {r : List Tx}
    (h : adjustTxs tx c l = .ok r) : ∀ x ∈ r, x.aff.registered = false := by
  induction l generalizing r with
  | nil => simp [adjustTxs] at h; subst h; simp
  | cons p ps ih =>
    obtain ⟨af, n, d⟩ := p
    unfold adjustTxs at h
    split at h
    · cases h
    · rename_i r0 hr0
      split at h
      · rename_i hpos
        simp only [Except.ok.injEq] at h; subst h
        intro x hx
        simp only [List.mem_cons] at hx
        rcases hx with rfl | hx
        · simpa using hpos.1
        · exact ih hr0 x hx
      · simp only [Except.ok.injEq] at h; subst h
        exact ih hr0

theorem arm_inj_nonreg {t : Tracker} {tx : Tx} {pre : Status} {past future : List Tx} {o : ArmOut}
    (h : arm t tx pre past future = .ok o) : ∀ x ∈ o.inj, x.aff.registered = false := by
  unfold arm at h
  split at h
  · simp only [Except.ok.injEq] at h; subst h; simp [armBuy]
  · unfold armSell at h
    split at h
    · cases h
    · split at h
      · cases h
      · simp only at h
        split at h
        · split at h
          · cases h
          · simp only [Except.ok.injEq] at h; subst h; simp
        · split at h
          · split at h
            · cases h
            · simp only [Except.ok.injEq] at h; subst h; simp
            · rename_i info adj hd
              simp only [Except.ok.injEq] at h; subst h
              -- open deltaSflInfo down to adjustTxs
              unfold deltaSflInfo at hd
              split at hd
              · cases hd
              · simp only at hd
                split at hd
                · cases hd
                · split at hd
                  · split at hd
                    · cases hd
                    · split at hd
                      · simp only [Except.ok.injEq, Option.some.injEq, Prod.mk.injEq] at hd
                        obtain ⟨_, h2⟩ := hd; subst h2; simp
                      · cases hd
                  · split at hd
                    · cases hd
                    · split at hd
                      · cases hd
                      · split at hd
                        · cases hd
                        · rename_i adj0 hadj
                          simp only [Except.ok.injEq, Option.some.injEq, Prod.mk.injEq] at hd
                          obtain ⟨_, h2⟩ := hd; subst h2
                          exact adjustTxs_nonreg hadj
          · split at h
            · cases h
            · simp only [Except.ok.injEq] at h; subst h; simp
  · unfold armRoc at h
    split at h
    · split at h
      · cases h
      · simp only at h
        split at h
        · cases h
        · simp only [Except.ok.injEq] at h; subst h; simp
    · split at h <;> cases h
  · unfold armSfla at h
    split at h
    · split at h
      · cases h
      · simp only [Except.ok.injEq] at h; subst h; simp
    · split at h <;> cases h
  · unfold armSplit at h
    simp only at h
    split at h
    · cases h
    · split at h
      · cases h
      · simp only [Except.ok.injEq] at h; subst h; simp

theorem runInjected_past :
    ∀ (inj : List Tx) (t : Tracker) (past : List Tx) (acc : List Delta) (future : List Tx)
      (t' : Tracker) (past' : List Tx) (acc' : List Delta),
    runInjected t past acc inj future = .inl (t', past', acc') →
    ∀ y ∈ past', y ∈ inj ∨ y ∈ past := by
  intro inj
  induction inj with
  | nil =>
    intro t past acc future t' past' acc' h y hy
    simp only [runInjected, Sum.inl.injEq, Prod.mk.injEq] at h
    rw [← h.2.1] at hy; exact Or.inr hy
  | cons x xs ih =>
    intro t past acc future t' past' acc' h y hy
    unfold runInjected at h
    split at h
    · cases h
    · have := ih _ _ _ _ _ _ _ h y hy
      rcases this with hm | hm
      · exact Or.inl (by simp [hm])
      · simp only [List.mem_cons] at hm
        rcases hm with rfl | hm
        · exact Or.inl (by simp)
        · exact Or.inr hm

/-- rows that may sit in the processed / pending lists of a C03 run -/
def C3Ctx (tx : Tx) : Prop := tx.Valid ∧ tx.aff.registered = false

theorem C3Row.ctx {tx : Tx} (h : C3Row tx) : C3Ctx tx := ⟨h.1, h.2.1⟩

/-- **Block structure of an error-free run** (all affiliates non-registered, no manual
    superficial-loss entries): the deltas are a sequence of balanced blocks. -/
theorem deltaLoop_blocks {bs : Books} :
    ∀ (future : List Tx) (t : Tracker) (past : List Tx) (acc : List Delta),
    (∀ x ∈ future, C3Row x) → (∀ x ∈ past, C3Ctx x) → WfInv t bs →
    (deltaLoop t past acc future).2 = none →
    ∃ out, (deltaLoop t past acc future).1 = acc ++ out ∧ Blocks out := by
  intro future
  induction future generalizing bs with
  | nil => intro t past acc _ _ _ _; exact ⟨[], by simp [deltaLoop], Blocks.nil⟩
  | cons tx rest ih =>
    intro t past acc hc hp hi hnone
    have hctx : C3Row tx := hc tx (by simp)
    have hcr : ∀ y ∈ rest, C3Row y := fun y hy => hc y (by simp [hy])
    have hvp : ∀ x ∈ past, x.Valid := fun x hx => (hp x hx).1
    have hvf : ∀ x ∈ rest, x.Valid := fun x hx => (hcr x hx).1
    have hqp : ∀ x ∈ past, x.aff.registered = false := fun x hx => (hp x hx).2
    have hqf : ∀ x ∈ rest, x.aff.registered = false := fun x hx => (hcr x hx).2.1
    cases hs0 : stepRow t tx past rest with
    | error f => simp [deltaLoop, hs0] at hnone
    | ok res =>
      obtain ⟨d, t', inj⟩ := res
      have hs : stepRow t tx past rest = .ok (d, t', inj) := hs0
      simp only [deltaLoop, hs] at hnone ⊢
      -- facts about the head row
      obtain ⟨htx, hpd, hi', hginj⟩ := wfStepSpec.ok hi hctx.1 hvp hvf hs
      have hinjS : ∀ x ∈ inj, IsSfla x := stepRow_inj hs
      obtain ⟨hr, U, hw⟩ := hi
      have hb : ∀ a, 0 ≤ t.bal a := fun a => hw.bal_nonneg a
      -- open stepRow to reach the arm
      have hsr := hs
      unfold stepRow at hsr
      split at hsr
      · cases hsr
      · rename_i d0 inj0 hd
        split at hsr
        · cases hsr
        · simp only [Except.ok.injEq, Prod.mk.injEq] at hsr
          obtain ⟨e1, _, e3⟩ := hsr
          subst e1; subst e3
          obtain ⟨_, _, _, o, ho, _, _, hsfl, hinj⟩ := deltaForTx_shape hd
          have hblock := arm_block hb hctx hvp hvf hqp hqf ho
          have hinjQ : ∀ x ∈ inj0, x.aff.registered = false := by rw [hinj]; exact arm_inj_nonreg ho
          -- injected rows
          have hp' : ∀ y ∈ tx :: past, Tx.Valid y := by
            intro y hy; simp only [List.mem_cons] at hy
            rcases hy with rfl | hy
            · exact hctx.1
            · exact hvp y hy
          cases hri0 : runInjected t' (tx :: past) (acc ++ [d0]) inj0 rest with
          | inr res => simp [hri0] at hnone
          | inl res =>
            obtain ⟨t'', past', acc'⟩ := res
            have hri : runInjected t' (tx :: past) (acc ++ [d0]) inj0 rest = .inl (t'', past', acc') := hri0
            simp only [hri] at hnone ⊢
            rcases runInjected_gen wfStepSpec (bs := stepBooks bs tx) inj0 t' (tx :: past) (acc ++ [d0]) rest hginj hp' hvf hi' with
              ⟨out1, t1, past1, h1, _, h3, h4⟩ | ⟨out1, f, h1, _, _⟩
            · rw [hri] at h1
              simp only [Sum.inl.injEq, Prod.mk.injEq] at h1
              obtain ⟨e1, e2, e3⟩ := h1
              subst e1; subst e2
              obtain ⟨out2, h5, h6⟩ := runInjected_txs _ _ _ _ _ _ _ _ hri
              have hout : out1 = out2 := by
                have : acc ++ [d0] ++ out1 = acc ++ [d0] ++ out2 := by rw [← e3, ← h5]
                exact List.append_cancel_left this
              subst hout
              -- past' rows are fine for the rest of the run
              have hp1 : ∀ y ∈ past', C3Ctx y := by
                -- past' = injected rows (reversed) ++ tx :: past; use validity from h4 and
                -- non-registration from its construction
                intro y hy
                exact ⟨h4 y hy, by
                  have := runInjected_past inj0 t' (tx :: past) (acc ++ [d0]) rest _ _ _ hri y hy
                  rcases this with hm | hm
                  · exact hinjQ y hm
                  · simp only [List.mem_cons] at hm
                    rcases hm with rfl | hm
                    · exact hctx.2.1
                    · exact hqp y hm⟩
              obtain ⟨out3, h7, h8⟩ := ih (bs := after (stepBooks bs tx) (out1.map (·.tx))) t'' past' acc' hcr hp1 h3 hnone
              refine ⟨d0 :: (out1 ++ out3), by rw [h7, e3]; simp, ?_⟩
              apply Blocks.block d0 out1 out3
              · rw [htx]
                intro hsf
                obtain ⟨sh, ps, hact⟩ := hsf
                have := hctx.2.2
                unfold NoManual at this; rw [hact] at this; exact this
              · intro x hx
                have : x.tx ∈ out1.map (·.tx) := List.mem_map_of_mem hx
                rw [h6] at this
                exact hinjS _ this
              · have himb : imbalances out1 = - sumAmounts inj0 := by
                  rw [imbalances_of_txs out1 (fun x hx => by
                    have : x.tx ∈ out1.map (·.tx) := List.mem_map_of_mem hx
                    rw [h6] at this; exact hinjS _ this), h6]
                rcases hblock with hov | hbal
                · left; unfold overFlag; rw [hsfl]; exact hov
                · right
                  rw [himb, hinj]
                  unfold imbalance
                  rw [htx, hsfl]
                  grind
              · exact h8
            · rw [hri] at h1; cases h1

end Acb

namespace Acb
open Spec

theorem imbalances_append (a b : List Delta) : imbalances (a ++ b) = imbalances a + imbalances b := by
  simp [imbalances, List.sum_append]

/-- At every block boundary of a block-structured list with no over-applied flag so far, the
    imbalances cancel. -/
theorem Blocks.balanced {ds : List Delta} (hb : Blocks ds) :
    ∀ (pre suf : List Delta), ds = pre ++ suf →
      (suf = [] ∨ ∃ x xs, suf = x :: xs ∧ ¬ IsSfla x.tx) →
      (∀ d ∈ pre, overFlag d = false) → imbalances pre = 0 := by
  induction hb with
  | nil =>
    intro pre suf h _ _
    have : pre = [] := by
      cases pre with
      | nil => rfl
      | cons x xs => simp at h
    subst this; simp [imbalances]
  | block d inj rest hd hinj hbal _ ih =>
    intro pre suf h hsuf hov
    cases pre with
    | nil => simp [imbalances]
    | cons p pre' =>
      simp only [List.cons_append, List.cons.injEq] at h
      obtain ⟨hpd, h'⟩ := h
      subst hpd
      have hdov : overFlag d = false := hov d (by simp)
      have hb1 : imbalance d + imbalances inj = 0 := by
        rcases hbal with hb1 | hb1
        · rw [hdov] at hb1; cases hb1
        · exact hb1
      rcases List.append_eq_append_iff.mp h' with ⟨a', h1, h2⟩ | ⟨c', h1, h2⟩
      · -- pre' = inj ++ a', rest = a' ++ suf
        subst h1
        have hz := ih a' suf h2 hsuf (fun x hx => hov x (by simp [hx]))
        show imbalances (d :: (inj ++ a')) = 0
        have : imbalances (d :: (inj ++ a')) = imbalance d + (imbalances inj + imbalances a') := by
          rw [← imbalances_append]; simp [imbalances]
        rw [this, hz]; grind
      · -- inj = pre' ++ c', suf = c' ++ rest
        cases c' with
        | nil =>
          simp only [List.append_nil] at h1
          simp only [List.nil_append] at h2
          subst h1
          show imbalances (d :: inj) = 0
          simp only [imbalances, List.map_cons, List.sum_cons] at hb1 ⊢
          exact hb1
        | cons x xs =>
          exfalso
          have hx : x ∈ inj := by rw [h1]; simp
          rcases hsuf with hs | ⟨y, ys, hs, hy⟩
          · rw [hs] at h2; simp at h2
          · rw [hs] at h2
            simp only [List.cons_append, List.cons.injEq] at h2
            rw [h2.1] at hy
            exact hy (hinj x hx)

end Acb
