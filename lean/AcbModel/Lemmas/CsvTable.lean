/-
  Table-level lemmas of the CSV round trip (C11): all rows of a written table are read back, the
  re-read transactions are the originals (as values), and they are written as the same table.
-/
import AcbModel.Lemmas.CsvRows
namespace Acb.Csv

/-! ### `TxSame` gives equal values and equal cells -/

theorem CurRate.Same.norm_eq {a b : CurRate} (h : a.Same b) : a.norm = b.norm := by
  obtain ⟨ac, ar⟩ := a
  obtain ⟨bc, br⟩ := b
  obtain ⟨h1, h2⟩ := h
  simp only at h1 h2
  simp [CurRate.norm, h1, h2.norm_eq]

theorem OptRel.map_eq {α β} {R : α → α → Prop} {f : α → β} (hf : ∀ a b, R a b → f a = f b)
    {o o' : Option α} (h : OptRel R o o') : o.map f = o'.map f := by
  cases o <;> cases o' <;> simp_all [OptRel]
  exact hf _ _ h

theorem Specifics.Same.norm_eq {a b : Specifics} (h : a.Same b) : a.norm = b.norm := by
  cases a <;> cases b <;> simp only [Specifics.Same] at h
  · obtain ⟨h1, h2, h3, h4, h5⟩ := h
    simp only [Specifics.norm, h1.norm_eq, h2.norm_eq, h3.norm_eq, h4.norm_eq,
      OptRel.map_eq (f := CurRate.norm) (fun _ _ hab => CurRate.Same.norm_eq hab) h5]
  · obtain ⟨h1, h2, h3, h4, h5, h6⟩ := h
    simp only [Specifics.norm, h1.norm_eq, h2.norm_eq, h3.norm_eq, h4.norm_eq,
      OptRel.map_eq (f := CurRate.norm) (fun _ _ hab => CurRate.Same.norm_eq hab) h5,
      OptRel.map_eq (f := fun v : Dec × Bool => (v.1.norm, v.2))
        (fun a b (hab : SflSame a b) => by simp [hab.1.norm_eq, hab.2]) h6]
  · obtain ⟨h1, h2⟩ := h
    simp only [Specifics.norm, h1.norm_eq, h2.norm_eq]
  · obtain ⟨h1, h2⟩ := h
    simp only [Specifics.norm, h1.norm_eq, h2.norm_eq]
  · obtain ⟨⟨h1, h2, h3⟩, _⟩ := h
    simp only [Specifics.norm, h1.norm_eq, h2.norm_eq, h3]

theorem TxSame.norm_eq {a b : Tx} (h : TxSame a b) : a.norm = b.norm := by
  obtain ⟨h1, h2, h3, h4, h5, h6⟩ := h
  obtain ⟨a1, a2, a3, a4, a5, a6, a7⟩ := a
  obtain ⟨b1, b2, b3, b4, b5, b6, b7⟩ := b
  simp only at h1 h2 h3 h4 h5 h6
  simp [Tx.norm, h1, h2, h3, h4, h5, h6.norm_eq]

theorem fxCell_same {a b : CurRate} (h : a.Same b) : OptRel Dec.Same a.fxCell b.fxCell := by
  unfold CurRate.fxCell CurRate.isDefault
  rw [h.1]
  split
  · trivial
  · exact h.2

theorem optCell_eq {α} {R : α → α → Prop} {f : α → Str} (hf : ∀ a b, R a b → f a = f b)
    {o o' : Option α} (h : OptRel R o o') : (o.map f).getD [] = (o'.map f).getD [] := by
  rw [OptRel.map_eq hf h]

theorem optRel_bind_fx {cc cc' : Option CurRate} (h : OptRel CurRate.Same cc cc') :
    OptRel Dec.Same (cc.bind (·.fxCell)) (cc'.bind (·.fxCell)) := by
  cases cc <;> cases cc' <;> simp_all [OptRel]
  exact fxCell_same h

theorem optRel_map_cur {cc cc' : Option CurRate} (h : OptRel CurRate.Same cc cc') :
    cc.map (·.cur) = cc'.map (·.cur) :=
  OptRel.map_eq (fun _ _ hab => hab.1) h

theorem OptRel.isSome_eq {α} {R : α → α → Prop} {o o' : Option α} (h : OptRel R o o') : o.isSome = o'.isSome := by
  cases o <;> cases o' <;> simp_all [OptRel]

/-- The CsvTx written for two `TxSame` transactions agree on everything the table writer looks at. -/
structure CsvCellSame (a b : CsvTx) : Prop where
  cells : ∀ col, cellOf a col = cellOf b col
  txFx : a.txFx.isSome = b.txFx.isSome
  commCurr : a.commCurr.isSome = b.commCurr.isSome
  commFx : a.commFx.isSome = b.commFx.isSome
  sfl : a.sfl.isSome = b.sfl.isSome
  split : a.split.isSome = b.split.isSome
  affiliate : a.affiliate = b.affiliate
  action : a.action = b.action

theorem decCell {p : Nat} {o o' : Option Dec} (h : OptRel Dec.Same o o') :
    (o.map (·.toStringMinPrecision p)).getD [] = (o'.map (·.toStringMinPrecision p)).getD [] :=
  optCell_eq (fun _ _ hab => hab.toStringMinPrecision_eq p) h

theorem sflCell {o o' : Option (Dec × Bool)} (h : OptRel SflSame o o') :
    (o.map renderSfl).getD [] = (o'.map renderSfl).getD [] :=
  optCell_eq (fun a b hab => by
    unfold renderSfl; rw [hab.1.toStringMinPrecision_eq, hab.2]) h

theorem TxSame.csv {a b : Tx} (h : TxSame a b) : CsvCellSame a.toCsv b.toCsv := by
  obtain ⟨h1, h2, h3, h4, h5, h6⟩ := h
  obtain ⟨a1, a2, a3, a4, a5, a6, a7⟩ := a
  obtain ⟨b1, b2, b3, b4, b5, b6, b7⟩ := b
  simp only at h1 h2 h3 h4 h5 h6
  subst h1 h2 h3 h4 h5
  cases a4 <;> cases b4 <;> simp only [Specifics.Same] at h6
  · obtain ⟨r1, r2, r3, r4, r5⟩ := h6
    have e1 := fxCell_same r4
    have e2 := optRel_bind_fx r5
    have e3 := optRel_map_cur r5
    constructor
    · intro col
      cases col <;> simp only [cellOf, Tx.toCsv, Option.map_some, Option.getD_some,
        r1.toStringMinPrecision_eq, r2.toStringMinPrecision_eq, r3.toStringMinPrecision_eq, r4.1, e3]
      · exact decCell e1
      · exact decCell e2
    all_goals simp only [Tx.toCsv, e1.isSome_eq, e2.isSome_eq, e3]
  · obtain ⟨r1, r2, r3, r4, r5, r6⟩ := h6
    have e1 := fxCell_same r4
    have e2 := optRel_bind_fx r5
    have e3 := optRel_map_cur r5
    constructor
    · intro col
      cases col <;> simp only [cellOf, Tx.toCsv, Option.map_some, Option.getD_some,
        r1.toStringMinPrecision_eq, r2.toStringMinPrecision_eq, r3.toStringMinPrecision_eq, r4.1, e3]
      · exact decCell e1
      · exact decCell e2
      · exact sflCell r6
    all_goals simp only [Tx.toCsv, e1.isSome_eq, e2.isSome_eq, e3, r6.isSome_eq]
  · obtain ⟨r1, r2⟩ := h6
    have e1 := fxCell_same r2
    constructor
    · intro col
      cases col <;> simp only [cellOf, Tx.toCsv, Option.map_some, Option.getD_some,
        r1.toStringMinPrecision_eq, r2.1]
      · exact decCell e1
    all_goals simp only [Tx.toCsv, e1.isSome_eq]
  · obtain ⟨r1, r2⟩ := h6
    constructor
    · intro col
      cases col <;> simp only [cellOf, Tx.toCsv, Option.map_some, Option.getD_some,
        r1.toStringMinPrecision_eq, r2.toStringMinPrecision_eq]
    all_goals simp only [Tx.toCsv]
  · obtain ⟨_, r2⟩ := h6
    constructor
    · intro col
      cases col <;> simp only [cellOf, Tx.toCsv, Option.map_some, Option.getD_some, r2]
    all_goals simp only [Tx.toCsv, Option.isSome_some]


/-- pointwise relation of two lists (core Lean has no `List.Forall₂`). -/
inductive Forall2 {α β} (R : α → β → Prop) : List α → List β → Prop
  | nil : Forall2 R [] []
  | cons {a b l1 l2} : R a b → Forall2 R l1 l2 → Forall2 R (a :: l1) (b :: l2)

/-! ### equal cells give equal tables -/

theorem any_congr_forall2 {α} {R : α → α → Prop} {p : α → Bool} {l1 l2 : List α}
    (h : Forall2 R l1 l2) (hp : ∀ a b, R a b → p a = p b) : l1.any p = l2.any p := by
  induction h with
  | nil => rfl
  | cons hab _ ih => simp only [List.any_cons, hp _ _ hab, ih]

theorem colInUse_congr {l1 l2 : List CsvTx} (h : Forall2 CsvCellSame l1 l2) (col : Col) :
    colInUse l1 col = colInUse l2 col := by
  cases col <;> simp only [colInUse]
  · exact any_congr_forall2 h (fun a b hab => hab.txFx)
  · exact any_congr_forall2 h (fun a b hab => hab.commCurr)
  · exact any_congr_forall2 h (fun a b hab => hab.commFx)
  · exact any_congr_forall2 h (fun a b hab => hab.sfl)
  · exact any_congr_forall2 h (fun a b hab => hab.split)
  · exact any_congr_forall2 h (fun a b hab => by rw [hab.affiliate, hab.action])

theorem rows_congr (H : List Col) {l1 l2 : List CsvTx} (h : Forall2 CsvCellSame l1 l2) :
    l1.map (fun t => H.map (cellOf t)) = l2.map (fun t => H.map (cellOf t)) := by
  induction h with
  | nil => rfl
  | cons hab _ ih =>
    simp only [List.map_cons, ih]
    congr 1
    apply List.map_congr_left
    intro c _
    exact hab.cells c

theorem toTable_congr {l1 l2 : List CsvTx} (h : Forall2 CsvCellSame l1 l2) : toTable l1 = toTable l2 := by
  have hH : headerCols l1 = headerCols l2 := by
    unfold headerCols
    apply List.filter_congr
    intro c _
    rw [colInUse_congr h c]
  unfold toTable
  simp only [hH]
  rw [rows_congr _ h]

theorem forall2_map_csv {l1 l2 : List Tx} (h : Forall2 TxSame l1 l2) :
    Forall2 CsvCellSame (l1.map Tx.toCsv) (l2.map Tx.toCsv) := by
  induction h with
  | nil => exact .nil
  | cons hab _ ih => exact .cons hab.csv ih

theorem forall2_map_norm {l1 l2 : List Tx} (h : Forall2 TxSame l1 l2) :
    l1.map Tx.norm = l2.map Tx.norm := by
  induction h with
  | nil => rfl
  | cons hab _ ih => simp only [List.map_cons, hab.norm_eq, ih]

/-! ### reading the whole written table -/

theorem toCsv_action_split (t : Tx) : (t.toCsv.action == some Act.split) = t.spec.isSplit := by
  obtain ⟨a1, a2, a3, sp, a5, a6, a7⟩ := t
  cases sp <;> rfl

theorem toCsv_affiliate (t : Tx) : t.toCsv.affiliate = some t.affiliate := by
  obtain ⟨a1, a2, a3, sp, a5, a6, a7⟩ := t
  cases sp <;> rfl

theorem affcol_false {txs : List Tx} (h : colInUse (txs.map Tx.toCsv) .affiliate = false) {t : Tx} (ht : t ∈ txs) :
    t.affiliate.id = defaultId ∧ t.spec.isSplit = false := by
  simp only [colInUse] at h
  rw [List.any_eq_false] at h
  have := h t.toCsv (List.mem_map.2 ⟨t, ht, rfl⟩)
  rw [toCsv_affiliate, toCsv_action_split] at this
  simp only [Bool.or_eq_true, bne_iff_ne, ne_eq, not_or, Decidable.not_not, Bool.not_eq_true] at this
  exact this

theorem mapHeader_length (l : List Str) : (mapHeader l).length = l.length := by simp [mapHeader]

theorem readRows_written (txs : List Tx) (hv : ∀ t ∈ txs, t.valid = true)
    (ts : List Tx) (hsub : ∀ t ∈ ts, t ∈ txs) (idx : Nat) :
    ∃ cs, readRows (mapHeader (toTable (txs.map Tx.toCsv)).header)
        (ts.map (fun t => (headerCols (txs.map Tx.toCsv)).map (cellOf t.toCsv))) idx = .ok cs ∧
      ∃ ts', txsOfCsv cs = .ok ts' ∧
        Forall2 TxSame ts' (ts.map (canonTx (colInUse (txs.map Tx.toCsv) .affiliate))) := by
  induction ts generalizing idx with
  | nil => exact ⟨[], rfl, [], rfl, .nil⟩
  | cons t rest ih =>
    have ht : t ∈ txs := hsub t (by simp)
    obtain ⟨c', hc1, hc2⟩ := read_row txs t ht (hv t ht) idx
    obtain ⟨t', ht1, ht2, _⟩ := ofCsv_of_facts _ t idx c' (hv t ht) hc2
      (fun h => (affcol_false h ht).2)
    obtain ⟨cs, hcs, ts', hts1, hts2⟩ := ih (fun x hx => hsub x (by simp [hx])) (idx + 1)
    refine ⟨c' :: cs, ?_, t' :: ts', ?_, .cons ht2 hts2⟩
    · simp only [List.map_cons, readRows]
      have hlen : ((headerCols (txs.map Tx.toCsv)).map (cellOf t.toCsv)).length
          = (mapHeader (toTable (txs.map Tx.toCsv)).header).length := by
        simp [mapHeader_length, toTable]
      rw [if_pos hlen]
      have : csvTxOfValues (fun c => lookupCell c (mapHeader (toTable (txs.map Tx.toCsv)).header)
          ((headerCols (txs.map Tx.toCsv)).map (cellOf t.toCsv))) idx = .ok c' := hc1
      rw [this, hcs]
    · simp only [txsOfCsv, ht1, hts1]

/-- The whole written table of valid transactions is read back as the same transactions. -/
theorem read_written (txs : List Tx) (hv : ∀ t ∈ txs, t.valid = true) (start : Nat) :
    ∃ txs', readTxs (toTable (txs.map Tx.toCsv)) start = .ok txs' ∧ Forall2 TxSame txs' (canonTxs txs) := by
  obtain ⟨cs, hcs, ts', hts1, hts2⟩ := readRows_written txs hv txs (fun _ h => h) start
  refine ⟨ts', ?_, hts2⟩
  unfold readTxs parseTable
  have hleg : (mapHeader (toTable (txs.map Tx.toCsv)).header).contains (some Col.legacyDate) = false := by
    unfold toTable
    simp only
    rw [mapHeader_names]
    have := legacy_not_in_header (txs.map Tx.toCsv)
    simp only [List.contains_eq_mem, List.mem_map, Option.some.injEq, exists_eq_right, decide_eq_false_iff_not]
    exact this
  simp only [hleg, Bool.and_false, Bool.false_eq_true, if_false]
  have hrows : (toTable (txs.map Tx.toCsv)).rows
      = txs.map (fun t => (headerCols (txs.map Tx.toCsv)).map (cellOf t.toCsv)) := by
    simp [toTable, List.map_map, Function.comp_def]
  rw [hrows, hcs]
  exact hts1


/-! ### the canonical list is written as the original one (memos already trimmed) -/

/-- equal on everything the table writer looks at, except possibly the affiliate -/
structure CsvCellSameNA (a b : CsvTx) : Prop where
  cells : ∀ col, col ≠ Col.affiliate → cellOf a col = cellOf b col
  txFx : a.txFx.isSome = b.txFx.isSome
  commCurr : a.commCurr.isSome = b.commCurr.isSome
  commFx : a.commFx.isSome = b.commFx.isSome
  sfl : a.sfl.isSome = b.sfl.isSome
  split : a.split.isSome = b.split.isSome

theorem rows_congr_NA (H : List Col) (hna : Col.affiliate ∉ H) {l1 l2 : List CsvTx}
    (h : Forall2 CsvCellSameNA l1 l2) :
    l1.map (fun t => H.map (cellOf t)) = l2.map (fun t => H.map (cellOf t)) := by
  induction h with
  | nil => rfl
  | cons hab _ ih =>
    simp only [List.map_cons, ih]
    congr 1
    apply List.map_congr_left
    intro c hc
    exact hab.cells c (fun hh => hna (hh ▸ hc))

theorem toTable_congr_NA {l1 l2 : List CsvTx} (h : Forall2 CsvCellSameNA l1 l2)
    (h1 : colInUse l1 .affiliate = false) (h2 : colInUse l2 .affiliate = false) : toTable l1 = toTable l2 := by
  have hU : ∀ col, colInUse l1 col = colInUse l2 col := by
    intro col
    cases col <;> simp only [colInUse]
    · exact any_congr_forall2 h (fun a b hab => hab.txFx)
    · exact any_congr_forall2 h (fun a b hab => hab.commCurr)
    · exact any_congr_forall2 h (fun a b hab => hab.commFx)
    · exact any_congr_forall2 h (fun a b hab => hab.sfl)
    · exact any_congr_forall2 h (fun a b hab => hab.split)
    · have e1 := h1; have e2 := h2
      simp only [colInUse] at e1 e2
      rw [e1, e2]
  have hH : headerCols l1 = headerCols l2 := by
    unfold headerCols
    apply List.filter_congr
    intro c _
    rw [hU c]
  have hna : Col.affiliate ∉ headerCols l2 := by
    intro hm
    have := (mem_headerCols.1 hm).2
    simp [Col.optional, h2] at this
  unfold toTable
  simp only [hH]
  rw [rows_congr_NA _ hna h]

theorem toCsv_with (t : Tx) (m : Str) (a : AffData) :
    Tx.toCsv { t with memo := m, affiliate := a } = { t.toCsv with memo := some m, affiliate := some a } := by
  obtain ⟨a1, a2, a3, sp, a5, a6, a7⟩ := t
  cases sp <;> rfl

theorem defaultId_eq : AffData.default.id = defaultId := by decide

theorem toTable_canon (txs : List Tx) (hm : ∀ t ∈ txs, trim t.memo = t.memo) :
    toTable ((canonTxs txs).map Tx.toCsv) = toTable (txs.map Tx.toCsv) := by
  unfold canonTxs
  cases haff : colInUse (txs.map Tx.toCsv) .affiliate with
  | true =>
    have : txs.map (canonTx true) = txs := by
      conv => rhs; rw [← List.map_id txs]
      apply List.map_congr_left
      intro t ht
      obtain ⟨a1, a2, a3, sp, a5, a6, a7⟩ := t
      have := hm _ ht
      simp only at this
      simp [canonTx, this]
    rw [this]
  | false =>
    have hrel : ∀ (ts : List Tx), (∀ t ∈ ts, t ∈ txs) →
        Forall2 CsvCellSameNA ((ts.map (canonTx false)).map Tx.toCsv) (ts.map Tx.toCsv) := by
      intro ts
      induction ts with
      | nil => intro _; exact .nil
      | cons t rest ih =>
        intro hsub
        refine .cons ?_ (ih (fun x hx => hsub x (by simp [hx])))
        have hmt := hm t (hsub t (by simp))
        have : canonTx false t = { t with memo := t.memo, affiliate := AffData.default } := by
          simp [canonTx, hmt]
        rw [this, toCsv_with]
        constructor
        · intro col hcol
          cases col <;> first | rfl | exact absurd rfl hcol | (simp only [cellOf]; rw [toCsv_memo])
        all_goals rfl
    apply toTable_congr_NA (hrel txs (fun _ h => h)) _ haff
    -- the canonical list has no affiliate column either
    simp only [colInUse]
    rw [List.any_eq_false]
    intro c hc
    simp only [List.mem_map] at hc
    obtain ⟨t', ⟨t, ht, rfl⟩, rfl⟩ := hc
    have hs := (affcol_false haff ht).2
    have : canonTx false t = { t with memo := trim t.memo, affiliate := AffData.default } := by
      simp [canonTx]
    rw [this, toCsv_with]
    simp only [defaultId_eq, bne_self_eq_false, Bool.false_or]
    have := toCsv_action_split t
    rw [hs] at this
    simpa using this
where
  toCsv_memo {t : Tx} : t.toCsv.memo = some t.memo := by
    obtain ⟨a1, a2, a3, sp, a5, a6, a7⟩ := t
    cases sp <;> rfl

end Acb.Csv
