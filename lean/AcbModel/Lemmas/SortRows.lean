/-
  Insertion sort on (settlement date, read index) commutes with filtering by security.
-/
import AcbModel.App.Pipeline
namespace Acb

theorem rowLe_total (a b : PRow) : rowLe a b = true ∨ rowLe b a = true := by
  unfold rowLe
  simp only [Bool.or_eq_true, decide_eq_true_eq, Bool.and_eq_true, beq_iff_eq]
  omega

theorem rowLe_trans {a b c : PRow} (h1 : rowLe a b = true) (h2 : rowLe b c = true) : rowLe a c = true := by
  unfold rowLe at *
  simp only [Bool.or_eq_true, decide_eq_true_eq, Bool.and_eq_true, beq_iff_eq] at *
  omega

/-- sorted w.r.t. `rowLe` (every element is ≤ every later element) -/
def RowsSorted : List PRow → Prop
  | [] => True
  | x :: xs => (∀ y ∈ xs, rowLe x y = true) ∧ RowsSorted xs

theorem mem_insertRow {x y : PRow} {l : List PRow} : y ∈ insertRow x l ↔ y = x ∨ y ∈ l := by
  induction l with
  | nil => simp [insertRow]
  | cons z zs ih =>
    unfold insertRow
    split
    · simp
    · simp only [List.mem_cons, ih]
      constructor
      · rintro (h | h | h)
        · exact Or.inr (Or.inl h)
        · exact Or.inl h
        · exact Or.inr (Or.inr h)
      · rintro (h | h | h)
        · exact Or.inr (Or.inl h)
        · exact Or.inl h
        · exact Or.inr (Or.inr h)

theorem insertRow_sorted {x : PRow} {l : List PRow} (h : RowsSorted l) : RowsSorted (insertRow x l) := by
  induction l with
  | nil => simp [insertRow, RowsSorted]
  | cons y ys ih =>
    unfold insertRow
    split
    · rename_i hle
      refine ⟨?_, h⟩
      intro z hz
      simp only [List.mem_cons] at hz
      rcases hz with rfl | hz
      · exact hle
      · exact rowLe_trans hle (h.1 z hz)
    · rename_i hle
      have hyx : rowLe y x = true := by
        rcases rowLe_total x y with h' | h'
        · exact absurd h' hle
        · exact h'
      refine ⟨?_, ih h.2⟩
      intro z hz
      rw [mem_insertRow] at hz
      rcases hz with rfl | hz
      · exact hyx
      · exact h.1 z hz

theorem sortRows_sorted (l : List PRow) : RowsSorted (sortRows l) := by
  unfold sortRows
  induction l with
  | nil => simp [RowsSorted]
  | cons x xs ih => simpa using insertRow_sorted ih

theorem RowsSorted.filter {l : List PRow} (h : RowsSorted l) (p : PRow → Bool) : RowsSorted (l.filter p) := by
  induction l with
  | nil => simp [RowsSorted]
  | cons x xs ih =>
    simp only [List.filter_cons]
    split
    · refine ⟨?_, ih h.2⟩
      intro y hy
      exact h.1 y (List.mem_filter.mp hy).1
    · exact ih h.2

/-- Inserting an element that fails the filter does not change the filtered list. -/
theorem filter_insertRow_neg (p : PRow → Bool) (x : PRow) (hx : p x = false) (l : List PRow) :
    (insertRow x l).filter p = l.filter p := by
  induction l with
  | nil => simp [insertRow, hx]
  | cons y ys ih =>
    unfold insertRow
    split
    · simp [List.filter_cons, hx]
    · simp only [List.filter_cons, ih]

/-- Inserting into a sorted list an element that passes the filter commutes with filtering. -/
theorem filter_insertRow_pos (p : PRow → Bool) (x : PRow) (hx : p x = true) {l : List PRow}
    (hs : RowsSorted l) : (insertRow x l).filter p = insertRow x (l.filter p) := by
  induction l with
  | nil => simp [insertRow, hx]
  | cons y ys ih =>
    have e : insertRow x (y :: ys) = if rowLe x y then x :: y :: ys else y :: insertRow x ys := rfl
    rw [e]
    by_cases hle : rowLe x y = true
    · simp only [hle, if_true]
      by_cases hy : p y = true
      · simp [List.filter_cons, hx, hy, insertRow, hle]
      · have hy' : p y = false := by simpa using hy
        simp only [List.filter_cons, hx, hy', if_true]
        -- x is ≤ every element of the (filtered) tail, so it is inserted in front
        have hall : ∀ z ∈ ys.filter p, rowLe x z = true := by
          intro z hz
          exact rowLe_trans hle (hs.1 z (List.mem_filter.mp hz).1)
        cases hf : ys.filter p with
        | nil => simp [insertRow]
        | cons z zs =>
          have := hall z (by rw [hf]; simp)
          simp [insertRow, this]
    · have hle' : rowLe x y = false := by simpa using hle
      simp only [hle', Bool.false_eq_true, if_false]
      by_cases hy : p y = true
      · simp only [List.filter_cons, hy, if_true, ih hs.2]
        simp [insertRow, hle']
      · have hy' : p y = false := by simpa using hy
        simp only [List.filter_cons, hy', Bool.false_eq_true, if_false, ih hs.2]

theorem filter_sortRows (p : PRow → Bool) (l : List PRow) :
    (sortRows l).filter p = sortRows (l.filter p) := by
  induction l with
  | nil => simp [sortRows]
  | cons x xs ih =>
    have hs : RowsSorted (sortRows xs) := sortRows_sorted xs
    show (insertRow x (sortRows xs)).filter p = _
    by_cases hx : p x = true
    · rw [filter_insertRow_pos p x hx hs, ih]
      simp [List.filter_cons, hx, sortRows]
    · have hx' : p x = false := by simpa using hx
      rw [filter_insertRow_neg p x hx', ih]
      simp [List.filter_cons, hx']

/-- **Per-security view of the sorted input.**  The rows of security `s` in the sorted
    concatenated input are exactly the sorted rows of `s`: rows of other securities are irrelevant. -/
theorem rowsOf_sortRows (s : Nat) (l : List PRow) : rowsOf s (sortRows l) = sortRows (rowsOf s l) :=
  filter_sortRows _ l

end Acb
