/-
  C10's engine, part 2: the loop state after a prefix of the rows, and what it preserves.
-/
import AcbModel.Lemmas.Prefix
import AcbModel.Lemmas.Scale7
namespace Acb

/-- The state of the loop of `txs_to_delta_list` after the rows `q` (followed by `r`):
    tracker, processed rows (most recent first), deltas so far — or the failure. -/
def loopPrefix : Tracker → List Tx → List Delta → List Tx → List Tx →
    (Tracker × List Tx × List Delta) ⊕ (List Delta × Failure)
  | t, past, acc, [], _ => .inl (t, past, acc)
  | t, past, acc, x :: q, r =>
    match stepRow t x past (q ++ r) with
    | .error f => .inr (acc, f)
    | .ok (d, t', inj) =>
      match runInjected t' (x :: past) (acc ++ [d]) inj (q ++ r) with
      | .inr e => .inr e
      | .inl (t'', past', acc') => loopPrefix t'' past' acc' q r

theorem deltaLoop_prefix :
    ∀ (q r : List Tx) (t : Tracker) (past : List Tx) (acc : List Delta),
      deltaLoop t past acc (q ++ r) =
        match loopPrefix t past acc q r with
        | .inl (t2, past2, acc2) => deltaLoop t2 past2 acc2 r
        | .inr (a, f) => (a, some f) := by
  intro q
  induction q with
  | nil => intro r t past acc; simp [loopPrefix]
  | cons x q ih =>
    intro r t past acc
    simp only [List.cons_append]
    rw [deltaLoop, loopPrefix]
    cases stepRow t x past (q ++ r) with
    | error f => rfl
    | ok res =>
      obtain ⟨d, t', inj⟩ := res
      simp only
      cases runInjected t' (x :: past) (acc ++ [d]) inj (q ++ r) with
      | inr e => obtain ⟨a, f⟩ := e; rfl
      | inl s =>
        obtain ⟨t'', past', acc'⟩ := s
        simp only
        exact ih r t'' past' acc'

/-- no status outside `As` -/
def Supp (As : List Aff) (t : Tracker) : Prop := ∀ a, a ∉ As → t.m a = none

theorem Supp.setLatest {As : List Aff} {t t2 : Tracker} (h : Supp As t) {a : Aff} (ha : a ∈ As) {v : Status}
    (hs : t.setLatest a v = .ok t2) : Supp As t2 := by
  obtain ⟨_, _, rfl⟩ := setLatest_ok hs
  intro x hx
  have : x ≠ a := fun e => hx (e ▸ ha)
  simp [upd, this, h x hx]

/-- the invariants carried through the prefix -/
structure Inv2 (As : List Aff) (t : Tracker) : Prop extends Inv1 As t where
  supp : Supp As t

theorem stepRow_inv2 {As : List Aff} (hn : As.Nodup) {t t' : Tracker} (h : Inv2 As t) {tx : Tx} (hv : tx.Valid)
    (ha : tx.aff ∈ As) {past future : List Tx} (hvp : ∀ x ∈ past, x.Valid) (hvf : ∀ x ∈ future, x.Valid)
    {d : Delta} {inj : List Tx} (hs : stepRow t tx past future = .ok (d, t', inj)) :
    Inv2 As t' ∧ ∀ x ∈ inj, x.Valid := by
  obtain ⟨h1, hg⟩ := stepRow_inv1 hn h.toInv1 hv ha hvp hvf hs
  exact ⟨⟨h1, h.supp.setLatest ha (stepRow_setLatest hs)⟩, hg⟩

/-- rows of the history part: valid, of an affiliate of `As` -/
def RowIn (As : List Aff) (y : Tx) : Prop := y.Valid ∧ y.aff ∈ As

/-- dates: every processed row carries the settlement date of a row of `D` -/
def DatedIn (D : List Int) (y : Tx) : Prop := y.settle ∈ D

theorem runInjected_inv2 {As : List Aff} (hn : As.Nodup) (D : List Int) :
    ∀ (inj : List Tx), (∀ x ∈ inj, IsSflaRow x ∧ RowIn As x ∧ DatedIn D x) →
    ∀ (t : Tracker) (past : List Tx) (acc : List Delta) (fa : List Tx), Inv2 As t →
      (∀ y ∈ past, RowIn As y ∧ DatedIn D y) → (∀ y ∈ fa, y.Valid) →
      match runInjected t past acc inj fa with
      | .inl (t2, past2, _) => Inv2 As t2 ∧ (∀ y ∈ past2, RowIn As y ∧ DatedIn D y)
      | .inr _ => True := by
  intro inj
  induction inj with
  | nil =>
    intro _ t past acc fa hi hp _
    simp only [runInjected]
    exact ⟨hi, hp⟩
  | cons x xs ih =>
    intro hinj t past acc fa hi hp hfa
    obtain ⟨hxs, hxok, hxd⟩ := hinj x (by simp)
    have hinj' : ∀ y ∈ xs, IsSflaRow y ∧ RowIn As y ∧ DatedIn D y := fun y hy => hinj y (by simp [hy])
    rw [runInjected]
    cases hstep : stepRow t x past (xs ++ fa) with
    | error e => simp
    | ok r =>
      obtain ⟨d, t1, injd⟩ := r
      simp only
      have hvf : ∀ y ∈ xs ++ fa, y.Valid := by
        intro y hy; simp only [List.mem_append] at hy
        rcases hy with hy | hy
        · exact (hinj' y hy).2.1.1
        · exact hfa y hy
      obtain ⟨hi1, _⟩ := stepRow_inv2 hn hi hxok.1 hxok.2 (fun y hy => (hp y hy).1.1) hvf hstep
      have hp1 : ∀ y ∈ x :: past, RowIn As y ∧ DatedIn D y := by
        intro y hy; simp only [List.mem_cons] at hy
        rcases hy with rfl | hy
        · exact ⟨hxok, hxd⟩
        · exact hp y hy
      exact ih hinj' t1 (x :: past) (acc ++ [d]) fa hi1 hp1 hfa

/-- **The prefix keeps the invariants**, and every processed row carries the date of a row of the
    prefix (generated adjustment rows inherit their sale's date). -/
theorem loopPrefix_inv2 {As : List Aff} (hn : As.Nodup) (r : List Tx) (hr : ∀ x ∈ r, RowIn As x) :
    ∀ (q : List Tx) (D : List Int), (∀ x ∈ q, RowIn As x ∧ DatedIn D x) →
    ∀ (t : Tracker) (past : List Tx) (acc : List Delta), Inv2 As t → (∀ y ∈ past, RowIn As y ∧ DatedIn D y) →
      match loopPrefix t past acc q r with
      | .inl (t2, past2, _) => Inv2 As t2 ∧ (∀ y ∈ past2, RowIn As y ∧ DatedIn D y)
      | .inr _ => True := by
  intro q
  induction q with
  | nil =>
    intro D _ t past acc hi hp
    simp only [loopPrefix]
    exact ⟨hi, hp⟩
  | cons x qs ih =>
    intro D hq t past acc hi hp
    obtain ⟨hxok, hxd⟩ := hq x (by simp)
    have hq' : ∀ y ∈ qs, RowIn As y ∧ DatedIn D y := fun y hy => hq y (by simp [hy])
    rw [loopPrefix]
    cases hstep : stepRow t x past (qs ++ r) with
    | error e => simp
    | ok res =>
      obtain ⟨d, t1, inj⟩ := res
      simp only
      have hvf : ∀ y ∈ qs ++ r, y.Valid := by
        intro y hy; simp only [List.mem_append] at hy
        rcases hy with hy | hy
        · exact (hq' y hy).1.1
        · exact (hr y hy).1
      have haf : ∀ y ∈ qs ++ r, y.aff ∈ As := by
        intro y hy; simp only [List.mem_append] at hy
        rcases hy with hy | hy
        · exact (hq' y hy).1.2
        · exact (hr y hy).2
      obtain ⟨hi1, hinjv⟩ := stepRow_inv2 hn hi hxok.1 hxok.2 (fun y hy => (hp y hy).1.1) hvf hstep
      have hinj : ∀ y ∈ inj, IsSflaRow y ∧ RowIn As y ∧ DatedIn D y := by
        intro y hy
        obtain ⟨h1, h2⟩ := stepRow_inj_props (· ∈ As) (fun z hz => (hp z hz).1.2) haf hstep y hy
        refine ⟨stepRow_inj hstep y hy, ⟨hinjv y hy, h1⟩, ?_⟩
        unfold DatedIn at hxd ⊢; rw [h2]; exact hxd
      have hp1 : ∀ y ∈ x :: past, RowIn As y ∧ DatedIn D y := by
        intro y hy; simp only [List.mem_cons] at hy
        rcases hy with rfl | hy
        · exact ⟨hxok, hxd⟩
        · exact hp y hy
      have hR := runInjected_inv2 hn D inj hinj t1 (x :: past) (acc ++ [d]) (qs ++ r) hi1 hp1 hvf
      generalize runInjected t1 (x :: past) (acc ++ [d]) inj (qs ++ r) = R at hR ⊢
      cases R with
      | inr e => simp
      | inl s =>
        obtain ⟨t2, past2, acc2⟩ := s
        simp only at hR ⊢
        exact ih D hq' t2 past2 acc2 hR.1 hR.2

end Acb
