/-
  USD cash conservation stated on the final output (C18).
-/
import AcbModel.Lemmas.QtAccept
namespace Acb.Qt

theorem usdFxTotal_append (a b : List BTx) : usdFxTotal (a ++ b) = usdFxTotal a + usdFxTotal b := by
  induction a with
  | nil => simp only [List.nil_append, usdFxTotal]; grind
  | cons t ts ih => simp only [List.cons_append, usdFxTotal, ih]; grind

theorem usdFxTotal_perm {a b : List BTx} (h : a.Perm b) : usdFxTotal a = usdFxTotal b := by
  induction h with
  | nil => rfl
  | cons x _ ih => simp only [usdFxTotal, ih]
  | swap x y l => simp only [usdFxTotal]; grind
  | trans _ _ ih1 ih2 => rw [ih1, ih2]

theorem rated_fields (o : Opts) (t : BTx) :
    (rated o t).security = t.security ∧ signedShares (rated o t) = signedShares t ∧
    (rated o t).account = t.account := by
  unfold rated
  split
  · rename_i r _
    obtain ⟨a1, a2, _, _, _, a6, a7, _⟩ := applyRate_fields r t
    exact ⟨a1, by simp [signedShares, a2, a6], a7⟩
  · exact ⟨rfl, rfl, rfl⟩

/-- the selected FX rows add up to the FX rows of the selected accounts -/
theorem usdFxTotal_selected_fx (o : Opts) (hsec : o.security = none) (hfx : o.noFx = false)
    (l : List BTx) (hl : ∀ t ∈ l, t.security = "USD.FX") :
    usdFxTotal ((l.filter (keeps o)).map (rated o)) = fxSum (acctPred o) l := by
  induction l with
  | nil => rfl
  | cons t ts ih =>
    have hts : ∀ x ∈ ts, x.security = "USD.FX" := fun x hx => hl x (List.mem_cons_of_mem _ hx)
    have ht : t.security = "USD.FX" := hl t (List.mem_cons_self)
    have hk : keeps o t = acctPred o t.account := by
      unfold keeps acctPred; simp [hsec, hfx]
    simp only [List.filter_cons, fxSum]
    by_cases hp : acctPred o t.account = true
    · rw [hk, if_pos hp, if_pos hp]
      simp only [List.map_cons, usdFxTotal, ih hts]
      obtain ⟨r1, r2, _⟩ := rated_fields o t
      rw [r1, r2, if_pos ht]
    · rw [hk, if_neg hp, if_neg hp, ih hts]; grind

theorem usdFxTotal_selected_trades (o : Opts) (l : List BTx) (hl : ∀ t ∈ l, t.security ≠ "USD.FX") :
    usdFxTotal ((l.filter (keeps o)).map (rated o)) = 0 := by
  induction l with
  | nil => rfl
  | cons t ts ih =>
    have hts : ∀ x ∈ ts, x.security ≠ "USD.FX" := fun x hx => hl x (List.mem_cons_of_mem _ hx)
    have ht : t.security ≠ "USD.FX" := hl t (List.mem_cons_self)
    simp only [List.filter_cons]
    split
    · simp only [List.map_cons, usdFxTotal, ih hts]
      rw [(rated_fields o t).1, if_neg ht]; grind
    · exact ih hts

end Acb.Qt
