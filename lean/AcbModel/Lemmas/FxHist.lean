/-
  Download counting and histories of runs (C13).
-/
import AcbModel.Lemmas.FxRun
namespace Acb.Fx

/-- When the cached year covers `d`, `fetch` returns the cached year without touching anything. -/
theorem fetch_covered (e : Env) (s : St) (d : Int) (hf : e.force = false)
    (hcov : Covered e s.cache d) : ∃ rows, fetch e s d = (.ok rows, s) := by
  obtain ⟨hr, rows, hc, hl⟩ := hcov
  refine ⟨rows, ?_⟩
  unfold fetch
  simp only [hf, hr, hc, hl, Bool.false_eq_true, if_false, if_true]
  split <;> rfl

/-- **No download when the cache covers the date** (one exact look-up). -/
theorem getExact_covered (e : Env) (s : St) (d : Int) (hf : e.force = false)
    (hcov : Covered e s.cache d) :
    (getExact e s d).2.downloads = s.downloads ∧ (getExact e s d).2.cache = s.cache := by
  have key : (ensureLoaded e s d).2.downloads = s.downloads ∧ (ensureLoaded e s d).2.cache = s.cache := by
    unfold ensureLoaded
    by_cases hn : needLoad s (e.cal.yearOf d) d = true
    · obtain ⟨rows, hfetch⟩ := fetch_covered e s d hf hcov
      simp only [hn, if_true, hfetch]
      simp
    · simp only [hn, Bool.false_eq_true, if_false]
      split <;> exact ⟨rfl, rfl⟩
  unfold getExact
  cases hel : ensureLoaded e s d with
  | mk res s' =>
    rw [hel] at key
    cases res with
    | error er => exact key
    | ok rows =>
      simp only
      split
      · split <;> exact key
      · split <;> exact key

theorem lookBack_covered (e : Env) (n : Nat) (s : St) (d : Int) (hf : e.force = false)
    (hcov : ∀ k : Nat, 1 ≤ k → k ≤ n → Covered e s.cache (d - k)) :
    (lookBack e n s d).2.downloads = s.downloads ∧ (lookBack e n s d).2.cache = s.cache := by
  induction n generalizing s d with
  | zero => exact ⟨rfl, rfl⟩
  | succ n ih =>
    have h1 := getExact_covered e s (d - 1) hf (by simpa using hcov 1 (by omega) (by omega))
    simp only [lookBack, step_is_one]
    cases hg : getExact e s (d - 1) with
    | mk res s' =>
      rw [hg] at h1
      simp only at h1
      cases res with
      | error er => exact h1
      | ok o =>
        cases o with
        | some r => exact h1
        | none =>
          simp only
          have := ih s' (d - 1) (by
            intro k hk1 hk2
            have hc := hcov (k + 1) (by omega) (by omega)
            rw [h1.2]
            have e1 : d - ((k + 1 : Nat) : Int) = d - 1 - (k : Int) := by omega
            rw [e1] at hc; exact hc)
          exact ⟨this.1.trans h1.1, this.2.trans h1.2⟩

/-- **No download when the cache covers the date and the seven days before it** (effective look-up). -/
theorem getEffective_covered (e : Env) (s : St) (d : Int) (hf : e.force = false)
    (hcov : ∀ k : Nat, k ≤ 7 → Covered e s.cache (d - k)) :
    (getEffective e s d).2.downloads = s.downloads ∧ (getEffective e s d).2.cache = s.cache := by
  have h1 := getExact_covered e s d hf (by simpa using hcov 0 (by omega))
  simp only [getEffective, lookback_is_7]
  cases hg : getExact e s d with
  | mk res s' =>
    rw [hg] at h1
    simp only at h1
    cases res with
    | error er => exact h1
    | ok o =>
      cases o with
      | some r => exact h1
      | none =>
        simp only
        have := lookBack_covered e 7 s' d hf (by
          intro k hk1 hk2; rw [h1.2]; exact hcov k hk2)
        exact ⟨this.1.trans h1.1, this.2.trans h1.2⟩

/-- A trustworthy cache stays trustworthy for a later run over consistent data. -/
theorem cacheOK_of_consistent {a b : Env} (h : Consistent a b) {cache : Store} (hc : CacheOK a cache) :
    CacheOK b cache := by
  obtain ⟨hcal, htd, hpast, hpub, hav⟩ := h
  intro y rows hy
  obtain ⟨ht, ha⟩ := hc y rows hy
  refine ⟨?_, hav y ha⟩
  intro d r hd hl
  rw [← hcal] at hd
  rcases ht d r hd hl with ⟨h1, h2, h3⟩ | ⟨h1, h2⟩
  · left; exact ⟨h1, by rw [hpast d h3]; exact h2, by omega⟩
  · right; exact ⟨h1, hpub d r h2⟩

/-- What a run leaves behind: the cache is trustworthy (for this run's data), whatever it was
    when every first load was forced. -/
theorem cacheOK_after_run (e : Env) (hc : e.cal.OK) (hwf : RemoteWF e) (cache : Store)
    (h0 : CacheOK e cache) (ds : List Int) : CacheOK e (runLookups e (St.init cache) ds).2.cache := by
  -- run the same look-ups with the invariant in its unforced form
  have key : ∀ (s : St), RunInv e s → CacheOK e s.cache → ∀ ds, CacheOK e (runLookups e s ds).2.cache := by
    intro s hinv hco ds
    induction ds generalizing s with
    | nil => exact hco
    | cons d ds ih =>
      simp only [runLookups]
      refine ih _ (getEffective_spec e hc hwf s hinv d).1 ?_
      -- CacheOK is preserved by one effective look-up
      have step : ∀ (s : St), RunInv e s → CacheOK e s.cache → ∀ d, CacheOK e (getExact e s d).2.cache := by
        intro s hinv hco d
        unfold getExact
        have hl := ensureLoaded_spec e hc hwf s hinv d
        have hcache : CacheOK e (ensureLoaded e s d).2.cache := by
          by_cases hn : needLoad s (e.cal.yearOf d) d = true
          · have hfr := needLoad_not_fresh hinv hn
            rw [ensureLoaded_eq_load e s d hn]
            rcases fetch_cases e s d hfr with h | ⟨_, _, rows, _, _, h⟩
            · rw [h]
              unfold download
              cases hrem : e.remote (e.cal.yearOf d) with
              | none => exact hco
              | some l =>
                simp only [setLoaded]
                split
                · exact hco
                · intro y rows hy
                  by_cases hne : y = e.cal.yearOf d
                  · subst hne
                    simp only [upd, if_true, Option.some.injEq] at hy
                    subst hy
                    exact ⟨(fill_truthful_complete e hc hwf _ l hrem).1, by simp [hrem]⟩
                  · simp only [upd, hne, if_false] at hy
                    exact hco y rows hy
            · rw [h]; exact hco
          · unfold ensureLoaded
            simp only [hn, Bool.false_eq_true, if_false]
            split <;> exact hco
        cases hel : ensureLoaded e s d with
        | mk res s' =>
          rw [hel] at hcache
          cases res with
          | error er => exact hcache
          | ok rows =>
            simp only
            split
            · split <;> exact hcache
            · split <;> exact hcache
      have stepBack : ∀ (n : Nat) (s : St), RunInv e s → CacheOK e s.cache → ∀ d, CacheOK e (lookBack e n s d).2.cache := by
        intro n
        induction n with
        | zero => intro s _ hco d; exact hco
        | succ n ih =>
          intro s hinv hco d
          have h1 := step s hinv hco (d - 1)
          have hi := (getExact_spec e hc hwf s hinv (d - 1)).1
          simp only [lookBack, step_is_one]
          cases hg : getExact e s (d - 1) with
          | mk res s' =>
            rw [hg] at h1 hi
            cases res with
            | error er => exact h1
            | ok o =>
              cases o with
              | some r => exact h1
              | none => exact ih s' hi h1 (d - 1)
      have h1 := step s hinv hco d
      have hi := (getExact_spec e hc hwf s hinv d).1
      simp only [getEffective]
      cases hg : getExact e s d with
      | mk res s' =>
        rw [hg] at h1 hi
        cases res with
        | error er => exact h1
        | ok o =>
          cases o with
          | some r => exact h1
          | none => exact stepBack _ s' hi h1 d
  exact key _ (inv_init e cache (Or.inr h0)) h0 ds

/-- **Histories.**  Over any history of runs on successive days with well-formed, consistent data,
    starting from a trustworthy cache, every look-up of every run returns `specRate` of that run. -/
theorem runHistory_spec (cache : Store) (rs : List Run) (prev : Option Env)
    (hg : GoodHistory prev rs)
    (h0 : ∀ r, rs.head? = some r → CacheOK r.env cache) :
    (runHistory cache rs).1.map (fun o => o.1.map forget) =
      rs.map (fun r => r.lookups.map (specRate r.env)) := by
  induction rs generalizing cache prev with
  | nil => rfl
  | cons r rs ih =>
    obtain ⟨hc, hwf, _, hrest⟩ := hg
    have hco := h0 r rfl
    have hrun := runLookups_spec r.env hc hwf _ (inv_init r.env cache (Or.inr hco)) r.lookups
    have hafter := cacheOK_after_run r.env hc hwf cache hco r.lookups
    simp only [runHistory, List.map_cons, hrun.2]
    congr 1
    apply ih _ (some r.env) hrest
    intro r' hr'
    cases rs with
    | nil => simp at hr'
    | cons r2 rs2 =>
      simp only [List.head?_cons, Option.some.injEq] at hr'
      subst hr'
      exact cacheOK_of_consistent hrest.2.2.1 hafter

end Acb.Fx
