/-
  The ledger depends on the rows already processed only through the tracker's observables and the
  rows that can still fall into a superficial-loss window (C10's engine): two runs whose trackers
  agree on every affiliate's next pre-status and whose processed rows differ only in a part that
  lies before every later sale's window produce the same deltas from there on.
-/
import AcbModel.Lemmas.Scale3
import AcbModel.Lemmas.Loop
namespace Acb

/-- the trackers agree on everything `delta_for_tx` and the window scans read -/
structure ObsEq (t t' : Tracker) : Prop where
  pre : ∀ a, t'.nextPre a = t.nextPre a
  postAll : t'.latestPostAll = t.latestPostAll

theorem ObsEq.refl (t : Tracker) : ObsEq t t := ⟨fun _ => rfl, rfl⟩

theorem ObsEq.bal {t t' : Tracker} (h : ObsEq t t') (a : Aff) : t'.bal a = t.bal a := by
  rw [← nextPre_shares, ← nextPre_shares, h.pre a]

theorem ObsEq.all {t t' : Tracker} (h : ObsEq t t') (a : Aff) : t'.latestAll = t.latestAll := by
  rw [← nextPre_all t' a, ← nextPre_all t a, h.pre a]

theorem scanFwd_bal {t t' : Tracker} (hb : ∀ a, t'.bal a = t.bal a) (lastDay : Int) :
    ∀ (future : List Tx) (s : Scan), scanFwd t' lastDay s future = scanFwd t lastDay s future := by
  intro future
  induction future with
  | nil => intro s; simp [scanFwd]
  | cons x rest ih =>
    intro s
    rw [scanFwd, scanFwd]
    simp only [hb, ih]

theorem scanBwd_bal {t t' : Tracker} (hb : ∀ a, t'.bal a = t.bal a) (firstDay : Int) :
    ∀ (past : List Tx) (s : Scan), scanBwd t' firstDay s past = scanBwd t firstDay s past := by
  intro past
  induction past with
  | nil => intro s; simp [scanBwd]
  | cons x rest ih =>
    intro s
    rw [scanBwd, scanBwd]
    simp only [hb, ih]

/-- `P` lies before the window starting at `firstDay`: its most recent row (the list is most
    recent first) settles before that day, so the backward scan stops there at the latest. -/
def FarList (P : List Tx) (firstDay : Int) : Prop := ∀ p, P.head? = some p → p.settle < firstDay

theorem scanBwd_far {t : Tracker} (firstDay : Int) (P : List Tx) (hP : FarList P firstDay) :
    ∀ (X : List Tx) (s : Scan), scanBwd t firstDay s (X ++ P) = scanBwd t firstDay s X := by
  intro X
  induction X with
  | nil =>
    intro s
    cases P with
    | nil => rfl
    | cons p ps =>
      have := hP p rfl
      simp [scanBwd, this]
  | cons x rest ih =>
    intro s
    simp only [List.cons_append]
    rw [scanBwd, scanBwd]
    split
    · rfl
    · simp only
      split <;> exact ih _

theorem sflInfo_far {t t' : Tracker} (h : ObsEq t t') (seller : Aff) (settle : Int) (sold : Rat)
    (X P P' future : List Tx) (hP : FarList P (settle - Gen.sflWindowBeforeDays))
    (hP' : FarList P' (settle - Gen.sflWindowBeforeDays)) :
    sflInfo t' seller settle sold (X ++ P') future = sflInfo t seller settle sold (X ++ P) future := by
  unfold sflInfo initScan
  simp only [h.postAll, h.bal, scanFwd_bal h.bal, scanBwd_bal h.bal, scanBwd_far _ P hP, scanBwd_far _ P' hP']

/-- what a later row needs of the two differing prefixes -/
def FarFor (P : List Tx) (x : Tx) : Prop :=
  ∀ sh px comm rate crate spec, x.act = .sell sh px comm rate crate spec →
    FarList P (x.settle - Gen.sflWindowBeforeDays)

theorem FarFor_of_sfla {P : List Tx} {x : Tx} (h : IsSflaRow x) : FarFor P x := by
  obtain ⟨sh, ps, hx⟩ := h
  intro a1 a2 a3 a4 a5 a6 hact
  rw [hx] at hact; cases hact

theorem arm_far {t t' : Tracker} (h : ObsEq t t') (x : Tx) (pre : Status) (X P P' future : List Tx)
    (hP : FarFor P x) (hP' : FarFor P' x) :
    arm t' x pre (X ++ P') future = arm t x pre (X ++ P) future := by
  unfold arm
  cases hact : x.act with
  | sell sh px comm rate crate spec =>
    simp only [armSell, deltaSflInfo, sflRatio,
      sflInfo_far h x.aff x.settle sh X P P' future (hP sh px comm rate crate spec hact) (hP' sh px comm rate crate spec hact)]
  | buy sh px comm rate crate => rfl
  | roc ps rate => rfl
  | sfla sh ps => rfl
  | split post pre' io => rfl

theorem setLatest_obs {t t' : Tracker} (h : ObsEq t t') (a : Aff) (v : Status) :
    match t.setLatest a v, t'.setLatest a v with
    | .ok t2, .ok t2' => ObsEq t2 t2'
    | .error e, .error e' => e = e'
    | _, _ => False := by
  rw [setLatest_iff, setLatest_iff, h.all a, h.bal a]
  by_cases h1 : a.registered = v.acb.isNone
  · by_cases h2 : v.all = v.shares + t.latestAll - t.bal a
    · rw [if_pos h1, if_pos h2, if_pos h1, if_pos h2]
      simp only
      constructor
      · intro x
        rw [nextPre_eq, nextPre_eq, bal_set, bal_set, acbOf_set, acbOf_set]
        have hb := h.bal x
        have ha : t'.acbOf x = t.acbOf x := by
          have := h.pre x
          rw [nextPre_eq, nextPre_eq] at this
          exact (Status.mk.injEq .. ▸ this).2.2
        by_cases hx : x = a
        · simp [hx]
        · simp only [hx, if_false]
          change Status.mk (t'.bal x) _ (t'.acbOf x) = Status.mk (t.bal x) _ (t.acbOf x)
          rw [hb, ha]
      · simp [Tracker.latestPostAll, upd]
    · rw [if_pos h1, if_neg h2, if_pos h1, if_neg h2]
  · rw [if_neg h1, if_neg h1]

/-- results of one iteration in the two runs -/
def StepResEq : Except Failure (Delta × Tracker × List Tx) → Except Failure (Delta × Tracker × List Tx) → Prop
  | .error e, .error e' => e = e'
  | .ok (d, t2, inj), .ok (d', t2', inj') => d' = d ∧ ObsEq t2 t2' ∧ inj' = inj
  | _, _ => False

theorem stepRow_far {t t' : Tracker} (h : ObsEq t t') (x : Tx) (X P P' future : List Tx)
    (hP : FarFor P x) (hP' : FarFor P' x) :
    StepResEq (stepRow t x (X ++ P) future) (stepRow t' x (X ++ P') future) := by
  simp only [stepRow, deltaForTx, h.pre x.aff, arm_far h x _ X P P' future hP hP']
  cases sanityCheck (t.nextPre x.aff) x.aff with
  | error e => simp [StepResEq]
  | ok u =>
    simp only
    cases arm t x (t.nextPre x.aff) (X ++ P) future with
    | error e => simp [StepResEq]
    | ok o =>
      simp only
      have hs := setLatest_obs h x.aff o.post
      generalize t.setLatest x.aff o.post = S at hs ⊢
      generalize t'.setLatest x.aff o.post = S' at hs ⊢
      cases S with
      | error e =>
        cases S' with
        | error e' => simp only at hs; simp [StepResEq, hs]
        | ok _ => simp at hs
      | ok t2 =>
        cases S' with
        | error e' => simp at hs
        | ok t2' =>
          simp only at hs
          simpa [StepResEq] using hs

end Acb

namespace Acb

def InjResEq (P P' : List Tx) (acc acc' : List Delta) :
    (Tracker × List Tx × List Delta) ⊕ (List Delta × Failure) →
    (Tracker × List Tx × List Delta) ⊕ (List Delta × Failure) → Prop
  | .inl (t2, past2, acc2), .inl (t2', past2', acc2') =>
    ∃ X2 out, past2 = X2 ++ P ∧ past2' = X2 ++ P' ∧ ObsEq t2 t2' ∧ acc2 = acc ++ out ∧ acc2' = acc' ++ out
  | .inr (acc2, e), .inr (acc2', e') => e = e' ∧ ∃ out, acc2 = acc ++ out ∧ acc2' = acc' ++ out
  | _, _ => False

theorem runInjected_far (P P' : List Tx) :
    ∀ (inj : List Tx), (∀ x ∈ inj, IsSflaRow x) →
    ∀ (t t' : Tracker), ObsEq t t' → ∀ (X : List Tx) (acc acc' : List Delta) (future : List Tx),
      InjResEq P P' acc acc' (runInjected t (X ++ P) acc inj future) (runInjected t' (X ++ P') acc' inj future) := by
  intro inj
  induction inj with
  | nil =>
    intro _ t t' h X acc acc' future
    simp only [runInjected, InjResEq]
    exact ⟨X, [], rfl, rfl, h, by simp, by simp⟩
  | cons x xs ih =>
    intro hinj t t' h X acc acc' future
    have hx := hinj x (by simp)
    have hstep := stepRow_far h x X P P' (xs ++ future) (FarFor_of_sfla hx) (FarFor_of_sfla hx)
    rw [runInjected, runInjected]
    generalize stepRow t x (X ++ P) (xs ++ future) = A at hstep ⊢
    generalize stepRow t' x (X ++ P') (xs ++ future) = B at hstep ⊢
    cases A with
    | error e =>
      cases B with
      | error e' => simp only [StepResEq] at hstep; simp only [InjResEq]; exact ⟨hstep, [], by simp, by simp⟩
      | ok r => obtain ⟨d', t2', inj'⟩ := r; simp [StepResEq] at hstep
    | ok r =>
      obtain ⟨d, t2, injd⟩ := r
      cases B with
      | error e' => simp [StepResEq] at hstep
      | ok r' =>
        obtain ⟨d', t2', injd'⟩ := r'
        simp only [StepResEq] at hstep
        obtain ⟨hd, ht2, _⟩ := hstep
        subst hd
        simp only
        have := ih (fun y hy => hinj y (by simp [hy])) t2 t2' ht2 (x :: X) (acc ++ [d']) (acc' ++ [d']) future
        simp only [List.cons_append] at this
        generalize runInjected t2 (x :: (X ++ P)) (acc ++ [d']) xs future = RA at this ⊢
        generalize runInjected t2' (x :: (X ++ P')) (acc' ++ [d']) xs future = RB at this ⊢
        cases RA with
        | inl a =>
          obtain ⟨ta, pa, acca⟩ := a
          cases RB with
          | inl b =>
            obtain ⟨tb, pb, accb⟩ := b
            simp only [InjResEq] at this ⊢
            obtain ⟨X2, out, h1, h2, h3, h4, h5⟩ := this
            exact ⟨X2, d' :: out, h1, h2, h3, by simp [h4], by simp [h5]⟩
          | inr b => obtain ⟨accb, e⟩ := b; simp [InjResEq] at this
        | inr a =>
          obtain ⟨acca, e⟩ := a
          cases RB with
          | inl b => obtain ⟨tb, pb, accb⟩ := b; simp [InjResEq] at this
          | inr b =>
            obtain ⟨accb, e'⟩ := b
            simp only [InjResEq] at this ⊢
            obtain ⟨he, out, h4, h5⟩ := this
            exact ⟨he, d' :: out, by simp [h4], by simp [h5]⟩

/-- **The engine of C10.**  From trackers that agree on their observables, with processed rows
    `X ++ P` and `X ++ P'` whose differing parts lie before the window of every remaining sale, the
    remaining rows produce the same deltas and the same failure. -/
theorem deltaLoop_far (P P' : List Tx) :
    ∀ (rest : List Tx), (∀ x ∈ rest, FarFor P x ∧ FarFor P' x) →
    ∀ (t t' : Tracker), ObsEq t t' → ∀ (X : List Tx) (acc acc' : List Delta),
      ∃ out, deltaLoop t (X ++ P) acc rest = (acc ++ out, (deltaLoop t (X ++ P) acc rest).2) ∧
        deltaLoop t' (X ++ P') acc' rest = (acc' ++ out, (deltaLoop t (X ++ P) acc rest).2) := by
  intro rest
  induction rest with
  | nil =>
    intro _ t t' _ X acc acc'
    exact ⟨[], by simp [deltaLoop], by simp [deltaLoop]⟩
  | cons x rest ih =>
    intro hfar t t' h X acc acc'
    obtain ⟨hP, hP'⟩ := hfar x (by simp)
    have hfar' : ∀ y ∈ rest, FarFor P y ∧ FarFor P' y := fun y hy => hfar y (by simp [hy])
    have hstep := stepRow_far h x X P P' rest hP hP'
    have hinjA : ∀ d t2 inj, stepRow t x (X ++ P) rest = .ok (d, t2, inj) → ∀ y ∈ inj, IsSflaRow y :=
      fun d t2 inj hs y hy => stepRow_inj hs y hy
    rw [deltaLoop, deltaLoop]
    generalize stepRow t x (X ++ P) rest = A at hstep hinjA ⊢
    generalize stepRow t' x (X ++ P') rest = B at hstep ⊢
    cases A with
    | error e =>
      cases B with
      | error e' => simp only [StepResEq] at hstep; subst hstep; exact ⟨[], by simp, by simp⟩
      | ok r => obtain ⟨d', t2', inj'⟩ := r; simp [StepResEq] at hstep
    | ok ra =>
      obtain ⟨d, t2, inj⟩ := ra
      cases B with
      | error e' => simp [StepResEq] at hstep
      | ok rb =>
        obtain ⟨d', t2', inj'⟩ := rb
        simp only [StepResEq] at hstep
        obtain ⟨hd, ht2, hinj⟩ := hstep
        subst hd
        simp only [hinj]
        have hri := runInjected_far P P' inj (hinjA d' t2 inj rfl) t2 t2' ht2 (x :: X) (acc ++ [d']) (acc' ++ [d']) rest
        simp only [List.cons_append] at hri
        generalize runInjected t2 (x :: (X ++ P)) (acc ++ [d']) inj rest = RA at hri ⊢
        generalize runInjected t2' (x :: (X ++ P')) (acc' ++ [d']) inj rest = RB at hri ⊢
        cases RA with
        | inl a =>
          obtain ⟨ta, pa, acca⟩ := a
          cases RB with
          | inl b =>
            obtain ⟨tb, pb, accb⟩ := b
            simp only [InjResEq] at hri
            obtain ⟨X2, out, h1, h2, h3, h4, h5⟩ := hri
            subst h1; subst h2; subst h4; subst h5
            simp only
            obtain ⟨o2, g1, g2⟩ := ih hfar' ta tb h3 X2 (acc ++ [d'] ++ out) (acc' ++ [d'] ++ out)
            refine ⟨d' :: (out ++ o2), ?_, ?_⟩
            · rw [g1]; simp
            · rw [g2]; simp
          | inr b => obtain ⟨accb, e⟩ := b; simp [InjResEq] at hri
        | inr a =>
          obtain ⟨acca, e⟩ := a
          cases RB with
          | inl b => obtain ⟨tb, pb, accb⟩ := b; simp [InjResEq] at hri
          | inr b =>
            obtain ⟨accb, e'⟩ := b
            simp only [InjResEq] at hri
            obtain ⟨he, out, h4, h5⟩ := hri
            subst h4; subst h5; subst he
            exact ⟨d' :: out, by simp, by simp⟩

end Acb
