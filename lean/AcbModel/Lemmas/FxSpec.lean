/-
  Declarative reading of `specRate` (used by the C12 corollaries).
-/
import AcbModel.Lemmas.FxRun
namespace Acb.Fx

/-- "`r` is the Bank of Canada rate to use for trade date `D`": it is a published rate, of the trade
    date itself or of one of the seven preceding days, no later day up to the trade date has a
    published rate, and a preceding day's rate is only used for a trade date in the past. -/
def IsRelevantRate (e : Env) (D : Int) (r : DailyRate) : Prop :=
  r.date ≤ D ∧ D ≤ r.date + 7 ∧ pubOf e.cal e.remote r.date = some r.rate ∧
  (∀ d', r.date < d' → d' ≤ D → pubOf e.cal e.remote d' = none) ∧
  (r.date = D ∨ D < e.today)

theorem specExact_some {e : Env} {d : Int} {r : DailyRate} (h : specExact e d = .ok (some r)) :
    r.date = d ∧ pubOf e.cal e.remote d = some r.rate := by
  unfold specExact at h
  split at h
  · split at h
    · rename_i v hv
      simp only [Except.ok.injEq, Option.some.injEq] at h
      subst h; exact ⟨rfl, hv⟩
    · split at h <;> simp at h
  · simp at h

theorem specExact_none {e : Env} {d : Int} (h : specExact e d = .ok none) :
    pubOf e.cal e.remote d = none ∧ d < e.today := by
  unfold specExact at h
  split at h
  · split at h
    · simp at h
    · rename_i hv
      split at h
      · simp at h
      · exact ⟨hv, by omega⟩
  · simp at h

theorem specBack_sound (e : Env) (n : Nat) (d : Int) (r : DailyRate) (h : specBack e n d = .ok r) :
    r.date < d ∧ d ≤ r.date + n ∧ pubOf e.cal e.remote r.date = some r.rate ∧
    (∀ d', r.date < d' → d' < d → pubOf e.cal e.remote d' = none) := by
  induction n generalizing d with
  | zero => simp [specBack] at h
  | succ n ih =>
    simp only [specBack] at h
    cases hx : specExact e (d - 1) with
    | error u => simp [hx] at h
    | ok o =>
      cases o with
      | some r' =>
        simp only [hx, Except.ok.injEq] at h
        subst h
        obtain ⟨h1, h2⟩ := specExact_some hx
        refine ⟨by omega, by omega, by rw [h1]; exact h2, ?_⟩
        intro d' ha hb; omega
      | none =>
        simp only [hx] at h
        obtain ⟨h1, h2, h3, h4⟩ := ih (d - 1) h
        obtain ⟨h5, _⟩ := specExact_none hx
        refine ⟨by omega, by omega, h3, ?_⟩
        intro d' ha hb
        by_cases hd : d' = d - 1
        · subst hd; exact h5
        · exact h4 d' ha (by omega)

/-- **Soundness of the specification**: whatever `specRate` returns is the relevant rate. -/
theorem specRate_sound (e : Env) (D : Int) (r : DailyRate) (h : specRate e D = .ok r) :
    IsRelevantRate e D r := by
  unfold specRate at h
  cases hx : specExact e D with
  | error u => simp [hx] at h
  | ok o =>
    cases o with
    | some r' =>
      simp only [hx, Except.ok.injEq] at h
      subst h
      obtain ⟨h1, h2⟩ := specExact_some hx
      exact ⟨by omega, by omega, by rw [h1]; exact h2, fun d' ha hb => by omega, Or.inl h1⟩
    | none =>
      simp only [hx] at h
      obtain ⟨h1, h2, h3, h4⟩ := specBack_sound e 7 D r h
      obtain ⟨h5, h6⟩ := specExact_none hx
      refine ⟨by omega, by omega, h3, ?_, Or.inr h6⟩
      intro d' ha hb
      by_cases hd : d' = D
      · subst hd; exact h5
      · exact h4 d' ha (by omega)

theorem specBack_complete (e : Env) (n : Nat) (d : Int) (r : DailyRate)
    (hav : ∀ k : Nat, 1 ≤ k → k ≤ n → availOf e.cal e.remote (d - k) = true)
    (h1 : r.date < d) (h2 : d ≤ r.date + n) (h3 : pubOf e.cal e.remote r.date = some r.rate)
    (h4 : ∀ d', r.date < d' → d' < d → pubOf e.cal e.remote d' = none) (h5 : d ≤ e.today) :
    specBack e n d = .ok r := by
  induction n generalizing d with
  | zero => omega
  | succ n ih =>
    simp only [specBack]
    have ha : availOf e.cal e.remote (d - 1) = true := by simpa using hav 1 (by omega) (by omega)
    by_cases hd : r.date = d - 1
    · have : specExact e (d - 1) = .ok (some r) := by
        rw [← hd] at ha ⊢
        cases r with
        | mk rd rr => simp only at ha h3; simp [specExact, ha, h3]
      simp [this]
    · have hp := h4 (d - 1) (by omega) (by omega)
      have : specExact e (d - 1) = .ok none := by
        have : ¬ e.today ≤ d - 1 := by omega
        simp [specExact, ha, hp, this]
      simp only [this]
      apply ih (d - 1)
      · intro k hk1 hk2
        have := hav (k + 1) (by omega) (by omega)
        have e1 : d - ((k + 1 : Nat) : Int) = d - 1 - (k : Int) := by omega
        rw [e1] at this; exact this
      · omega
      · omega
      · intro d' ha' hb; exact h4 d' ha' (by omega)
      · omega

/-- **Completeness of the specification**: if a relevant rate exists (and the data of the days
    concerned can be obtained), `specRate` returns it. -/
theorem specRate_complete (e : Env) (D : Int) (r : DailyRate)
    (hav : ∀ k : Nat, k ≤ 7 → availOf e.cal e.remote (D - k) = true)
    (h : IsRelevantRate e D r) : specRate e D = .ok r := by
  obtain ⟨h1, h2, h3, h4, h5⟩ := h
  unfold specRate
  have ha := hav 0 (by omega)
  simp only [Int.cast_ofNat_Int, Int.sub_zero] at ha
  by_cases hd : r.date = D
  · have : specExact e D = .ok (some r) := by
      rw [← hd] at ha ⊢
      cases r with
      | mk rd rr => simp only at ha h3; simp [specExact, ha, h3]
    simp [this]
  · have hlt : D < e.today := by rcases h5 with h5 | h5; exact absurd h5 hd; exact h5
    have hp := h4 D (by omega) (by omega)
    have : specExact e D = .ok none := by
      have : ¬ e.today ≤ D := by omega
      simp [specExact, ha, hp, this]
    simp only [this]
    exact specBack_complete e 7 D r (fun k hk1 hk2 => hav k hk2) (by omega) (by omega) h3
      (fun d' ha' hb => h4 d' ha' (by omega)) (by omega)

end Acb.Fx
