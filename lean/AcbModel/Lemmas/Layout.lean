/-
  Lemmas for C07 (layout): file partition, column permutation, header case and padding,
  unrecognised columns.
-/
import AcbModel.App.Layout
import AcbModel.Lemmas.CsvTable
namespace Acb.Csv

/-! ### several files = one file -/

theorem readRows_length (cols : List (Option Col)) (rows : List (List Str)) (i : Nat) (cs : List CsvTx)
    (h : readRows cols rows i = .ok cs) : cs.length = rows.length := by
  induction rows generalizing i cs with
  | nil => simp [readRows] at h; subst h; rfl
  | cons r rs ih =>
    simp only [readRows] at h
    split at h
    · split at h
      · cases h
      · split at h
        · cases h
        · rename_i ts hts
          simp only [Except.ok.injEq] at h; subst h
          simp [ih _ _ hts]
    · cases h

theorem readRows_append (cols : List (Option Col)) (r1 r2 : List (List Str)) (i : Nat) :
    readRows cols (r1 ++ r2) i =
      match readRows cols r1 i with
      | .error e => .error e
      | .ok a =>
        match readRows cols r2 (i + r1.length) with
        | .error e => .error e
        | .ok b => .ok (a ++ b) := by
  induction r1 generalizing i with
  | nil =>
    simp only [List.nil_append, readRows, List.length_nil, Nat.add_zero]
    cases readRows cols r2 i <;> rfl
  | cons r rs ih =>
    simp only [List.cons_append, readRows, List.length_cons]
    split
    · cases hc : csvTxOfValues (fun c => lookupCell c cols r) i with
      | error e => rfl
      | ok t =>
        simp only
        rw [ih (i + 1)]
        have : i + 1 + rs.length = i + (rs.length + 1) := by omega
        rw [this]
        cases readRows cols rs (i + 1) with
        | error e => rfl
        | ok a =>
          simp only
          cases readRows cols r2 (i + (rs.length + 1)) <;> rfl
    · rfl

theorem txsOfCsv_append (a b : List CsvTx) :
    txsOfCsv (a ++ b) =
      match txsOfCsv a with
      | .error e => .error e
      | .ok x =>
        match txsOfCsv b with
        | .error e => .error e
        | .ok y => .ok (x ++ y) := by
  induction a with
  | nil => simp only [List.nil_append, txsOfCsv]; cases txsOfCsv b <;> rfl
  | cons c cs ih =>
    simp only [List.cons_append, txsOfCsv]
    cases Tx.ofCsv c with
    | error e => rfl
    | ok t =>
      simp only
      rw [ih]
      cases txsOfCsv cs with
      | error e => rfl
      | ok x =>
        simp only
        cases txsOfCsv b <;> rfl

theorem txsOfCsv_length (cs : List CsvTx) (ts : List Tx) (h : txsOfCsv cs = .ok ts) : ts.length = cs.length := by
  induction cs generalizing ts with
  | nil => simp [txsOfCsv] at h; subst h; rfl
  | cons c r ih =>
    simp only [txsOfCsv] at h
    split at h
    · cases h
    · split at h
      · cases h
      · rename_i x hx
        simp only [Except.ok.injEq] at h; subst h
        simp [ih _ hx]

theorem readTxs_length (hdr : List Str) (rows : List (List Str)) (i : Nat) (ts : List Tx)
    (h : readTxs ⟨hdr, rows⟩ i = .ok ts) : ts.length = rows.length := by
  unfold readTxs parseTable at h
  simp only at h
  split at h
  · cases h
  · rename_i cs hcs
    split at hcs
    · cases hcs
    · rw [txsOfCsv_length _ _ h, readRows_length _ _ _ _ hcs]

/-- two consecutive chunks of rows under the same header -/
theorem readTxs_append (hdr : List Str) (r1 r2 : List (List Str)) (i : Nat) :
    (readTxs ⟨hdr, r1 ++ r2⟩ i).toOption =
      (match readTxs ⟨hdr, r1⟩ i with
       | .error e => Except.error e
       | .ok a =>
         match readTxs ⟨hdr, r2⟩ (i + r1.length) with
         | .error e => .error e
         | .ok b => .ok (a ++ b)).toOption := by
  unfold readTxs parseTable
  simp only
  cases ((mapHeader hdr).contains (some Col.settleDate) && (mapHeader hdr).contains (some Col.legacyDate))
  · simp only [Bool.false_eq_true, ↓reduceIte]
    rw [readRows_append]
    cases h1 : readRows (mapHeader hdr) r1 i with
    | error e => rfl
    | ok a =>
      simp only
      cases h2 : readRows (mapHeader hdr) r2 (i + r1.length) with
      | error e =>
        simp only
        cases txsOfCsv a <;> rfl
      | ok b =>
        simp only
        rw [txsOfCsv_append]
  · rfl


theorem readFiles_cons (f : Table) (fs : List Table) (i : Nat) :
    readFiles (f :: fs) i =
      match readTxs f i with
      | .error e => .error e
      | .ok txs =>
        match readFiles fs (i + txs.length) with
        | .error e => .error e
        | .ok rest => .ok (txs ++ rest) := rfl

theorem toOption_congr_append {X Y : Except ReadErr (List Tx)} (h : X.toOption = Y.toOption) (a : List Tx) :
    (match X with
      | .error e => (Except.error e : Except ReadErr (List Tx))
      | .ok r => .ok (a ++ r)).toOption =
    (match Y with
      | .error e => (Except.error e : Except ReadErr (List Tx))
      | .ok b => .ok (a ++ b)).toOption := by
  cases X <;> cases Y <;> simp_all [Except.toOption]

/-- Reading the rows split over several files (same header, files given in order) gives what
    reading them as one file gives; both fail or both succeed. -/
theorem readFiles_chunks (hdr : List Str) (chunks : List (List (List Str))) (hne : chunks ≠ []) (i : Nat) :
    (readFiles (chunks.map (fun rows => (⟨hdr, rows⟩ : Table))) i).toOption =
      (readTxs ⟨hdr, chunks.flatten⟩ i).toOption := by
  induction chunks generalizing i with
  | nil => exact absurd rfl hne
  | cons c rest ih =>
    cases rest with
    | nil =>
      simp only [List.map_cons, List.map_nil, readFiles, List.flatten_cons, List.flatten_nil, List.append_nil]
      cases readTxs ⟨hdr, c⟩ i with
      | error e => rfl
      | ok txs => simp
    | cons c2 rest2 =>
      rw [List.flatten_cons, readTxs_append, List.map_cons, readFiles_cons]
      cases h1 : readTxs ⟨hdr, c⟩ i with
      | error e => rfl
      | ok txs =>
        simp only
        rw [readTxs_length hdr c i txs h1]
        exact toOption_congr_append (ih (by simp) (i + c.length)) txs


/-! ### columns: the reader only sees (header cell, row cell) pairs -/

/-- `lookupCell` on the zipped row -/
def lookupZ (c : Col) : List (Option Col × Str) → Option Str
  | [] => none
  | p :: r =>
    match lookupZ c r with
    | some x => some x
    | none => if p.1 = some c ∧ ¬ (trim p.2).isEmpty then some (trim p.2) else none

theorem lookupCell_eq_lookupZ (c : Col) (cols : List (Option Col)) (cells : List Str) :
    lookupCell c cols cells = lookupZ c (cols.zip cells) := by
  induction cols generalizing cells with
  | nil => cases cells <;> rfl
  | cons oc r ih =>
    cases cells with
    | nil => rfl
    | cons v vs => simp only [lookupCell, List.zip_cons_cons, lookupZ, ih]; rfl

def hit (c : Col) (p : Option Col × Str) : Prop := p.1 = some c ∧ ¬ (trim p.2).isEmpty

/-- no column is named twice among the recognised ones -/
def DistinctZ (z : List (Option Col × Str)) : Prop := (z.filterMap (·.1)).Nodup

theorem lookupZ_none_of_no_col (c : Col) (z : List (Option Col × Str)) (h : some c ∉ z.map (·.1)) :
    lookupZ c z = none := by
  induction z with
  | nil => rfl
  | cons p r ih =>
    simp only [List.map_cons, List.mem_cons, not_or] at h
    have : ¬ (p.1 = some c ∧ ¬ (trim p.2).isEmpty) := fun hh => h.1 hh.1.symm
    simp only [lookupZ, ih h.2]
    rw [if_neg this]

theorem distinctZ_tail {x : Option Col × Str} {l : List (Option Col × Str)} (hd : DistinctZ (x :: l)) : DistinctZ l := by
  unfold DistinctZ at hd ⊢
  cases hx : x.1 with
  | none => simpa [List.filterMap_cons, hx] using hd
  | some cx =>
    rw [List.filterMap_cons, hx] at hd
    exact (List.nodup_cons.1 hd).2

theorem lookupZ_cons (c : Col) (p : Option Col × Str) (r : List (Option Col × Str)) :
    lookupZ c (p :: r) =
      match lookupZ c r with
      | some x => some x
      | none => if p.1 = some c ∧ ¬ (trim p.2).isEmpty then some (trim p.2) else none := rfl

theorem lookupZ_perm (c : Col) {z1 z2 : List (Option Col × Str)} (hp : z1.Perm z2) (hd : DistinctZ z1) :
    lookupZ c z1 = lookupZ c z2 := by
  induction hp with
  | nil => rfl
  | cons x _ ih => rw [lookupZ_cons, lookupZ_cons, ih (distinctZ_tail hd)]
  | swap x y l =>
    -- x and y cannot both carry column c
    unfold DistinctZ at hd
    rw [lookupZ_cons, lookupZ_cons, lookupZ_cons, lookupZ_cons]
    cases hl : lookupZ c l with
    | some v => rfl
    | none =>
      dsimp only
      by_cases hx : x.1 = some c
      · by_cases hy : y.1 = some c
        · exfalso
          rw [List.filterMap_cons, hy, List.filterMap_cons, hx] at hd
          have := (List.nodup_cons.1 hd).1
          simp at this
        · have hy' : ¬ (y.1 = some c ∧ ¬ (trim y.2).isEmpty) := fun h => hy h.1
          rw [if_neg hy']
          by_cases hxx : (x.1 = some c ∧ ¬ (trim x.2).isEmpty)
          · rw [if_pos hxx]
          · rw [if_neg hxx]
      · have hx' : ¬ (x.1 = some c ∧ ¬ (trim x.2).isEmpty) := fun h => hx h.1
        rw [if_neg hx']
        by_cases hyy : (y.1 = some c ∧ ¬ (trim y.2).isEmpty)
        · rw [if_pos hyy]
        · rw [if_neg hyy]
  | trans h1 _ ih1 ih2 =>
    exact (ih1 hd).trans (ih2 (by unfold DistinctZ at hd ⊢; exact hd.perm (h1.filterMap _)))

theorem zip_mapHeader (hdr : List Str) (r : List Str) :
    (mapHeader hdr).zip r = (hdr.zip r).map (fun p => (colOfName (sanitize p.1), p.2)) := by
  unfold mapHeader sanitize
  induction hdr generalizing r with
  | nil => rfl
  | cons h t ih =>
    cases r with
    | nil => rfl
    | cons v vs => simp only [List.map_cons, List.zip_cons_cons, ih]

theorem filterMap_fst_zip (cols : List (Option Col)) (r : List Str) (hl : r.length = cols.length) :
    (cols.zip r).filterMap (·.1) = cols.filterMap id := by
  induction cols generalizing r with
  | nil => cases r <;> rfl
  | cons oc t ih =>
    cases r with
    | nil => simp at hl
    | cons v vs =>
      simp only [List.zip_cons_cons, List.filterMap_cons, id]
      rw [ih vs (by simpa using hl)]

theorem distinctZ_of (hdr : List Str) (r : List Str) (hlen : r.length = hdr.length) (h : DistinctRecognised hdr) :
    DistinctZ ((mapHeader hdr).zip r) := by
  unfold DistinctZ DistinctRecognised at *
  rw [filterMap_fst_zip _ _ (by simp [mapHeader, hlen])]
  exact h

/-- one row read under a permuted header -/
theorem row_perm (hdr hdr' : List Str) (r r' : List Str) (hlen : r.length = hdr.length)
    (hp : (hdr'.zip r').Perm (hdr.zip r)) (hd : DistinctRecognised hdr) (c : Col) :
    lookupCell c (mapHeader hdr') r' = lookupCell c (mapHeader hdr) r := by
  rw [lookupCell_eq_lookupZ, lookupCell_eq_lookupZ, zip_mapHeader, zip_mapHeader]
  have hperm := hp.map (fun p : Str × Str => (colOfName (sanitize p.1), p.2))
  have hdz := distinctZ_of hdr r hlen hd
  rw [zip_mapHeader] at hdz
  exact (lookupZ_perm c hperm.symm hdz).symm

/-- rows of a re-arranged table: same length conditions, and every row is the same multiset of
    (header cell, row cell) pairs -/
inductive SameColumns (hdr' hdr : List Str) : List (List Str) → List (List Str) → Prop
  | nil : SameColumns hdr' hdr [] []
  | cons {r' r rs' rs} : r'.length = hdr'.length → r.length = hdr.length →
      (hdr'.zip r').Perm (hdr.zip r) → SameColumns hdr' hdr rs' rs → SameColumns hdr' hdr (r' :: rs') (r :: rs)

theorem readRows_perm (hdr hdr' : List Str) (rows rows' : List (List Str)) (hd : DistinctRecognised hdr)
    (h : SameColumns hdr' hdr rows' rows) (i : Nat) :
    readRows (mapHeader hdr') rows' i = readRows (mapHeader hdr) rows i := by
  induction h generalizing i with
  | nil => rfl
  | cons h1 h2 hp _ ih =>
    simp only [readRows, mapHeader_length, h1, h2, if_true]
    have : (fun c => lookupCell c (mapHeader hdr') _) = (fun c => lookupCell c (mapHeader hdr) _) :=
      funext (fun c => row_perm hdr hdr' _ _ h2 hp hd c)
    rw [this, ih]

/-- **Column permutation.** -/
theorem parseTable_perm (hdr hdr' : List Str) (rows rows' : List (List Str)) (hh : hdr'.Perm hdr)
    (hd : DistinctRecognised hdr) (h : SameColumns hdr' hdr rows' rows) (start : Nat) :
    parseTable ⟨hdr', rows'⟩ start = parseTable ⟨hdr, rows⟩ start := by
  unfold parseTable
  simp only
  have hm : (mapHeader hdr').Perm (mapHeader hdr) := by unfold mapHeader; exact hh.map _
  rw [hm.contains_eq, hm.contains_eq, readRows_perm hdr hdr' rows rows' hd h]

/-! ### unrecognised columns -/

theorem lookupZ_insert_none (c : Col) (a b : List (Option Col × Str)) (v : Str) :
    lookupZ c (a ++ (none, v) :: b) = lookupZ c (a ++ b) := by
  induction a with
  | nil =>
    rw [List.nil_append, List.nil_append, lookupZ_cons]
    have : ¬ (((none : Option Col), v).1 = some c ∧ ¬ (trim ((none : Option Col), v).2).isEmpty) := fun h => by cases h.1
    rw [if_neg this]
    cases lookupZ c b <;> rfl
  | cons p r ih => rw [List.cons_append, List.cons_append, lookupZ_cons, lookupZ_cons, ih]

theorem zip_insertAt {α β} (k : Nat) (x : α) (y : β) (l1 : List α) (l2 : List β)
    (h1 : k ≤ l1.length) (h2 : k ≤ l2.length) :
    (insertAt k x l1).zip (insertAt k y l2) = insertAt k (x, y) (l1.zip l2) := by
  unfold insertAt
  rw [List.zip_append (by simp [List.length_take, Nat.min_eq_left h1, Nat.min_eq_left h2])]
  simp only [List.zip_eq_zipWith, List.take_zipWith, List.drop_zipWith, List.zipWith_cons_cons]

theorem mapHeader_insertAt (k : Nat) (h : Str) (hdr : List Str) :
    mapHeader (insertAt k h hdr) = insertAt k (colOfName (sanitize h)) (mapHeader hdr) := by
  unfold mapHeader insertAt sanitize
  simp [List.map_take, List.map_drop]

theorem lookupCell_insert (c : Col) (k : Nat) (h v : Str) (hdr r : List Str)
    (hun : colOfName (sanitize h) = none) (h1 : k ≤ hdr.length) (h2 : r.length = hdr.length) :
    lookupCell c (mapHeader (insertAt k h hdr)) (insertAt k v r) = lookupCell c (mapHeader hdr) r := by
  rw [lookupCell_eq_lookupZ, lookupCell_eq_lookupZ, mapHeader_insertAt, hun,
    zip_insertAt k none v _ _ (by simpa [mapHeader_length] using h1) (by omega)]
  unfold insertAt
  rw [lookupZ_insert_none, List.take_append_drop]

theorem length_insertAt {α} (k : Nat) (x : α) (l : List α) (h : k ≤ l.length) : (insertAt k x l).length = l.length + 1 := by
  unfold insertAt
  simp [List.length_take, Nat.min_eq_left h]
  omega

theorem readRows_insert_unknown (hdr : List Str) (k : Nat) (h : Str) (hk : k ≤ hdr.length)
    (hun : colOfName (sanitize h) = none) (rows : List (List Str)) (vs : List Str)
    (hlen : ∀ r ∈ rows, r.length = hdr.length) (start : Nat) :
    readRows (mapHeader (insertAt k h hdr)) ((rows.zip vs).map (fun p => insertAt k p.2 p.1)) start =
      readRows (mapHeader hdr) ((rows.zip vs).map (·.1)) start := by
  induction rows generalizing vs start with
  | nil => rfl
  | cons r rs ih =>
    cases vs with
    | nil => rfl
    | cons v vs' =>
      have hr : r.length = hdr.length := hlen r (by simp)
      simp only [List.zip_cons_cons, List.map_cons, readRows, mapHeader_length,
        length_insertAt k v r (by omega), length_insertAt k h hdr hk, hr, if_true]
      have : (fun c => lookupCell c (mapHeader (insertAt k h hdr)) (insertAt k v r)) =
          (fun c => lookupCell c (mapHeader hdr) r) :=
        funext (fun c => lookupCell_insert c k h v hdr r hun hk hr)
      rw [this, ih vs' (fun x hx => hlen x (by simp [hx])) (start + 1)]

/-- **Unrecognised column.**  A column whose header is not a recognised name, inserted at any
    position with any cell texts, is not seen by the reader. -/
theorem parseTable_insert_unknown (hdr : List Str) (k : Nat) (h : Str) (hk : k ≤ hdr.length)
    (hun : colOfName (sanitize h) = none) (rows : List (List Str)) (vs : List Str)
    (hlen : ∀ r ∈ rows, r.length = hdr.length) (start : Nat) :
    parseTable ⟨insertAt k h hdr, (rows.zip vs).map (fun p => insertAt k p.2 p.1)⟩ start =
      parseTable ⟨hdr, (rows.zip vs).map (·.1)⟩ start := by
  unfold parseTable
  simp only
  have hc : ∀ x : Col, (mapHeader (insertAt k h hdr)).contains (some x) = (mapHeader hdr).contains (some x) := by
    intro x
    rw [mapHeader_insertAt, hun]
    unfold insertAt
    rw [Bool.eq_iff_iff]
    simp only [List.contains_eq_mem, List.mem_append, List.mem_cons, decide_eq_true_eq]
    constructor
    · rintro (h | h | h)
      · exact List.mem_of_mem_take h
      · cases h
      · exact List.mem_of_mem_drop h
    · intro hx
      have := List.take_append_drop k (mapHeader hdr) ▸ hx
      simp only [List.mem_append] at this
      rcases this with h | h
      · exact Or.inl h
      · exact Or.inr (Or.inr h)
  rw [hc, hc, readRows_insert_unknown hdr k h hk hun rows vs hlen start]

/-! ### header case and padding -/

theorem lowerChar_ws (c : Char) (h : isWs c = true) : lowerChar c = [c] := by
  unfold isWs at h
  simp only [Bool.or_eq_true, Bool.and_eq_true, decide_eq_true_eq, beq_iff_eq] at h
  unfold lowerChar
  simp only [Bool.and_eq_true, decide_eq_true_eq, bne_iff_ne, ne_eq, beq_iff_eq, Bool.or_eq_true]
  generalize c.toNat = n at h ⊢
  have e1 : ¬ (65 ≤ n ∧ n ≤ 90) := by omega
  have e2 : ¬ ((192 ≤ n ∧ n ≤ 222) ∧ ¬ n = 215) := by omega
  have e3 : ¬ n = 304 := by omega
  have e4 : ¬ (((256 ≤ n ∧ n ≤ 311) ∨ (330 ≤ n ∧ n ≤ 375)) ∧ n % 2 = 0) := by omega
  have e5 : ¬ (((313 ≤ n ∧ n ≤ 328) ∨ (377 ≤ n ∧ n ≤ 382)) ∧ n % 2 = 1) := by omega
  have e6 : ¬ n = 376 := by omega
  have e7 : ¬ n = 8490 := by omega
  have e8 : ¬ n = 8491 := by omega
  have e9 : ¬ ((913 ≤ n ∧ n ≤ 937) ∧ ¬ n = 930) := by omega
  have e10 : ¬ (1040 ≤ n ∧ n ≤ 1071) := by omega
  have e11 : ¬ (1024 ≤ n ∧ n ≤ 1039) := by omega
  simp only [e1, e2, e3, e4, e5, e6, e7, e8, e9, e10, e11, if_false, ite_self]

theorem lower_ws (s : Str) (h : ∀ c ∈ s, isWs c = true) : lower s = s := by
  induction s with
  | nil => rfl
  | cons c r ih =>
    unfold lower at ih ⊢
    rw [List.flatMap_cons, lowerChar_ws c (h c (by simp)), ih (fun x hx => h x (by simp [hx]))]
    rfl

theorem lower_append (a b : Str) : lower (a ++ b) = lower a ++ lower b := by
  unfold lower; exact List.flatMap_append

theorem trimStart_ws_append (w s : Str) (h : ∀ c ∈ w, isWs c = true) : trimStart (w ++ s) = trimStart s := by
  unfold trimStart
  induction w with
  | nil => rfl
  | cons c r ih =>
    simp only [List.cons_append, List.dropWhile_cons, h c (by simp), if_true]
    exact ih (fun x hx => h x (by simp [hx]))

theorem trimEnd_append_ws (s w : Str) (h : ∀ c ∈ w, isWs c = true) : trimEnd (s ++ w) = trimEnd s := by
  unfold trimEnd
  rw [List.reverse_append]
  have := trimStart_ws_append w.reverse s.reverse (fun c hc => h c (by simpa using hc))
  unfold trimStart at this
  rw [this]

theorem dropWhile_eq_nil_of_all {α} (p : α → Bool) (l : List α) (h : ∀ x ∈ l, p x = true) : l.dropWhile p = [] := by
  induction l with
  | nil => rfl
  | cons a r ih => simp only [List.dropWhile_cons, h a (by simp), if_true]; exact ih (fun x hx => h x (by simp [hx]))

theorem all_of_dropWhile_eq_nil {α} (p : α → Bool) (l : List α) (h : l.dropWhile p = []) : ∀ x ∈ l, p x = true := by
  induction l with
  | nil => simp
  | cons a r ih =>
    rw [List.dropWhile_cons] at h
    split at h
    · rename_i ha
      intro x hx
      simp only [List.mem_cons] at hx
      rcases hx with hx | hx
      · subst hx; exact ha
      · exact ih h x hx
    · cases h

theorem trimStart_append_ws_comm (s w : Str) (h : ∀ c ∈ w, isWs c = true) :
    trimEnd (trimStart (s ++ w)) = trimEnd (trimStart s) := by
  -- trimming the end first, then the start, is the same as the other way round on both sides
  unfold trimStart
  by_cases hs : ∀ c ∈ s, isWs c = true
  · -- everything is white space
    have h1 : (s ++ w).dropWhile isWs = [] := by
      apply dropWhile_eq_nil_of_all
      intro c hc
      simp only [List.mem_append] at hc
      rcases hc with hc | hc
      · exact hs c hc
      · exact h c hc
    have h2 : s.dropWhile isWs = [] := dropWhile_eq_nil_of_all _ _ hs
    rw [h1, h2]
  · -- the first non-white character is in s
    have : (s ++ w).dropWhile isWs = s.dropWhile isWs ++ w := by
      rw [List.dropWhile_append]
      have : (s.dropWhile isWs).isEmpty = false := by
        cases hd : s.dropWhile isWs with
        | nil => exact absurd (all_of_dropWhile_eq_nil _ _ hd) hs
        | cons a t => rfl
      simp [this]
    rw [this]
    exact trimEnd_append_ws _ w h

/-- white space around a header cell does not matter -/
theorem trim_pad (w1 s w2 : Str) (h1 : ∀ c ∈ w1, isWs c = true) (h2 : ∀ c ∈ w2, isWs c = true) :
    trim (w1 ++ s ++ w2) = trim s := by
  unfold trim
  rw [List.append_assoc, trimStart_ws_append w1 _ h1, trimStart_append_ws_comm s w2 h2]

/-- **Header case and padding.**  A header cell may be padded with white space and written in
    any letter case (`lower core = lower name`): it is looked up under the same text. -/
theorem sanitize_case_pad (w1 core w2 name : Str) (h1 : ∀ c ∈ w1, isWs c = true) (h2 : ∀ c ∈ w2, isWs c = true)
    (hcase : lower core = lower name) : sanitize (w1 ++ core ++ w2) = sanitize name := by
  unfold sanitize
  rw [lower_append, lower_append, lower_ws w1 h1, lower_ws w2 h2, hcase, trim_pad _ _ _ h1 h2]

theorem parseTable_header_congr (hdr hdr' : List Str) (rows : List (List Str))
    (h : hdr'.map sanitize = hdr.map sanitize) (start : Nat) :
    parseTable ⟨hdr', rows⟩ start = parseTable ⟨hdr, rows⟩ start := by
  have : mapHeader hdr' = mapHeader hdr := by
    have e : ∀ l : List Str, mapHeader l = (l.map sanitize).map colOfName := by
      intro l; simp [mapHeader, sanitize, List.map_map, Function.comp_def]
    rw [e, e, h]
  unfold parseTable
  simp only [this]


/-! ### the read index is the position in the concatenated input -/

theorem csvTxOfValues_index (get : Col → Option Str) (i : Nat) (c : CsvTx) (h : csvTxOfValues get i = .ok c) :
    c.readIndex = i := by
  unfold csvTxOfValues at h
  split at h
  · cases h
  · simp only [Except.ok.injEq] at h; subst h; rfl

theorem ofCsv_index (c : CsvTx) (t : Tx) (h : Tx.ofCsv c = .ok t) : t.readIndex = c.readIndex := by
  unfold Tx.ofCsv at h
  repeat' split at h
  all_goals (cases h; try rfl)

/-- positions: element `k` carries index `i + k` -/
def IndexedFrom (i : Nat) : List Tx → Prop
  | [] => True
  | t :: ts => t.readIndex = i ∧ IndexedFrom (i + 1) ts

theorem IndexedFrom.append {i : Nat} {a b : List Tx} (ha : IndexedFrom i a) (hb : IndexedFrom (i + a.length) b) :
    IndexedFrom i (a ++ b) := by
  induction a generalizing i with
  | nil => simpa using hb
  | cons t ts ih =>
    refine ⟨ha.1, ih ha.2 ?_⟩
    have : i + 1 + ts.length = i + (t :: ts).length := by simp; omega
    rw [this]; exact hb

theorem readRows_index (cols : List (Option Col)) (rows : List (List Str)) (i : Nat) (cs : List CsvTx)
    (h : readRows cols rows i = .ok cs) (ts : List Tx) (ht : txsOfCsv cs = .ok ts) : IndexedFrom i ts := by
  induction rows generalizing i cs ts with
  | nil =>
    simp [readRows] at h; subst h
    simp [txsOfCsv] at ht; subst ht; trivial
  | cons r rs ih =>
    simp only [readRows] at h
    split at h
    · split at h
      · cases h
      · rename_i c hc
        split at h
        · cases h
        · rename_i cs' hcs
          simp only [Except.ok.injEq] at h; subst h
          simp only [txsOfCsv] at ht
          split at ht
          · cases ht
          · rename_i t htx
            split at ht
            · cases ht
            · rename_i ts' hts
              simp only [Except.ok.injEq] at ht; subst ht
              exact ⟨by rw [ofCsv_index c t htx, csvTxOfValues_index _ _ _ hc], ih _ _ hcs _ hts⟩
    · cases h

theorem readTxs_index (t : Table) (i : Nat) (ts : List Tx) (h : readTxs t i = .ok ts) : IndexedFrom i ts := by
  unfold readTxs parseTable at h
  simp only at h
  split at h
  · cases h
  · rename_i cs hcs
    split at hcs
    · cases hcs
    · exact readRows_index _ _ _ _ hcs _ h

/-- **Global read index.**  Over any number of files, the `k`-th transaction read carries read
    index `start + k`. -/
theorem readFiles_index (files : List Table) (i : Nat) (ts : List Tx) (h : readFiles files i = .ok ts) :
    IndexedFrom i ts := by
  induction files generalizing i ts with
  | nil => simp [readFiles] at h; subst h; trivial
  | cons f fs ih =>
    rw [readFiles_cons] at h
    split at h
    · cases h
    · rename_i txs htx
      split at h
      · cases h
      · rename_i rest hrest
        simp only [Except.ok.injEq] at h; subst h
        exact (readTxs_index f i txs htx).append (ih _ _ hrest)

end Acb.Csv
