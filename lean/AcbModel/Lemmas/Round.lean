/-
  `roundCent` (`Decimal::round_dp_with_strategy(2, MidpointAwayFromZero)`): within half a cent,
  on the cent grid, ties away from zero, odd.
-/
import AcbModel.Basic.Num
namespace Acb

theorem pow10_two : pow10 2 = 100 := by decide +kernel

theorem roundCent_of_nonneg {x : Rat} (h : 0 ≤ x) :
    roundCent x = ((x * 100 + 1/2).floor : Rat) / 100 := by
  simp [roundCent, roundHalfAway, h, pow10_two]

theorem roundCent_of_neg {x : Rat} (h : ¬ 0 ≤ x) :
    roundCent x = -(((-x) * 100 + 1/2).floor : Rat) / 100 := by
  simp [roundCent, roundHalfAway, h, pow10_two]

theorem intCast_succ (n : Int) : ((n + 1 : Int) : Rat) = (n : Rat) + 1 := by simp [Rat.intCast_add]

theorem roundCent_zero : roundCent 0 = 0 := by decide +kernel

/-- rounding is odd: `-$` followed by the rounded absolute value is the rounded value -/
theorem roundCent_neg (x : Rat) : roundCent (-x) = - roundCent x := by
  by_cases h0 : x = 0
  · subst h0; simp [roundCent_zero]
  · by_cases h : 0 ≤ x
    · have hn : ¬ 0 ≤ -x := by grind
      rw [roundCent_of_neg hn, roundCent_of_nonneg h]
      have : - -x = x := by grind
      rw [this]; grind
    · have hn : 0 ≤ -x := by grind
      rw [roundCent_of_nonneg hn, roundCent_of_neg h]
      grind

theorem roundCent_close (x : Rat) : rabs (roundCent x - x) ≤ 1 / 200 := by
  by_cases h : 0 ≤ x
  · rw [roundCent_of_nonneg h]
    have h1 := Rat.floor_le (x * 100 + 1/2)
    have h2 := Rat.lt_floor_add_one (x * 100 + 1/2)
    rw [intCast_succ] at h2
    unfold rabs; split <;> grind
  · rw [roundCent_of_neg h]
    have h1 := Rat.floor_le ((-x) * 100 + 1/2)
    have h2 := Rat.lt_floor_add_one ((-x) * 100 + 1/2)
    rw [intCast_succ] at h2
    unfold rabs; split <;> grind

theorem roundCent_grid (x : Rat) : ∃ n : Int, roundCent x * 100 = (n : Rat) := by
  by_cases h : 0 ≤ x
  · exact ⟨(x * 100 + 1/2).floor, by rw [roundCent_of_nonneg h]; grind⟩
  · refine ⟨-((-x) * 100 + 1/2).floor, ?_⟩
    rw [roundCent_of_neg h, Rat.intCast_neg]; grind

/-- a value exactly half-way between two cents goes to the cent farther from zero -/
theorem roundCent_tie_pos (k : Int) (hk : 0 ≤ k) : roundCent (((k : Rat) + 1/2) / 100) = ((k : Rat) + 1) / 100 := by
  have hk' : (0 : Rat) ≤ (k : Rat) := by exact_mod_cast hk
  have h : (0 : Rat) ≤ ((k : Rat) + 1/2) / 100 := by grind
  rw [roundCent_of_nonneg h]
  have e : ((k : Rat) + 1/2) / 100 * 100 + 1/2 = ((k + 1 : Int) : Rat) := by rw [intCast_succ]; grind
  rw [e, Rat.floor_intCast, intCast_succ]

theorem roundCent_tie_neg (k : Int) (hk : 0 ≤ k) : roundCent (-(((k : Rat) + 1/2) / 100)) = -(((k : Rat) + 1) / 100) := by
  rw [roundCent_neg, roundCent_tie_pos k hk]

end Acb
